/-
  Engine `matcher` (C16): replays the harness trace on `AM.Mt` and evaluates the
  C16 spec predicates on the implementation's own outputs.

  Tokens: string = hex of the raw bytes ('-' empty); matcher M = op,nameHex,valueHex
  (op ∈ eq ne re nre); list ML = M;M;… ('-' empty); label set LS = nHex=vHex,… ('-');
  result RES = K<M|ML> | E (error) | R (regexp compile error) | P (panic) | T (timeout).
  Lines:
    case <id> kind=<rt|adv|match>
    rt <M>            -> <printedHex> <C1> <U1> <F1>          real Matcher.String, parsed back by
                                                               labels.ParseMatcher / parse.Matcher / compat.Matcher (fallback)
    rtl <ML>          -> <printedHex> <CL> <UL> <FL>          Matchers.String / ParseMatchers / parse.Matchers / compat.Matchers
    parse <inputHex>  -> <C1> <U1> <F1> <CL> <UL> <FL>
    match <ML> <LS>   -> <overall> <bits> <anch> <search>     Matchers.Matches, Matcher.Matches per matcher, regexp oracle
    mset <ML|ML…> <LS> -> <0|1> <anch|anch…>                  MatcherSet.Matches, regexp oracle per list

  Oracles (documented in lib/props/C16.py):
  * `strconv.IsPrint`: the table `isPrintTab` below for the harness' rune pool
    (asserted against the real `strconv.IsPrint` by the harness); the printer is
    compared only for strings inside the pool.
  * `regexp.Compile`: not modelled; the model runs with `compiles = true` and an
    implementation answer `R` is accepted where the model reaches `NewMatcher`.
  * `regexp` matching — the model's parameter `fm pattern value` = "the pattern
    matches the WHOLE value".  The spec side is Go's regexp package asked about
    the explicitly anchored expression `^(?:pattern)$` (the harness computes it
    from the matcher's Value, independently of `labels.NewMatcher`: token
    `anch`), and, for the fragment below (literals, `.`, groups, alternation,
    `* + ?`, the anchors `^` `$` anywhere), also a derivative matcher which must
    agree with that oracle (→ DIFF regex-oracle).  Whatever expression the
    matcher under test compiled for itself, its verdict must be the oracle's:
    any other effective expression (not anchored, anchored at one end only,
    wrapped conditionally, extra flags …) → PROPFAIL matches_spec, class
    `anchoring` when the verdict equals an unanchored search (token `search`),
    else `regex-semantics`.
-/
import Driver.Util
import AM.Model.MatcherCompat
import AM.Model.MatcherRegex

namespace Driver.Matcher
open Driver AM AM.Mt

/-! ### codecs -/

def unhexS (s : String) : Str := if s = "-" then [] else decodeRunes (unhexBytes s)
def hexS (s : Str) : String := if s.isEmpty then "-" else hexBytes (encodeRunes s)

def opOfString : String → Option Op
  | "eq" => some .eq | "ne" => some .ne | "re" => some .re | "nre" => some .nre | _ => none
def opToString : Op → String
  | .eq => "eq" | .ne => "ne" | .re => "re" | .nre => "nre"

def parseM (s : String) : Option Matcher :=
  match s.splitOn "," with
  | [o, n, v] => (opOfString o).map fun op => ⟨op, unhexS n, unhexS v⟩
  | _ => none
def showM (m : Matcher) : String := s!"{opToString m.op},{hexS m.name},{hexS m.value}"

def parseML (s : String) : Option (List Matcher) :=
  (splitList ";" s).foldr (fun t acc => match parseM t, acc with
    | some m, some l => some (m :: l) | _, _ => none) (some [])
def showML (l : List Matcher) : String := joinList ";" (l.map showM)

def parseLS (s : String) : LabelSet :=
  (splitList "," s).filterMap fun t => match t.splitOn "=" with
    | [n, v] => some (unhexS n, unhexS v) | _ => none

def showRes1 : Outcome Matcher → String
  | .ok m => "K" ++ showM m | .err .regex => "R" | .err _ => "E" | .panic => "P" | .fuel => "F"
def showResL : Outcome (List Matcher) → String
  | .ok l => "K" ++ showML l | .err .regex => "R" | .err _ => "E" | .panic => "P" | .fuel => "F"

def isErrTok (s : String) : Bool := s = "E" ∨ s = "R"
def isOkTok (s : String) : Bool := s.startsWith "K"

/-! ### oracles -/

def isPrintTab (n : Nat) : Bool :=
  (32 ≤ n && n < 127) || [0xE9, 0xDF, 0xFC, 0x3A9, 0x20AC, 0x4E16, 0x754C, 0x1F642, 0xFFFD, 0x301].contains n

def poolNonPrint : List Nat :=
  [0x80, 0x85, 0xA0, 0xAD, 0x1680, 0x2003, 0x2028, 0x2029, 0x202F, 0x205F, 0x3000, 0x200B, 0xFEFF, 0xE000, 0x10FFFF]

def inPool (s : Str) : Bool :=
  s.all fun r => r.isValid && (r.cp < 128 || isPrintTab r.cp || poolNonPrint.contains r.cp)

def compilesT (_ : Str) : Bool := true

/-! ### regular expressions of the generated fragment -/

/- `Re`, `nullable`, `deriv`, `matchRe`: AM.Model.MatcherRegex (the definitions `matchRe_iff` is about). -/

def isMeta (n : Nat) : Bool := [92, 46, 43, 42, 63, 40, 41, 124, 91, 93, 123, 125, 94, 36].contains n

mutual
partial def pAlt (s : Str) : Option (Re × Str) := do
  let (a, s1) ← pSeq s
  match s1 with
  | r :: rest =>
    if r.cp = 124 then do
      let (b, s2) ← pAlt rest
      pure (Re.alt a b, s2)
    else pure (a, s1)
  | [] => pure (a, [])
partial def pSeq (s : Str) : Option (Re × Str) :=
  match s with
  | [] => some (.eps, [])
  | r :: _ =>
    if r.cp = 124 ∨ r.cp = 41 then some (.eps, s) else do
      let (a, s1) ← pPost s
      let (b, s2) ← pSeq s1
      pure (mkSeq a b, s2)
partial def pPost (s : Str) : Option (Re × Str) := do
  let (a, s1) ← pAtom s
  let noMore (x : Re × Str) : Option (Re × Str) :=
    match x.2 with
    | q :: _ => if q.cp = 42 ∨ q.cp = 43 ∨ q.cp = 63 then none else some x
    | [] => some x
  match s1 with
  | r :: rest =>
    if r.cp = 42 then noMore (.star a, rest)
    else if r.cp = 43 then noMore (mkSeq a (.star a), rest)
    else if r.cp = 63 then noMore (Re.alt a .eps, rest)
    else pure (a, s1)
  | [] => pure (a, [])
partial def pAtom (s : Str) : Option (Re × Str) :=
  match s with
  | [] => none
  | r :: rest =>
    if r.cp = 40 then
      let inner := match rest with
        | a :: b :: rest' => if a.cp = 63 ∧ b.cp = 58 then rest' else rest
        | _ => rest
      match pAlt inner with
      | some (re, c :: rest') => if c.cp = 41 then some (re, rest') else none
      | _ => none
    else if r.cp = 46 then some (.any, rest)
    else if r.cp = 94 then some (.bol, rest)
    else if r.cp = 36 then some (.eol, rest)
    else if r.cp = 92 then
      match rest with
      | c :: rest' => if isMeta c.cp then some (.chr c.cp, rest') else none
      | [] => none
    else if isMeta r.cp then none
    else if !r.isValid then none
    else some (.chr r.cp, rest)
end

def parseRe (v : Str) : Option Re :=
  match pAlt v with
  | some (re, []) => some re
  | _ => none

/-! ### spec predicates on implementation outputs -/

def classOfRoundTrip (m : Matcher) (res : String) : String :=
  if m.name.isEmpty then "empty-name"
  else if res = "E" ∨ res = "R" then "rejected"
  else if res = "P" then "panic" else if res = "T" then "timeout" else "changed"

def totality (what : String) (results : List String) : List Msg :=
  results.filterMap fun r =>
    if r = "P" then some (.propfail "parsers_total" "panic" s!"{what}: a parser panicked")
    else if r = "T" then some (.propfail "parsers_total" "timeout" s!"{what}: a parser did not return in time")
    else none

/-- what the fallback parser must answer, from the two parsers' own answers -/
def fallbackExpected (guard : Bool) (u c : String) : String :=
  if guard then "E"
  else if isErrTok u then c            -- both fail → classic error; classic only → classic result
  else if isOkTok u ∧ isOkTok c then c -- equal or not, the classic result (identical when they agree)
  else u

def checkFallback (what : String) (guard : Bool) (u c f : String) : List Msg :=
  if u = "P" ∨ u = "T" ∨ c = "P" ∨ c = "T" ∨ f = "P" ∨ f = "T" then [] else
  let want := fallbackExpected guard u c
  let same := if isErrTok want then isErrTok f else f = want
  if same then [] else
  if guard then [.propfail "fallback_spec" "brace-guard" s!"{what} u={u} c={c} fallback={f}"]
  else if isOkTok u ∧ isOkTok c then [.propfail "fallback_prefers_classic" "classic-not-preferred" s!"{what} u={u} c={c} fallback={f}"]
  else if isErrTok u ∧ isOkTok c then [.propfail "classic_only_still_accepted" "classic-only-rejected" s!"{what} c={c} fallback={f}"]
  else [.propfail "fallback_spec" "fallback-other" s!"{what} u={u} c={c} fallback={f}"]

/-- model vs implementation for one parser result, with the `R` oracle rule -/
def cmpRes (what : String) (trueSingle : Bool) (model impl : String) : List Msg :=
  if impl = "R" then
    if trueSingle then (if isOkTok model then [.tag "oracle:regex-compile"] else [.diff what model impl])
    else [.tag "oracle:regex-compile"]
  else if impl = "P" ∨ impl = "T" then [.diff what model impl]
  else expectEq what model impl

def braceGuard (s : Str) : Bool := hasBracePrefix s || hasBraceSuffix s

def allNamesClassic (ms : List Matcher) : Bool := ms.all fun m => classicName m.name
def allValid (ms : List Matcher) : Bool := ms.all fun m => validB m.name && validB m.value

def stepRt (mTok : String) (obs : List String) : List Msg :=
  match parseM mTok, obs with
  | some m, [printed, c1, u1, f1] =>
    let p := unhexS printed
    let want := "K" ++ showM m
    let pool := inPool m.name && inPool m.value
    let dPrint := if pool then expectEq "rt.print" (hexS (print isPrintTab m)) printed else [.tag "rt:out-of-pool"]
    let dParse :=
      cmpRes "rt.classic" true (showRes1 (ofExcept (classicMatcher compilesT p))) c1 ++
      cmpRes "rt.utf8" false (showRes1 (utf8Matcher compilesT p)) u1 ++
      (if c1 = "R" ∨ u1 = "R" then [] else cmpRes "rt.fallback" false (showRes1 (fallbackMatcher compilesT p)) f1)
    let valid := validB m.name && validB m.value
    let pf :=
      (if valid ∧ u1 ≠ want then [Msg.propfail "utf8_roundtrip" (classOfRoundTrip m u1) s!"matcher={mTok} printed={printed} parsed={u1}"] else []) ++
      (if valid ∧ f1 ≠ want then [Msg.propfail "fallback_roundtrip" (classOfRoundTrip m f1) s!"matcher={mTok} printed={printed} parsed={f1}"] else []) ++
      (if valid ∧ classicName m.name ∧ c1 ≠ want then [Msg.propfail "classic_roundtrip" (classOfRoundTrip m c1) s!"matcher={mTok} printed={printed} parsed={c1}"] else []) ++
      totality "rt" [c1, u1, f1] ++ checkFallback "rt" (braceGuard p) u1 c1 f1
    let tags : List Msg :=
      [if m.name.isEmpty then .tag "rt:empty-name" else if hasReserved m.name then .tag "rt:quote-branch" else .tag "rt:openmetrics-branch"] ++
      (if classicName m.name then [.tag "rt:classic-name"] else []) ++
      (if m.op.isRegex then [.tag "rt:regex"] else []) ++
      (if m.value.any (fun r => r.cp = 92 ∨ r.cp = 34 ∨ r.cp = 10) then [.tag "rt:value-needs-escape"] else [])
    dPrint ++ dParse ++ pf ++ tags
  | _, ["badmatcher"] => [.tag "rt:badmatcher"]
  | _, _ => [.diff "parse" "?" mTok]

def stepRtl (mlTok : String) (obs : List String) : List Msg :=
  match parseML mlTok, obs with
  | some ms, [printed, cl, ul, fl] =>
    let p := unhexS printed
    let want := "K" ++ showML ms
    let pool := ms.all fun m => inPool m.name && inPool m.value
    let dPrint := if pool then expectEq "rtl.print" (hexS (printList isPrintTab ms)) printed else [.tag "rtl:out-of-pool"]
    let dParse :=
      cmpRes "rtl.classic" false (showResL (ofExcept (classicMatchers compilesT p))) cl ++
      cmpRes "rtl.utf8" false (showResL (utf8Matchers compilesT p)) ul ++
      (if cl = "R" ∨ ul = "R" then [] else cmpRes "rtl.fallback" false (showResL (fallbackMatchers compilesT p)) fl)
    let valid := allValid ms
    let cls (res : String) : String :=
      match ms.find? (fun m => m.name.isEmpty) with
      | some m => classOfRoundTrip m res
      | none => classOfRoundTrip ⟨.eq, [.ch 'x'], []⟩ res
    let pf :=
      (if valid ∧ ul ≠ want then [Msg.propfail "utf8_roundtrip_list" (cls ul) s!"list={mlTok} printed={printed} parsed={ul}"] else []) ++
      (if valid ∧ fl ≠ want then [Msg.propfail "fallback_roundtrip_list" (cls fl) s!"list={mlTok} printed={printed} parsed={fl}"] else []) ++
      (if valid ∧ allNamesClassic ms ∧ cl ≠ want then [Msg.propfail "classic_roundtrip_list" (cls cl) s!"list={mlTok} printed={printed} parsed={cl}"] else []) ++
      totality "rtl" [cl, ul, fl] ++ checkFallback "rtl" false ul cl fl
    let tags : List Msg :=
      [.tag s!"rtl:len{min ms.length 3}"] ++ (if allNamesClassic ms ∧ !ms.isEmpty then [.tag "rtl:all-classic"] else [])
    dPrint ++ dParse ++ pf ++ tags
  | _, ["badmatcher"] => [.tag "rtl:badmatcher"]
  | _, _ => [.diff "parse" "?" mlTok]

def stepParse (inp : String) (obs : List String) : List Msg :=
  match obs with
  | [c1, u1, f1, cl, ul, fl] =>
    let s := unhexS inp
    let d :=
      cmpRes "parse.classic" true (showRes1 (ofExcept (classicMatcher compilesT s))) c1 ++
      cmpRes "parse.utf8" false (showRes1 (utf8Matcher compilesT s)) u1 ++
      (if c1 = "R" ∨ u1 = "R" then [] else cmpRes "parse.fallback" false (showRes1 (fallbackMatcher compilesT s)) f1) ++
      cmpRes "parse.classicList" false (showResL (ofExcept (classicMatchers compilesT s))) cl ++
      cmpRes "parse.utf8List" false (showResL (utf8Matchers compilesT s)) ul ++
      (if cl = "R" ∨ ul = "R" then [] else cmpRes "parse.fallbackList" false (showResL (fallbackMatchers compilesT s)) fl)
    let pf := totality "parse" obs ++ checkFallback "single" (braceGuard s) u1 c1 f1 ++ checkFallback "list" false ul cl fl
    let cat (pre u c : String) : Msg :=
      if isOkTok u ∧ isOkTok c then (if u = c then .tag s!"{pre}:both-agree" else .tag s!"{pre}:both-differ")
      else if isOkTok c then .tag s!"{pre}:classic-only"
      else if isOkTok u then .tag s!"{pre}:utf8-only"
      else .tag s!"{pre}:both-reject"
    let tags : List Msg :=
      [cat "adv1" u1 c1, cat "advL" ul cl] ++
      (if !validB s then [.tag "adv:invalid-utf8"] else []) ++
      (if braceGuard s ∧ (isOkTok u1 ∨ isOkTok c1) then [.tag "adv:brace-guard-rejects-accepted"] else [])
    d ++ pf ++ tags
  | _ => [.diff "parse" "?" inp]

def bitStr (l : List Bool) : String :=
  if l.isEmpty then "-" else String.ofList (l.map fun b => if b then '1' else '0')

/-! ### the regexp oracle -/

/-- ((pattern, value), "the anchored pattern matches the value") as reported on the line -/
abbrev Orc := List ((Str × Str) × Bool)

def fmOf (t : Orc) : Str → Str → Bool := fun p v =>
  match t.find? (fun e => decide (e.1 = (p, v))) with
  | some e => e.2
  | none => false

def orcChars (tok : String) : List Char := if tok = "-" then [] else tok.toList

def orcTable (ms : List Matcher) (ls : LabelSet) (anch : List Char) : Orc :=
  (ms.zip anch).filterMap fun (m, c) =>
    if m.op.isRegex ∧ (c = '1' ∨ c = '0') then some ((m.value, ls.get m.name), decide (c = '1')) else none

/-- oracle characters well-formed for the list: 'x' exactly on = / != -/
def orcShapeOK (ms : List Matcher) (cs : List Char) : Bool :=
  cs.length = ms.length && (ms.zip cs).all fun (m, c) =>
    if m.op.isRegex then c = '1' ∨ c = '0' ∨ c = 'E' else c = 'x'

/-- the derivative matcher, where the pattern is inside its fragment, agrees with the oracle -/
def crossCheck (ms : List Matcher) (ls : LabelSet) (anch : List Char) : List Msg :=
  (ms.zip anch).filterMap fun (m, c) =>
    if m.op.isRegex ∧ (c = '1' ∨ c = '0') then
      match parseRe m.value with
      | some re =>
        let d := matchRe re (ls.get m.name)
        if d = decide (c = '1') then none
        else some (Msg.diff "regex-oracle" s!"{d}" s!"{c} pattern={hexS m.value} value={hexS (ls.get m.name)}")
      | none => none
    else none

/-- `NewMatcher` accepted a pattern whose anchored form does not even compile -/
def uncompilable (ms : List Matcher) (anch : List Char) : List Msg :=
  (ms.zip anch).filterMap fun (m, c) =>
    if m.op.isRegex ∧ c = 'E' then
      some (Msg.propfail "matches_spec" "anchoring" s!"matcher={showM m}: accepted although ^(?:pattern)$ does not compile")
    else none

def hasCp (s : Str) (n : Nat) : Bool := s.any fun r => r.cp = n

def startsWithCps (s : Str) (p : List Nat) : Bool := (s.take p.length).map (·.cp) = p ∧ s.length ≥ p.length

def patternTags (ms : List Matcher) : List Msg :=
  let rs := ms.filter (·.op.isRegex)
  (if rs.any (fun m => hasCp m.value 94 ∨ hasCp m.value 36) then [.tag "match:pattern-anchors"] else []) ++
  (if rs.any (fun m => startsWithCps m.value [94, 40, 63, 58] ∧ startsWithCps m.value.reverse [36, 41]) then [.tag "match:pattern-wrap-lookalike"] else []) ++
  (if rs.any (fun m => startsWithCps m.value [94, 40, 63, 58] ∨ startsWithCps m.value.reverse [36, 41]) then [.tag "match:pattern-half-wrap"] else []) ++
  (if rs.any (fun m => hasCp m.value 124) then [.tag "match:pattern-alternation"] else []) ++
  (if rs.any (fun m => (parseRe m.value).isNone) then [.tag "match:regex-oracle-only"] else []) ++
  (if rs.any (fun m => (parseRe m.value).isSome) then [.tag "match:regex-in-fragment"] else [])

def stepMatch (mlTok lsTok : String) (obs : List String) : List Msg :=
  match parseML mlTok, obs with
  | some ms, [overall, bits, anch, search] =>
    let ls := parseLS lsTok
    let ac := orcChars anch
    let sc := orcChars search
    if !(orcShapeOK ms ac) ∨ sc.length ≠ ms.length then [.diff "protocol" "oracle-shape" s!"{anch} {search}"] else
    if ac.any (· = 'E') then uncompilable ms ac else
    let fm := fmOf (orcTable ms ls ac)
    let specBits := ms.map fun m => m.matchesValue fm (ls.get m.name)
    let model := matchesAll fm ms ls
    let implBits : List Bool := if bits = "-" then [] else bits.toList.map (fun c => decide (c = '1'))
    let missing (m : Matcher) : Bool := !(ls.any fun kv => kv.1 = m.name)
    let perM := (ms.zip (specBits.zip (implBits.zip sc))).filterMap fun (m, sb, ib, sch) =>
      if sb = ib then none else
        let cls :=
          if m.op.isRegex then
            let implMatch := if m.op = .nre then !ib else ib      -- what the matcher's own regexp answered
            if (sch = '1' ∨ sch = '0') ∧ implMatch = decide (sch = '1') then "anchoring" else "regex-semantics"
          else opToString m.op ++ (if missing m then "-missing-label" else "")
        some (Msg.propfail "matches_spec" cls s!"matcher={showM m} labels={lsTok} impl={ib} spec={sb} unanchored-search={sch}")
    let conj := if implBits.length = ms.length ∧ decide (overall = "1") ≠ implBits.all id then
        [Msg.propfail "matches_spec" "conjunction" s!"list={mlTok} labels={lsTok} overall={overall} bits={bits}"] else []
    let sensitive := (ms.zip (ac.zip sc)).any fun (m, a, c) => m.op.isRegex ∧ a = '0' ∧ c = '1'
    let tags : List Msg :=
      [if model then .tag "match:true" else .tag "match:false"] ++
      (if ms.any missing then [.tag "match:missing-label"] else []) ++
      (if ms.any (·.op.isRegex) then [.tag "match:regex"] else []) ++
      (if sensitive then [.tag "match:value-contains-match-only"] else []) ++
      (if (ms.zip ac).any (fun (m, a) => m.op.isRegex ∧ a = '1') then [.tag "match:regex-full-match"] else []) ++
      (if ms.any (fun m => m.op.isRegex ∧ hasCp (ls.get m.name) 10) then [.tag "match:value-newline"] else []) ++
      patternTags ms
    crossCheck ms ls ac ++
    expectEq "match.overall" (if model then "1" else "0") overall ++ expectEq "match.bits" (bitStr specBits) bits ++ perM ++ conj ++ tags
  | _, _ => [.diff "parse" "?" mlTok]

/-- the API's alert filter must mean what `Matchers.Matches` means (C16: "routes, silences, inhibition rules and
    API filters all use this same meaning") -/
def stepApiMatch (mlTok lsTok : String) (obs : List String) (sil : Bool := false) : List Msg :=
  match parseML mlTok, obs with
  | some ms, [api, anch] =>
    let ls := parseLS lsTok
    let ac := orcChars anch
    if !(orcShapeOK ms ac) then [.diff "protocol" "oracle-shape" anch] else
    if ac.any (· = 'E') ∨ api = "S" then [.tag "apimatch:skipped"] else
    let fm := fmOf (orcTable ms ls ac)
    let model := matchesAll fm ms ls
    if api = "E" then [.tag "apimatch:filter-refused"] else
    (if decide (api = "1") = model then [] else
      [Msg.propfail "matches_spec" (if sil then "api-silence" else "api-filter")
        (if sil then s!"POST /api/v2/silences with matchers {mlTok} (isEqual left out where it is the default): the stored silence {if api = "1" then "mutes" else "does not mute"} labels {lsTok}, Matchers.Matches (spec) says {model}"
         else s!"GET /api/v2/alerts?filter={mlTok} on an alert with labels {lsTok}: the API {if api = "1" then "lists" else "hides"} it, Matchers.Matches (spec) says {model}")])
    ++ [.tag (if model then "apimatch:true" else "apimatch:false")]
    ++ (if ms.any (fun m => m.op.isRegex ∧ hasCp (ls.get m.name) 10) then [.tag "apimatch:value-newline"] else [])
  | _, _ => [.diff "parse" "?" mlTok]

def stepMset (setTok lsTok : String) (obs : List String) : List Msg :=
  match obs with
  | [res, orcs] =>
    match (setTok.splitOn "|").foldr (fun t acc => match parseML t, acc with
        | some l, some ls => some (l :: ls) | _, _ => none) (some []) with
    | none => [.diff "parse" "?" setTok]
    | some sets =>
      let ls := parseLS lsTok
      let ocs := (orcs.splitOn "|").map orcChars
      if ocs.length ≠ sets.length ∨ !((sets.zip ocs).all fun (ms, cs) => orcShapeOK ms cs) then [.diff "protocol" "oracle-shape" orcs] else
      if ocs.any (·.any (· = 'E')) then (sets.zip ocs).flatMap fun (ms, cs) => uncompilable ms cs else
      let fm := fmOf ((sets.zip ocs).flatMap fun (ms, cs) => orcTable ms ls cs)
      let model := matchesAny fm sets ls
      let spec := sets.any fun ms => ms.all fun m => m.matchesValue fm (ls.get m.name)
      let anchorSensitive := sets.any fun ms => ms.any fun m => m.op.isRegex
      ((sets.zip ocs).flatMap fun (ms, cs) => crossCheck ms ls cs) ++
      (if decide (res = "1") ≠ spec then [Msg.propfail "matcherset_spec" (if anchorSensitive then "set-disjunction-or-anchoring" else "set-disjunction") s!"set={setTok} labels={lsTok} impl={res} spec={spec}"] else []) ++
      expectEq "mset" (if model then "1" else "0") res ++ [.tag "mset:checked"] ++
      (if anchorSensitive then [.tag "mset:regex"] else [])
  | _ => [.diff "parse" "?" setTok]

def step (_ : Unit) (op obs : List String) : Unit × List Msg :=
  ((), match op with
  | ["rt", m] => stepRt m obs
  | ["rtl", ml] => stepRtl ml obs
  | ["parse", inp] => stepParse inp obs
  | ["match", ml, ls] => stepMatch ml ls obs
  | ["mset", set, ls] => stepMset set ls obs
  | ["apimatch", ml, ls] => stepApiMatch ml ls obs
  | ["apisil", ml, ls] => stepApiMatch ml ls obs true
  | _ => [.diff "parse" "?" (" ".intercalate op)])

def engine : Engine Unit where
  init _ := ()
  step := step

end Driver.Matcher
