/-
  Engine `inhibit` (C03): replays the harness trace on `AM.Inhibit` (provider
  `Put`/GC from `AM.Alert`, inhibitor caches + index) and evaluates the
  documented existential rule on the provider's own dump.

  Lines (see harness/inhibit/engine_test.go):
    case <id> pgc=<ns> igc=<ns> rules=<R;R;…>
    rematch <hexpat> <hexval>                    -> 0|1
    put <now> <labels> <start> <end> <timeout>   -> <dump>
    wait <now>                                   -> <dump>
    mutes <now> <labels>                         -> <0|1> <by|->
    fresh <now> <labels>                         -> <0|1 fresh> <0|1 live>
-/
import Driver.AlertsUtil
import AM.Model.Inhibit

namespace Driver.Inhibit
open Driver Driver.Alerts AM AM.AList AM.Inhibit

def parseOp : String → MatchOp
  | "eq" => .eq | "ne" => .ne | "re" => .re | _ => .nre

def parseMatchers (s : String) : List Matcher :=
  (splitList "," s).filterMap fun p =>
    match p.splitOn ":" with
    | [n, o, v] => some { name := n, op := parseOp o, value := unhexStr v }
    | _ => none

def parseRules (s : String) : List Rule :=
  (splitList ";" s).filterMap fun p =>
    match p.splitOn "/" with
    | [a, b, e] => some (Rule.ofMatchers reMatch (parseMatchers a) (parseMatchers b) (splitList "." e))
    | _ => none

structure St where
  rules : List Rule := []
  pgc : Int := 0
  igc : Int := 0
  pNext : Int := 0            -- next provider GC tick
  iNext : Int := 0            -- next source-cache GC tick (all rules tick together)
  store : Store := []
  st : State := []            -- repaired model
  leg : State := []           -- pinned-tree model, for classification only
  implDump : List Alert := [] -- the provider's last dump

def gcAll (now : Int) (st : State) : State := st.map (gcRule now)
def gcAllLegacy (now : Int) (st : State) : State := st.map (Legacy.gcRule now)

/-- apply every GC tick that fired up to `now` (ticks are handled before the
    operation at the same instant: the harness lets goroutines settle first). -/
partial def advance (σ : St) (now : Int) (tags : List Msg) : St × List Msg :=
  if σ.pgc > 0 ∧ σ.pNext ≤ now ∧ (σ.igc ≤ 0 ∨ σ.pNext ≤ σ.iNext) then
    advance { σ with store := σ.store.gc σ.pNext, pNext := σ.pNext + σ.pgc } now tags
  else if σ.igc > 0 ∧ σ.iNext ≤ now then
    let dead := σ.st.any fun rs => !(collected σ.iNext rs.scache).isEmpty
    let surv := σ.st.any fun rs => !(collected σ.iNext rs.scache).isEmpty && !(survivors σ.iNext rs.scache).isEmpty
    let t := (if dead then [Msg.tag "gc:cache-collected"] else []) ++ (if surv then [Msg.tag "gc:reindexed-survivors"] else [])
    advance { σ with st := gcAll σ.iNext σ.st, leg := gcAllLegacy σ.iNext σ.leg, iNext := σ.iNext + σ.igc } now (t ++ tags)
  else (σ, tags)

/-- why does the pinned single-slot lookup miss source `a` for `ls` under rule state `rs`? -/
def slotReason (rs : RS) (now : Int) (ls : Labels) : String :=
  match lookup rs.sindex (rs.rule.eqKey ls) with
  | none => "slot-gc-dropped"
  | some ix =>
    match lookup rs.scache ix with
    | none => "slot-gone"
    | some a =>
      if a.resolvedAt now then "slot-resolved"
      else if rs.rule.src ls && rs.rule.tgt a.labels then "slot-two-sided"
      else "slot-other"

def classify (σ : St) (now : Int) (fir : List Alert) (ls : Labels) : String :=
  match σ.leg.find? (fun rs => fir.any fun a => inhibitsB rs.rule a ls) with
  | some rs => slotReason rs now ls
  | none => "unclassified"

def step (σ : St) (op obs : List String) : St × List Msg :=
  match op, obs with
  | ["rematch", p, v], [r] =>
    (σ, expectEq "rematch" (if reMatch (unhexStr p) (unhexStr v) then "1" else "0") r)
  | ["put", now, ls, st, en, to], [dmp] =>
    let now := toInt! now
    let (σ, tags) := advance σ now []
    let a : Alert := { labels := parseLabels ls, startsAt := toInt! st, endsAt := toInt! en, updatedAt := now, timeout := to = "1" }
    let v := putValue now σ.store a
    let merged := match lookup σ.store a.labels with
      | some old => overlaps old a
      | none => false
    let store' := σ.store.putAlert now a
    let t : List Msg := [if merged then .tag "put:merge" else if (lookup σ.store a.labels).isSome then .tag "put:replace" else .tag "put:new"]
      ++ (if v.resolvedAt now then [.tag "put:resolved"] else [])
    let σ' := { σ with store := store', st := process σ.st v, leg := process σ.leg v, implDump := parseAlerts dmp }
    -- several firing sources sharing one equal-key under some rule
    let share := σ'.st.any fun rs =>
      let fs := (rs.scache.map Prod.snd).filter fun x => !x.resolvedAt now
      fs.any fun x => fs.any fun y => x.labels != y.labels && rs.rule.eqKey x.labels == rs.rule.eqKey y.labels
    (σ', expectEq "put.dump" (dumpStore store') dmp ++ t ++ tags ++ (if share then [.tag "share-eq"] else []))
  | ["burst", now, n, ls, st, en, to], [dmp] =>
    -- one Put call: n new filler alerts, then an update of a known alert; the provider → inhibitor path is lossless,
    -- so the model processes every one of them in order (the following `mutes` lines carry the verdicts)
    let nowS := now
    let now := toInt! now
    let (σ, tags) := advance σ now []
    let fillers : List Alert := (List.range (toNat! n)).map fun i =>
      { labels := [("alertname", "F"), ("n", s!"{nowS}x{i}")], startsAt := now, endsAt := now + 600000000000, updatedAt := now, timeout := false }
    let a : Alert := { labels := parseLabels ls, startsAt := toInt! st, endsAt := toInt! en, updatedAt := now, timeout := to = "1" }
    let known := (lookup σ.store a.labels).isSome
    let (store', st', leg') := (fillers ++ [a]).foldl (fun (acc : Store × State × State) x =>
      let v := putValue now acc.1 x
      (acc.1.putAlert now x, process acc.2.1 v, process acc.2.2 v)) (σ.store, σ.st, σ.leg)
    ({ σ with store := store', st := st', leg := leg', implDump := parseAlerts dmp },
      expectEq "burst.dump" (dumpStore store') dmp ++ tags ++ [.tag (if known then "burst:update-of-known" else "burst:new")])
  | ["wait", now], [dmp] =>
    let now := toInt! now
    let (σ, tags) := advance σ now []
    ({ σ with implDump := parseAlerts dmp }, expectEq "wait.dump" (dumpStore σ.store) dmp ++ tags)
  | ["mutes", now, ls], [v, by_] =>
    let now := toInt! now
    let (σ, tags) := advance σ now []
    let ls := parseLabels ls
    let fir := σ.implDump.filter fun a => !a.resolvedAt now
    let m := mutes σ.st now ls
    let impl := v = "1"
    let spec := inhibitedB σ.rules fir ls
    let legacy := Legacy.mutes σ.leg now ls
    let pf : List Msg :=
      (if impl = spec then []
       else if spec then [.propfail "mutes_iff_spec" (classify σ now fir ls) s!"target={showLabels ls} now={now}: a firing source satisfies a rule but Mutes=false"]
       else [.propfail "mutes_iff_spec" "spurious" s!"target={showLabels ls} now={now}: Mutes=true but no firing source satisfies any rule"])
      ++ (if impl then
            (if by_ = "-" then [.propfail "status_reports_a_real_inhibitor" "no-inhibitor-reported" s!"target={showLabels ls}"]
             else
               let bys := (by_.splitOn "|").map parseLabels
               if bys.all fun b => fir.any fun a => a.labels == b && σ.rules.any fun r => inhibitsB r a ls then []
               else [.propfail "status_reports_a_real_inhibitor" "bogus-inhibitor" s!"target={showLabels ls} by={by_}"])
          else if by_ ≠ "-" then [.propfail "status_reports_a_real_inhibitor" "inhibitor-without-mute" s!"target={showLabels ls} by={by_}"] else [])
    let t : List Msg := [if m then .tag "mutes:true" else .tag "mutes:false"]
      ++ (if m && !legacy then [.tag "mutes:sibling-found-by-scan"] else [])
      ++ (if σ.st.any (fun rs => rs.rule.tgt ls && rs.rule.src ls) then [.tag "mutes:two-sided-target"] else [])
    (σ, expectEq "mutes" (if m then "1" else "0") v ++ pf ++ t ++ tags)
  | ["reload", now], [dmp] =>
    -- a configuration reload: a new inhibitor loads what the provider holds (its cache GC ticker restarts); by
    -- verdict_order_independent the order in which it sees the alerts does not matter
    let now := toInt! now
    let (σ, tags) := advance σ now []
    let cur := σ.store.map Prod.snd
    ({ σ with st := cur.foldl process (init σ.rules), leg := cur.foldl process (init σ.rules),
              iNext := now + σ.igc, implDump := parseAlerts dmp },
      expectEq "reload.dump" (dumpStore σ.store) dmp ++ tags ++ [.tag "reload"])
  | ["fresh", now, ls], [v, live] =>
    let now := toInt! now
    let (σ, tags) := advance σ now []
    let ls := parseLabels ls
    let fir := σ.implDump.filter fun a => !a.resolvedAt now
    let spec := inhibitedB σ.rules fir ls
    -- a new inhibitor sees only the current alerts, in map order: its verdict must be the same function of the firing set
    let pf : List Msg := (if v = live then [] else
      [.propfail "verdict_order_independent" "history-dependent" s!"target={showLabels ls} now={now}: a fresh inhibitor on the same alerts says {v}, the long-lived one {live}"])
      ++ (if (v = "1") = spec then [] else
      [.propfail "mutes_iff_spec" "fresh-inhibitor" s!"target={showLabels ls} now={now}: fresh inhibitor says {v}, rule says {spec}"])
    (σ, pf ++ [.tag "fresh:checked"] ++ tags)
  | _, _ => (σ, [.diff "parse" "?" (" ".intercalate op)])

def engine : Engine St where
  init hdr :=
    let rules := parseRules ((kv hdr "rules").getD "-")
    let pgc := kvInt hdr "pgc" 0
    let igc := kvInt hdr "igc" 0
    { rules, pgc, igc, pNext := pgc, iNext := igc, st := init rules, leg := init rules }
  step := step

end Driver.Inhibit
