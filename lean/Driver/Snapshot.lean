/-
  Engine `snapshot` (C11): replays the harness trace on AM.Snapshot / AM.CrashFS
  and evaluates the C11 spec predicates on the implementation's own output.

  Header: case <id> kind=<nflog|silence> mode=<rt|load|crash> max=<protodelim MaxSize>

  Lines (bytes are hex, '-' = empty; lists '.'/','-joined, '-' = empty):
    gen <seed> <n> <shape>            -> <dumphash> <n>          store A filled from generated descriptors
    snapshot <reader|file>            -> <hex|big|absent> <lens> <size> <dumphashA>
    reload <reader|file>              -> <ok|error|invalid|panic> <n> <dumphashB>
    prefix <k>                        -> <oracle> <ok n|invalid|error|panic>
    corrupt <pos> <xor>               -> <oracle> <result>
    raw <hex> <expect-n|-> <dumphash|-> -> <oracle> <result> <dumphash>   (hand-made legacy file)
    gen2 <seed> <n> <shape>           -> <dumphash> <n>          the state of the snapshot in progress
    ops <strace|model> <chunks>       -> <op tokens> <newhex>    c:N w:len s d x r:N:N  (N = T temp | F target)
    crash <i> <j> <m>                 -> <hex|absent> <old|new|other|error|panic>
    crashdone                         -> <nweak> <nstrong>
  oracle = off:len:class:keyhex,…   class v valid | i invalid state | u unmarshal error
-/
import Driver.Util
import AM.Model.Snapshot
import AM.Model.CrashFS

namespace Driver.Snapshot
open Driver AM.Snapshot AM.CrashFS

def bytesOf (s : String) : Bytes := if s = "-" then [] else (unhexBytes s).map (·.toNat)
def hexOf (b : Bytes) : String := if b.isEmpty then "-" else hexBytes (b.map UInt8.ofNat)

/-- oracle record: what the trusted field codec + validity test say about one payload -/
structure ORec where
  payload : Bytes
  cls : String
  key : String

/-- model message for the framing replay -/
structure OMsg where
  cls : String      -- v | i | ? (payload the harness did not announce)
  key : String
  deriving Inhabited

def parseOracle (input : Bytes) (s : String) : List ORec :=
  (splitList "," s).filterMap fun t =>
    match t.splitOn ":" with
    | [off, len, cls, key] => some { payload := (input.drop (toNat! off)).take (toNat! len), cls, key }
    | [off, len, cls] => some { payload := (input.drop (toNat! off)).take (toNat! len), cls, key := "" }
    | _ => none

def oracleCodec (o : List ORec) : Codec OMsg where
  encodeMsg := fun _ => []
  decodeMsg := fun p =>
    match o.find? (fun r => r.payload = p) with
    | some r => if r.cls = "u" then none else some { cls := r.cls, key := r.key }
    | none => some { cls := "?", key := "" }
  valid := fun m => m.cls ≠ "i"
  pre := id
  post := id

def distinct (l : List String) : Nat := (l.foldl (fun acc k => if acc.contains k then acc else k :: acc) []).length

def showOutcome (o : Outcome OMsg) : String × Bool :=
  match o with
  | .ok recs => (s!"ok {distinct (recs.map (·.key))}", recs.any (·.cls = "?"))
  | .invalid => ("invalid", false)
  | .error => ("error", false)

/-- framing-only replay of a file the store wrote itself: payload lengths in file order -/
def rawLens (maxSize : Nat) (b : Bytes) : Option (List Nat) :=
  let c : Codec Bytes := { encodeMsg := id, decodeMsg := some, valid := fun _ => true, pre := id, post := id }
  match decodeState c maxSize b with
  | .ok recs => some (recs.map List.length)
  | _ => none

structure St where
  kind : String := ""
  mode : String := ""
  maxSize : Nat := defaultMaxSize
  genHash : String := ""
  genN : Nat := 0
  base : Bytes := []
  haveBase : Bool := false
  absent : Bool := false
  lens : List Nat := []
  size : Nat := 0
  hashA : String := ""
  gen2Hash : String := ""
  ops : List Op := []
  newB : Bytes := []
  fs0 : FS := {}
  crashSeen : Nat := 0

/-- record boundaries (byte offsets after each complete record) of the base snapshot -/
def boundaries (lens : List Nat) : List Nat :=
  (lens.foldl (fun (acc : Nat × List Nat) n =>
      let e := acc.1 + (encodeVarint n).length + n
      (e, e :: acc.2)) (0, [0])).2.reverse

def parseOps (toks : String) (new : Bytes) : List Op :=
  ((splitList "," toks).foldl (fun (acc : List Op × Bytes) t =>
    match t.splitOn ":" with
    | ["c", n] => (Op.create n :: acc.1, acc.2)
    | ["w", len] => (Op.write (acc.2.take (toNat! len)) :: acc.1, acc.2.drop (toNat! len))
    | ["s"] => (Op.fsync :: acc.1, acc.2)
    | ["d"] => (Op.fsync :: acc.1, acc.2)
    | ["x"] => (Op.close :: acc.1, acc.2)
    | ["r", a, b] => (Op.rename a b :: acc.1, acc.2)
    | _ => acc) ([], new)).1.reverse

def showOp : Op → String
  | .create p => s!"c:{p}"
  | .write d => s!"w:{d.length}"
  | .fsync => "s"
  | .close => "x"
  | .rename a b => s!"r:{a}:{b}"

def showOps (l : List Op) : String := joinList "," (l.map showOp)

def initialFS (absent : Bool) (old : Bytes) : FS :=
  if absent then {} else { inodes := [⟨old, old.length⟩], dir0 := [("F", 0)] }

/-- every crash state of `ops`: coordinates and what the target reads -/
def allCrashReads (weak : Bool) (fs0 : FS) (ops : List Op) : List ((Nat × Nat × Nat) × Option Bytes) :=
  (List.range (ops.length + 1)).flatMap fun i =>
    let fs := run fs0 (ops.take i)
    let js := if weak then List.range (fs.log.length + 1) else [fs.log.length]
    let unsynced := fs.inodes.foldl (fun acc ino => max acc (ino.data.length - ino.synced)) 0
    js.flatMap fun j => (List.range (unsynced + 1)).map fun m => ((i, j, m), crashRead fs j m "F")

def showRead (r : Option Bytes) : String :=
  match r with
  | none => "absent"
  | some b => hexOf b

def loadLine (σ : St) (input : Bytes) (oracle result : String) (isPrefix : Option Nat) : List Msg :=
  let o := parseOracle input oracle
  let (m, unknown) := showOutcome (decodeState (oracleCodec o) σ.maxSize input)
  let d := (if unknown then [Msg.diff "load.framing" "payload-not-announced" oracle] else []) ++ expectEq "load.result" m result
  let pf : List Msg :=
    if result = "panic" then [.propfail "decode_truncated" "panic" s!"loader panicked on {input.length} bytes"]
    else match isPrefix with
      | none => []
      | some k =>
        if k ≥ σ.size then [] else
        let bs := boundaries σ.lens
        match result.splitOn " " with
        | ["ok", n] =>
          (match bs.findIdx? (· = k) with
           | some r => if toNat! n = r then [] else [Msg.propfail "decode_truncated" "partial-accepted" s!"prefix {k}: {n} records loaded, {r} complete"]
           | none => [Msg.propfail "decode_truncated" "partial-accepted" s!"prefix {k} of {σ.size} is not a record boundary but loads ({result})"])
        | ["invalid"] => [Msg.propfail "decode_truncated" "prefix-invalid" s!"prefix {k} reported as invalid state"]
        | _ => []
  let tags : List Msg :=
    (match isPrefix with
     | some k => if (boundaries σ.lens).contains k then [Msg.tag "prefix:boundary"] else [.tag "prefix:torn"]
     | none => []) ++
    (if m = "invalid" then [.tag "load:invalid"] else if m = "error" then [.tag "load:error"] else [.tag "load:ok"])
  d ++ pf ++ tags

def step (σ : St) (op obs : List String) : St × List Msg :=
  match op, obs with
  | ["gen", _, _, shape], [h, n] =>
    ({ σ with genHash := h, genN := toNat! n }, [.tag s!"shape:{shape}"])
  | ["gen2", _, _, _], [h, _] => ({ σ with gen2Hash := h }, [])
  | ["snapshot", via], [hex, lens, size, hA] =>
    let ls := natList lens
    let σ := { σ with lens := ls, size := toNat! size, hashA := hA }
    if hex = "absent" then ({ σ with absent := true, haveBase := true, base := [] }, [.tag "old:absent"])
    else
      let d0 := expectEq "gen.dump" σ.genHash hA
      if hex = "big" then (σ, d0 ++ [.tag "snapshot:big"])
      else
        let b := bytesOf hex
        let ml := match rawLens (max σ.maxSize (ls.foldl max 0)) b with
          | some l => showNatList l
          | none => "undecodable"
        ({ σ with base := b, haveBase := true },
          d0 ++ expectEq "snapshot.lens" ml lens ++ expectEq "snapshot.size" (toString b.length) size ++
          [.tag s!"via:{via}"] ++ (if ls.isEmpty then [.tag "snapshot:empty"] else []) ++
          (if ls.length > 1 then [.tag "snapshot:multi"] else []))
  | ["reload", _], [res, n, hB] =>
    let over := σ.lens.any (· > σ.maxSize)
    let model := if over then "error" else "ok"
    let d := expectEq "reload.result" model res
    let pf : List Msg :=
      if res ≠ "ok" then
        [.propfail "never_refuses_own_file" (if over then "oversize-record" else "refused")
          s!"loader answers {res} on a {σ.size}-byte snapshot the store wrote itself (largest record {σ.lens.foldl max 0}, limit {σ.maxSize})"]
      else if hB ≠ σ.hashA ∨ toNat! n ≠ σ.lens.length then
        [.propfail "decode_encode" "lossy" s!"{σ.lens.length} records written, {n} loaded; dump {σ.hashA} -> {hB}"]
      else []
    (σ, d ++ pf ++ (if over then [.tag "reload:oversize"] else [.tag "reload:ok"]))
  | ["prefix", k], [oracle, r1, r2] =>
    let k := toNat! k
    (σ, loadLine σ (σ.base.take k) oracle s!"{r1} {r2}" (some k))
  | ["prefix", k], [oracle, r1] =>
    let k := toNat! k
    (σ, loadLine σ (σ.base.take k) oracle r1 (some k))
  | ["corrupt", pos, x], oracle :: res =>
    let pos := toNat! pos
    let input := σ.base.take pos ++ (match σ.base[pos]? with
      | some b => [Nat.xor b (toNat! x)]
      | none => []) ++ σ.base.drop (pos + 1)
    (σ, loadLine σ input oracle (" ".intercalate res) none ++ [.tag "corrupt"])
  | ["raw", hex, expN, expHash], obs =>
    let input := bytesOf hex
    match obs with
    | [oracle, "ok", n, h] =>
      let pf : List Msg :=
        if expN ≠ "-" ∧ (n ≠ expN ∨ h ≠ expHash) then
          [.propfail "sil_legacy_upgrade" "legacy-lossy" s!"expected {expN} records dump {expHash}, loaded {n} dump {h}"] else []
      (σ, loadLine σ input oracle s!"ok {n}" none ++ pf ++ [.tag "raw:ok"])
    | [oracle, r, _] =>
      let pf : List Msg :=
        if expN ≠ "-" then [.propfail "sil_legacy_upgrade" "legacy-refused" s!"hand-made legacy file answered {r}"] else []
      (σ, loadLine σ input oracle r none ++ pf ++ [.tag "raw:rejected"])
    | _ => (σ, [.diff "parse" "?" (" ".intercalate op)])
  | ["ops", src, _], [toks, newhex] =>
    let new := bytesOf newhex
    let ops := parseOps toks new
    let fs0 := initialFS σ.absent σ.base
    let chunks := ops.filterMap fun o => match o with | .write d => some d | _ => none
    let model := snapshotOps "T" "F" chunks
    let d := expectEq "ops.sequence" (showOps model) (showOps ops)
      ++ expectEq "ops.bytes" (toString new.length) (toString chunks.flatten.length)
    let old : Option Bytes := if σ.absent then none else some σ.base
    let torn := fun (weak : Bool) =>
      (allCrashReads weak fs0 ops).filter fun (_, r) => r ≠ old ∧ r ≠ some new
    let pf : List Msg :=
      match torn false, torn true with
      | ((i, j, m), r) :: rest, _ =>
        [.propfail "crash_any_point_loads_old_or_new" "torn"
          s!"rename-durable model: after {i} ops of [{showOps ops}] (dirops {j}, +{m} unsynced bytes) target reads {(showRead r).take 40} — neither old nor new; {rest.length + 1} such crash states"]
      | [], ((i, j, m), r) :: rest =>
        [.propfail "crash_any_point_loads_old_or_new" "torn"
          s!"ordered-metadata model: after {i} ops of [{showOps ops}] (dirops {j}, +{m} unsynced bytes) target reads {(showRead r).take 40} — neither old nor new; {rest.length + 1} such crash states"]
      | [], [] => []
    ({ σ with ops, newB := new, fs0, crashSeen := 0 },
      d ++ pf ++ [.tag s!"ops:{src}", .tag s!"writes:{min chunks.length 3}"])
  | ["crash", i, j, m], [content, load] =>
    let i := toNat! i; let j := toNat! j; let m := toNat! m
    let fs := run σ.fs0 (σ.ops.take i)
    let r := crashRead fs j m "F"
    let old : Option Bytes := if σ.absent then none else some σ.base
    let d := expectEq "crash.content" (showRead r) content
    let contentOK := (content = showRead old) ∨ (content = hexOf σ.newB ∧ content ≠ "absent")
    let pf : List Msg :=
      if load = "old" ∨ load = "new" then []
      else if contentOK ∧ load = "other" then
        [.propfail "decode_encode" "lossy" s!"crash ({i},{j},{m}): complete snapshot at the target loads as a state that is neither the old nor the new one"]
      else if contentOK then
        [.propfail "never_refuses_own_file" "refused" s!"crash ({i},{j},{m}): complete snapshot at the target, loader answers {load}"]
      else
        [.propfail "crash_any_point_loads_old_or_new" "torn" s!"crash ({i},{j},{m}): target holds {content.take 40}, loader answers {load}"]
    let strong := j = fs.log.length
    ({ σ with crashSeen := σ.crashSeen + 1 },
      d ++ pf ++ [.tag (if strong then "crash:strong" else "crash:weak-only"), .tag s!"crash:{load}"])
  | ["crashdone"], [nw, ns] =>
    let mw := (crashPoints true σ.fs0 σ.ops).length
    let ms := (crashPoints false σ.fs0 σ.ops).length
    (σ, expectEq "crash.count.weak" (toString mw) nw ++ expectEq "crash.count.strong" (toString ms) ns
        ++ expectEq "crash.materialised" (toString mw) (toString σ.crashSeen))
  | _, _ => (σ, [.diff "parse" "?" (" ".intercalate op ++ " -> " ++ " ".intercalate obs)])

def engine : Engine St where
  init hdr := { kind := (kv hdr "kind").getD "", mode := (kv hdr "mode").getD "",
                maxSize := kvNat hdr "max" defaultMaxSize }
  step := step

end Driver.Snapshot
