/-
  Engine `snapshot` (C11): replays the harness trace on AM.Snapshot / AM.CrashFS
  and evaluates the C11 spec predicates on the implementation's own output.

  Header: case <id> kind=<nflog|silence> mode=<rt|load|crash|hist> max=<protodelim MaxSize>

  Lines (bytes are hex, '-' = empty; lists '.'/','-joined, '-' = empty):
    gen <seed> <n> <shape>            -> <dumphash> <n>          store A filled from generated descriptors
    snapshot <reader|file>            -> <hex|big|absent> <lens> <size> <dumphashA>
    reload <reader|file>              -> <ok|error|invalid|panic> <n> <dumphashB>
    prefix <k>                        -> <oracle> <ok n|invalid|error|panic>
    corrupt <pos> <xor>               -> <oracle> <result>
    raw <hex> <expect-n|-> <dumphash|-> -> <oracle> <result> <dumphash>   (hand-made legacy file)
    gen2 <seed> <n> <shape>           -> <dumphash> <n>          the state of the snapshot in progress
    ops <strace|model> <arg>          -> <attempts> <newhex>     attempts ';'-joined, tokens ','-joined:
                                                                 c:N:flags w:len s d x r:N:N  (N = T1,T2… temp | F target;
                                                                 flags t O_TRUNC e O_EXCL a O_APPEND, '-' none); arg of
                                                                 strace: shutdown | periodic (ticker, then shutdown)
    crash <i> <j> <m>                 -> <hex|absent> <old|new|other|error|panic>     (of the LAST attempt of `ops`)
    crashdone                         -> <nweak> <nstrong>
    gen3 <seed> <n> <shape>           -> <dumphash> <n>          a smaller state, snapshotted after a crashed attempt
    ops2 strace                       -> <attempts> <new2hex>    the real attempt of a NEW process over the leftovers
    hcrash <i> <j> <m>                -> <hex|absent> <old|new1|new2|other|error|panic> <files left>
                                         attempt `ops` crashed at (i,j,m), restart, the REAL code snapshots gen3, load
    hdone                             -> <n>
  oracle = off:len:class:keyhex,…   class v valid | i invalid state | u unmarshal error
-/
import Driver.Util
import AM.Model.Snapshot
import AM.Model.CrashFS

namespace Driver.Snapshot
open Driver AM.Snapshot AM.CrashFS

def bytesOf (s : String) : Bytes := if s = "-" then [] else (unhexBytes s).map (·.toNat)
def hexOf (b : Bytes) : String := if b.isEmpty then "-" else hexBytes (b.map UInt8.ofNat)

/-- oracle record: what the trusted field codec + validity test say about one payload -/
structure ORec where
  payload : Bytes
  cls : String
  key : String

/-- model message for the framing replay -/
structure OMsg where
  cls : String      -- v | i | ? (payload the harness did not announce)
  key : String
  deriving Inhabited

def parseOracle (input : Bytes) (s : String) : List ORec :=
  (splitList "," s).filterMap fun t =>
    match t.splitOn ":" with
    | [off, len, cls, key] => some { payload := (input.drop (toNat! off)).take (toNat! len), cls, key }
    | [off, len, cls] => some { payload := (input.drop (toNat! off)).take (toNat! len), cls, key := "" }
    | _ => none

def oracleCodec (o : List ORec) : Codec OMsg where
  encodeMsg := fun _ => []
  decodeMsg := fun p =>
    match o.find? (fun r => r.payload = p) with
    | some r => if r.cls = "u" then none else some { cls := r.cls, key := r.key }
    | none => some { cls := "?", key := "" }
  valid := fun m => m.cls ≠ "i"
  pre := id
  post := id

def distinct (l : List String) : Nat := (l.foldl (fun acc k => if acc.contains k then acc else k :: acc) []).length

def showOutcome (o : Outcome OMsg) : String × Bool :=
  match o with
  | .ok recs => (s!"ok {distinct (recs.map (·.key))}", recs.any (·.cls = "?"))
  | .invalid => ("invalid", false)
  | .error => ("error", false)

/-- framing-only replay of a file the store wrote itself: payload lengths in file order -/
def rawLens (maxSize : Nat) (b : Bytes) : Option (List Nat) :=
  let c : Codec Bytes := { encodeMsg := id, decodeMsg := some, valid := fun _ => true, pre := id, post := id }
  match decodeState c maxSize b with
  | .ok recs => some (recs.map List.length)
  | _ => none

structure St where
  kind : String := ""
  mode : String := ""
  maxSize : Nat := defaultMaxSize
  genHash : String := ""
  genN : Nat := 0
  base : Bytes := []
  haveBase : Bool := false
  absent : Bool := false
  lens : List Nat := []
  size : Nat := 0
  hashA : String := ""
  gen2Hash : String := ""
  ops : List Op := []
  newB : Bytes := []
  fs0 : FS := {}
  crashSeen : Nat := 0
  ops2 : List Op := []
  new2 : Bytes := []
  histSeen : Nat := 0

/-- record boundaries (byte offsets after each complete record) of the base snapshot -/
def boundaries (lens : List Nat) : List Nat :=
  (lens.foldl (fun (acc : Nat × List Nat) n =>
      let e := acc.1 + (encodeVarint n).length + n
      (e, e :: acc.2)) (0, [0])).2.reverse

def parseOps (toks : String) (new : Bytes) : List Op :=
  ((splitList "," toks).foldl (fun (acc : List Op × Bytes) t =>
    match t.splitOn ":" with
    | ["c", n] => (Op.create n true :: acc.1, acc.2)
    | ["c", n, fl] => (Op.create n (fl.contains 't') :: acc.1, acc.2)
    | ["w", len] => (Op.write (acc.2.take (toNat! len)) :: acc.1, acc.2.drop (toNat! len))
    | ["s"] => (Op.fsync :: acc.1, acc.2)
    | ["d"] => (Op.fsync :: acc.1, acc.2)
    | ["x"] => (Op.close :: acc.1, acc.2)
    | ["r", a, b] => (Op.rename a b :: acc.1, acc.2)
    | _ => acc) ([], new)).1.reverse

def showOp : Op → String
  | .create p trunc => s!"c:{p}:{if trunc then "t" else "-"}"
  | .write d => s!"w:{d.length}"
  | .fsync => "s"
  | .close => "x"
  | .rename a b => s!"r:{a}:{b}"

def showOps (l : List Op) : String := joinList "," (l.map showOp)

def initialFS (absent : Bool) (old : Bytes) : FS :=
  if absent then {} else { inodes := [⟨old, old.length⟩], dir0 := [("F", 0)] }

/-- every crash state of `ops`: coordinates and what the target reads -/
def allCrashReads (weak : Bool) (fs0 : FS) (ops : List Op) : List ((Nat × Nat × Nat) × Option Bytes) :=
  (List.range (ops.length + 1)).flatMap fun i =>
    let fs := run fs0 (ops.take i)
    let js := if weak then List.range (fs.log.length + 1) else [fs.log.length]
    let unsynced := fs.inodes.foldl (fun acc ino => max acc (ino.data.length - ino.synced)) 0
    js.flatMap fun j => (List.range (unsynced + 1)).map fun m => ((i, j, m), crashRead fs j m "F")

/-- temp name and open flag of an attempt's token list -/
def attemptHead (toks : List String) : String × Bool :=
  match toks.head?.map (·.splitOn ":") with
  | some ["c", n, fl] => (n, fl.contains 't')
  | some ["c", n] => (n, true)
  | _ => ("?", true)

/-- an observed attempt against the model's sequence for its own temp name, flag and write sizes:
    every token must be accounted for (`d` = fdatasync counts as fsync) -/
def attemptShape (toks : List String) (size : Nat) : List Msg :=
  let (name, trunc) := attemptHead toks
  let lens := toks.filterMap fun t => match t.splitOn ":" with | ["w", l] => some (toNat! l) | _ => none
  let model := showOps (snapshotOps name trunc "F" (lens.map fun l => List.replicate l 0))
  let obs := joinList "," (toks.map fun t => if t = "d" then "s" else t)
  expectEq "ops.sequence" model obs ++ expectEq "ops.bytes" (toString size) (toString (lens.foldl (· + ·) 0))

def mkAttempt (ops : List Op) (crash : Option (Nat × Nat × (Nat → Nat))) : Attempt :=
  let (tmp, trunc) := match ops.head? with
    | some (.create p t) => (p, t)
    | _ => ("?", true)
  { tmp, trunc, chunks := ops.filterMap fun o => match o with | .write d => some d | _ => none, crash }

def sizeTag (n : Nat) : String :=
  if n > defaultMaxSize then "over-4MiB" else if n = defaultMaxSize then "at-4MiB"
  else if n ≥ 1048576 then "1MiB-4MiB" else if n > 65536 then "64KiB-1MiB"
  else if n > 16384 then "16KiB-64KiB" else "small"

def showRead (r : Option Bytes) : String :=
  match r with
  | none => "absent"
  | some b => hexOf b

def loadLine (σ : St) (input : Bytes) (oracle result : String) (isPrefix : Option Nat) : List Msg :=
  let o := parseOracle input oracle
  let (m, unknown) := showOutcome (decodeState (oracleCodec o) σ.maxSize input)
  let d := (if unknown then [Msg.diff "load.framing" "payload-not-announced" oracle] else []) ++ expectEq "load.result" m result
  let pf : List Msg :=
    if result = "panic" then [.propfail "decode_truncated" "panic" s!"loader panicked on {input.length} bytes"]
    else match isPrefix with
      | none => []
      | some k =>
        if k ≥ σ.size then [] else
        let bs := boundaries σ.lens
        match result.splitOn " " with
        | ["ok", n] =>
          (match bs.findIdx? (· = k) with
           | some r => if toNat! n = r then [] else [Msg.propfail "decode_truncated" "partial-accepted" s!"prefix {k}: {n} records loaded, {r} complete"]
           | none => [Msg.propfail "decode_truncated" "partial-accepted" s!"prefix {k} of {σ.size} is not a record boundary but loads ({result})"])
        | ["invalid"] => [Msg.propfail "decode_truncated" "prefix-invalid" s!"prefix {k} reported as invalid state"]
        | _ => []
  let tags : List Msg :=
    (match isPrefix with
     | some k => if (boundaries σ.lens).contains k then [Msg.tag "prefix:boundary"] else [.tag "prefix:torn"]
     | none => []) ++
    (if m = "invalid" then [.tag "load:invalid"] else if m = "error" then [.tag "load:error"] else [.tag "load:ok"])
  d ++ pf ++ tags

def genStep (σ : St) (g shape h n : String) : St × List Msg :=
    let parts := shape.splitOn ":"
    let shapeTag := match parts with
      | ["sz", field, _, via] => s!"sz:{field}:{via}"
      | _ => shape
    if h.startsWith "mergefail" then
      -- Merge decodes a peer's MarshalBinary output with the loader's own decodeState
      let target := match parts with | ["sz", _, t, _] => toNat! t | _ => 0
      (σ, [.propfail "never_refuses_own_file"
            (if target > defaultMaxSize then "oversize-record-over-4MiB" else "own-record-refused-by-merge")
            s!"a {target}-byte record written by a peer's store ({shape}) is refused by Merge (same decodeState as the loader)",
           .tag s!"shape:{shapeTag}"])
    else if g = "gen" then ({ σ with genHash := h, genN := toNat! n }, [.tag s!"shape:{shapeTag}"])
    else if g = "gen2" then ({ σ with gen2Hash := h }, [])
    else (σ, [])

def step (σ : St) (op obs : List String) : St × List Msg :=
  match op, obs with
  | ["gen", _, _, shape], [h, n] => genStep σ "gen" shape h n
  | ["gen2", _, _, shape], [h, n] => genStep σ "gen2" shape h n
  | ["gen3", _, _, shape], [h, n] => genStep σ "gen3" shape h n
  | ["snapshot", via], [hex, lens, size, hA] =>
    let ls := natList lens
    let σ := { σ with lens := ls, size := toNat! size, hashA := hA }
    if hex = "noctx" ∨ hex = "nofile" then ({ σ with haveBase := false }, [.tag s!"snapshot:{hex}"])
    else if hex = "absent" then ({ σ with absent := true, haveBase := true, base := [] }, [.tag "old:absent"])
    else
      let d0 := expectEq "gen.dump" σ.genHash hA
      if hex = "big" then ({ σ with haveBase := true }, d0 ++ [.tag "snapshot:big"])
      else
        let b := bytesOf hex
        let ml := match rawLens (max σ.maxSize (ls.foldl max 0)) b with
          | some l => showNatList l
          | none => "undecodable"
        ({ σ with base := b, haveBase := true },
          d0 ++ expectEq "snapshot.lens" ml lens ++ expectEq "snapshot.size" (toString b.length) size ++
          [.tag s!"via:{via}"] ++ (if ls.isEmpty then [.tag "snapshot:empty"] else []) ++
          (if ls.length > 1 then [.tag "snapshot:multi"] else []))
  | ["reload", _], [res, n, hB] =>
    if !σ.haveBase then (σ, [.tag "reload:noctx"]) else
    -- finding F9 is exactly: a record longer than protodelim's default MaxSize (4 MiB).  Any other refusal of a
    -- file the store wrote itself — in particular of a record BELOW that size — is a new violation.
    let over := σ.lens.any (· > defaultMaxSize)
    let model := if σ.lens.any (· > σ.maxSize) then "error" else "ok"
    let d := expectEq "reload.result" model res
    let pf : List Msg :=
      if res ≠ "ok" then
        [.propfail "never_refuses_own_file" (if over then "oversize-record-over-4MiB" else "own-file-refused")
          s!"loader answers {res} on a {σ.size}-byte snapshot the store wrote itself (largest record {σ.lens.foldl max 0} bytes, protodelim default limit {defaultMaxSize})"]
      else if hB ≠ σ.hashA ∨ toNat! n ≠ σ.lens.length then
        [.propfail "decode_encode" "lossy" s!"{σ.lens.length} records written, {n} loaded; dump {σ.hashA} -> {hB}"]
      else []
    (σ, d ++ pf ++ (if over then [.tag "reload:oversize"] else [.tag "reload:ok"]) ++ [.tag s!"size:{sizeTag (σ.lens.foldl max 0)}"])
  | ["prefix", k], [oracle, r1, r2] =>
    let k := toNat! k
    (σ, loadLine σ (σ.base.take k) oracle s!"{r1} {r2}" (some k))
  | ["prefix", k], [oracle, r1] =>
    let k := toNat! k
    (σ, loadLine σ (σ.base.take k) oracle r1 (some k))
  | ["corrupt", pos, x], oracle :: res =>
    let pos := toNat! pos
    let input := σ.base.take pos ++ (match σ.base[pos]? with
      | some b => [Nat.xor b (toNat! x)]
      | none => []) ++ σ.base.drop (pos + 1)
    (σ, loadLine σ input oracle (" ".intercalate res) none ++ [.tag "corrupt"])
  | ["raw", hex, expN, expHash], obs =>
    let input := bytesOf hex
    match obs with
    | [oracle, "ok", n, h] =>
      let pf : List Msg :=
        if expN ≠ "-" ∧ (n ≠ expN ∨ h ≠ expHash) then
          [.propfail "sil_legacy_upgrade" "legacy-lossy" s!"expected {expN} records dump {expHash}, loaded {n} dump {h}"] else []
      (σ, loadLine σ input oracle s!"ok {n}" none ++ pf ++ [.tag "raw:ok"])
    | [oracle, r, _] =>
      let pf : List Msg :=
        if expN ≠ "-" then [.propfail "sil_legacy_upgrade" "legacy-refused" s!"hand-made legacy file answered {r}"] else []
      (σ, loadLine σ input oracle r none ++ pf ++ [.tag "raw:rejected"])
    | _ => (σ, [.diff "parse" "?" (" ".intercalate op)])
  | ["ops", src, arg], [atts, newhex] =>
    let new := bytesOf newhex
    let attempts := (splitList ";" atts).map (splitList ",")
    let lastToks := attempts.getLast?.getD []
    let ops := parseOps (joinList "," lastToks) new
    let fs0 := initialFS σ.absent σ.base
    let chunks := ops.filterMap fun o => match o with | .write d => some d | _ => none
    -- every attempt of the run (periodic path: ticker snapshot(s), then the shutdown snapshot) has the model's shape
    let d := (attempts.flatMap fun a => attemptShape a new.length)
      ++ (if attempts.isEmpty then [Msg.diff "ops.sequence" "one attempt at least" atts] else [])
      ++ expectEq "ops.bytes" (toString new.length) (toString chunks.flatten.length)
      ++ (if src = "strace" ∧ arg = "periodic" ∧ attempts.length < 2 then
            [Msg.diff "ops.periodic" "ticker snapshot and shutdown snapshot" atts] else [])
    -- the discipline over the completed attempts of this process
    let hist := attempts.map fun a =>
      mkAttempt (parseOps (joinList "," a) (List.replicate new.length 0)) none
    let disc : List Msg :=
      if histOKb "F" fs0 hist then [] else
        [.propfail "crashed_attempts_history" "temp-discipline"
          s!"attempts [{atts}]: a temp name is the target itself, or an existing name is opened without O_TRUNC"]
    let old : Option Bytes := if σ.absent then none else some σ.base
    let torn := fun (weak : Bool) =>
      (allCrashReads weak fs0 ops).filter fun (_, r) => r ≠ old ∧ r ≠ some new
    let pf : List Msg :=
      match torn false, torn true with
      | ((i, j, m), r) :: rest, _ =>
        [.propfail "crash_any_point_loads_old_or_new" "torn"
          s!"rename-durable model: after {i} ops of [{showOps ops}] (dirops {j}, +{m} unsynced bytes) target reads {(showRead r).take 40} — neither old nor new; {rest.length + 1} such crash states"]
      | [], ((i, j, m), r) :: rest =>
        [.propfail "crash_any_point_loads_old_or_new" "torn"
          s!"ordered-metadata model: after {i} ops of [{showOps ops}] (dirops {j}, +{m} unsynced bytes) target reads {(showRead r).take 40} — neither old nor new; {rest.length + 1} such crash states"]
      | [], [] => []
    ({ σ with ops, newB := new, fs0, crashSeen := 0 },
      d ++ disc ++ pf ++ [.tag s!"ops:{src}", .tag (if src = "strace" then s!"path:{arg}" else "path:model"), .tag s!"writes:{min chunks.length 3}",
        .tag s!"attempts:{min attempts.length 3}", .tag s!"open:{if (attemptHead lastToks).2 then "trunc" else "notrunc"}"])
  | ["ops2", _], [atts, newhex] =>
    let new2 := bytesOf newhex
    let attempts := (splitList ";" atts).map (splitList ",")
    let lastToks := attempts.getLast?.getD []
    let ops2 := parseOps (joinList "," lastToks) new2
    let d := (attempts.flatMap fun a => attemptShape a new2.length)
      ++ (if attempts.length = 1 then [] else [Msg.diff "ops2.sequence" "exactly one attempt" atts])
    -- the discipline of the theorem, on the names and flags the implementation really uses: attempt 1 crashes
    -- at ANY point and leaves its temp file; attempt 2 (a new process) must truncate or pick a name that is not there
    let a2 := mkAttempt ops2 none
    let bad := (crashPoints true σ.fs0 σ.ops).filter fun (i, j, m) =>
      !(histOKb "F" σ.fs0 [mkAttempt σ.ops (some (i, j, fun _ => m)), a2])
    let pf : List Msg :=
      match bad with
      | [] => []
      | (i, j, m) :: rest =>
        let fs := runHist "F" σ.fs0 [mkAttempt σ.ops (some (i, j, fun _ => m)), a2]
        let r := crashRead fs fs.log.length 0 "F"
        [.propfail "crashed_attempts_history" "temp-discipline"
          s!"attempt [{showOps σ.ops}] crashed at ({i},{j},{m}) leaves {a2.tmp}; the next attempt [{showOps ops2}] reuses the name without O_TRUNC: model predicts the completed snapshot reads {(showRead r).take 40} ({(r.map List.length).getD 0} bytes, new state {new2.length} bytes); {rest.length + 1} such crash points"]
    ({ σ with ops2, new2, histSeen := 0 },
      d ++ pf ++ [.tag s!"ops2:{if (attemptHead lastToks).1 = (mkAttempt σ.ops none).tmp then "same-name" else "fresh-name"}",
                  .tag s!"open2:{if a2.trunc then "trunc" else "notrunc"}"])
  | ["hcrash", i, j, m], [content, load, _left] =>
    let i := toNat! i; let j := toNat! j; let m := toNat! m
    let fs1 := crashFS (run σ.fs0 (σ.ops.take i)) j (fun _ => m)
    let before := crashRead fs1 0 0 "F"
    let fs2 := run fs1 σ.ops2
    let r := crashRead fs2 fs2.log.length 0 "F"
    let d := expectEq "hist.content" (showRead r) content
    let want := showRead (some σ.new2)
    let pf : List Msg :=
      if content ≠ want then
        if content = showRead before then
          [.propfail "crashed_attempts_history" "snapshot-not-written"
            s!"attempt 1 crashed at ({i},{j},{m}); the next snapshot ran to completion but the target still holds what the crash left"]
        else
          [.propfail "crashed_attempts_history" "stale-temp-mixed"
            s!"attempt 1 crashed at ({i},{j},{m}) and left its temp file; after the next COMPLETED snapshot ({σ.new2.length} bytes) the target holds {content.length / 2} bytes {content.take 40}… — not the new state (loader: {load})"]
      else if load = "new2" then []
      else if load = "error" ∨ load = "panic" then
        [.propfail "never_refuses_own_file" "own-file-refused" s!"history crash ({i},{j},{m}): complete new snapshot at the target, loader answers {load}"]
      else
        [.propfail "decode_encode" "lossy" s!"history crash ({i},{j},{m}): complete new snapshot at the target loads as {load}"]
    let leftover := (fs1.dirNow.filter fun (p, _) => p ≠ "F").length
    ({ σ with histSeen := σ.histSeen + 1 },
      d ++ pf ++ [.tag s!"hist:{load}", .tag s!"hist:leftover{min leftover 2}", .tag (if before.isNone then "hist:old-absent" else "hist:old-present")])
  | ["hdone"], [n] =>
    (σ, expectEq "hist.materialised" (toString σ.histSeen) n)
  | ["crash", i, j, m], [content, load] =>
    let i := toNat! i; let j := toNat! j; let m := toNat! m
    let fs := run σ.fs0 (σ.ops.take i)
    let r := crashRead fs j m "F"
    let old : Option Bytes := if σ.absent then none else some σ.base
    let d := expectEq "crash.content" (showRead r) content
    let contentOK := (content = showRead old) ∨ (content = hexOf σ.newB ∧ content ≠ "absent")
    let pf : List Msg :=
      if load = "old" ∨ load = "new" then []
      else if contentOK ∧ load = "other" then
        [.propfail "decode_encode" "lossy" s!"crash ({i},{j},{m}): complete snapshot at the target loads as a state that is neither the old nor the new one"]
      else if contentOK then
        [.propfail "never_refuses_own_file" "own-file-refused" s!"crash ({i},{j},{m}): complete snapshot at the target, loader answers {load}"]
      else
        [.propfail "crash_any_point_loads_old_or_new" "torn" s!"crash ({i},{j},{m}): target holds {content.take 40}, loader answers {load}"]
    let strong := j = fs.log.length
    ({ σ with crashSeen := σ.crashSeen + 1 },
      d ++ pf ++ [.tag (if strong then "crash:strong" else "crash:weak-only"), .tag s!"crash:{load}"])
  | ["crashdone"], [nw, ns] =>
    let mw := (crashPoints true σ.fs0 σ.ops).length
    let ms := (crashPoints false σ.fs0 σ.ops).length
    (σ, expectEq "crash.count.weak" (toString mw) nw ++ expectEq "crash.count.strong" (toString ms) ns
        ++ expectEq "crash.materialised" (toString mw) (toString σ.crashSeen))
  | _, _ => (σ, [.diff "parse" "?" (" ".intercalate op ++ " -> " ++ " ".intercalate obs)])

def engine : Engine St where
  init hdr := { kind := (kv hdr "kind").getD "", mode := (kv hdr "mode").getD "",
                maxSize := kvNat hdr "max" defaultMaxSize }
  step := step

end Driver.Snapshot
