/-
  Engine `mesh` (C19, observation): loopback cluster of real peers with real
  silence / nflog states.  The "model" is the property itself: every update is
  seen by every live node, a late joiner has everything.
    case <id> n=<k>
    sil|nfl <node> <small|big> -> seen=<c>/<n>
    burst <node> <k>            -> seen=<c>/<n>      k small silences + k small log entries created back-to-back on one node;
                                                     c = nodes holding all of them within the settle time
    join                        -> has=<m>/<m> members=<k>
    rejoin <node> [first]       -> has=<m>/<m> members=<k> pos=<name>:<position>:<member names, sorted, `.`-joined>,…
                                                     crash without leave + a new instance on the same address (`first`: under a
                                                     name that sorts before every other member's); pos = every node's
                                                     Position() beside the members as that node sees them
    solo                        -> ok                an instance configured with no peers
    dialer <j>                  -> members=<k>       an instance whose only configured peer is node j, reconnect disabled
    crash <node>                -> members=<k>       crash without leave; k = cluster size once the others declared it dead
    revive <node>               -> has=<m>/<m> members=<k> pos=…   a new instance on the crashed node's address that knows no
                                                     peer: the dialer's periodic refresh must join it again
-/
import Driver.Util
import AM.Model.Registry

namespace Driver.Mesh
open Driver

structure St where
  n : Nat := 0

def frac (s : String) : Nat × Nat :=
  match s.splitOn "/" with
  | [a, b] => (toNat! a, toNat! b)
  | _ => (0, 1)

/-- C08 (`AM.Cluster.healthy_no_duplicate` staggers the instances of a healthy cluster by their position): a node's
    position is `AM.Registry.position` of the members as memberlist reports them to that node — the number of live
    members whose name sorts before its own — so that nodes which agree on the members hold pairwise distinct
    positions (`AM.Registry.positions_distinct`). -/
def posMsgs (tok : String) : List Msg :=
  let entries := (splitList "," tok).filterMap fun e =>
    match e.splitOn ":" with
    | [name, pos, names] => some (name, pos, splitList "." names)
    | _ => none
  let perNode := entries.filterMap fun (name, pos, names) =>
    if pos = "?" ∨ !names.contains name then none else
    let want := AM.Registry.position (names.map fun n => (n, "")) name
    if toNat! pos = want then none else
      some (Msg.propfail "positions_distinct" "position-not-index-in-members"
        s!"node {name} reports position {pos}, its members are {joinList "." names}: position {want} expected")
  let agree : Bool := match entries with
    | [] => true
    | (_, _, n0) :: rest => rest.all fun (_, _, n) => n == n0
  let ps := entries.map (·.2.1)
  let dup := if agree && !ps.contains "?" && ps.eraseDups.length != ps.length then
    [Msg.propfail "positions_distinct" "position-not-index-in-members" s!"nodes that agree on the members share a position: {tok}"] else []
  (perNode ++ dup).take 2 ++ (if entries.any (fun (name, _, names) => names.head? = some name ∧ name.startsWith "00RESTARTED") then [.tag "rejoin:new-name-sorts-first"] else [])

def step (σ : St) (op obs : List String) : St × List Msg :=
  match op, obs with
  -- fewer than all nodes hold the update while some live node does not see every live node as a member: the instances are
  -- not (all) connected at that moment, the statements about connected instances say nothing
  | ["prejoin"], [_, "split"] => (σ, [.tag "mesh:membership-incomplete"])
  | [_, _, _], [_, "split"] => (σ, [.tag "mesh:membership-incomplete"])
  | ["burst", _node, k], [seen] =>
    let (c, n) := frac ((kv [seen] "seen").getD "0/1")
    let pf := if c ≠ n then
      [Msg.propfail "broadcast_routed_once" "update-lost" s!"burst of {k} small silence and {k} small log updates: all of them merged by {c} of {n} nodes only"] else []
    (σ, expectEq "seen.n" (toString σ.n) (toString n) ++ pf ++ [.tag "burst"])
  | [kind, _node, size], [seen] =>
    let (c, n) := frac ((kv [seen] "seen").getD "0/1")
    let pf := if c ≠ n then
      [Msg.propfail (if size = "big" then "oversize_reaches_every_peer" else "broadcast_routed_once")
         (if size = "big" then "oversize-lost" else "update-lost") s!"{kind} update ({size}) merged by {c} of {n} nodes"] else []
    (σ, expectEq "seen.n" (toString σ.n) (toString n) ++ pf ++ [.tag s!"{kind}:{size}"])
  | "rejoin" :: _, has :: members :: rest =>
    -- a member restarted on its address under a new name: it is a live peer like any other (the member count is unchanged)
    let (c, n) := frac ((kv [has] "has").getD "0/1")
    let pf := if c ≠ n then [Msg.propfail "full_state_superset" "rejoin-incomplete" s!"the restarted instance holds {c} of {n} updates"] else []
    (σ, pf ++ posMsgs ((kv rest "pos").getD "-") ++ expectEq "rejoin.members" (toString σ.n) ((kv [members] "members").getD "?") ++ [.tag "rejoin"])
  | ["solo"], [_] => ({ σ with n := σ.n + 1 }, [.tag "solo"])
  | ["dialer", _], [members] =>
    ({ σ with n := σ.n + 1 }, expectEq "dialer.members" (toString (σ.n + 1)) ((kv [members] "members").getD "?") ++ [.tag "dialer"])
  | ["crash", _], [members] =>
    ({ σ with n := σ.n - 1 }, expectEq "crash.members" (toString (σ.n - 1)) ((kv [members] "members").getD "?") ++ [.tag "crash"])
  | ["revive", _], has :: members :: rest =>
    let σ := { σ with n := σ.n + 1 }
    -- C19 "a re-joining instance obtains the complete current state through the full-state exchange", join order
    -- "only the other side is configured with this instance": the configured peer is dialled again by the periodic refresh
    let (c, n) := frac ((kv [has] "has").getD "0/1")
    let m := (kv [members] "members").getD "?"
    let pf := if c ≠ n ∨ m ≠ toString σ.n then
      [Msg.propfail "full_state_superset" "configured-peer-not-redialled"
        s!"a crashed instance restarted on its address without configured peers: after two refresh intervals of the instance configured with it, it holds {c} of {n} updates and sees {m} of {σ.n} members"] else []
    (σ, pf ++ posMsgs ((kv rest "pos").getD "-") ++ [.tag "revive"])
  | ["fact", _], [v] =>
    (σ, (if v = "ok" then [] else [Msg.propfail "full_state_superset" "join-before-state-registration"
          s!"app/app.go: {v} — the states must be registered with the peer (AddState) before peer.Join: the join's full-state exchange is dropped for unregistered states (AM.Gossip.unknown_key_inert)"])
        ++ [.tag "fact:app-setup-order"])
  | ["prejoin"], [seen] =>
    -- a joining instance's own queued updates reach every member (AM.Gossip.broadcast_routed_once): joining must not drop them
    let (c, n) := frac ((kv [seen] "seen").getD "0/1")
    let pf := if c ≠ n then
      [Msg.propfail "broadcast_routed_once" "queued-update-lost-at-join" s!"a small update queued on an instance before it joined was merged by {c} of {n} nodes"] else []
    ({ σ with n := σ.n + 1 }, pf ++ [.tag "prejoin"])
  | ["join"], [has, _members] =>
    let (c, n) := frac ((kv [has] "has").getD "0/1")
    let pf := if c ≠ n then [Msg.propfail "full_state_superset" "join-incomplete" s!"joiner holds {c} of {n} updates"] else []
    ({ σ with n := σ.n + 1 }, pf ++ [.tag "join"])
  | _, _ => (σ, [.diff "parse" "?" (" ".intercalate (op ++ ["->"] ++ obs))])

def engine : Engine St where
  init hdr := { n := kvNat hdr "n" 0 }
  step := step

end Driver.Mesh
