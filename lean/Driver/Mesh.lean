/-
  Engine `mesh` (C19, observation): loopback cluster of real peers with real
  silence / nflog states.  The "model" is the property itself: every update is
  seen by every live node, a late joiner has everything.
    case <id> n=<k>
    sil|nfl <node> <small|big> -> seen=<c>/<n>
    burst <node> <k>            -> seen=<c>/<n>      k small silences + k small log entries created back-to-back on one node;
                                                     c = nodes holding all of them within the settle time
    join                        -> has=<m>/<m> members=<k>
    rejoin <node>               -> has=<m>/<m> members=<k>     crash without leave + a new instance on the same address
-/
import Driver.Util

namespace Driver.Mesh
open Driver

structure St where
  n : Nat := 0

def frac (s : String) : Nat × Nat :=
  match s.splitOn "/" with
  | [a, b] => (toNat! a, toNat! b)
  | _ => (0, 1)

def step (σ : St) (op obs : List String) : St × List Msg :=
  match op, obs with
  | ["burst", _node, k], [seen] =>
    let (c, n) := frac ((kv [seen] "seen").getD "0/1")
    let pf := if c ≠ n then
      [Msg.propfail "broadcast_routed_once" "update-lost" s!"burst of {k} small silence and {k} small log updates: all of them merged by {c} of {n} nodes only"] else []
    (σ, expectEq "seen.n" (toString σ.n) (toString n) ++ pf ++ [.tag "burst"])
  | [kind, _node, size], [seen] =>
    let (c, n) := frac ((kv [seen] "seen").getD "0/1")
    let pf := if c ≠ n then
      [Msg.propfail (if size = "big" then "oversize_reaches_every_peer" else "broadcast_routed_once")
         (if size = "big" then "oversize-lost" else "update-lost") s!"{kind} update ({size}) merged by {c} of {n} nodes"] else []
    (σ, expectEq "seen.n" (toString σ.n) (toString n) ++ pf ++ [.tag s!"{kind}:{size}"])
  | ["rejoin", _], [has, members] =>
    -- a member restarted on its address under a new name: it is a live peer like any other (the member count is unchanged)
    let (c, n) := frac ((kv [has] "has").getD "0/1")
    let pf := if c ≠ n then [Msg.propfail "full_state_superset" "rejoin-incomplete" s!"the restarted instance holds {c} of {n} updates"] else []
    (σ, pf ++ expectEq "rejoin.members" (toString σ.n) ((kv [members] "members").getD "?") ++ [.tag "rejoin"])
  | ["fact", _], [v] =>
    (σ, (if v = "ok" then [] else [Msg.propfail "full_state_superset" "join-before-state-registration"
          s!"app/app.go: {v} — the states must be registered with the peer (AddState) before peer.Join: the join's full-state exchange is dropped for unregistered states (AM.Gossip.unknown_key_inert)"])
        ++ [.tag "fact:app-setup-order"])
  | ["prejoin"], [seen] =>
    -- a joining instance's own queued updates reach every member (AM.Gossip.broadcast_routed_once): joining must not drop them
    let (c, n) := frac ((kv [seen] "seen").getD "0/1")
    let pf := if c ≠ n then
      [Msg.propfail "broadcast_routed_once" "queued-update-lost-at-join" s!"a small update queued on an instance before it joined was merged by {c} of {n} nodes"] else []
    ({ σ with n := σ.n + 1 }, pf ++ [.tag "prejoin"])
  | ["join"], [has, _members] =>
    let (c, n) := frac ((kv [has] "has").getD "0/1")
    let pf := if c ≠ n then [Msg.propfail "full_state_superset" "join-incomplete" s!"joiner holds {c} of {n} updates"] else []
    ({ σ with n := σ.n + 1 }, pf ++ [.tag "join"])
  | _, _ => (σ, [.diff "parse" "?" (" ".intercalate (op ++ ["->"] ++ obs))])

def engine : Engine St where
  init hdr := { n := kvNat hdr "n" 0 }
  step := step

end Driver.Mesh
