/-
  Engine `notifyleak` (C17): notifications must not change the loaded configuration.
    notify <n> -> <kind:sent|err,…> <text same|changed> <leaked canaries|->
  AM.Config.secret_leaves_masked is about the text of the configuration IN FORCE: it is the text of the loaded
  value at any later moment, so delivering notifications (which read that value) must leave it alone.
-/
import Driver.Util

namespace Driver.NotifyLeak
open Driver

structure St where
  unit : Unit := ()

def step (σ : St) (op obs : List String) : St × List Msg :=
  match op, obs with
  | ["notify", n], [kinds, text, leaked] =>
    (σ, (if kinds.startsWith "loaderror" ∨ kinds.startsWith "builderror" then [.diff "notifyleak.setup" "integrations built" kinds] else [])
        ++ (if leaked = "-" then [] else [Msg.propfail "secret_leaves_masked" "leak-after-notification"
              s!"after {n} notification(s) per integration the textual configuration shows secret values: {leaked}"])
        ++ (if text ≠ "changed-routing" then [] else [Msg.propfail "print_load_stable_partial" "config-mutated-by-notification"
              s!"after {n} notification(s) per integration ({kinds}) the textual configuration loads back to a different routing tree / inhibition rules / time intervals than the one that was loaded"])
        ++ (if text = "changed-elsewhere" then [.tag "notifyleak:text-changed-outside-routing"] else [])
        ++ [.tag "notifyleak"] ++ (if (kinds.splitOn ":sent").length > 4 then [.tag "notifyleak:delivered"] else []))
  | _, _ => (σ, [.diff "parse" "?" (" ".intercalate op)])

def engine : Engine St where
  init _ := {}
  step := step

end Driver.NotifyLeak
