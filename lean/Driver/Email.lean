/-
  Engine `email` (C04): the real notify/email notifier against a scripted
  loopback SMTP server that accepts every message and answers QUIT as scripted
  (221 | an error code | close), alone and inside the real Dedup → Retry →
  SetNotifies chain over a real nflog.

    mail <quit>                 -> retry=<0|1> err=<0|1> data=<n>
    flush <quit> <deadline_ms>  -> r1=<ok|err> n1=<n> log1=<0|1> r2=<ok|err> n2=<n>

  The delivery of a message is decided by the reply to the end of DATA; the
  model's attempt outcome (`accept`) is therefore `true` in every line, whatever
  QUIT does: `AM.Dedup.flushStep` sends once, logs, and the next flush of the
  unchanged group (repeat_interval far away) is quiet.
-/
import Driver.Util
import AM.Model.Dedup

namespace Driver.Email
open Driver AM AM.Nflog AM.Dedup

structure St where
  dummy : Nat := 0

def cfg : Cfg := { key := "k", repeatI := 14400000000000, retention := 432000000000000, sendResolved := true }

/-- the two flushes of `flush` on the model: (sent in flush 1, logged after flush 1, sent in flush 2) -/
def model2 : Bool × Bool × Bool :=
  let f1 : Flush := { tick := 1000, wall := 1000, firing := [1], resolved := [], accept := true }
  let o1 := flushStep cfg [] f1
  let f2 : Flush := { tick := 2000, wall := 2000, firing := [1], resolved := [], accept := true }
  let o2 := flushStep cfg o1.st f2
  (path cfg [] f1 == .send, (query o1.st cfg.key).isSome, path cfg o1.st f2 == .send)

def step (σ : St) (op obs : List String) : St × List Msg :=
  match op with
  | ["mail", q] =>
    let retry := kvNat obs "retry" 9; let err := kvNat obs "err" 9; let data := kvNat obs "data" 0
    let t := [Msg.tag (if q = "221" then "quit:ok" else "quit:failing")]
    (σ, expectEq "mail.data" "1" (toString data) ++
      (if data ≥ 1 ∧ (retry ≠ 0 ∨ err ≠ 0) then
         [Msg.propfail "notify_only_if_changed_or_repeat" "delivered-reported-failed"
            s!"quit={q}: the server accepted the message (250 after DATA), Notify reports retry={retry} err={err}: a recoverable error makes RetryStage send the same notification again"]
       else []) ++ t)
  | ["flush", q, _d] =>
    let (m1, mlog, m2) := model2
    let r1 := (kv obs "r1").getD "?"; let r2 := (kv obs "r2").getD "?"
    let n1 := kvNat obs "n1" 0; let n2 := kvNat obs "n2" 0; let log1 := kvNat obs "log1" 9
    let b (x : Bool) : String := if x then "1" else "0"
    let t := [Msg.tag (if q = "221" then "flush:quit-ok" else "flush:quit-failing")]
    (σ, expectEq "flush.n1" (b m1) (toString n1) ++ expectEq "flush.log1" (b mlog) (toString log1) ++ expectEq "flush.n2" (b m2) (toString n2)
      ++ expectEq "flush.r1" "ok" r1 ++ expectEq "flush.r2" "ok" r2 ++
      (if n1 > 1 then [Msg.propfail "notify_only_if_changed_or_repeat" "redelivered-in-flush"
          s!"quit={q}: one flush of a group with one new firing alert delivered {n1} messages"] else []) ++
      (if n1 ≥ 1 ∧ log1 = 0 then [Msg.propfail "notify_only_if_changed_or_repeat" "delivered-not-logged"
          s!"quit={q}: the message was accepted by the server but the notification log has no entry: the next flush will notify again"] else []) ++
      (if n1 ≥ 1 ∧ n2 > 0 then [Msg.propfail "notify_only_if_changed_or_repeat" "unchanged-group-renotified"
          s!"quit={q}: the unchanged group was notified again on the next flush ({n2} more messages), repeat_interval (4 h) has not passed"] else []) ++ t)
  | _ => (σ, [.diff "parse" "?" (" ".intercalate op)])

def engine : Engine St where
  init _ := {}
  step := step

end Driver.Email
