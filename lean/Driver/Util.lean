import Std.Data.HashSet
/-
  Driver plumbing shared by all engines: token parsing, the per-line message
  type, and the main loop that folds an engine over a trace read from stdin.

  Trace format (written by /verif/harness):
    # comment
    case <id> <header tokens…>          -- starts a fresh model state
    <op tokens…> -> <observed tokens…>   -- one operation and what the implementation answered

  Output:
    DIFF <line> <case> <what> model=<…> impl=<…>     model and implementation disagree
    PROPFAIL <line> <case> <theorem> class=<c> <detail>   spec predicate false on the implementation's own output
    COV <tag> <count>                                  branch coverage of the run
    SUMMARY cases=… lines=… diffs=… propfails=… distinct=… distinct_nontrivial=…
-/
namespace Driver

inductive Msg where
  | diff (what model impl : String)
  | propfail (thm cls detail : String)
  | tag (t : String)
  deriving Repr

def splitTok (s : String) : List String :=
  (s.splitOn " ").filter (· ≠ "")

def toInt! (s : String) : Int := s.toInt?.getD 0
def toNat! (s : String) : Nat := s.toNat?.getD 0

/-- "a.b.c" ↔ list; "-" is the empty list. -/
def splitList (sep : String) (s : String) : List String :=
  if s = "-" ∨ s = "" then [] else s.splitOn sep
def joinList (sep : String) (l : List String) : String :=
  if l.isEmpty then "-" else sep.intercalate l

def natList (s : String) : List Nat := (splitList "." s).map toNat!
def showNatList (l : List Nat) : String := joinList "." (l.map toString)

/-- `key=value` lookup in header tokens. -/
def kv (toks : List String) (k : String) : Option String :=
  toks.findSome? fun t =>
    match t.splitOn "=" with
    | [k', v] => if k' = k then some v else none
    | _ => none
def kvInt (toks : List String) (k : String) (d : Int) : Int := ((kv toks k).bind String.toInt?).getD d
def kvNat (toks : List String) (k : String) (d : Nat) : Nat := ((kv toks k).bind String.toNat?).getD d

def hexVal (c : Char) : Nat :=
  if '0' ≤ c ∧ c ≤ '9' then c.toNat - '0'.toNat
  else if 'a' ≤ c ∧ c ≤ 'f' then c.toNat - 'a'.toNat + 10
  else if 'A' ≤ c ∧ c ≤ 'F' then c.toNat - 'A'.toNat + 10 else 0

/-- hex → bytes -/
def unhexBytes (s : String) : List UInt8 :=
  let rec go : List Char → List UInt8
    | a :: b :: rest => UInt8.ofNat (hexVal a * 16 + hexVal b) :: go rest
    | _ => []
  go s.toList

def hexDigit (n : Nat) : Char := if n < 10 then Char.ofNat (48 + n) else Char.ofNat (87 + n)
def hexBytes (bs : List UInt8) : String :=
  String.ofList (bs.foldr (fun b acc => hexDigit (b.toNat / 16) :: hexDigit (b.toNat % 16) :: acc) [])

/-- hex-encoded UTF-8 → String ("-" = empty). Invalid UTF-8 never reaches this helper. -/
def unhexStr (s : String) : String :=
  if s = "-" then "" else
  match String.fromUTF8? (ByteArray.mk (unhexBytes s).toArray) with
  | some r => r
  | none => ""
def hexStr (s : String) : String :=
  if s.isEmpty then "-" else hexBytes s.toUTF8.toList

structure Engine (σ : Type) where
  init : List String → σ
  step : σ → List String → List String → σ × List Msg

structure Acc (σ : Type) where
  st : σ
  caseId : String := "-"
  caseHash : UInt64 := 0
  caseNT : Bool := false
  inCase : Bool := false
  cases : Nat := 0
  lines : Nat := 0
  diffs : Nat := 0
  propfails : Nat := 0
  seen : Std.HashSet UInt64 := {}      -- hashes of distinct cases
  seenNT : Std.HashSet UInt64 := {}    -- hashes of distinct non-trivial cases
  cov : List (String × Nat) := []

def bump (cov : List (String × Nat)) (t : String) : List (String × Nat) :=
  match cov with
  | [] => [(t, 1)]
  | (k, n) :: rest => if k = t then (k, n + 1) :: rest else (k, n) :: bump rest t

def Acc.closeCase {σ} (a : Acc σ) : Acc σ :=
  if !a.inCase then a else
  let seen := a.seen.insert a.caseHash
  let seenNT := if a.caseNT then a.seenNT.insert a.caseHash else a.seenNT
  { a with seen, seenNT, inCase := false }

partial def loop {σ} (eng : Engine σ) (h : IO.FS.Stream) (out : IO.FS.Stream) (a : Acc σ) (lineNo : Nat) : IO (Acc σ) := do
  let line ← h.getLine
  if line.isEmpty then return a.closeCase
  let l := (line.dropRightWhile (fun c => c = '\n' ∨ c = '\r'))
  if l.isEmpty ∨ l.startsWith "#" then loop eng h out a (lineNo + 1) else
  let toks := splitTok l
  match toks with
  | "case" :: id :: hdr =>
    let a := a.closeCase
    loop eng h out { a with st := eng.init hdr, caseId := id, caseHash := hash (hdr.foldl (· ++ " " ++ ·) ""), caseNT := false,
                            inCase := true, cases := a.cases + 1 } (lineNo + 1)
  | _ =>
    let (op, obs) := match l.splitOn " -> " with
      | [o] => (splitTok o, [])
      | o :: rest => (splitTok o, splitTok (" -> ".intercalate rest))
      | [] => ([], [])
    let (st', msgs) := eng.step a.st op obs
    let mut a := { a with st := st', lines := a.lines + 1, caseHash := mixHash a.caseHash (hash l) }
    for m in msgs do
      match m with
      | .diff w mo im =>
        out.putStrLn s!"DIFF {lineNo} {a.caseId} {w} model={mo} impl={im}"
        a := { a with diffs := a.diffs + 1 }
      | .propfail t c d =>
        out.putStrLn s!"PROPFAIL {lineNo} {a.caseId} {t} class={c} {d}"
        a := { a with propfails := a.propfails + 1 }
      | .tag t => a := { a with cov := bump a.cov t, caseNT := true }
    loop eng h out a (lineNo + 1)

def runEngine {σ} (eng : Engine σ) : IO UInt32 := do
  let stdin ← IO.getStdin
  let stdout ← IO.getStdout
  let a ← loop eng stdin stdout { st := eng.init [] } 1
  for (t, n) in a.cov do
    stdout.putStrLn s!"COV {t} {n}"
  stdout.putStrLn s!"SUMMARY cases={a.cases} lines={a.lines} diffs={a.diffs} propfails={a.propfails} distinct={a.seen.size} distinct_nontrivial={a.seenNT.size}"
  return 0

/-- compare helper -/
def expectEq (what model impl : String) : List Msg :=
  if model = impl then [] else [.diff what model impl]

end Driver
