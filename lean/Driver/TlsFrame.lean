/-
  Engine `tlsframe` (C19): concurrent packet bursts over the real TLS gossip transport.
    burst <senders> <packets each> <payload size> -> <received intact> <corrupt> <missing> <write errors>
    restart <n> -> <received> <first index received> <last index received> <write errors>
       the peer restarted on its address, then n packets one after the other
-/
import Driver.Util
import AM.Model.Frame
import AM.Model.ConnPool

namespace Driver.TlsFrame
open Driver AM.Frame

structure St where
  unit : Unit := ()

def step (σ : St) (op obs : List String) : St × List Msg :=
  match op, obs with
  | ["burst", g, n, size], [got, corrupt, missing, errs] =>
    let g := toNat! g; let n := toNat! n; let size := toNat! size
    -- the model: every sender writes whole frames; the stream is some interleaving of whole frames and the
    -- receiver's loop reads back exactly the frames written (decode_stream) — checked here on a small instance
    -- of the same shape, the theorem covers all sizes
    let frames := (List.range (min (g * n) 6)).map fun i => List.replicate (min size 5) (i % 251)
    let modelOk := decodeFrames (frames.length + 1) (streamOf frames) == some frames
    let total := g * n
    let pf := if toNat! corrupt > 0 ∨ toNat! missing > 0 then
        [Msg.propfail "decode_stream" "frames-interleaved" s!"{total} packets from {g} concurrent senders: {got} intact, {corrupt} corrupt, {missing} never received"]
      else []
    (σ, expectEq "burst.received" (toString total) got ++ expectEq "burst.errors" "0" errs
        ++ (if modelOk then [] else [.diff "model" "frames parse back" "not"]) ++ pf
        ++ [.tag (if g > 1 then "burst:concurrent" else "burst:single")])
  | ["restart", n], [got, first, last, errs] =>
    let n := toNat! n
    -- the model: the pooled connection (generation 0) is dead for the restarted peer (it accepts generations ≥ 1):
    -- one send fails and marks it, the next one dials (AM.ConnPool.recovers_after_one_failure), all later ones arrive
    let p0 : AM.ConnPool.Pool := { cache := some ⟨0, true⟩, next := 1 }
    let modelDelivered := ((List.range n).foldl (fun (acc : AM.ConnPool.Pool × Nat) _ =>
      let r := AM.ConnPool.send acc.1 1
      (r.1, if r.2 then acc.2 + 1 else acc.2)) (p0, 0)).2
    -- TCP may accept one more write before it reports the broken connection: the implementation may lose up to
    -- two packets more than the model; what must hold is that the tail of the sequence arrives
    let pf := if toInt! last + 1 = (n : Int) then [] else
      [Msg.propfail "recovers_after_one_failure" "dead-connection-reused"
        s!"after the peer restarted, {n} packets were written one after the other ({errs} write errors): {got} arrived, the last one that arrived is #{last}; the model delivers {modelDelivered} of {n}, all but the first"]
    (σ, pf ++ (if toInt! first ≤ 3 then [] else [.diff "restart.first-delivered" "≤ 3" first]) ++ [.tag "restart"])
  | _, _ => (σ, [.diff "parse" "?" (" ".intercalate op)])

def engine : Engine St where
  init _ := {}
  step := step

end Driver.TlsFrame
