/-
  Engine `tlsframe` (C19): concurrent packet bursts over the real TLS gossip transport.
    burst <senders> <packets each> <payload size> -> <received intact> <corrupt> <missing> <write errors>
-/
import Driver.Util
import AM.Model.Frame

namespace Driver.TlsFrame
open Driver AM.Frame

structure St where
  unit : Unit := ()

def step (σ : St) (op obs : List String) : St × List Msg :=
  match op, obs with
  | ["burst", g, n, size], [got, corrupt, missing, errs] =>
    let g := toNat! g; let n := toNat! n; let size := toNat! size
    -- the model: every sender writes whole frames; the stream is some interleaving of whole frames and the
    -- receiver's loop reads back exactly the frames written (decode_stream) — checked here on a small instance
    -- of the same shape, the theorem covers all sizes
    let frames := (List.range (min (g * n) 6)).map fun i => List.replicate (min size 5) (i % 251)
    let modelOk := decodeFrames (frames.length + 1) (streamOf frames) == some frames
    let total := g * n
    let pf := if toNat! corrupt > 0 ∨ toNat! missing > 0 then
        [Msg.propfail "decode_stream" "frames-interleaved" s!"{total} packets from {g} concurrent senders: {got} intact, {corrupt} corrupt, {missing} never received"]
      else []
    (σ, expectEq "burst.received" (toString total) got ++ expectEq "burst.errors" "0" errs
        ++ (if modelOk then [] else [.diff "model" "frames parse back" "not"]) ++ pf
        ++ [.tag (if g > 1 then "burst:concurrent" else "burst:single")])
  | _, _ => (σ, [.diff "parse" "?" (" ".intercalate op)])

def engine : Engine St where
  init _ := {}
  step := step

end Driver.TlsFrame
