/-
  Engine `gossip` (C19): the real `cluster.delegate` (through the tagged export
  `cluster.NewVerifDelegate`) and the real `cluster.Channel` vs `AM.Gossip`.

  Two nodes A (index 0) and B (1), each a delegate over small test states (id ↦ version, LWW).
    case <id> keysA=<k.k> keysB=<k.k> peers=<n>
    notify <node> part <key> <payload>          -> <dump>     NotifyMsg(Marshal(Part))
    notify <node> raw <hex>                      -> <dump>     NotifyMsg(arbitrary bytes)
    mergefull <node> <key>/<payload>;…          -> <dump>     MergeRemoteState(Marshal(FullState))
    mergefull <node> raw <hex>                   -> <dump>
    exchange <from> <to>                         -> <dump of to>   to.MergeRemoteState(from.LocalState())
    pushpull <from> <to>                         -> <dump of to>   the periodic exchange: to.MergeRemoteState(from.LocalState(join=false)) (skipped when empty, as memberlist does)
    lose                                         -> lost=<n>       everything queued for gossip at A is transmitted and lost
    bcast <key> <payload> <pad>                  -> <gossip|oversize|dropped> size=<n> dropped=<n> sends=<n>
    hold <0|1>                                   -> ok        reliable sends block / are released
    deliver                                      -> gossiped=<n> oversize=<n> sends=<total> <dump of B>   release sends; A.GetBroadcasts and the reliable sends to peer 0 → B.NotifyMsg
  payload: `bad` | `e:` id=ver,…   dump: key{id=ver,…} sorted, ';'-joined.
-/
import Driver.Util
import AM.Model.Gossip

namespace Driver.Gossip
open Driver AM AM.AList AM.Gossip

def parseEntries (s : String) : List (String × Nat) :=
  (splitList "," s).filterMap fun e =>
    match e.splitOn "=" with
    | [k, v] => some (k, toNat! v)
    | _ => none

def parsePayload (s : String) : Payload :=
  if s = "bad" then .bad else .entries (parseEntries (String.ofList (s.toList.drop 2)))

def insertS {α : Type} (e : String × α) : List (String × α) → List (String × α)
  | [] => [e]
  | x :: xs => if e.1 < x.1 then e :: x :: xs else x :: insertS e xs
def sortS {α : Type} (l : List (String × α)) : List (String × α) := l.foldl (fun acc e => insertS e acc) []

def showKV (s : KV) : String := ",".intercalate ((sortS s).map fun kv => s!"{kv.1}={kv.2}")
def dump (st : States) : String :=
  joinList ";" ((sortS st).map fun kv => kv.1 ++ "{" ++ showKV kv.2 ++ "}")

def parseDump (d : String) : States :=
  (splitList ";" d).filterMap fun e =>
    match e.splitOn "{" with
    | [k, rest] => some (k, parseEntries (String.ofList (rest.toList.filter (· ≠ '}'))))
    | _ => none

structure St where
  a : States := []
  b : States := []
  implA : States := []
  implB : States := []
  chan : Chan := { key := "sil" }
  peers : List String := []
  held : Bool := false
  pendingGossip : List Part := []    -- queued at A's TransmitLimitedQueue, not yet delivered
  pendingOversize : List Part := []  -- reliable sends to peer 0 (= node B) started, applied at `deliver`
  sends : Nat := 0
  implOversize : Nat := 0            -- broadcasts the implementation put on the oversize path
  lostSome : Bool := false           -- a queued gossip update was lost (`lose`)

def St.get (σ : St) (n : String) : States := if n = "0" then σ.a else σ.b
def St.set (σ : St) (n : String) (x : States) : St := if n = "0" then { σ with a := x } else { σ with b := x }
def St.impl (σ : St) (n : String) : States := if n = "0" then σ.implA else σ.implB
def St.setImpl (σ : St) (n : String) (x : States) : St := if n = "0" then { σ with implA := x } else { σ with implB := x }

/-- id-wise domination of `x` over `y` for one key -/
def domKV (x y : KV) : Bool := y.all fun e => match lookup x e.1 with | some w => e.2 ≤ w | none => false

/-- nothing held got older or vanished -/
def notBackwards (before after : States) : List Msg :=
  before.foldl (fun acc kv =>
    match lookup after kv.1 with
    | some s => if domKV s kv.2 then acc else acc ++ [Msg.propfail "duplicate_inert" "went-backwards" s!"key={kv.1} before={showKV kv.2} after={showKV s}"]
    | none => acc ++ [Msg.propfail "unknown_key_inert" "state-vanished" s!"key={kv.1}"]) []

def parseParts (s : String) : List Part :=
  (splitList ";" s).filterMap fun e =>
    match e.splitOn "/" with
    | [k, p] => some ⟨k, parsePayload p⟩
    | _ => none

/-- run the sender goroutine of the model as far as it can go; returns the channel, the number of
    reliable sends started, and the parts sent to peer "0" (the harness wires that peer to node B) -/
def pump (fuel : Nat) (c : Chan) (peers : List String) (held : Bool) (sends : Nat) (toB : List Part) : Chan × Nat × List Part :=
  match fuel with
  | 0 => (c, sends, toB)
  | f + 1 =>
    let (c1, s1) := take c peers
    let took := c1.inflight ≠ c.inflight ∨ c1.queue.length ≠ c.queue.length
    if !took then
      (match c.inflight with
       | some _ => if !held ∨ peers.isEmpty then pump f (finish c) peers held sends toB else (c, sends, toB)
       | none => (c, sends, toB))
    else
      let c2 := if !held ∨ peers.isEmpty then finish c1 else c1
      pump f c2 peers held (sends + s1.length) (toB ++ (s1.filter (·.1 = "0")).map (·.2))

def step (σ : St) (op obs : List String) : St × List Msg :=
  match op, obs with
  | ["notify", n, "part", key, payload], [dmp] =>
    let before := σ.get n
    let p : Part := ⟨key, parsePayload payload⟩
    let after := notifyMsg before (.part p)
    let cur := parseDump dmp
    let prev := σ.impl n
    let pf : List Msg :=
      notBackwards prev cur
      ++ (match p.data, lookup prev key with
          | .entries l, some _ =>
            (match lookup cur key with
             | some s => if domKV s l then [] else [Msg.propfail "broadcast_routed_once" "not-merged" s!"key={key} update={payload} state={showKV s}"]
             | none => [])
          | _, _ => [])
      ++ (if prev.any (fun kv => kv.1 ≠ key ∧ lookup cur kv.1 ≠ some kv.2) then
            [Msg.propfail "broadcast_routed_once" "wrong-state-touched" s!"update for {key}: before={dump prev} after={dmp}"] else [])
      ++ (if (p.data = .bad ∨ (lookup prev key).isNone) ∧ dump prev ≠ dmp then
            [Msg.propfail (if p.data = .bad then "malformed_inert" else "unknown_key_inert") "changed-state" s!"before={dump prev} after={dmp}"] else [])
    let tags : List Msg :=
      (if (lookup before key).isNone then [.tag "notify:unknown-key"]
       else if p.data = .bad then [.tag "notify:bad-payload"]
       else if dump after = dump before then [.tag "notify:duplicate-or-older"] else [.tag "notify:merged"])
    ((σ.set n after).setImpl n cur, expectEq "notify" (dump after) dmp ++ pf ++ tags)
  | ["notify", n, "raw", _hex], [dmp] =>
    let prev := σ.impl n
    let pf := if dump prev ≠ dmp then [Msg.propfail "malformed_inert" "changed-state" s!"raw bytes: before={dump prev} after={dmp}"] else []
    (σ.setImpl n (parseDump dmp), expectEq "notify.raw" (dump (σ.get n)) dmp ++ pf ++ [.tag "notify:raw"])
  | ["mergefull", n, "raw", _hex], [dmp] =>
    let prev := σ.impl n
    let pf := if dump prev ≠ dmp then [Msg.propfail "malformed_inert" "changed-state" s!"raw full state: before={dump prev} after={dmp}"] else []
    (σ.setImpl n (parseDump dmp), expectEq "mergefull.raw" (dump (σ.get n)) dmp ++ pf ++ [.tag "mergefull:raw"])
  | ["mergefull", n, parts], [dmp] =>
    let before := σ.get n
    let ps := parseParts parts
    let after := mergeRemoteState before (.parts ps)
    let old := mergeRemoteStateOld before (.parts ps)
    let cur := parseDump dmp
    let prev := σ.impl n
    let f5 := dump old = dmp ∧ dump after ≠ dmp
    let hasBad := ps.any fun p => p.data = .bad ∧ (lookup prev p.key).isSome
    let pf : List Msg :=
      notBackwards prev cur
      ++ ps.foldl (fun acc p =>
          match p.data, lookup prev p.key, lookup cur p.key with
          | .entries l, some _, some s =>
            if domKV s l then acc else
              acc ++ [Msg.propfail "bad_part_does_not_block_others" (if hasBad then "blocked" else "part-not-merged")
                        s!"part {p.key} e:{showKV l} not merged; state={showKV s}; message={parts}"]
          | _, _, _ => acc) []
    let tags : List Msg :=
      (if hasBad then (if f5 ∨ dump old ≠ dump after then [.tag "mergefull:bad-part-before-good"] else [.tag "mergefull:bad-part-last"]) else [])
      ++ (if ps.any (fun p => (lookup before p.key).isNone) then [.tag "mergefull:unknown-key"] else [])
      ++ (if ps.length ≥ 2 then [.tag "mergefull:multi"] else [])
    ((σ.set n after).setImpl n cur, expectEq "mergefull" (dump after) dmp ++ pf ++ tags)
  | [xop, fr, to], [dmp] =>
    if xop ≠ "exchange" ∧ xop ≠ "pushpull" then (σ, [.diff "parse" "?" (" ".intercalate op)]) else
    let periodic := xop = "pushpull"
    let A := σ.get fr
    let B := σ.get to
    let after := mergeRemoteState B (localState A)
    let cur := parseDump dmp
    let prevTo := σ.impl to
    let implFrom := σ.impl fr
    let pf : List Msg :=
      notBackwards prevTo cur
      ++ implFrom.foldl (fun acc kv =>
          match lookup prevTo kv.1, lookup cur kv.1 with
          | some _, some s => if domKV s kv.2 then acc else
              acc ++ [Msg.propfail "full_state_superset" (if periodic then "missing-after-periodic-exchange" else "missing-after-exchange")
                        s!"key={kv.1} sender={showKV kv.2} receiver={showKV s}"]
          | _, _ => acc) []
    -- did this exchange repair something the receiver had missed?
    let repaired := implFrom.any fun kv => match lookup prevTo kv.1 with | some s => !domKV s kv.2 | none => false
    ((σ.set to after).setImpl to cur, expectEq xop (dump after) dmp ++ pf
        ++ [if A.any (fun kv => (lookup B kv.1).isNone) then .tag s!"{xop}:key-unknown-to-receiver" else .tag xop]
        ++ (if periodic ∧ repaired then [.tag "pushpull:repaired-a-missed-update"] else [])
        ++ (if periodic ∧ repaired ∧ σ.lostSome then [.tag "pushpull:repaired-a-lost-broadcast"] else []))
  | ["lose"], [n] =>
    ({ σ with pendingGossip := [], lostSome := σ.lostSome || !σ.pendingGossip.isEmpty },
      expectEq "lose.lost" (toString σ.pendingGossip.length) (toString (kvNat [n] "lost" 0)) ++ [.tag "lose"])
  | ["bcast", key, payload, _pad], [path, size, dropped, sends] =>
    let sz := kvNat [size] "size" 0
    let c0 := { σ.chan with key := key }
    let c1 := broadcast c0 (parsePayload payload) sz
    let mpath := if sz ≤ threshold then "gossip" else if c1.dropped > c0.dropped then "dropped" else "oversize"
    let (c2, ns, tb) := pump 500 c1 σ.peers σ.held σ.sends σ.pendingOversize
    let newGossip := if mpath = "gossip" then [(⟨key, parsePayload payload⟩ : Part)] else []
    let pf : List Msg :=
      (if (path = "gossip") ≠ (sz ≤ threshold) then [Msg.propfail "broadcast_conservation" "wrong-path" s!"size={sz} path={path}"] else [])
      ++ (if path = "dropped" ∧ kvNat [dropped] "dropped" 0 ≠ c0.dropped + 1 then [Msg.propfail "broadcast_conservation" "drop-not-counted" s!"dropped counter {c0.dropped}->{dropped}"] else [])
      ++ (if path = "dropped" ∧ mpath = "oversize" then [Msg.propfail "broadcast_conservation" "dropped-with-room" s!"queue holds {c0.queue.length} of {queueCap}"] else [])
      ++ (if path = "oversize" ∧ mpath = "dropped" then [Msg.propfail "broadcast_conservation" "over-capacity" s!"queue holds {c0.queue.length} of {queueCap}"] else [])
    ({ σ with chan := { c2 with gossip := [] }, sends := ns, pendingOversize := tb, pendingGossip := σ.pendingGossip ++ newGossip,
              implOversize := σ.implOversize + (if path = "oversize" then 1 else 0) },
      expectEq "bcast.path" mpath path ++ expectEq "bcast.dropped" (toString c2.dropped) (toString (kvNat [dropped] "dropped" 0))
        ++ expectEq "bcast.sends" (toString ns) (toString (kvNat [sends] "sends" 0)) ++ pf
        ++ [.tag s!"bcast:{mpath}"] ++ (if sz > 690 ∧ sz ≤ 710 then [.tag "bcast:near-threshold"] else []))
  | ["hold", h], _ =>
    let held := h = "1"
    let (c2, ns, tb) := pump 500 σ.chan σ.peers held σ.sends σ.pendingOversize
    ({ σ with held, chan := c2, sends := ns, pendingOversize := tb }, [])
  | ["deliver"], [g, ov, snd, dmp] =>
    -- sends are released; everything gossiped or sent reliably so far reaches B through NotifyMsg
    let (c2, ns, tb) := pump 500 σ.chan σ.peers false σ.sends σ.pendingOversize
    let all := tb ++ σ.pendingGossip
    let after := all.foldl (fun st p => notifyMsg st (.part p)) σ.b
    let cur := parseDump dmp
    let pf : List Msg :=
      notBackwards σ.implB cur
      ++ all.foldl (fun acc p =>
          match p.data, lookup σ.implB p.key, lookup cur p.key with
          | .entries l, some _, some s => if domKV s l then acc else
              acc ++ [Msg.propfail "broadcast_routed_once" "update-lost" s!"key={p.key} update e:{showKV l} state={showKV s}"]
          | _, _, _ => acc) []
      ++ (if kvNat [snd] "sends" 0 ≠ σ.implOversize * σ.peers.length then
            [Msg.propfail "oversize_reaches_every_peer" "peer-skipped" s!"{σ.implOversize} oversize broadcasts, {σ.peers.length} peers, {snd} reliable sends"] else [])
    ({ σ with b := after, implB := cur, pendingGossip := [], pendingOversize := [], chan := c2, sends := ns, held := false },
      expectEq "deliver.gossiped" (toString σ.pendingGossip.length) (toString (kvNat [g] "gossiped" 0))
        ++ expectEq "deliver.oversize" (toString tb.length) (toString (kvNat [ov] "oversize" 0))
        ++ expectEq "deliver.dump" (dump after) dmp ++ pf ++ [.tag "deliver"] ++ (if tb.isEmpty then [] else [.tag "deliver:oversize"]))
  | _, _ => (σ, [.diff "parse" "?" (" ".intercalate op)])

def init (hdr : List String) : St :=
  let mk (s : String) : States := (splitList "." s).map fun k => (k, [])
  let a := mk ((kv hdr "keysA").getD "-")
  let b := mk ((kv hdr "keysB").getD "-")
  { a, b, implA := a, implB := b, peers := (List.range (kvNat hdr "peers" 0)).map toString }

def engine : Engine St where
  init := init
  step := step

end Driver.Gossip
