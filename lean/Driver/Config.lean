/-
  Engine `config` (C17): replays the harness trace on AM.Config and evaluates
  the C17 spec predicates on the implementation's own output.

  Header: case <id> mode=<tree|secrets|coord|fuzz|fields>

  cfg <seed> <profile> -> <flags> <rtree> <rrecvs> <rmutes> <rtis>      raw description (what YAML decoding yields)
                          <class>                                       ok | <Err name> | panic | timeout
                          <itree> <irecvs> <imutes> <itis>              the accepted *config.Config (or - - - -)
                          <stringhex> <canaries>                        Config.String(), name:hexvalue,…
                          <tree2> <x1> <x2>                             after Load(String()): tree, rules+intervals hash before/after
                          <built>                                       same | changed | panic | -: Config.String() after dispatch.NewRoute(cfg.Route) vs before
  reload <v|i|s> <seed> -> <err 0|1> <calls> <ptr same|new|nil> <applied> <file>
  fuzz <seed> <n> -> <npanic> <ntimeout> <sites>
  fields -> <nfields> <missing> <unpinned> <unmasked>

  node = depth:recv:gb:matchnames:nmatchers:mute:active:cont:gi:ri:extra
         gb ~ absent, - explicit empty, else '.'-joined hex labels ('_' = empty string)
-/
import Driver.Util
import AM.Model.Config

namespace Driver.Config
open Driver AM.Config

def unhexName (s : String) : String := if s = "_" then "" else unhexStr s

def nameList (s : String) : List String :=
  if s = "~" ∨ s = "-" ∨ s = "" then [] else (s.splitOn ".").map unhexName

def optInt (s : String) : Option Int := if s = "~" then none else s.toInt?

def parseNode (s : String) : Option (Nat × Node) :=
  match s.splitOn ":" with
  | [d, recv, gb, mn, nm, mute, active, cont, gi, ri, extra] =>
    some (toNat! d,
      { receiver := unhexStr recv,
        groupBy := if gb = "~" then none else some (nameList gb),
        matchNames := nameList mn, nMatchers := toNat! nm,
        mute := nameList mute, active := nameList active, cont := cont = "1",
        groupInterval := optInt gi, repeatInterval := optInt ri, extra := extra })
  | _ => none

partial def build (d : Nat) (items : List (Nat × Node)) : List Route × List (Nat × Node) :=
  match items with
  | [] => ([], [])
  | (d', n) :: rest =>
    if d' = d then
      let (children, rest') := build (d + 1) rest
      let (sibs, rest'') := build d rest'
      (Route.mk n children :: sibs, rest'')
    else ([], items)

def parseTree (s : String) : Option Route :=
  if s = "~" ∨ s = "-" then none else
  match (build 0 ((s.splitOn "|").filterMap parseNode)).1 with
  | r :: _ => some r
  | [] => none

def parseRecvs (s : String) : List RawReceiver :=
  if s = "~" ∨ s = "-" then [] else
  (s.splitOn "|").filterMap fun t =>
    match t.splitOn ":" with
    | [n, l, f] => some { name := unhexName n, labelName := if l = "~" then none else some (unhexName l), needsDefault := f = "1" }
    | _ => none

def parseNames (s : String) : List String :=
  if s = "~" ∨ s = "-" then [] else (s.splitOn "|").map unhexName

def parseCfg (flags tree recvs mutes tis : String) : RawConfig :=
  { decodeFault := flags.contains 'D', globalConflict := flags.contains 'G',
    route := parseTree tree, receivers := parseRecvs recvs,
    muteIntervals := parseNames mutes, timeIntervals := parseNames tis }

def clearExtra : Route → Route
  | .mk n cs => .mk { n with extra := "", matchNames := [] } (clearList cs)
where
  clearList : List Route → List Route
    | [] => []
    | r :: rs => clearExtra r :: clearList rs

def showTree (r : Option Route) : String := reprStr (r.map clearExtra)

def contains (hay needle : String) : Bool := needle ≠ "" ∧ (hay.splitOn needle).length > 1

structure St where
  mode : String := ""
  coord : Coord String := {}

/-- do two trees differ only by explicit-empty group_by becoming absent? -/
def onlyEmptyGroupByLost (a b : String) : Bool :=
  let na := (a.splitOn "|").filterMap parseNode
  let nb := (b.splitOn "|").filterMap parseNode
  na.length = nb.length ∧
  (na.zip nb).all fun (x, y) =>
    x.1 = y.1 ∧ (x.2 = y.2 ∨ (x.2.groupBy = some [] ∧ y.2.groupBy = none ∧ { x.2 with groupBy := none } = y.2))

def cfgStep (σ : St) (profile : String) (obs : List String) : St × List Msg :=
  match obs with
  | [flags, rtree, rrecvs, rmutes, rtis, cls, itree, irecvs, imutes, itis, strhex, canaries, tree2, x1, x2, built] =>
    let raw := parseCfg flags rtree rrecvs rmutes rtis
    let m := match validate raw with
      | .ok _ => "ok"
      | .error e => e.name
    let total : List Msg :=
      if cls = "panic" then [.propfail "load_total" "panic" s!"config.Load panicked (model: {m})"]
      else if cls = "timeout" then [.propfail "load_total" "hang" "config.Load did not return in time"]
      else if flags = "?" then []
      else expectEq "load.class" m cls
    let accepted : List Msg :=
      if cls ≠ "ok" then [] else
      let impl := parseCfg "-" itree irecvs imutes itis
      (violated impl).map (fun c => Msg.propfail "validate_ok_wellformed" c s!"accepted configuration violates clause {c} (model: {m})")
        ++ (if m = "ok" ∧ flags ≠ "?" then expectEq "load.tree" (showTree raw.route) (showTree impl.route)
              ++ expectEq "load.receivers" (reprStr (raw.receivers.map (·.name))) (reprStr (impl.receivers.map (·.name)))
              ++ expectEq "load.intervals" (reprStr (raw.muteIntervals ++ raw.timeIntervals)) (reprStr (impl.muteIntervals ++ impl.timeIntervals))
            else [])
    let leaks : List Msg :=
      if strhex = "-" ∨ canaries = "-" then [] else
      let text := unhexStr strhex
      (canaries.splitOn ",").filterMap fun c =>
        match c.splitOn ":" with
        | [name, v] =>
          if name.startsWith "LOST." then some (Msg.diff "secrets.canary" "loaded" s!"{name}: canary did not reach the loaded configuration")
          else if contains text (unhexStr v) then
            some (Msg.propfail "secret_leaves_masked" (if name.endsWith ".userinfo" then "leak-url-userinfo" else "leak") s!"{name}: Config.String() shows the secret value")
          else none
        | _ => none
    let stable : List Msg :=
      if tree2 = "-" then []
      else if tree2 = "err" then [.propfail "print_load_stable" "reload-rejected" "Load(Config.String()) of an accepted secret-free configuration fails"]
      else
        (if tree2 = itree then []
         else if onlyEmptyGroupByLost itree tree2 then
           [.propfail "print_load_stable" "groupby-empty-override" "a route's explicit `group_by: []` is dropped by Config.String(): the reloaded route inherits its parent's grouping"]
         else [.propfail "print_load_stable" "tree" s!"routing tree changes across print -> load"])
        ++ (if x1 = x2 then [] else [.propfail "print_load_stable" "rules-or-intervals" "inhibit rules / time intervals change across print -> load"])
        -- the model of the code as it is predicts exactly the omitempty loss
        ++ expectEq "stable.tree" (showTree ((parseTree itree).map printLoad)) (showTree (parseTree tree2))
    -- the configuration is an INPUT of the routing-tree build (dispatch.NewRoute, run by every apply): what Config.String()
    -- prints — the text the status API serves and print -> load is stated about — is the same before and after it
    let pure : List Msg :=
      if built = "changed" then [.propfail "print_load_stable_partial" "config-mutated-by-tree-build"
          "Config.String() of the loaded configuration differs before and after dispatch.NewRoute(cfg.Route): building the routing tree rewrote the configuration it was given"]
      else if built = "panic" then [.propfail "load_total" "apply-panic" "applying an accepted configuration (dispatch.NewRoute, receiver.BuildReceiverIntegrations) panics: a reload with it kills the process instead of being applied or rejected"]
      else []
    let tags : List Msg :=
      [.tag s!"profile:{profile}", .tag s!"class:{m}"] ++
      (if built = "same" then [.tag "treebuild:checked"] else []) ++
      (match raw.route with
       | some r => if r.all (fun n => !(n.matchNames.length = 1 ∧ [4, 6, 7, 8].contains n.nMatchers)) then [] else [.tag "route:match+matchers-with-spare-capacity"]
       | none => []) ++
      (if canaries ≠ "-" then [.tag "secrets:checked"] else []) ++
      (if tree2 ≠ "-" then [.tag "stable:checked"] else []) ++
      (match raw.route with
       | some r => if r.all (fun n => n.groupBy ≠ some []) then [] else [.tag "groupby:explicit-empty"]
       | none => [])
    (σ, total ++ accepted ++ leaks ++ stable ++ pure ++ tags)
  | _ => (σ, [.diff "parse" "?" s!"cfg with {obs.length} tokens"])

def step (σ : St) (op obs : List String) : St × List Msg :=
  match op, obs with
  | ["cfg", _, profile], _ => cfgStep σ profile obs
  | ["yaml", _], _ => cfgStep σ "yaml" obs
  | ["reload", kind, _], [err, calls, ptr, applied, file, running] =>
    let load : Except Unit String := if kind = "i" then .error () else .ok file
    let (c', ok) := σ.coord.reload load (kind ≠ "s")
    let mErr := if ok then "0" else "1"
    let mCalls := if kind = "i" then "0" else "1"
    let mPtr := if kind = "i" then "same" else "new"
    let mApplied := (c'.applied.head?).getD "-"
    let pf : List Msg :=
      if kind = "i" ∧ (ptr ≠ "same" ∨ calls ≠ "0" ∨ err ≠ "1" ∨ applied ≠ mApplied) then
        [.propfail "failed_reload_keeps_config" (if ptr ≠ "same" then "config-replaced" else if calls ≠ "0" then "subscribers-called" else "not-rejected")
          s!"reload of an invalid file: err={err} subscriber calls={calls} coordinator config={ptr} in force={applied} (was {mApplied})"]
      else if running ≠ "-" ∧ running ≠ applied then
        -- the text of the configuration in force differs from what it was when it was applied: loading another
        -- file (accepted or rejected) reached into the running configuration
        [.propfail "failed_reload_keeps_config" "running-config-mutated"
          s!"the configuration in force now prints as {running}, it printed as {applied} when it was applied (reload kind {kind})"]
      else []
    ({ σ with coord := c' },
      expectEq "reload.err" mErr err ++ expectEq "reload.calls" mCalls calls ++ expectEq "reload.ptr" mPtr ptr
        ++ expectEq "reload.applied" mApplied applied ++ pf ++ [.tag s!"reload:{kind}"])
  | ["fuzz", _, _], [npanic, ntimeout, sites] =>
    (σ, (if npanic ≠ "0" then [Msg.propfail "load_total" "panic" s!"{npanic} malformed inputs make config.Load panic at {sites}"] else [])
        ++ (if ntimeout ≠ "0" then [Msg.propfail "load_total" "hang" s!"{ntimeout} inputs exceed the time bound"] else [])
        ++ [.tag "fuzz"])
  | ["fields"], [n, missing, unpinned, unmasked] =>
    (σ, expectEq "fields.missing" "-" missing ++ expectEq "fields.unpinned" "-" unpinned
        ++ (if unmasked = "-" then [] else [Msg.propfail "secret_leaves_masked" "unmasked-field" s!"secret-bearing field without a masking type: {unmasked}"])
        ++ [.tag s!"fields:{min (toNat! n / 50) 9}"])
  | _, _ => (σ, [.diff "parse" "?" (" ".intercalate op ++ " -> " ++ s!"{obs.length} tokens")])

def engine : Engine St where
  init hdr := { mode := (kv hdr "mode").getD "" }
  step := step

end Driver.Config
