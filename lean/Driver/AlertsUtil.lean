/-
  Driver helpers of work area Alerts: label-set / alert / matcher token codecs
  and an executable matcher for the regular-expression fragment the generators
  emit (literals, `.`, `*`, `+`, `?`, `|`, parentheses), by Brzozowski
  derivatives.  Go's `regexp` is the oracle: the harness emits `rematch` lines
  and the drivers compare.
-/
import Driver.Util
import AM.Model.Alert

namespace Driver.Alerts
open Driver AM

/-! ### regex fragment -/

inductive Re where
  | none | eps | chr (c : Char) | any
  | alt (a b : Re) | cat (a b : Re) | star (a : Re)
  deriving Repr, Inhabited

def Re.nullable : Re → Bool
  | .none => false | .eps => true | .chr _ => false | .any => false
  | .alt a b => a.nullable || b.nullable
  | .cat a b => a.nullable && b.nullable
  | .star _ => true

def Re.deriv (c : Char) : Re → Re
  | .none => .none | .eps => .none
  | .chr d => if c = d then .eps else .none
  | .any => if c = '\n' then .none else .eps
  | .alt a b => .alt (a.deriv c) (b.deriv c)
  | .cat a b => if a.nullable then .alt (.cat (a.deriv c) b) (b.deriv c) else .cat (a.deriv c) b
  | .star a => .cat (a.deriv c) (.star a)

def Re.matchList (r : Re) : List Char → Bool
  | [] => r.nullable
  | c :: cs => (r.deriv c).matchList cs

mutual
  partial def parseAlt (s : List Char) : Re × List Char :=
    let (a, rest) := parseCat s
    match rest with
    | '|' :: rest' => let (b, r2) := parseAlt rest'; (.alt a b, r2)
    | _ => (a, rest)
  partial def parseCat (s : List Char) : Re × List Char :=
    match s with
    | [] => (.eps, [])
    | '|' :: _ => (.eps, s)
    | ')' :: _ => (.eps, s)
    | _ =>
      let (a, rest) := parsePost s
      let (b, r2) := parseCat rest
      (.cat a b, r2)
  partial def parsePost (s : List Char) : Re × List Char :=
    let (a, rest) := parseAtom s
    parsePostOps a rest
  partial def parsePostOps (a : Re) (s : List Char) : Re × List Char :=
    match s with
    | '*' :: r => parsePostOps (.star a) r
    | '+' :: r => parsePostOps (.cat a (.star a)) r
    | '?' :: r => parsePostOps (.alt a .eps) r
    | _ => (a, s)
  partial def parseAtom (s : List Char) : Re × List Char :=
    match s with
    | '(' :: r =>
      let (a, r2) := parseAlt r
      match r2 with
      | ')' :: r3 => (a, r3)
      | _ => (a, r2)
    | '.' :: r => (.any, r)
    | '\\' :: c :: r => (.chr c, r)
    | c :: r => (.chr c, r)
    | [] => (.eps, [])
end

/-- `re pattern value`: `^(?:pattern)$` matches `value` (fragment only). -/
def reMatch (pat v : String) : Bool :=
  (parseAlt pat.toList).1.matchList v.toList

/-! ### codecs -/

/-- `name=hex,name=hex` (sorted by name) → label set. -/
def parseLabels (s : String) : Labels :=
  (splitList "," s).filterMap fun p =>
    match p.splitOn "=" with
    | [n, v] => some (n, unhexStr v)
    | _ => none

def showLabels (ls : Labels) : String :=
  joinList "," (ls.map fun (n, v) => s!"{n}={hexStr v}")

/-- `labels@start@end@updated@timeout` -/
def parseAlert (s : String) : Option Alert :=
  match s.splitOn "@" with
  | [l, st, en, up, to] =>
    some { labels := parseLabels l, startsAt := toInt! st, endsAt := toInt! en, updatedAt := toInt! up, timeout := to = "1" }
  | [l, st, en, up, to, pl] =>
    some { labels := parseLabels l, startsAt := toInt! st, endsAt := toInt! en, updatedAt := toInt! up, timeout := to = "1", payload := pl }
  | _ => none

def showAlert (a : Alert) : String :=
  s!"{showLabels a.labels}@{a.startsAt}@{a.endsAt}@{a.updatedAt}@{if a.timeout then 1 else 0}"

def parseAlerts (s : String) : List Alert := (splitList ";" s).filterMap parseAlert

def insertSortedStr (e : String) : List String → List String
  | [] => [e]
  | x :: xs => if e < x then e :: x :: xs else x :: insertSortedStr e xs

def sortStrs (l : List String) : List String := l.foldl (fun acc e => insertSortedStr e acc) []

def dumpStore (s : Store) : String :=
  joinList ";" (sortStrs (s.map fun kv => showAlert kv.2))

end Driver.Alerts
