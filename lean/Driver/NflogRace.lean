/-
  Engine `nflograce` (C10): real goroutines on one real nflog.Log.
    mergerace <k> <n> -> <firing of the raced key> <stored ts> <batch ts> <local ts>      (ts relative to the stored entry)
    renamefault <k>   -> <entries after restart> <ticks>
  Three entries of the raced key: stored (firing 1, ts 0), the merged batch's (firing 1.2, ts bu > 0), the local
  Log's (firing 1.2.3, ts lu > bu): by AM.Nflog.merge_monotone / fold_merge_newest the key holds the local one
  whatever the interleaving of Merge and Log.
-/
import Driver.Util
import AM.Model.Nflog

namespace Driver.NflogRace
open Driver AM AM.Nflog

structure St where
  unit : Unit := ()

/-- the model on the three entries, in both orders -/
def modelFinal (bu lu : Int) : String :=
  let e (ts : Int) (f : List Nat) : Entry := { key := "k", ts := ts, exp := ts + 1000000000000, firing := f, resolved := [], data := "-" }
  let s0 : State := merge 0 [] (e 0 [1])
  let a := merge 1 (merge 1 s0 (e bu [1, 2])) (e lu [1, 2, 3])
  let b := merge 1 (merge 1 s0 (e lu [1, 2, 3])) (e bu [1, 2])
  match query a "k", query b "k" with
  | some x, some y => if x.firing = y.firing then showNatList x.firing else "order-dependent"
  | _, _ => "none"

def step (σ : St) (op obs : List String) : St × List Msg :=
  match op, obs with
  | ["mergerace", _, _], [final, s0, bu, lu] =>
    let m := modelFinal (toInt! bu) (toInt! lu)
    (σ, (if toInt! s0 < toInt! bu ∧ toInt! bu < toInt! lu then [] else [.diff "mergerace.order" "stored < batch < local" s!"{s0} {bu} {lu}"])
        ++ (if final = m then [] else [Msg.propfail "merge_monotone" "merge-overwrites-concurrent-newer"
              s!"the key holds firing={final} after a Merge of an older entry (+{bu} ns) raced a local Log (+{lu} ns); newest-wins gives {m}: the merged older entry replaced the newer one"])
        ++ [.tag "mergerace"])
  | ["bigentry", n], [merged, atB, reloaded] =>
    -- an entry is accepted by a peer and reloaded by the next start whatever its size below the format's record limit
    -- (AM.Nflog.merge_result: an unexpired entry for an unknown key is stored; C11's loader limit is 4 MiB)
    let want := s!"{n}/1"
    (σ, (if merged = "ok" ∧ atB = want then [] else [Msg.propfail "merge_result" "large-entry-refused"
            s!"a log entry listing {n} firing alerts (and a small one in the same full state): Merge {merged}, the peer holds big/small = {atB}, expected {want}"])
        ++ (if reloaded = want then [] else [Msg.propfail "gc_spec" "large-entry-lost-over-restart"
            s!"after a clean shutdown the next start has big/small = {reloaded}, expected {want}"])
        ++ [.tag "bigentry"])
  | ["renamefault", _], [n, _] =>
    (σ, (if n = "1" then [] else [Msg.propfail "gc_spec" "unexpired-entry-lost-over-restart"
            "the snapshot could not be installed for a few maintenance runs (rename failed), then it could; after a clean shutdown the next start does not have the unexpired entry: later maintenance runs and the shutdown run did not write the snapshot"])
        ++ [.tag "renamefault"])
  | _, _ => (σ, [.diff "parse" "?" (" ".intercalate op)])

def engine : Engine St where
  init _ := {}
  step := step

end Driver.NflogRace
