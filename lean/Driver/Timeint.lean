/-
  Engine `timeint` (C15): replays the harness trace on `AM.TimeInterval` and
  evaluates the C15 spec predicates on the implementation's own output.
  Line formats: see harness/timeint/engine_test.go.

  Checks per line
    iv   model validation vs. the real unmarshallers (accept/reject + parsed ranges)   → DIFF;
         accepted ranges satisfy the validity invariants                              → PROPFAIL range_valid
    load model's config-level acceptance                                             → DIFF
    z    (a) the model's calendar on (unix, offset) = Go's civil fields               → DIFF civil
    c    (b) model verdict = ContainsTime                                             → DIFF contains
         (c) `specB` on Go's own civil fields = ContainsTime                          → PROPFAIL contains_iff_spec
    m    model Mutes = Intervener.Mutes → DIFF; spec on Go's fields                   → PROPFAIL mutes_spec
    st   model stage = stage Exec + marker → DIFF; gate rules on Go's fields          → PROPFAIL mute_gate/active_gate/route_gate
    local  the process's local zone (`time.Local`) for the rest of the case: no model, no spec depends on it

  The caller's zone.  `m` and `st` carry the location of the `time.Time` that is
  handed to `Intervener.Mutes` / put into the context (`Local` = the process's
  zone, as the dispatcher's timer instants have it).  The spec side never looks
  at it: an interval is read on Go's civil fields *in its own location*, UTC
  when it has none (`inSetSpec`).  A spec failure whose implementation verdict
  equals the spec evaluated in the caller's (or the process's) zone instead is
  classed `caller-zone-dependent` (`local-zone-dependent`); independently, the
  same `m`/`st` operation repeated with another caller zone must give the same
  answer (`mutes_caller_zone_irrelevant`, `*_stage_caller_zone_irrelevant`,
  `pipeline_caller_zone_irrelevant`).
-/
import Driver.Util
import AM.Model.TimeInterval

namespace Driver.Timeint
open Driver AM AM.AList AM.Calendar AM.TimeInterval

structure ZInfo where
  zone : String
  off  : Int
  k    : Clock
  dim  : Int
  dimLoc : Int := 0      -- diagnostic: month length as the pinned `daysInMonth` computes it in this zone
  deriving Inhabited

structure SetD where
  name : String
  kind : String
  ivs  : List TimeInterval := []
  ok   : Bool := true

structure St where
  sets   : List SetD := []          -- in declaration order
  loaded : Bool := false
  cfg    : Named := []
  zunix  : Int := 0
  zs     : List ZInfo := []
  marker : AList String (List String) := []
  localZone : String := "UTC"                      -- `time.Local` of the harness process
  lastM  : Option (String × String × String × String) := none   -- unix, names, caller, observation
  lastSt : Option (String × String × String) := none            -- op without caller, caller, observation

/-! parsing of the op tokens -/

/-- item token: 'x' ++ hex -/
def unx (s : String) : String := unhexStr (String.ofList (s.toList.drop 1))

def parseItems (k : Kind) (tok : String) : Option (Option (List Range)) :=
  if tok = "nil" ∨ tok = "null" then some none
  else if tok = "-" then some (some [])
  else
    let rs := (tok.splitOn ";").map fun it => parseRange k (unx it)
    if rs.all Option.isSome then some (some (rs.filterMap id)) else none

def parseTimes (tok : String) : Option (Option (List Range)) :=
  if tok = "nil" ∨ tok = "null" then some none
  else if tok = "-" then some (some [])
  else
    let rs := (tok.splitOn ";").map fun it =>
      match it.splitOn "," with
      | [a, b] => parseTimeRange (unx a) (unx b)
      | _ => none
    if rs.all Option.isSome then some (some (rs.filterMap id)) else none

def parseLoc (tok : String) : Option String :=
  if tok = "nil" ∨ tok = "null" then none else some (unx tok)

def showField (f : Option (List Range)) : String :=
  match f with
  | none => "nil"
  | some [] => "-"
  | some l => ",".intercalate (l.map fun r => s!"{r.lo}.{r.hi}")

def readField (tok : String) : Option (List Range) :=
  if tok = "nil" then none
  else if tok = "-" then some []
  else some ((tok.splitOn ",").map fun it =>
    match it.splitOn "." with
    | [a, b] => ⟨toInt! a, toInt! b⟩
    | _ => ⟨0, 0⟩)

def names (tok : String) : List String := (splitList "," tok).map unhexStr
def showNames (l : List String) : String := joinList "," (l.map hexStr)

def zoneOf (σ : St) (z : String) : Option ZInfo := σ.zs.find? (·.zone = z)

/-- the tz database at the current instant, as far as the `z` line reports it -/
def tzOf (σ : St) : String → Int := fun z => match zoneOf σ z with | some i => i.off | none => 0

/-- Spec verdict of one interval on the civil fields Go reports for the zone it is read in. -/
def specOn (σ : St) (iv : TimeInterval) (caller : String) : Option Bool :=
  let z := match iv.location with | some l => l | none => caller
  (zoneOf σ z).map fun i =>
    specB iv ⟨i.k.year, i.k.month, i.k.day⟩ i.k.weekday (i.k.hour * 60 + i.k.minute)

/-- Which field rule the spec says is violated (for PROPFAIL classes). -/
def specWhy (σ : St) (iv : TimeInterval) (caller : String) : String :=
  let z := match iv.location with | some l => l | none => caller
  match zoneOf σ z with
  | none => "nozone"
  | some i =>
    let c : Civil := ⟨i.k.year, i.k.month, i.k.day⟩
    let mod := i.k.hour * 60 + i.k.minute
    if !specB { times := iv.times } c i.k.weekday mod then "time"
    else if !specB { daysOfMonth := iv.daysOfMonth } c i.k.weekday mod then "day-of-month"
    else if !specB { months := iv.months } c i.k.weekday mod then "month"
    else if !specB { weekdays := iv.weekdays } c i.k.weekday mod then "weekday"
    else if !specB { years := iv.years } c i.k.weekday mod then "year"
    else "none"

/-- `InSet` evaluated with the spec predicate on Go's fields (caller zone UTC as in `Mutes`). -/
def inSetSpec (σ : St) (n : String) : Bool :=
  match lookup σ.cfg n with
  | none => false
  | some ivs => ivs.any fun iv => (specOn σ iv "UTC").getD false

/-- `InSet` as a zone-dependent implementation would see it: an interval without a
    location read in zone `z` (diagnostic, for the PROPFAIL class only). -/
def inSetIn (σ : St) (z : String) (n : String) : Bool :=
  match lookup σ.cfg n with
  | none => false
  | some ivs => ivs.any fun iv => (specOn σ iv z).getD false

/-- the zone the caller token stands for -/
def callerZone (σ : St) (tok : String) : String :=
  let z := unhexStr tok
  if z = "Local" then σ.localZone else z

/-- Class of a gate/mutes failure: `verdictIn z` recomputes what the implementation
    reported under the hypothesis that location-less intervals are read in zone `z`. -/
def zoneClass (σ : St) (caller : String) (dflt : String) (agrees : (String → Bool) → Bool) : String :=
  if caller ≠ "UTC" ∧ agrees (inSetIn σ caller) then "caller-zone-dependent"
  else if σ.localZone ≠ "UTC" ∧ agrees (inSetIn σ σ.localZone) then "local-zone-dependent"
  else dflt

/-- F12 diagnostic: at this instant some zone's local calendar lacks the last day of the
    month, so the pinned `daysInMonth` (evaluated in the location) is off. -/
def f9 (σ : St) : String := if σ.zs.any (fun i => i.dimLoc ≠ i.dim) then "@month-end-skipped-in-zone" else ""

def f9suffix (σ : St) (c : String) : String := c ++ f9 σ

def allConfigured (σ : St) (ns : List String) : Bool := ns.all fun n => (lookup σ.cfg n).isSome

def sameSet (a b : List String) : Bool := a.all (b.contains ·) && b.all (a.contains ·)

def ivTags (σ : St) (iv : TimeInterval) (caller : String) (verdict : Bool) : List Msg :=
  let z := match iv.location with | some l => l | none => caller
  match zoneOf σ z with
  | none => []
  | some i =>
    let mod := i.k.hour * 60 + i.k.minute
    let t1 : List Msg := if verdict then [.tag "c:in"] else [.tag "c:out"]
    let t2 : List Msg := match iv.times with
      | some l => (if l.any (fun r => r.hi = mod) then [.tag "time:at-end"] else []) ++
                  (if l.any (fun r => r.lo = mod) then [.tag "time:at-start"] else []) ++
                  (if l.any (fun r => r.hi = 1440 ∧ mod = 1439) then [.tag "time:last-minute-24:00"] else [])
      | none => []
    let t3 : List Msg := match iv.daysOfMonth with
      | some l => (if l.any (fun r => r.lo < 0 ∨ r.hi < 0) then [.tag "dom:negative"] else []) ++
                  (if l.any (fun r => resolveDay i.dim r.lo > i.dim) then [.tag "dom:begins-after-month-end"] else []) ++
                  (if l.any (fun r => resolveDay i.dim r.hi > i.dim ∧ resolveDay i.dim r.lo ≤ i.dim) then [.tag "dom:end-clamped"] else []) ++
                  (if l.any (fun r => resolveDay i.dim r.lo < 1) then [.tag "dom:begin-before-1"] else []) ++
                  (if i.k.day = i.dim then [.tag "dom:last-day"] else [])
      | none => []
    let t4 : List Msg := if i.off % 60 ≠ 0 then [.tag "zone:offset-with-seconds"] else []
    let t5 : List Msg := if i.k.month = 2 ∧ i.k.day = 29 then [.tag "cal:feb-29"] else []
    let t6 : List Msg := if iv.location.isNone ∧ caller ≠ "UTC" then [.tag "c:caller-zone"] else []
    let t7 : List Msg := if iv.times = some [] ∨ iv.weekdays = some [] ∨ iv.daysOfMonth = some [] ∨ iv.months = some [] ∨ iv.years = some []
      then [.tag "field:empty-list"] else []
    t1 ++ t2 ++ t3 ++ t4 ++ t5 ++ t6 ++ t7

def checkRangeInv (what : String) (k : Option Kind) (f : Option (List Range)) : List Msg :=
  match f with
  | none => []
  | some l => l.filterMap fun r =>
    let ok := match k with
      | none => decide (0 ≤ r.lo ∧ r.lo < r.hi ∧ r.hi ≤ 1440)
      | some k => rangeValid k r
    if ok then none else some (.propfail "range_valid" s!"accepted-invalid-{what}" s!"{r.lo}.{r.hi}")

def step (σ : St) (op obs : List String) : St × List Msg :=
  match op, obs with
  | ["set", n, kind], _ =>
    ({ σ with sets := σ.sets ++ [{ name := unhexStr n, kind := kind }] }, [])
  | ["iv", _style, t, w, d, m, y, l], o :: rest =>
    let locok := rest.getLast? = some "locok=1"
    let loc := parseLoc l
    let parsed : Option TimeInterval :=
      match parseTimes t, parseItems .weekday w, parseItems .dayOfMonth d, parseItems .month m, parseItems .year y with
      | some t, some w, some d, some m, some y =>
        if loc.isSome ∧ !locok then none
        else some { times := t, weekdays := w, daysOfMonth := d, months := m, years := y, location := loc }
      | _, _, _, _, _ => none
    let modelObs := match parsed with
      | some iv => s!"ok {showField iv.times} {showField iv.weekdays} {showField iv.daysOfMonth} {showField iv.months} {showField iv.years}"
      | none => "err"
    let implObs := " ".intercalate ((o :: rest).dropLast)
    let sets := match σ.sets.reverse with
      | [] => []
      | s :: more => (match parsed with
          | some iv => { s with ivs := s.ivs ++ [iv] }
          | none => { s with ok := false }) :: more |>.reverse
    let inv : List Msg := match o, rest with
      | "ok", [t', w', d', m', y', _] =>
        checkRangeInv "time" none (readField t') ++ checkRangeInv "weekday" (some .weekday) (readField w') ++
        checkRangeInv "day-of-month" (some .dayOfMonth) (readField d') ++ checkRangeInv "month" (some .month) (readField m') ++
        checkRangeInv "year" (some .year) (readField y')
      | _, _ => []
    let tags : List Msg := if parsed.isNone then [.tag "iv:rejected"] else []
    ({ σ with sets }, expectEq "iv.parse" modelObs implObs ++ inv ++ tags)
  | ["load", routes], [o] =>
    let setNames := σ.sets.map (·.name)
    let uniqueNames := setNames.length = setNames.eraseDups.length
    let routeNames := (splitList ";" routes).flatMap fun r =>
      match r.splitOn "/" with
      | [a, b] => names a ++ names b
      | _ => []
    let ok := σ.sets.all (·.ok) && decide uniqueNames && setNames.all (· ≠ "") && routeNames.all (setNames.contains ·)
    let cfg : Named := σ.sets.map fun s => (s.name, s.ivs)
    let tags : List Msg := if ok then [] else [.tag "load:rejected"]
    ({ σ with loaded := ok, cfg := if ok then cfg else [] }, expectEq "load" (if ok then "ok" else "err") o ++ tags)
  | ["z", unix, _zones], zs =>
    let u := toInt! unix
    let infos : List ZInfo := zs.filterMap fun tok =>
      match tok.splitOn ":" with
      | [z, off, y, m, d, wd, h, mi, dim, dimLoc] =>
        some { zone := unhexStr z, off := toInt! off,
               k := ⟨toInt! y, toInt! m, toInt! d, toInt! wd, toInt! h, toInt! mi⟩, dim := toInt! dim, dimLoc := toInt! dimLoc }
      | _ => none
    let msgs := infos.flatMap fun i =>
      let k := clockOf (u + i.off)
      let dm := daysInMonth k.year k.month
      (if k = i.k then [] else
        [Msg.diff s!"civil[{i.zone}]" s!"{k.year}-{k.month}-{k.day} wd{k.weekday} {k.hour}:{k.minute}"
                   s!"{i.k.year}-{i.k.month}-{i.k.day} wd{i.k.weekday} {i.k.hour}:{i.k.minute}"]) ++
      (if dm = i.dim then [] else [Msg.diff s!"days-in-month[{i.zone}]" (toString dm) (toString i.dim)])
    ({ σ with zunix := u, zs := infos }, msgs)
  | ["c", unix, callerHex], [res] =>
    let u := toInt! unix
    let caller := unhexStr callerHex
    if u ≠ σ.zunix then (σ, [.diff "protocol" "c-after-z" unix]) else
    let callerOff := tzOf σ caller
    let groups := splitList "." res
    let modelGroups := σ.sets.map fun s =>
      if s.ivs.isEmpty then "-" else String.ofList (s.ivs.map fun iv => if containsTime iv u (tzOf σ) callerOff then '1' else '0')
    let d := expectEq "contains" (joinList "." modelGroups) res
    let pf : List Msg := (σ.sets.zip groups).flatMap fun (s, g) =>
      (s.ivs.zip g.toList).flatMap fun (iv, bit) =>
        let impl : Bool := decide (bit = '1')
        let tags := ivTags σ iv caller impl
        match specOn σ iv caller with
        | none => [Msg.diff "protocol" "zone-missing" s.name]
        | some sp =>
          if sp = impl then tags
          else if impl then
            Msg.propfail "contains_iff_spec" s!"accepts-outside-{specWhy σ iv caller}{f9 σ}" s!"set={hexStr s.name} unix={u} spec=false impl=true" :: tags
          else
            Msg.propfail "contains_iff_spec" s!"rejects-instant-inside{f9 σ}" s!"set={hexStr s.name} unix={u} spec=true impl=false" :: tags
    (σ, d ++ pf)
  | "m" :: unix :: ns :: callerTok, o :: rest =>
    let u := toInt! unix
    if u ≠ σ.zunix then (σ, [.diff "protocol" "m-after-z" unix]) else
    let ctok := callerTok.headD (hexStr "UTC")
    let caller := callerZone σ ctok
    if (zoneOf σ caller).isNone then (σ, [.diff "protocol" "caller-zone-missing" caller]) else
    let nl := names ns
    let modelObs := match mutes σ.cfg nl u (tzOf σ) (tzOf σ caller) with
      | none => "err"
      | some (b, l) => s!"{if b then 1 else 0} {showNames l}"
    let implObs := " ".intercalate (o :: rest)
    let pf : List Msg :=
      if o = "err" then
        (if allConfigured σ nl then [.propfail "mutes_spec" "spurious-error" s!"names={ns}"] else [.tag "m:unknown-name"])
      else if !allConfigured σ nl then [.propfail "mutes_spec" "missing-error" s!"names={ns}"]
      else
        let want := nl.filter (inSetSpec σ)
        let got := names (rest.headD "-")
        let flag : Bool := decide (o = "1")
        let cls (d : String) : String :=
          zoneClass σ caller s!"{d}{f9 σ}" fun ins => (flag = !(nl.filter ins).isEmpty) && sameSet (nl.filter ins) got
        (if flag ≠ !want.isEmpty then [Msg.propfail "mutes_spec" (cls "muted-flag") s!"unix={u} names={ns} caller={caller} spec={!want.isEmpty} impl={flag}"] else []) ++
        (if !sameSet want got then [Msg.propfail "mutes_spec" (cls "muting-names") s!"unix={u} caller={caller} spec={showNames want} impl={showNames got}"] else []) ++
        [.tag (if flag then "m:muted" else "m:not-muted")] ++
        (if caller ≠ "UTC" then
          [.tag "m:caller-non-utc"] ++
          (if nl.any (fun n => inSetSpec σ n ≠ inSetIn σ caller n) then [.tag "m:caller-zone-would-differ"] else [])
         else [])
    -- the same question asked with another caller zone has the same answer
    let twoZones : List Msg := match σ.lastM with
      | some (u', ns', c', obs') =>
        if u' = unix ∧ ns' = ns ∧ c' ≠ ctok then
          (if obs' = implObs then [.tag "m:two-caller-zones"] else
            [Msg.propfail "mutes_spec" "caller-zone-dependent" s!"unix={u} names={ns} caller={unhexStr c'}:{obs'} caller={unhexStr ctok}:{implObs}"])
        else []
      | none => []
    ({ σ with lastM := some (unix, ns, ctok, implObs) }, expectEq "mutes" modelObs implObs ++ pf ++ twoZones)
  | "st" :: now :: mode :: mn :: an :: n :: route :: callerTok, [nout, err, muted, mnames] =>
    let nowv : Option Int := if now = "nonow" then none else some (toInt! now)
    if nowv.isSome ∧ nowv ≠ some σ.zunix then (σ, [.diff "protocol" "st-after-z" now]) else
    let ctok := callerTok.headD (hexStr "UTC")
    let caller := callerZone σ ctok
    if nowv.isSome ∧ (zoneOf σ caller).isNone then (σ, [.diff "protocol" "caller-zone-missing" caller]) else
    let co := tzOf σ caller
    let muteN : Option (List String) := if mn = "nokey" then none else some (names mn)
    let actN : Option (List String) := if an = "nokey" then none else some (names an)
    let cnt := toNat! n
    let out := match mode with
      | "a" => activeStage σ.cfg actN nowv (tzOf σ) co
      | "m" => muteStage σ.cfg muteN nowv (tzOf σ) co
      | _ => pipeline σ.cfg muteN actN nowv (tzOf σ) co
    let prev := (lookup σ.marker route).getD []
    let mk := out.marker.getD prev
    let modelObs := s!"{if out.passed then cnt else 0} {if out.err then 1 else 0} {if markerMuted mk then 1 else 0} {showNames mk}"
    let implObs := s!"{nout} {err} {muted} {mnames}"
    let opKey := " ".intercalate [now, mode, mn, an, n, route]
    let σ' := { σ with marker := put σ.marker route (names mnames), lastSt := some (opKey, ctok, implObs) }
    let gateThm := match mode with | "a" => "active_gate" | "m" => "mute_gate" | _ => "route_gate"
    let twoZones : List Msg := match σ.lastSt with
      | some (k', c', obs') =>
        if k' = opKey ∧ c' ≠ ctok ∧ nowv.isSome then
          (if obs' = implObs then [.tag "st:two-caller-zones"] else
            [Msg.propfail gateThm "caller-zone-dependent" s!"unix={now} mode={mode} mute={mn} active={an} caller={unhexStr c'}:{obs'} caller={unhexStr ctok}:{implObs}"])
        else []
      | none => []
    let callerTags : List Msg :=
      if nowv.isSome ∧ caller ≠ "UTC" then
        [.tag "st:caller-non-utc"] ++
        (if ((muteN.getD []) ++ (actN.getD [])).any (fun n => inSetSpec σ n ≠ inSetIn σ caller n)
         then [.tag "st:caller-zone-would-differ"] else [])
      else []
    -- gate rules on the implementation's own output, inside the theorems' hypotheses
    let implPassed : Bool := decide (toNat! nout > 0)
    let implMuted : Bool := decide (muted = "1")
    let implNames := names mnames
    let inDom (l : Option (List String)) : Bool := match l with | some ns => allConfigured σ ns | none => false
    let pf : List Msg :=
      let domOK : Bool := match mode with
        | "a" => inDom actN | "m" => inDom muteN | _ => inDom actN && inDom muteN
      if nowv.isNone ∨ cnt = 0 ∨ err ≠ "0" then
        (if err ≠ "0" ∧ nowv.isSome ∧ domOK
         then [.propfail "route_gate" "spurious-error" s!"mode={mode}"] else [.tag "st:out-of-domain"])
      else match mode with
      | "m" =>
        if !inDom muteN then [.tag "st:out-of-domain"] else
        let ns := muteN.getD []
        let by_ := ns.filter (inSetSpec σ)
        let want := by_.isEmpty
        let cls (d : String) : String := zoneClass σ caller (f9suffix σ d) fun ins =>
          (implPassed = (ns.filter ins).isEmpty) && sameSet (ns.filter ins) implNames
        (if implPassed ≠ want then [Msg.propfail "mute_gate" (cls <| if implPassed then "notified-while-muted" else "dropped-while-not-muted") s!"unix={now} mute={mn} caller={caller}"] else []) ++
        (if implMuted ≠ !implPassed then [Msg.propfail "mute_gate" "marker-flag" s!"unix={now} passed={implPassed} marker={implMuted}"] else []) ++
        (if !sameSet by_ implNames then [Msg.propfail "mute_gate" (cls "marker-names") s!"unix={now} caller={caller} spec={showNames by_} impl={mnames}"] else []) ++
        [.tag (if want then "gate:mute-open" else "gate:mute-closed")]
      | "a" =>
        if !inDom actN then [.tag "st:out-of-domain"] else
        let ns := actN.getD []
        let want := ns.isEmpty || ns.any (inSetSpec σ)
        let cls (d : String) : String := zoneClass σ caller (f9suffix σ d) fun ins =>
          implPassed = (ns.isEmpty || ns.any ins)
        (if implPassed ≠ want then [Msg.propfail "active_gate" (cls <| if implPassed then "notified-while-inactive" else "dropped-while-active") s!"unix={now} active={an} caller={caller}"] else []) ++
        (if implMuted ≠ !implPassed then [Msg.propfail "active_gate" "marker-flag" s!"unix={now} passed={implPassed} marker={implMuted}"] else []) ++
        (if !implPassed ∧ implNames ≠ ns then [Msg.propfail "active_gate" (f9suffix σ "marker-names") s!"unix={now} spec={an} impl={mnames}"] else []) ++
        [.tag (if want then "gate:active-open" else "gate:active-closed")]
      | _ =>
        if !(inDom actN && inDom muteN) then [.tag "st:out-of-domain"] else
        let ans := actN.getD []
        let mns := muteN.getD []
        let active := ans.isEmpty || ans.any (inSetSpec σ)
        let by_ := mns.filter (inSetSpec σ)
        let want := active && by_.isEmpty
        let wantNames := if !active then ans else by_
        let cls (d : String) : String := zoneClass σ caller (f9suffix σ d) fun ins =>
          let act := ans.isEmpty || ans.any ins
          (implPassed = (act && (mns.filter ins).isEmpty)) && sameSet (if !act then ans else mns.filter ins) implNames
        (if implPassed ≠ want then [Msg.propfail "route_gate" (cls <| if implPassed then "notified-while-gated" else "dropped-while-open") s!"unix={now} mute={mn} active={an} caller={caller}"] else []) ++
        (if implMuted ≠ !implPassed then [Msg.propfail "route_gate" "marker-flag" s!"unix={now} passed={implPassed} marker={implMuted}"] else []) ++
        (if !sameSet wantNames implNames then [Msg.propfail "route_gate" (cls "marker-names") s!"unix={now} caller={caller} spec={showNames wantNames} impl={mnames}"] else []) ++
        [.tag (if want then "gate:route-open" else if active then "gate:route-muted" else "gate:route-inactive")]
    (σ', expectEq "stage" modelObs implObs ++ pf ++ twoZones ++ callerTags)
  | ["local", z], _ =>
    ({ σ with localZone := unhexStr z }, [.tag "local:set"])
  | _, _ => (σ, [.diff "parse" "?" (" ".intercalate op)])

def engine : Engine St where
  init _ := {}
  step := step

end Driver.Timeint
