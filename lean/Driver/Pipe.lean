/-
  Engine `pipe` (C04): replays flush / gc / reload traces of the real pipeline
  tail on `AM.Dedup` (over `AM.Nflog`) and evaluates the C04 predicates on the
  implementation's own before/after log entries and sends.

    case <id> retention=<ns> repeat=<ns> sr=<bits>
    flush <tick> <wall> <id:f|r,…> <accept bits> <delay> -> <ok|err> <sent;…> <before;…> <after;…> <wallEnd>
    gc <wall>  -> <n> <entries>
    reload     -> <entries>
  entry = ts,exp,firing,resolved | none ; sent = firing/resolved | none
-/
import Driver.Util
import AM.Model.Dedup

namespace Driver.Pipe
open Driver AM AM.AList AM.Nflog AM.Dedup

structure St where
  retention : Int := 0
  repeatI : Int := 0
  srs : List Bool := []
  st : State := []
  implLast : String := ""   -- the implementation's entries after the previous op

def keyOf (i : Nat) : String := s!"g:r/fake/{i}"

def showEntry (o : Option Entry) : String :=
  match o with
  | none => "none"
  | some e => s!"{e.ts},{e.exp},{showNatList e.firing},{showNatList e.resolved}"

def parseEntry (k : String) (s : String) : Option Entry :=
  match s.splitOn "," with
  | [ts, exp, f, r] => some { key := k, ts := toInt! ts, exp := toInt! exp, firing := natList f, resolved := natList r, data := "-" }
  | _ => none

def sortNat (l : List Nat) : List Nat := l.foldl (fun acc x =>
  let rec ins : List Nat → List Nat
    | [] => [x]
    | y :: ys => if x ≤ y then x :: y :: ys else y :: ins ys
  ins acc) []

def entries (σ : St) : String :=
  ";".intercalate ((List.range σ.srs.length).map fun i => showEntry (query σ.st (keyOf i)))

def parseAlerts (s : String) : List Nat × List Nat :=
  (splitList "," s).foldl (fun (acc : List Nat × List Nat) a =>
    match a.splitOn ":" with
    | [id, "f"] => (acc.1 ++ [toNat! id], acc.2)
    | [id, "r"] => (acc.1, acc.2 ++ [toNat! id])
    | _ => acc) ([], [])

def step (σ : St) (op obs : List String) : St × List Msg :=
  match op, obs with
  | ["flush", tick, wall, alerts, acc, delay], [err, sents, befores, afters, wallEnd] =>
    let tick := toInt! tick; let wall := toInt! wall; let delay := toInt! delay
    let (firing, resolved) := parseAlerts alerts
    let accs : List Bool := acc.toList.map (fun ch => ch == '1')
    let sentL := sents.splitOn ";"
    let befL := befores.splitOn ";"
    let aftL := afters.splitOn ";"
    -- integrations are independent (distinct keys): fold in index order
    let init : State × List Msg × Bool × Bool := (σ.st, [], true, false)
    let (st', msgs, okAll, invoked) := (List.range σ.srs.length).foldl (fun (acc4 : State × List Msg × Bool × Bool) i =>
      let (st, msgs, okAll, invoked) := acc4
      let sr := σ.srs.getD i true
      let c : Cfg := { key := keyOf i, repeatI := σ.repeatI, retention := σ.retention, sendResolved := sr }
      let f0 : Flush := { tick, wall, firing, resolved, accept := accs.getD i true }
      let p := path c st f0
      let f : Flush := if p = .send then { f0 with wall := wall + delay } else f0
      let o := flushStep c st f
      let mSent := match o.sent with
        | none => "none"
        | some n => s!"{showNatList (sortNat n.firing)}/{showNatList (sortNat n.resolved)}"
      let iSent := sentL.getD i "?"
      let iBef := parseEntry c.key (befL.getD i "none")
      let iAft := aftL.getD i "none"
      -- spec predicates on the implementation's own observations
      let allowed := (needsUpdate iBef firing resolved sr σ.repeatI tick).shouldNotify
      let nonempty := !(firing.isEmpty && resolved.isEmpty)
      let shortcut := !sr && firing.isEmpty
      let due := nonempty && allowed && !shortcut && f0.accept
      let expSent := s!"{showNatList (sortNat firing)}/{showNatList (sortNat (if sr then resolved else []))}"
      let pf : List Msg :=
        (if iSent ≠ "none" ∧ !(nonempty && allowed) then
           [Msg.propfail "notify_only_if_changed_or_repeat" "unjustified" s!"integration={i} sent={iSent} entry={befL.getD i "none"} tick={tick}"] else [])
        ++ (if iSent = "none" ∧ due then
           [Msg.propfail "repeat_on_time" "missed" s!"integration={i} entry={befL.getD i "none"} tick={tick} firing={showNatList firing}"] else [])
        ++ (if iSent ≠ "none" ∧ firing.isEmpty ∧ (match iBef with | some e => e.firing.isEmpty | none => true) = true then
           [Msg.propfail "no_resolved_only_first" "resolved-only" s!"integration={i} sent={iSent} entry={befL.getD i "none"}"] else [])
        ++ (if iSent ≠ "none" ∧ iSent ≠ expSent then
           [Msg.propfail "flush_sent_content" "content" s!"integration={i} sent={iSent} expected={expSent}"] else [])
        ++ (let wrote := iSent ≠ "none" ∨ (nonempty && allowed && shortcut)
            if wrote then
              let w := if iSent ≠ "none" then wall + delay else wall
              let want := showEntry (some { key := c.key, ts := w, exp := logExpiry w σ.retention (2 * σ.repeatI), firing, resolved, data := "-" })
              let sameSets : Bool := match parseEntry c.key iAft with
                | some e => sortNat e.firing == sortNat firing && sortNat e.resolved == sortNat resolved && e.ts == w && e.exp == logExpiry w σ.retention (2 * σ.repeatI)
                | none => false
              if sameSets then [] else [Msg.propfail "entry_is_last_delivered" "log-mismatch" s!"integration={i} after={iAft} want={want}"]
            else if iAft ≠ befL.getD i "none" then
              [Msg.propfail "log_only_after_success" "log-without-send" s!"integration={i} before={befL.getD i "none"} after={iAft}"] else [])
      let tags : List Msg := [Msg.tag s!"path:{repr p}", Msg.tag s!"reason:{repr o.reason}"]
        ++ (if tick < wall then [Msg.tag "tick-lag"] else [])
      (o.st, msgs ++ expectEq s!"flush.sent[{i}]" mSent iSent ++ pf ++ tags, okAll && o.ok,
        invoked || p = .send || p = .fail)) init
    let σ' := { σ with st := st', implLast := afters }
    let mEnd := if invoked then wall + delay else wall
    (σ', msgs ++ expectEq "flush.err" (if okAll then "ok" else "err") err
        ++ expectEq "flush.after" (entries σ') afters ++ expectEq "flush.wallEnd" (toString mEnd) wallEnd
        ++ expectEq "flush.before" (entries σ) befores)
  | ["gc", now], [n, es] =>
    let (st', k) := gc (toInt! now) σ.st
    let σ' := { σ with st := st', implLast := es }
    (σ', expectEq "gc.n" (toString k) n ++ expectEq "gc.entries" (entries σ') es ++ (if k > 0 then [.tag "gc:removed"] else []))
  | ["reload"], [es] =>
    let σ' := { σ with st := reload σ.st, implLast := es }
    (σ', expectEq "reload.entries" (entries σ') es ++ (if es = σ.implLast ∨ σ.implLast = "" then [] else
      [.propfail "reload_lossless" "reload-changed" s!"before={σ.implLast} after={es}"]))
  | _, _ => (σ, [.diff "parse" "?" (" ".intercalate op)])

def engine : Engine St where
  init hdr := { retention := kvInt hdr "retention" 0, repeatI := kvInt hdr "repeat" 0,
                srs := ((kv hdr "sr").getD "").toList.map (fun ch => ch == '1') }
  step := step

end Driver.Pipe
