/-
  Engine `ingest` (C13): replays the harness trace on `AM.Ingest` (POST
  defaulting / validation / best-effort Put, GET filter, provider GC) and
  evaluates the statements of the C13 theorems on the implementation's own
  dumps.

    case <id> rt=<ns> pgc=<ns>
    post <now> <a1|a2|…>   -> <code> <dump>            a = labels@start@end@payload@annNames
    get <now>              -> <code> <items> <dump>
    wait <now>             -> <dump>
    getc <now>             -> <code> <dump>            GET with an already cancelled request context
    update <now> <rt>      -> ok|blocked <dump>        API.Update (configuration reload): resolve_timeout rt from now on
    (after `blocked` every API op of the case answers `wedged`)
-/
import Driver.AlertsUtil
import AM.Model.Ingest
import AM.Model.Inhibit

namespace Driver.Ingest
open Driver Driver.Alerts AM AM.AList AM.Ingest

/-- `compat.IsValidLabelName` in its default (classic) mode: `[a-zA-Z_][a-zA-Z0-9_]*`. -/
def nameOK (s : String) : Bool :=
  match s.toList with
  | [] => false
  | c :: cs => (c.isAlpha || c = '_') && cs.all fun d => d.isAlphanum || d = '_'

def optInt (s : String) : Option Int := if s = "-" then none else s.toInt?

def parsePost (s : String) : Option PostAlert :=
  match s.splitOn "@" with
  | [l, st, en, pl, an] =>
    some { labels := parseLabels l, annNames := (splitList "." an).map unhexStr, startsAt := optInt st, endsAt := optInt en, payload := pl }
  | _ => none

def showA (a : Alert) : String := s!"{showAlert a}@{a.payload}"
def dumpS (s : Store) : String := joinList ";" (sortStrs (s.map fun kv => showA kv.2))

/-- the engine's fixed inhibit rule: alertname="Root" inhibits sev=~"warn|info" when `e` is equal. -/
def rule : Inhibit.Rule :=
  { src := fun ls => ls.get "alertname" == "Root",
    tgt := fun ls => ls.get "sev" == "warn" || ls.get "sev" == "info",
    equal := ["e"] }

/-- the engine's fixed route tree: r1 (sev="crit", continue) then r2 (role=~"src|both"), else the root r0. -/
def receivers (ls : Labels) : List String :=
  let r := (if ls.get "sev" == "crit" then ["r1"] else []) ++
           (if ls.get "role" == "src" || ls.get "role" == "both" then ["r2"] else [])
  if r.isEmpty then ["r0"] else r

structure GetItem where
  labels : Labels
  startsAt : Int
  endsAt : Int
  updatedAt : Int
  state : String
  by_ : List Labels
  recv : List String

def parseItem (s : String) : Option GetItem :=
  match s.splitOn "@" with
  | [l, st, en, up, state, by_, rc] =>
    some { labels := parseLabels l, startsAt := toInt! st, endsAt := toInt! en, updatedAt := toInt! up, state,
           by_ := (if by_ = "-" then [] else (by_.splitOn "|").map parseLabels), recv := splitList "." rc }
  | _ => none

def showItem (a : Alert) (state : String) (rc : List String) : String :=
  s!"{showLabels a.labels}@{a.startsAt}@{a.endsAt}@{a.updatedAt}@{state}@{joinList "." rc}"

structure St where
  rt : Int := 0
  pgc : Int := 0
  pNext : Int := 0
  lastTick : Option Int := none   -- last GC tick applied since the previous observation
  store : Store := []
  prev : List Alert := []         -- implementation's previous dump
  aborted : Bool := false         -- a GET with a cancelled context was served while the provider held an alert

partial def advance (σ : St) (now : Int) : St :=
  if σ.pgc > 0 ∧ σ.pNext ≤ now then
    advance { σ with store := σ.store.gc σ.pNext, lastTick := some σ.pNext, pNext := σ.pNext + σ.pgc } now
  else σ

def findA (l : List Alert) (ls : Labels) : Option Alert := l.find? (·.labels == ls)

/-- the previous dump after the GC ticks that fired since (`gc_only_resolved` as a function). -/
def afterGC (σ : St) : List Alert :=
  match σ.lastTick with
  | none => σ.prev
  | some g => σ.prev.filter fun a => !a.resolvedAt g

/-- `gc_only_resolved` on two consecutive dumps when nothing was posted in between. -/
def checkGC (σ : St) (cur : List Alert) : List Msg :=
  let exp := afterGC σ
  (σ.prev.filterMap fun a =>
    match findA cur a.labels with
    | some _ => if (findA exp a.labels).isNone then some (Msg.propfail "gc_only_resolved" "gc-kept-resolved" s!"{showLabels a.labels} end={a.endsAt} tick={σ.lastTick.getD 0}") else none
    | none => if (findA exp a.labels).isSome then some (Msg.propfail "gc_only_resolved" "gc-dropped-unresolved" s!"{showLabels a.labels} end={a.endsAt}") else none)
  ++ (cur.filterMap fun c =>
    match findA σ.prev c.labels with
    | some p => if p = c then none else some (Msg.propfail "gc_only_resolved" "changed-without-post" s!"{showLabels c.labels}")
    | none => some (Msg.propfail "gc_only_resolved" "appeared-without-post" s!"{showLabels c.labels}"))

def checkPost (σ : St) (now : Int) (batch : List PostAlert) (code : String) (cur : List Alert) : List Msg :=
  let old := afterGC σ
  let prepared := batch.map fun p => (p, prepare now σ.rt p)
  let validOnes := prepared.filter fun (p, a) => valid nameOK p a
  let expCode := if validOnes.length = batch.length then "200" else "400"
  (if code = expCode then [] else [Msg.propfail "batch_best_effort" "wrong-code" s!"code={code} expected={expCode}"])
  ++ (prepared.foldl (fun acc (p, a) =>
      let nSame := (validOnes.filter fun (_, b) => b.labels == a.labels).length
      let ls := showLabels a.labels
      (if valid nameOK p a then
        match findA cur a.labels with
        | none => [Msg.propfail "batch_best_effort" "valid-dropped" s!"{ls} payload={a.payload}"]
        | some c =>
          if nSame ≠ 1 then
            -- the label set occurs several times in the batch (all stamped with the same receive time): what is stored
            -- carries the payload of the LAST valid one (putValue_identity: the submission wins a tie of UpdatedAt)
            let lastSame := (validOnes.filter fun (_, b) => b.labels == a.labels).getLast?.map (·.2.payload)
            -- … and it is what posting the same alerts one after the other gives: every occurrence is merged with what
            -- the previous one left (overlap_keeps_earliest_start along the batch), starting from the implementation's own
            -- previous alert
            let seqStore : Store := (validOnes.filter fun (_, b) => b.labels == a.labels).foldl
              (fun (st : Store) (pb : PostAlert × Alert) => st.putAlert now pb.2)
              (match findA old a.labels with | some o => [(o.labels, o)] | none => [])
            let seqOk : Bool := match AList.lookup seqStore a.labels with
              | some m => decide (m.startsAt = c.startsAt) && decide (m.endsAt = c.endsAt)
              | none => true
            [Msg.tag "post:same-labels-twice-in-batch"] ++
            (if lastSame = some a.payload ∧ !seqOk then
               [Msg.propfail "overlap_keeps_earliest_start" "batch-not-sequential"
                  s!"{ls} occurs several times in one batch: stored={showA c}, posting the occurrences one after the other gives {(AList.lookup seqStore a.labels).map showA}"]
             else []) ++
            (if lastSame = some a.payload ∧ ¬ (c.updatedAt = now ∧ c.payload = a.payload) then
               [Msg.propfail "putValue_identity" "same-instant-older-wins" s!"{ls}: submitted last in the batch with payload={a.payload}, stored={showA c}"]
             else [])
          else
            (if c.updatedAt = now ∧ c.payload = a.payload then [] else [Msg.propfail "batch_best_effort" "valid-not-applied" s!"{ls} payload={a.payload} stored={showA c}"])
            ++ (match findA old a.labels with
              | none =>
                (if c.startsAt = a.startsAt ∧ c.endsAt = a.endsAt ∧ c.timeout = a.timeout then [Msg.tag "post:new"]
                 else [Msg.propfail "post_defaults" "defaults" s!"{ls} expected={showA a} stored={showA c}"])
              | some o =>
                (if a.startsAt < o.endsAt ∧ o.startsAt < a.endsAt then
                   (if c.startsAt = min o.startsAt a.startsAt then [Msg.tag "post:overlap"]
                    else [Msg.propfail "overlap_keeps_earliest_start" "start-not-earliest" s!"{ls} old={showA o} new={showA a} stored={showA c}"])
                 else
                   -- no overlap: the submission is stored as it is.  A re-fire that starts at (or after) the very instant the
                   -- stored alert ended is a new episode and keeps its own start (refire_after_end_starts_anew)
                   (if o.endsAt ≤ a.startsAt ∧ a.startsAt ≤ a.endsAt then
                      (if c.startsAt = a.startsAt then [Msg.tag (if a.startsAt = o.endsAt then "post:refire-at-old-end" else "post:refire-after-old-end")]
                       else [Msg.propfail "refire_after_end_starts_anew" "merged-without-overlap"
                               s!"{ls} old={showA o} new={showA a} stored={showA c}: the stored alert ended at {o.endsAt}, the submission starts at {a.startsAt} and must keep that start"])
                    else [Msg.tag "post:disjoint"]))
                ++ (if p.endsAt.isNone then
                     (if (o.timeout → c.endsAt = now + σ.rt) ∧ now + σ.rt ≤ c.endsAt then [Msg.tag "post:timeout-resend"]
                      else [Msg.propfail "timeout_end_pushed_forward" "timeout-end" s!"{ls} old={showA o} stored={showA c} now+rt={now + σ.rt}"])
                    else [])
                ++ (match p.endsAt with
                    | some e => if e ≤ now then
                        (if c.endsAt ≤ now then [Msg.tag "post:explicit-past-end"]
                         else [Msg.propfail "explicit_past_end_resolves" "still-firing" s!"{ls} old={showA o} new={showA a} stored={showA c}"])
                      else []
                    | none => []))
       else
        (if nSame = 0 then
          (if findA cur a.labels = findA old a.labels then [Msg.tag "post:invalid-skipped"]
           else [Msg.propfail "batch_best_effort" "invalid-stored" s!"{ls} payload={a.payload}"])
         else [Msg.tag "post:invalid-skipped"])) ++ acc) [])
  -- label sets the batch does not mention are untouched (up to GC)
  ++ ((old ++ cur).filterMap fun x =>
      if prepared.any (fun (_, a) => a.labels == x.labels) then none
      else if findA cur x.labels = findA old x.labels then none
      else some (Msg.propfail "batch_best_effort" "collateral" s!"{showLabels x.labels}"))

def expectedItem (fir : List Alert) (a : Alert) : String :=
  let inh := Inhibit.inhibitedB [rule] fir a.labels
  showItem a (if inh then "suppressed" else "active") (receivers a.labels)

def checkGet (now : Int) (items : List GetItem) (cur : List Alert) : List Msg :=
  let fir := cur.filter fun a => !a.resolvedAt now
  (cur.filterMap fun a =>
    match items.find? (·.labels == a.labels) with
    | none => if visible now a then some (Msg.propfail "get_returns_unexpired" "unexpired-missing" s!"{showLabels a.labels} end={a.endsAt} now={now}") else none
    | some it =>
      if !visible now a then some (Msg.propfail "get_returns_unexpired" "expired-listed" s!"{showLabels a.labels} end={a.endsAt} now={now}")
      else if it.startsAt ≠ a.startsAt ∨ it.endsAt ≠ a.endsAt ∨ it.updatedAt ≠ a.updatedAt then
        some (Msg.propfail "get_returns_unexpired" "times" s!"{showLabels a.labels} stored={showA a} listed={it.startsAt},{it.endsAt},{it.updatedAt}")
      else if it.recv ≠ receivers a.labels then
        some (Msg.propfail "get_returns_unexpired" "receivers" s!"{showLabels a.labels} listed={it.recv}")
      else
        let inh := Inhibit.inhibitedB [rule] fir a.labels
        if (it.state = "suppressed") ≠ inh ∨ (it.state ≠ "suppressed" ∧ it.state ≠ "active") ∨ (it.by_.isEmpty = inh) then
          some (Msg.propfail "get_returns_unexpired" "status" s!"{showLabels a.labels} state={it.state} rule-says-inhibited={inh}")
        else if it.by_.all fun b => fir.any fun s => s.labels == b && Inhibit.inhibitsB rule s a.labels then none
        else some (Msg.propfail "get_returns_unexpired" "status-inhibitor" s!"{showLabels a.labels}"))
  ++ (items.filterMap fun it =>
    if (findA cur it.labels).isNone then some (Msg.propfail "get_returns_unexpired" "phantom" s!"{showLabels it.labels}") else none)

def step (σ : St) (op obs : List String) : St × List Msg :=
  match op, obs with
  | ["post", now, b], [code, dmp] =>
    let now := toInt! now
    let σ := advance σ now
    let batch := (b.splitOn "|").filterMap parsePost
    let (store', c) := post nameOK now σ.rt σ.store batch
    let cur := parseAlerts dmp
    -- C13/C06: an empty-valued label takes no part in an alert's identity (removeEmpty_spec): what the provider holds
    -- (and hands to the dispatcher, whose group_by then sees it) never carries one
    let pfEmpty : List Msg := cur.filterMap fun a =>
      if a.labels.any (fun kv => kv.2 = "") then
        some (Msg.propfail "removeEmpty_spec" "empty-label-stored" s!"stored alert {showLabels a.labels} carries an empty-valued label")
      else none
    let pf := checkPost σ now batch code cur ++ pfEmpty
    let t : List Msg := (if c = .badRequest then [.tag "post:400"] else []) ++
      (if batch.any (fun p => p.labels.any fun kv => kv.2 = "") then [.tag "post:empty-valued-label"] else [])
    ({ σ with store := store', prev := cur, lastTick := none },
      expectEq "post.code" (if c = .ok then "200" else "400") code ++ expectEq "post.dump" (dumpS store') dmp ++ pf ++ t)
  | ["get", now], [code, items, dmp] =>
    let now := toInt! now
    let σ := advance σ now
    let cur := parseAlerts dmp
    let its := (splitList ";" items).filterMap parseItem
    let fir := (σ.store.map Prod.snd).filter fun a => !a.resolvedAt now
    let exp := joinList ";" (sortStrs ((getAlerts now σ.store).map (expectedItem fir)))
    let got := joinList ";" (sortStrs (its.map fun it =>
      s!"{showLabels it.labels}@{it.startsAt}@{it.endsAt}@{it.updatedAt}@{it.state}@{joinList "." it.recv}"))
    let pf := checkGC σ cur ++ checkGet now its cur
    let t : List Msg := (if its.any (·.state = "suppressed") then [.tag "get:suppressed"] else []) ++
      (if cur.any (fun a => a.endsAt = now) then [.tag "get:end-equals-now"] else []) ++
      (if cur.length > its.length then [.tag "get:hides-expired"] else []) ++
      (if σ.lastTick.isSome ∧ (afterGC σ).length < σ.prev.length then [.tag "gc:collected"] else [])
    ({ σ with prev := cur, lastTick := none },
      expectEq "get.code" "200" code ++ expectEq "get.items" exp got ++ expectEq "get.dump" (dumpS σ.store) dmp ++ pf ++ t)
  | ["wait", now], [dmp] =>
    let now := toInt! now
    let σ := advance σ now
    let cur := parseAlerts dmp
    let t : List Msg := if σ.lastTick.isSome ∧ (afterGC σ).length < σ.prev.length then [.tag "gc:collected"] else []
    ({ σ with prev := cur, lastTick := none }, expectEq "wait.dump" (dumpS σ.store) dmp ++ checkGC σ cur ++ t)
  -- a GET whose client is gone before the listing starts: whatever it answers, it is a read (nothing stored changes,
  -- up to GC), and it must leave the API usable (see `update`)
  | ["getc", now], [code, dmp] =>
    let now := toInt! now
    let σ := advance σ now
    let cur := parseAlerts dmp
    ({ σ with prev := cur, lastTick := none, aborted := σ.aborted || !cur.isEmpty },
      expectEq "getc.dump" (dumpS σ.store) dmp ++ checkGC σ cur ++
      [.tag (if cur.isEmpty then "getc:empty-provider" else if code = "200" then "getc:answered" else "getc:aborted")])
  -- a configuration reload reaches the API.  It must return: the statements of C13 are about an API that answers
  -- (`valid_alerts_are_stored`: a valid alert of a later POST is stored; `get_returns_unexpired`); an Update that is
  -- still waiting for the API's lock after seconds of real time with no request in flight never will get it, and
  -- every later POST / GET queues behind it.
  | ["update", now, rt], [res, dmp] =>
    let now := toInt! now
    let σ := advance σ now
    let cur := parseAlerts dmp
    let pf : List Msg := if res = "ok" then [] else
      [Msg.propfail "valid_alerts_are_stored" (if σ.aborted then "api-wedged-after-aborted-read" else "api-wedged")
        s!"API.Update(resolve_timeout={rt}) at {now} did not return ({res}): no handler holds the API's lock, yet it is not free; later POSTs store nothing, later GETs never answer"]
    ({ σ with prev := cur, lastTick := none, rt := if res = "ok" then toInt! rt else σ.rt },
      expectEq "update.result" "ok" res ++ expectEq "update.dump" (dumpS σ.store) dmp ++ checkGC σ cur ++ pf ++
      [.tag (if σ.aborted then "update:after-aborted-read" else "update")])
  | _, ["wedged"] => (σ, [.tag "wedged"])
  | _, _ => (σ, [.diff "parse" "?" (" ".intercalate op)])

def engine : Engine St where
  init hdr :=
    let pgc := kvInt hdr "pgc" 0
    { rt := kvInt hdr "rt" 0, pgc, pNext := pgc }
  step := step

end Driver.Ingest
