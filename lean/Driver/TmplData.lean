/-
  Engine `tmpldata` (C20): real `template.Template.Data` and the real webhook
  notifier's JSON payload (max_alerts truncation) vs `AM.TemplateData` / `AM.Trunc`.

  alert token:  <p|f|z|P|F>|<labels>|<annotations>   p = ended an hour ago, f = ends in an hour, z = no end;
                P / F = the same with the alert's Timeout flag set (EndsAt filled in from resolve_timeout): the model ignores the flag
  pairs:        k:v,k:v (sorted by key), '-' = none
    data <recvhex> <sr 0|1> <alerts ;-joined>         -> <dump>
    webhook <max> <recvhex> <alerts>                  -> trunc=<n> <dump>
    webhookp <recvhex> <alerts>                       -> trunc=0 <dump>     the case's ONE webhook notifier with a custom `payload` (a list of
                                                         templates); the dump is rebuilt from the rendered payload of this notification
  dump: recv=<hex> status=<s> alerts=<status|labels|annots;…> cl=<pairs> ca=<pairs> nf=<n> nr=<n>
-/
import Driver.Util
import AM.Model.TemplateData
import AM.Model.Trunc

namespace Driver.TmplData
open Driver AM AM.AList AM.TemplateData

def parsePairs (s : String) : KV :=
  (splitList "," s).filterMap fun p =>
    match p.splitOn ":" with
    | [k, v] => some (k, v)
    | _ => none

def insertKV (kv : String × String) : KV → KV
  | [] => [kv]
  | x :: xs => if kv.1 < x.1 then kv :: x :: xs else x :: insertKV kv xs
def sortKV (m : KV) : KV := m.foldl (fun acc kv => insertKV kv acc) []
def showPairs (m : KV) : String := joinList "," ((sortKV m).map fun kv => s!"{kv.1}:{kv.2}")

def hour : Int := 3600000000000
/-- the instant of the notification (any non-zero instant: 0 stands for "no end") -/
def nowT : Int := 10 * hour

def parseAlert (s : String) : Option Alert :=
  match s.splitOn "|" with
  | [e, l, a] => some { labels := parsePairs l, annotations := parsePairs a,
                        ends := if e = "p" ∨ e = "P" then nowT - hour else if e = "f" ∨ e = "F" then nowT + hour
                                else if e = "t" then nowT else 0 }
  | _ => none

def parseAlerts (s : String) : List Alert := (splitList ";" s).filterMap parseAlert

/-- `regexp.QuoteMeta` -/
def quoteMeta (s : String) : String :=
  String.ofList (s.toList.foldr (fun c acc => if "\\.+*?()|[]{}^$".toList.contains c then '\\' :: c :: acc else c :: acc) [])

def showItem (i : Item) : String := s!"{i.status}|{showPairs i.labels}|{showPairs i.annotations}"

def dump (d : Data) : List String :=
  [s!"recv={hexStr d.receiver}", s!"status={d.status}", s!"alerts={joinList ";" (d.alerts.map showItem)}",
   s!"cl={showPairs d.commonLabels}", s!"ca={showPairs d.commonAnnotations}",
   s!"nf={(firing d).length}", s!"nr={(resolvedItems d).length}"]

structure St where
  dummy : Nat := 0     -- notifications sent so far through the case's custom-payload notifier

/-- spec predicates on the implementation's own dump, against the batch that was sent -/
def specs (sent : List Alert) (obs : List String) : List Msg :=
  let items : List (List String) := (splitList ";" ((kv obs "alerts").getD "-")).map (·.splitOn "|")
  let status := (kv obs "status").getD ""
  let anyF := items.any fun it => it.head? = some "firing"
  let cl := parsePairs ((kv obs "cl").getD "-")
  let ca := parsePairs ((kv obs "ca").getD "-")
  let wantL : List String := sent.map fun a => showPairs a.labels
  let gotL : List String := items.map fun it => it.getD 1 ""
  let inter (get_ : Alert → KV) (c : KV) : Bool :=
    match sent with
    | [] => c.isEmpty
    | a :: rest =>
      (c.all fun p => (get_ a).contains p ∧ rest.all fun b => TemplateData.get (get_ b) p.1 = p.2) ∧
      ((get_ a).all fun p => (rest.all fun b => TemplateData.get (get_ b) p.1 = p.2) → c.contains p)
  -- the listed status of every alert is its own (EndsAt against now, nothing else), and the notification fires iff one of
  -- the alerts handed to the integration does: both against the batch that was sent, not against the listed items
  let wantS : List String := sent.map fun a => statusOf nowT a
  let gotS : List String := items.map fun it => it.headD ""
  let anySent := sent.any fun a => !resolved nowT a
  (if items.length ≠ sent.length ∨ gotL ≠ wantL then
     [Msg.propfail "data_lists_exactly_batch" "wrong-list" s!"sent={wantL} listed={gotL}"] else [])
  ++ (if items.length = sent.length ∧ gotS ≠ wantS then
     [Msg.propfail "data_lists_exactly_batch" "wrong-item-status" s!"batch={wantS} listed={gotS}"] else [])
  ++ (if (status = "firing") ≠ anyF then
     [Msg.propfail "status_firing_iff_any" "wrong-status" s!"status={status} any-firing={anyF}"] else [])
  ++ (if items.length = sent.length ∧ (status = "firing") ≠ anySent then
     [Msg.propfail "status_firing_iff_any" "status-vs-batch" s!"status={status} any-alert-of-the-batch-fires={anySent}"] else [])
  ++ (if !inter (·.labels) cl then [Msg.propfail "common_is_intersection" "labels" s!"common={showPairs cl}"] else [])
  ++ (if !inter (·.annotations) ca then [Msg.propfail "common_is_intersection" "annotations" s!"common={showPairs ca}"] else [])

def tagsOf (alerts : List Alert) (d : Data) : List Msg :=
  (if alerts.length ≥ 2 ∧ !d.commonLabels.isEmpty then [.tag "common:some"] else [])
  ++ (if alerts.length ≥ 2 ∧ d.commonLabels.isEmpty then [.tag "common:none"] else [])
  ++ (if (firing d).length > 0 ∧ (resolvedItems d).length > 0 then [.tag "status:mixed"] else [])
  ++ (if alerts.any (fun a => a.annotations.any (·.2 = "")) then [.tag "annotation:empty-value"] else [])
  ++ (if alerts.all (fun a => resolved nowT a) ∧ !alerts.isEmpty then [.tag "status:all-resolved"] else [])

/-- tags for the Timeout flag (read off the raw tokens: the model's alerts do not carry it) -/
def flagTags (as : String) : List Msg :=
  let es := (splitList ";" as).map fun t => (t.splitOn "|").headD ""
  (if es.contains "P" then [.tag "timeout-flag:resolved"] else [])
  ++ (if es.contains "F" then [.tag "timeout-flag:firing"] else [])

def stepData (σ : St) (recv sr as : String) (obs : List String) : St × List Msg :=
    let alerts := parseAlerts as
    let snt := sent (sr = "1") nowT alerts
    let d := data nowT (quoteMeta (unhexStr recv)) snt
    (σ, expectEq "data" (" ".intercalate (dump d)) (" ".intercalate obs) ++ specs snt obs ++ tagsOf snt d
          ++ (if sr = "0" ∧ snt.length < alerts.length then [.tag "send_resolved:dropped"] else []) ++ flagTags as)

def step (σ : St) (op obs : List String) : St × List Msg :=
  match op with
  | ["data", recv, sr, as, "tie"] =>
    -- the same op under a standing clock: alerts with token `t` end at the very instant of the notification (resolved)
    let (σ', ms) := stepData σ recv sr as obs
    (σ', ms ++ [.tag "data:ends-at-this-instant"])
  | ["data", recv, sr, as] => stepData σ recv sr as obs
  | ["webhookp", recv, as] =>
    -- a custom payload is rendered on the data of this very notification (same statements as for the default payload:
    -- data_lists_exactly_batch, status_firing_iff_any, common_is_intersection against the batch that was sent),
    -- however many notifications the integration sent before
    let alerts := parseAlerts as
    let d := data nowT (quoteMeta (unhexStr recv)) alerts
    let shape : List Msg := if (kv obs "alerts").isSome then [] else
      [Msg.propfail "data_lists_exactly_batch" "custom-payload-unreadable" s!"{" ".intercalate obs}"]
    ({ σ with dummy := σ.dummy + 1 }, expectEq "webhookp" (" ".intercalate ("trunc=0" :: dump d)) (" ".intercalate obs)
          ++ shape ++ (if shape.isEmpty then specs alerts obs else []) ++ tagsOf alerts d
          ++ [.tag (if σ.dummy = 0 then "webhook:custom-payload-first" else "webhook:custom-payload-again")] ++ flagTags as)
  | ["webhook", mx, recv, as] =>
    let alerts := parseAlerts as
    let (listed, cut) := AM.Trunc.truncAlerts (toNat! mx) alerts
    let d := data nowT (quoteMeta (unhexStr recv)) listed
    let obsCut := kvNat obs "trunc" 0
    let n := (splitList ";" ((kv obs "alerts").getD "-")).length
    let pf : List Msg :=
      (if n + obsCut ≠ alerts.length then [Msg.propfail "max_alerts_truncation" "count-mismatch" s!"listed={n} truncatedAlerts={obsCut} batch={alerts.length}"] else [])
      ++ (if toNat! mx ≠ 0 ∧ n > toNat! mx then [Msg.propfail "max_alerts_truncation" "over-max" s!"listed={n} max={mx}"] else [])
      ++ (if (toNat! mx = 0 ∨ alerts.length ≤ toNat! mx) ∧ obsCut ≠ 0 then [Msg.propfail "max_alerts_truncation" "cut-although-fits" s!"truncatedAlerts={obsCut}"] else [])
    (σ, expectEq "webhook" (" ".intercalate (s!"trunc={cut}" :: dump d)) (" ".intercalate obs)
          ++ specs (alerts.take n) obs ++ pf ++ tagsOf listed d ++ (if cut > 0 then [.tag "webhook:truncated"] else [.tag "webhook:all"]) ++ flagTags as)
  | _ => (σ, [.diff "parse" "?" (" ".intercalate op)])

def engine : Engine St where
  init _ := {}
  step := step

end Driver.TmplData
