/-
  Engine `webhook` (C20): the real notify/webhook notifier with a per-request
  `timeout` against a scripted loopback endpoint, alone and inside the real
  RetryStage (real time), vs `AM.Retry` (`httpOutcome`, `exec`).

    notify <timeout_ms> <hang|code>          -> retry=<0|1> err=<0|1> reqs=<n> alive=<0|1>
    stage <timeout_ms> <D_ms> <script>       -> res=<ok|unrec:N|deadline:N|other:hex> reqs=<n> ret=<ns> starts=<ns '.'-joined>

  `hang` = the endpoint does not answer before the per-request timeout; requests beyond the script get 200.
  No claim is made about a call / stage that ran into the flush deadline itself (alive=0, ret ≥ D): real time.
-/
import Driver.Util
import AM.Model.Retry

namespace Driver.Webhook
open Driver AM.Retry

def ms : Int := 1000000

def parseHttp (s : String) : Http := if s = "hang" then .timeout else .status (toNat! s)

def showRes : Res → String
  | .success _ => "ok"
  | .unrecoverable n => s!"unrec:{n}"
  | .deadline n _ => s!"deadline:{n}"

def classTag (h : Http) : String :=
  match h with
  | .timeout => "timeout"
  | .status c => s!"{c / 100}xx"

structure St where
  dummy : Nat := 0

def step (σ : St) (op obs : List String) : St × List Msg :=
  match op with
  | ["notify", _tmo, b] =>
    let h := parseHttp b
    let retry := kvNat obs "retry" 0 = 1
    let err := kvNat obs "err" 0 = 1
    if kvNat obs "alive" 1 = 0 then (σ, [.tag "notify:flush-deadline-hit"]) else
    let o := httpOutcome h
    let want : String := match o with
      | .ok => "retry=0 err=0" | .recoverable => "retry=1 err=1" | .unrecoverable => "retry=0 err=1" | .hang => "retry=1 err=1"
    let got := s!"retry={if retry then 1 else 0} err={if err then 1 else 0}"
    let pf : List Msg :=
      (if h = .timeout ∧ !retry then
         [Msg.propfail "request_timeout_retried" "request-timeout-unrecoverable" s!"the per-request timeout expired with the flush deadline far away: {got}"] else [])
      ++ (if o = .recoverable ∧ h ≠ .timeout ∧ !retry then
         [Msg.propfail "recoverable_retried_until_deadline" "5xx-unrecoverable" s!"answer {b}: {got}"] else [])
      ++ (if o = .unrecoverable ∧ retry then
         [Msg.propfail "unrecoverable_not_retried" "4xx-retried" s!"answer {b}: {got}"] else [])
      ++ (if o ≠ .ok ∧ !err then
         [Msg.propfail "failure_reported" "silent-failure" s!"answer {b}: {got}"] else [])
    (σ, expectEq "notify" want got ++ pf ++ [.tag s!"notify:{classTag h}"])
  | ["stage", tmo, d, script] =>
    let timeout := toInt! tmo * ms
    let D := toInt! d * ms
    let sc := (splitList "," script).map parseHttp
    let res := (kv obs "res").getD ""
    let reqs := kvNat obs "reqs" 0
    let ret := kvInt obs "ret" 0
    let starts := (splitList "." ((kv obs "starts").getD "-")).map toInt!
    if ret ≥ D ∨ starts.length ≠ reqs then (σ, [.tag "stage:flush-deadline-hit"]) else
    let hs : List Http := (List.range reqs).map fun k => sc.getD k (.status 200)
    let atts : List Att := (List.range reqs).map fun k => httpAtt timeout (starts.getD k 0) (hs.getD k (.status 200))
    let mres := exec D atts 0 false
    let lastIdx := reqs - 1
    let allRec := hs.all fun h => httpOutcome h = .recoverable
    let pf : List Msg :=
      -- the stage came back before the flush deadline although every attempt so far failed recoverably
      (if allRec ∧ reqs > 0 ∧ res ≠ "ok" then
         [Msg.propfail (if hs.contains .timeout then "request_timeout_retried" else "recoverable_retried_until_deadline") "gave-up-before-deadline"
            s!"attempts {hs.map classTag} all recoverable, result {res} after {ret} ns, flush deadline {D} ns"] else [])
      ++ ((List.range reqs).foldl (fun acc k =>
            let o := httpOutcome (hs.getD k (.status 200))
            acc ++ (if (o = .unrecoverable ∨ o = .ok) ∧ k < lastIdx then
              [Msg.propfail "unrecoverable_not_retried" (if o = .ok then "retried-after-success" else "retried-unrecoverable")
                 s!"attempt {k} answered {classTag (hs.getD k (.status 200))}, {reqs} requests made"] else [])) [])
      ++ (if res = "ok" ∧ !(hs.any fun h => httpOutcome h = .ok) then
         [Msg.propfail "failure_reported" "silent-failure" s!"no request was answered 2xx ({hs.map classTag}), the stage reported success"] else [])
    let tags : List Msg :=
      (match mres with
       | .success k => if k > 1 then [.tag "stage:success-after-retry"] else [.tag "stage:success-first"]
       | .unrecoverable k => if k > 1 then [.tag "stage:unrecoverable-after-retry"] else [.tag "stage:unrecoverable-first"]
       | .deadline _ _ => [.tag "stage:open"])
      ++ (if (hs.filter (· = .timeout)).length ≥ 2 then [.tag "stage:two-timeouts"] else [])
    (σ, expectEq "stage.res" (showRes mres) res ++ expectEq "stage.attempts" (toString mres.attempts) (toString reqs) ++ pf ++ tags)
  | _ => (σ, [.diff "parse" "?" (" ".intercalate op)])

def engine : Engine St where
  init _ := {}
  step := step

end Driver.Webhook
