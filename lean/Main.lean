import Driver

def main (args : List String) : IO UInt32 := do
  match args with
  | ["nflog"] => Driver.runEngine Driver.Nflog.engine
  | _ => do
    IO.eprintln "usage: amdrv <engine> < trace"
    return 2
