import Driver

def allEngines : List (String × IO UInt32) :=
  Driver.Reg.Core.engines ++ Driver.Reg.Silence.engines ++ Driver.Reg.Alerts.engines ++
  Driver.Reg.Routing.engines ++ Driver.Reg.Time.engines ++ Driver.Reg.Matcher.engines ++
  Driver.Reg.Limits.engines ++ Driver.Reg.Persist.engines ++ Driver.Reg.Sys.engines

def main (args : List String) : IO UInt32 := do
  match args with
  | [name] =>
    match allEngines.lookup name with
    | some run => run
    | none => do
      IO.eprintln s!"unknown engine {name}; known: {allEngines.map (·.1)}"
      return 2
  | _ => do
    IO.eprintln "usage: amdrv <engine> < trace"
    return 2
