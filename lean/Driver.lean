import Driver.Util
import Driver.Nflog
