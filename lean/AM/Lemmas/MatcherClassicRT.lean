/-
  C16: the classic parser reads back what `Matcher.String` prints for a classic
  label name.  `unesc_omEscape` is the unbounded escape/unescape inverse.
-/
import AM.Lemmas.MatcherBasic

namespace AM.Mt
open AM

set_option linter.unusedSimpArgs false

/-- The unescape loop of `ParseMatcher` inverts `openMetricsEscape` (followed by
    the closing quote), for every valid string. -/
theorem unesc_omEscape (cs : List Char) :
    unescLoop false true (omEscape (ofChars cs) ++ [dq]) = some (ofChars cs) := by
  simp only [dq]
  induction cs with
  | nil => simp [ofChars, omEscape, unescLoop]
  | cons c cs ih =>
    have hne : omEscape (ofChars cs) ++ [Rune.ch '"'] ≠ [] := by simp
    simp only [ofChars, List.map_cons] at ih hne ⊢
    unfold omEscape
    by_cases h92 : (Rune.ch c).cp = 92
    · simp [h92, unescLoop, bs, ih, hne, Rune.norm]
      exact (char_eq_of_toNat h92).symm
    · by_cases h10 : (Rune.ch c).cp = 10
      · simp [h92, h10, unescLoop, bs, ih, hne]
        exact (char_eq_of_toNat h10).symm
      · by_cases h34 : (Rune.ch c).cp = 34
        · simp [h92, h10, h34, unescLoop, bs, dq, ih, hne, Rune.norm]
          exact (char_eq_of_toNat h34).symm
        · simp only [h92, h10, h34, if_false, List.cons_append]
          simp only [Rune.cp_ch] at h92 h34
          simp [unescLoop, h92, h34, ih, Rune.norm]

theorem scanOp_str (op : Op) (rest : Str) : scanOp (op.str ++ dq :: rest) = some (op, dq :: rest) := by
  cases op <;> simp [Op.str, scanOp, dq]

/-- the regexp applied to `name op "…"` -/
theorem classicScan_printed (name : Str) (op : Op) (body : Str) (hn : classicName name = true) :
    classicScan (name ++ op.str ++ (dq :: (body ++ [dq]))) = some (name, op, dq :: (body ++ [dq])) := by
  obtain ⟨r, rest, hs, hstart, hall⟩ := classicName_spec hn
  obtain ⟨a, tl, hop, ha⟩ := op_str_head op
  have hopNotName : isNameChar a.toNat = false := by
    rcases ha with h | h <;> simp [isNameChar, isNameStart, h]
  have hopNotSpace : isReSpace a.toNat = false := by
    rcases ha with h | h <;> simp [isReSpace, h]
  have hspace : isReSpace r.cp = false := nameChar_not_reSpace (nameStart_nameChar hstart)
  rw [List.append_assoc]
  generalize hX : dq :: (body ++ [dq]) = X
  have h1 : List.dropWhile (fun r => isReSpace r.cp) (name ++ (op.str ++ X)) = name ++ (op.str ++ X) := by
    rw [hs]
    simp [List.dropWhile_cons, hspace]
  have h2 : List.takeWhile (fun r => isNameChar r.cp) (name ++ (op.str ++ X)) = name := by
    rw [List.takeWhile_append_of_pos (by intro x hx; exact hall x hx), hop]
    simp [List.takeWhile_cons, hopNotName]
  have h3 : List.dropWhile (fun r => isNameChar r.cp) (name ++ (op.str ++ X)) = op.str ++ X := by
    rw [List.dropWhile_append_of_pos (by intro x hx; exact hall x hx), hop]
    simp [List.dropWhile_cons, hopNotName]
  have h4 : List.dropWhile (fun r => isReSpace r.cp) (op.str ++ X) = op.str ++ X := by
    rw [hop]
    simp [List.dropWhile_cons, hopNotSpace]
  have h5 : List.dropWhile (fun r => isReSpace r.cp) X = X := by
    subst hX; simp [List.dropWhile_cons, dq, isReSpace]
  have h6 : trimRight (fun r => isReSpace r.cp) X = X := by
    subst hX
    have := trimRight_concat (fun r => isReSpace r.cp) (dq :: body) dq (by simp [dq, isReSpace])
    simpa using this
  have h7 : scanOp (op.str ++ X) = some (op, X) := by subst hX; exact scanOp_str op _
  unfold classicScan
  simp only [h1, h2, h3, h4, h7, h5, h6]
  subst hs
  simp [hstart]

theorem classicMatcher_printed (compiles : Str → Bool) (op : Op) (name : Str) (cs : List Char)
    (hn : classicName name = true) (hc : op.isRegex = true → compiles (ofChars cs) = true) :
    classicMatcher compiles (name ++ op.str ++ (dq :: (omEscape (ofChars cs) ++ [dq]))) = .ok ⟨op, name, ofChars cs⟩ := by
  unfold classicMatcher
  rw [classicScan_printed name op _ hn]
  have hv : validB (omEscape (ofChars cs) ++ [dq]) = true := by
    rw [validB_iff, valid_append]
    exact ⟨valid_omEscape (valid_ofChars cs), by simp [Valid, dq]⟩
  simp only [dq, Rune.cp_ch] at hv ⊢
  simp [hv]
  have := unesc_omEscape cs
  simp only [dq] at this
  rw [this]
  simp only [newMatcher]
  cases hr : op.isRegex
  · simp
  · simp [hc hr]

end AM.Mt
