/-
  C16: the classic list parser on ANY printed list of well-formed matchers:
  every printed matcher is cut out as one token (also the `strconv.Quote`d
  form), so the list is read back when all names are classic and rejected
  otherwise — which is what makes the fallback list round trip hold.
-/
import AM.Lemmas.MatcherClassicListRT
import AM.Lemmas.MatcherFallbackRT
import AM.Lemmas.MatcherLex

namespace AM.Mt
open AM

set_option linter.unusedSimpArgs false

/-! ### `strconv.Quote` output inside the splitter's quotes -/

/-- shape of one quoted valid rune, fine enough for the splitter -/
def QForm2 (l : Str) : Prop :=
  (∃ y l', l = bs :: .ch y :: l' ∧ y.toNat ≠ 44 ∧ (∀ x ∈ l', ∃ c, x = .ch c ∧ c.toNat ≠ 92 ∧ c.toNat ≠ 34)) ∨
  (∃ c, l = [.ch c] ∧ c.toNat ≠ 92 ∧ c.toNat ≠ 34)

theorem hexDigit_form (d : Nat) : ∃ c, hexDigit d = .ch c ∧ c.toNat ≠ 92 ∧ c.toNat ≠ 34 := by
  unfold hexDigit
  split <;> exact ⟨_, rfl, by decide, by decide⟩

theorem hex2_form (n : Nat) : ∀ x ∈ hex2 n, ∃ c, x = .ch c ∧ c.toNat ≠ 92 ∧ c.toNat ≠ 34 := by
  intro x hx
  simp only [hex2, List.mem_cons, List.mem_nil_iff, or_false] at hx
  rcases hx with rfl | rfl <;> exact hexDigit_form _

theorem hex4_form (n : Nat) : ∀ x ∈ hex4 n, ∃ c, x = .ch c ∧ c.toNat ≠ 92 ∧ c.toNat ≠ 34 := by
  intro x hx
  simp only [hex4, List.mem_cons, List.mem_nil_iff, or_false] at hx
  rcases hx with rfl | rfl | rfl | rfl <;> exact hexDigit_form _

theorem hex8_form (n : Nat) : ∀ x ∈ hex8 n, ∃ c, x = .ch c ∧ c.toNat ≠ 92 ∧ c.toNat ≠ 34 := by
  intro x hx
  simp only [hex8, List.mem_append] at hx
  rcases hx with h | h
  · exact hex4_form _ x h
  · exact hex4_form _ x h

theorem quoteRune_form2 (ip : Nat → Bool) (c : Char) : QForm2 (quoteRune ip (.ch c)) := by
  rw [quoteRune_ch]
  split
  · rename_i h
    refine Or.inl ⟨c, [], rfl, by omega, by simp⟩
  · rename_i hq
    split
    · exact Or.inr ⟨c, rfl, by omega, by omega⟩
    · repeat' split
      all_goals first
        | exact Or.inl ⟨_, [], rfl, by decide, by simp⟩
        | exact Or.inl ⟨_, _, rfl, by decide, hex2_form _⟩
        | exact Or.inl ⟨_, _, rfl, by decide, hex4_form _⟩
        | exact Or.inl ⟨_, _, rfl, by decide, hex8_form _⟩

theorem sl_q_plains (l : Str) (hl : ∀ x ∈ l, ∃ c, x = .ch c ∧ c.toNat ≠ 92 ∧ c.toNat ≠ 34) (rest : Str) :
    splitLoop true false (l ++ rest) = consHead l (splitLoop true false rest) := by
  induction l with
  | nil => simp [consHead_nil _ (splitLoop_ne_nil _ _ _)]
  | cons x l ih =>
    obtain ⟨c, rfl, h92, h34⟩ := hl x (by simp)
    simp only [List.cons_append]
    rw [sl_q_plain c false h34 h92 _ (fun _ => rfl), ih (fun y hy => hl y (by simp [hy])), ← consHead_append]
    simp

theorem sl_q_quoteRune (ip : Nat → Bool) (c : Char) (rest : Str) :
    splitLoop true false (quoteRune ip (.ch c) ++ rest) =
      consHead (quoteRune ip (.ch c)) (splitLoop true false rest) := by
  have hf := quoteRune_form2 ip c
  generalize quoteRune ip (.ch c) = l at hf
  rcases hf with ⟨y, l', rfl, hy, hl⟩ | ⟨x, rfl, h92, h34⟩
  · simp only [List.cons_append]
    rw [sl_q_bs]
    simp only [Bool.not_false]
    have hstep : splitLoop true true (Rune.ch y :: (l' ++ rest)) =
        consHead [Rune.ch y] (splitLoop true false (l' ++ rest)) := by
      by_cases h34 : y.toNat = 34
      · obtain rfl : y = Char.ofNat 34 := char_eq_of_toNat h34
        exact sl_q_dq_esc _
      · by_cases h92 : y.toNat = 92
        · obtain rfl : y = Char.ofNat 92 := char_eq_of_toNat h92
          have := sl_q_bs true (l' ++ rest)
          simpa [bs] using this
        · exact sl_q_plain y true h34 h92 _ (fun h => absurd h hy)
    rw [hstep, sl_q_plains l' hl, ← consHead_append, ← consHead_append]
    simp
  · exact sl_q_plains [Rune.ch x] (by intro z hz; simp at hz; exact ⟨x, hz, h92, h34⟩) rest

theorem sl_q_quoteBody (ip : Nat → Bool) (cs : List Char) (rest : Str) :
    splitLoop true false (quoteBody ip (ofChars cs) ++ dq :: rest) =
      consHead (quoteBody ip (ofChars cs) ++ [dq]) (splitLoop false false rest) := by
  induction cs with
  | nil => simpa [ofChars, quoteBody] using sl_q_dq rest
  | cons c cs ih =>
    simp only [ofChars, List.map_cons, quoteBody, List.append_assoc] at ih ⊢
    rw [sl_q_quoteRune, ih, ← consHead_append]

theorem sl_open_quote (s : Str) :
    splitLoop false false (dq :: s) = consHead [dq] (splitLoop true false s) := by
  rw [splitLoop_cons _ _ _ _ (by simp [dq])]
  simp [splitState, dq, Rune.norm]

theorem oneToken_quote (ip : Nat → Bool) (cs : List Char) : OneToken (quote ip (ofChars cs)) := by
  intro rest
  have e : quote ip (ofChars cs) ++ rest = dq :: (quoteBody ip (ofChars cs) ++ dq :: rest) := by simp [quote]
  rw [e, sl_open_quote, sl_q_quoteBody, ← consHead_append]
  simp [quote]

theorem oneToken_omQuoted (cs : List Char) : OneToken (dq :: (omEscape (ofChars cs) ++ [dq])) := by
  intro rest
  have e : dq :: (omEscape (ofChars cs) ++ [dq]) ++ rest = dq :: (omEscape (ofChars cs) ++ dq :: rest) := by simp
  rw [e, sl_open_quote, splitLoop_omEscape, ← consHead_append]
  simp

theorem oneToken_append {A B : Str} (hA : OneToken A) (hB : OneToken B) : OneToken (A ++ B) := by
  intro rest
  rw [List.append_assoc, hA, hB, consHead_append]

theorem oneToken_plain (P : Str) (hP : ∀ x ∈ P, x.cp ≠ 44 ∧ x.cp ≠ 34 ∧ x.cp ≠ 92) (hv : Valid P) : OneToken P :=
  fun rest => splitLoop_plain P hP hv rest

theorem oneToken_op (op : Op) : OneToken op.str := by
  apply oneToken_plain
  · intro x hx
    cases op <;> simp [Op.str] at hx <;> rcases hx with rfl | rfl <;> simp
  · cases op <;> simp [Op.str, Valid]

/-- every printed matcher with valid name and value is cut out as one token -/
theorem oneToken_print (ip : Nat → Bool) (op : Op) (n v : List Char) :
    OneToken (print ip ⟨op, ofChars n, ofChars v⟩) := by
  unfold print
  simp only
  split
  · exact oneToken_append (oneToken_append (oneToken_quote ip n) (oneToken_op op)) (oneToken_quote ip v)
  · rename_i hcond
    simp only [Bool.or_eq_true, not_or, Bool.not_eq_true] at hcond
    have hall : ∀ x ∈ ofChars n, isReserved x.cp = false := by
      simpa [hasReserved] using hcond.2
    have hplain : ∀ x ∈ ofChars n, x.cp ≠ 44 ∧ x.cp ≠ 34 ∧ x.cp ≠ 92 := by
      intro x hx
      have := hall x hx
      simp only [isReserved, Bool.or_eq_false_iff, beq_eq_false_iff_ne] at this
      omega
    exact oneToken_append (oneToken_append (oneToken_plain _ hplain (valid_ofChars n)) (oneToken_op op))
      (oneToken_omQuoted v)

/-! ### the token list and its parse -/

theorem print_shape (ip : Nat → Bool) (m : Matcher) :
    ∃ r Y, print ip m = r :: (Y ++ [dq]) ∧ isSpaceU r.cp = false := by
  unfold print
  split
  · exact ⟨dq, quoteBody ip m.name ++ [dq] ++ m.op.str ++ (dq :: quoteBody ip m.value),
      by simp [quote], by simp [dq, isSpaceU]⟩
  · rename_i hcond
    simp only [Bool.or_eq_true, not_or, Bool.not_eq_true] at hcond
    obtain ⟨hne, hres⟩ := hcond
    cases hn : m.name with
    | nil => rw [hn] at hne; simp at hne
    | cons r rest =>
      have hall : ∀ x ∈ m.name, isReserved x.cp = false := by simpa [hasReserved] using hres
      have hr := hall r (by simp [hn])
      simp only [isReserved, Bool.or_eq_false_iff] at hr
      exact ⟨r, rest ++ m.op.str ++ (dq :: omEscape m.value), by simp, hr.1.1.1.1.1.1.1.1.1.1⟩

theorem trimSpaceU_print (ip : Nat → Bool) (m : Matcher) :
    trimSpaceU (print ip m) = print ip m ∧ print ip m ≠ [] := by
  obtain ⟨r, Y, hp, hr⟩ := print_shape ip m
  rw [hp]
  constructor
  · unfold trimSpaceU
    have h1 : List.dropWhile (fun r => isSpaceU r.cp) (r :: (Y ++ [dq])) = r :: (Y ++ [dq]) := by
      simp [List.dropWhile_cons, hr]
    rw [h1]
    have := trimRight_concat (fun r => isSpaceU r.cp) (r :: Y) dq (by simp [dq, isSpaceU])
    simpa using this
  · simp

theorem parseAll_fails (compiles : Str → Bool) (f : Matcher → Str) (ms : List Matcher)
    (hok : ∀ m ∈ ms, classicMatcher compiles (f m) = .ok m ∨ classicMatcher compiles (f m) = .error .syntax)
    (hbad : ∃ m ∈ ms, classicMatcher compiles (f m) = .error .syntax) :
    parseAll compiles (ms.map f) = .error .syntax := by
  induction ms with
  | nil => obtain ⟨m, hm, _⟩ := hbad; simp at hm
  | cons m rest ih =>
    simp only [List.map_cons, parseAll]
    rcases hok m (by simp) with h | h
    · have hbad' : ∃ x ∈ rest, classicMatcher compiles (f x) = .error .syntax := by
        obtain ⟨x, hx, hxe⟩ := hbad
        simp only [List.mem_cons] at hx
        rcases hx with rfl | hx
        · rw [h] at hxe; cases hxe
        · exact ⟨x, hx, hxe⟩
      rw [h, ih (fun x hx => hok x (by simp [hx])) hbad']
    · rw [h]

/-- `labels.ParseMatchers` rejects a printed list in which some name is not classic -/
theorem classicMatchers_printList_nonclassic (ip : Nat → Bool) (compiles : Str → Bool) (ms : List Matcher)
    (hv : ∀ m ∈ ms, ∃ n v, m.name = ofChars n ∧ m.value = ofChars v)
    (hc : ∀ m ∈ ms, classicName m.name = true → classicMatcher compiles (print ip m) = .ok m)
    (hbad : ∃ m ∈ ms, classicName m.name = false) :
    classicMatchers compiles (printList ip ms) = .error .syntax := by
  have hpre : trimPrefixBrace (printList ip ms) = commaSep (print ip) ms ++ [.ch '}'] := by
    simp [printList, trimPrefixBrace]
  have hsuf : trimSuffixBrace (commaSep (print ip) ms ++ [.ch '}']) = commaSep (print ip) ms := by
    simp [trimSuffixBrace]
  unfold classicMatchers classicTokens
  rw [hpre, hsuf]
  have hne : ms ≠ [] := by
    obtain ⟨m, hm, _⟩ := hbad
    intro h; rw [h] at hm; simp at hm
  have hone : ∀ x ∈ ms, OneToken (print ip x) := by
    intro x hx
    obtain ⟨n, v, hn, hvv⟩ := hv x hx
    obtain ⟨op, name, value⟩ := x
    simp only at hn hvv
    subst hn hvv
    exact oneToken_print ip op n v
  rw [splitLoop_commaSep (print ip) ms hne hone, finishTokens_stable]
  · apply parseAll_fails
    · intro m hm
      by_cases hcn : classicName m.name = true
      · exact Or.inl (hc m hm hcn)
      · exact Or.inr (classicMatcher_print_nonclassic ip compiles m (by simpa using hcn))
    · obtain ⟨m, hm, hcn⟩ := hbad
      exact ⟨m, hm, classicMatcher_print_nonclassic ip compiles m hcn⟩
  · intro t ht
    simp only [List.mem_map] at ht
    obtain ⟨x, _, rfl⟩ := ht
    exact trimSpaceU_print ip x

end AM.Mt
