/-
  Record-level lemmas of the snapshot framing (C11).
-/
import AM.Lemmas.Varint

namespace AM.Snapshot

theorem readRecord_cons (maxSize b : Nat) (bs : Bytes) :
    readRecord maxSize (b :: bs) =
      match readVarint 10 (b :: bs) with
      | none => .err
      | some (n, rest) =>
        if maxSize < n then .err
        else if rest.length < n then .err
        else .record (rest.take n) (rest.drop n) := rfl

theorem readRecord_ne_nil (maxSize : Nat) (bs : Bytes) (h : bs ≠ []) :
    readRecord maxSize bs =
      match readVarint 10 bs with
      | none => .err
      | some (n, rest) =>
        if maxSize < n then .err
        else if rest.length < n then .err
        else .record (rest.take n) (rest.drop n) := by
  cases bs with
  | nil => exact absurd rfl h
  | cons b bs => rfl

theorem encodeRecord_ne_nil (p : Bytes) : encodeRecord p ≠ [] := by
  unfold encodeRecord
  intro h
  have := encodeVarint_ne_nil p.length
  simp_all

/-- a complete record followed by anything is read back exactly -/
theorem readRecord_encode (maxSize : Nat) (p rest : Bytes)
    (hs : p.length ≤ maxSize) (hu : p.length < 2 ^ 64) :
    readRecord maxSize (encodeRecord p ++ rest) = .record p rest := by
  have hne : encodeRecord p ++ rest ≠ [] := by
    intro h; exact encodeRecord_ne_nil p (List.append_eq_nil_iff.mp h).1
  rw [readRecord_ne_nil _ _ hne]
  unfold encodeRecord
  rw [List.append_assoc, varint_roundtrip _ _ hu]
  have h1 : ¬ maxSize < p.length := by omega
  simp [h1]

/-- a proper prefix of a list ending in a distinguished last element is a prefix of the front -/
theorem prefix_of_concat {α} (p a init : List α) (last : α) (h : p ++ a = init ++ [last]) (ha : a ≠ []) :
    ∃ t, init = p ++ t := by
  rcases List.eq_nil_or_concat a with h0 | ⟨a', x, rfl⟩
  · exact absurd h0 ha
  · rw [List.concat_eq_append, ← List.append_assoc] at h
    have := List.append_inj_left' h rfl
    exact ⟨a', this.symm⟩

/-- a non-empty proper prefix of one record is rejected -/
theorem readRecord_proper_prefix (maxSize : Nat) (payload p a : Bytes)
    (h : encodeRecord payload = p ++ a) (hp : p ≠ []) (ha : a ≠ [])
    (hu : payload.length < 2 ^ 64) :
    readRecord maxSize p = .err := by
  rw [readRecord_ne_nil _ _ hp]
  unfold encodeRecord at h
  rcases List.append_eq_append_iff.mp h with ⟨c, hc1, hc2⟩ | ⟨c, hc1, hc2⟩
  · -- p = varint ++ c, payload = c ++ a
    have := varint_roundtrip payload.length c hu
    rw [hc1, this]
    have hlen : c.length < payload.length := by
      rw [hc2]; simp
      cases a with
      | nil => exact absurd rfl ha
      | cons _ _ => simp
    simp [hlen]
  · -- varint = p ++ c
    by_cases hcn : c = []
    · subst hcn
      simp at hc1 hc2
      have := varint_roundtrip payload.length [] hu
      rw [List.append_nil] at this
      rw [← hc1, this]
      have : 0 < payload.length := by
        rw [← hc2]
        cases a with
        | nil => exact absurd rfl ha
        | cons _ _ => simp
      have h2 : ¬ payload.length = 0 := by omega
      simp [h2]
    · obtain ⟨init, last, he, hi, _⟩ := encodeVarint_shape payload.length
      rw [he] at hc1
      obtain ⟨t, ht⟩ := prefix_of_concat p c init last hc1.symm hcn
      have : readVarint 10 p = none := by
        apply readVarint_high
        intro b hb
        exact hi b (by rw [ht]; simp [hb])
      rw [this]

end AM.Snapshot
