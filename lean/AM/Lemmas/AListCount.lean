/-
  Counting lemmas on association lists (work area Limits): lengths under
  `put`/`erase`, and the pigeonhole "distinct keys that all occur in another
  map are no more than that map's entries".
-/
import AM.Base.Map

namespace AM.AList
variable {κ α β : Type} [DecidableEq κ]

theorem length_put (m : AList κ α) (k : κ) (v : α) :
    (put m k v).length = if lookup m k = none then m.length + 1 else m.length := by
  induction m with
  | nil => simp [put]
  | cons hd tl ih =>
    obtain ⟨k', v'⟩ := hd
    unfold put
    by_cases h : k' = k
    · simp [h]
    · simp only [h, if_false, List.length_cons, ih, lookup_cons]
      by_cases hn : lookup tl k = none <;> simp [hn]

theorem length_erase_le (m : AList κ α) (k : κ) : (erase m k).length ≤ m.length := by
  induction m with
  | nil => simp [erase]
  | cons hd tl ih =>
    obtain ⟨k', v'⟩ := hd
    unfold erase
    by_cases h : k' = k
    · simp only [h, if_true, List.length_cons]; omega
    · simp only [h, if_false, List.length_cons]; omega

theorem length_erase_lt (m : AList κ α) (k : κ) (h : lookup m k ≠ none) :
    (erase m k).length + 1 ≤ m.length := by
  induction m with
  | nil => simp at h
  | cons hd tl ih =>
    obtain ⟨k', v'⟩ := hd
    unfold erase
    by_cases hk : k' = k
    · simp only [hk, if_true, List.length_cons]
      have := length_erase_le tl k
      omega
    · simp only [hk, if_false, List.length_cons]
      have : lookup tl k ≠ none := by simpa [hk] using h
      have := ih this
      omega

/-- pigeonhole: a duplicate-free map whose keys all occur in `l2` has at most `l2.length` entries -/
theorem length_le_of_keys_subset (l1 : AList κ α) (l2 : AList κ β) (hnd : NoDupKeys l1)
    (h : ∀ k v, lookup l1 k = some v → lookup l2 k ≠ none) : l1.length ≤ l2.length := by
  induction l1 generalizing l2 with
  | nil => simp
  | cons hd tl ih =>
    obtain ⟨k, v⟩ := hd
    obtain ⟨hk, hnd'⟩ := hnd
    have h1 : lookup l2 k ≠ none := h k v (by simp)
    have h2 : tl.length ≤ (erase l2 k).length := by
      apply ih (erase l2 k) hnd'
      intro k' v' hl
      have hne : k ≠ k' := by
        intro heq; subst heq; rw [hk] at hl; cases hl
      rw [lookup_erase]; simp only [hne, if_false]
      exact h k' v' (by simp [hne, hl])
    have h3 := length_erase_lt l2 k h1
    simp only [List.length_cons]; omega

theorem lookup_filterVals_some {p : κ → α → Bool} {m : AList κ α} (hnd : NoDupKeys m) {q : κ} {v : α}
    (h : lookup (filterVals p m) q = some v) : lookup m q = some v ∧ p q v = true := by
  rw [lookup_filterVals p m hnd] at h
  cases hm : lookup m q with
  | none => simp [hm] at h
  | some w =>
    simp only [hm] at h
    by_cases hp : p q w
    · simp [hp] at h; subst h; exact ⟨rfl, hp⟩
    · simp [hp] at h

end AM.AList
