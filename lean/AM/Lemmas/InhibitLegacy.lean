/-
  Lemmas about the pinned-tree inhibitor (`AM.Inhibit.Legacy`): with at most one
  source label set per equal-key the single index slot is exact, and the
  single-slot lookup then agrees with the cache.
-/
import AM.Lemmas.Inhibit

namespace AM.Inhibit
open AM AM.AList

/-- within the universe `U` of label sets, no two source-side label sets of `r` share an equal-key. -/
def UniqU (U : Labels → Prop) (r : Rule) : Prop :=
  ∀ x y, U x → U y → r.src x = true → r.src y = true → r.eqKey x = r.eqKey y → x = y

/-- every cached alert is the indexed source of its equal-key. -/
def SlotExact (rs : RS) : Prop :=
  ∀ k a, lookup rs.scache k = some a → lookup rs.sindex (rs.rule.eqKey k) = some k

structure InU (U : Labels → Prop) (rs : RS) : Prop where
  cache : ∀ k a, lookup rs.scache k = some a → U k ∧ rs.rule.src k = true
  index : ∀ key ix, lookup rs.sindex key = some ix → U ix ∧ rs.rule.src ix = true

/-- `updateIndex` when the slot of the alert's key, if occupied, holds the alert itself. -/
theorem updateIndex_sindex_own (rs : RS) (a : Alert)
    (hown : ∀ ix, lookup rs.sindex (rs.rule.eqKey a.labels) = some ix → ix = a.labels) (q : List String) :
    lookup (updateIndex rs a).sindex q =
      if rs.rule.eqKey a.labels = q then some a.labels else lookup rs.sindex q := by
  unfold updateIndex
  cases h : lookup rs.sindex (rs.rule.eqKey a.labels) with
  | none => simp [lookup_put]
  | some ix =>
    have := hown ix h
    subst this
    simp only [if_true]
    by_cases hq : rs.rule.eqKey a.labels = q
    · subst hq; simp [h]
    · simp [hq]

theorem procRule_legacy (U : Labels → Prop) (a : Alert) (rs : RS) (hU : U a.labels) (hu : UniqU U rs.rule)
    (hs : Shape rs) (hx : SlotExact rs) (hi : InU U rs) :
    SlotExact (procRule a rs) ∧ InU U (procRule a rs) := by
  unfold procRule
  by_cases hsrc : rs.rule.src a.labels = true
  · simp only [hsrc, if_true]
    have hown : ∀ ix, lookup rs.sindex (rs.rule.eqKey a.labels) = some ix → ix = a.labels := by
      intro ix hix
      obtain ⟨h1, h2⟩ := hi.index _ ix hix
      exact hu ix a.labels h1 hU h2 hsrc (hs.ixok _ _ hix)
    have hlk := updateIndex_sindex_own { rs with scache := put rs.scache a.labels a } a hown
    refine ⟨?_, ?_, ?_⟩
    · intro k b hb
      simp only [updateIndex_scache, lookup_put] at hb
      simp only [updateIndex_rule]
      rw [hlk]
      by_cases hk : a.labels = k
      · subst hk; simp
      · simp [hk] at hb
        obtain ⟨h1, h2⟩ := hi.cache k b hb
        have hne : rs.rule.eqKey a.labels ≠ rs.rule.eqKey k := by
          intro he; exact hk (hu a.labels k hU h1 hsrc h2 he)
        simp only [hne, if_false]
        exact hx k b hb
    · intro k b hb
      simp only [updateIndex_scache, lookup_put, updateIndex_rule] at hb ⊢
      by_cases hk : a.labels = k
      · subst hk; exact ⟨hU, hsrc⟩
      · simp [hk] at hb; exact hi.cache k b hb
    · intro key ix hix
      rw [hlk] at hix
      simp only [updateIndex_rule]
      by_cases hk : rs.rule.eqKey a.labels = key
      · simp [hk] at hix; subst hix; exact ⟨hU, hsrc⟩
      · simp [hk] at hix; exact hi.index key ix hix
  · simp only [hsrc]
    exact ⟨hx, hi⟩

theorem Legacy.gcRule_rule (g : Int) (rs : RS) : (Legacy.gcRule g rs).rule = rs.rule := rfl
theorem Legacy.gcRule_scache (g : Int) (rs : RS) : (Legacy.gcRule g rs).scache = survivors g rs.scache := rfl

theorem Legacy.gcRule_shape (g : Int) (rs : RS) (h : Shape rs) : Shape (Legacy.gcRule g rs) := by
  refine ⟨noDupKeys_filterVals _ _ h.nd, ?_, dropKeys_indexOK _ _ _ h.ixok⟩
  intro k a ha
  rw [Legacy.gcRule_scache, lookup_survivors _ _ h.nd] at ha
  cases hc : lookup rs.scache k with
  | none => simp [hc] at ha
  | some b =>
    simp only [hc] at ha
    by_cases hr : b.resolvedAt g = true
    · simp [hr] at ha
    · simp [hr] at ha; subst ha; exact h.key k b hc

theorem Legacy.gcRule_tracks (lat : AList Labels Alert) (now g : Int) (hg : g ≤ now) (rs : RS) (hs : Shape rs)
    (h : Tracks lat now rs) : Tracks lat now (Legacy.gcRule g rs) := by
  refine ⟨?_, ?_⟩
  · intro k a ha
    rw [Legacy.gcRule_scache, lookup_survivors _ _ hs.nd] at ha
    rw [Legacy.gcRule_rule]
    cases hc : lookup rs.scache k with
    | none => simp [hc] at ha
    | some b =>
      simp only [hc] at ha
      by_cases hr : b.resolvedAt g = true
      · simp [hr] at ha
      · simp [hr] at ha; subst ha; exact h.sound k b hc
  · intro k a ha hsrc hres
    rw [Legacy.gcRule_rule] at hsrc
    rw [Legacy.gcRule_scache, lookup_survivors _ _ hs.nd, h.complete k a ha hsrc hres]
    simp [resolvedAt_mono hg hres]

theorem Legacy.gcRule_legacy (U : Labels → Prop) (g : Int) (rs : RS) (hu : UniqU U rs.rule)
    (hs : Shape rs) (hx : SlotExact rs) (hi : InU U rs) :
    SlotExact (Legacy.gcRule g rs) ∧ InU U (Legacy.gcRule g rs) := by
  have surv : ∀ k a, lookup (survivors g rs.scache) k = some a →
      lookup rs.scache k = some a ∧ a.resolvedAt g = false := by
    intro k a ha
    rw [lookup_survivors _ _ hs.nd] at ha
    cases hc : lookup rs.scache k with
    | none => simp [hc] at ha
    | some b =>
      simp only [hc] at ha
      by_cases hr : b.resolvedAt g = true
      · simp [hr] at ha
      · simp [hr] at ha; subst ha; exact ⟨rfl, by simpa using hr⟩
  refine ⟨?_, ?_, ?_⟩
  · intro k a ha
    obtain ⟨hc, hr⟩ := surv k a ha
    show lookup (dropKeys rs.rule rs.sindex (collected g rs.scache)) (rs.rule.eqKey k) = some k
    rw [lookup_dropKeys]
    have hno : (collected g rs.scache).any (fun d => rs.rule.eqKey d.labels == rs.rule.eqKey k) = false := by
      rw [Bool.eq_false_iff]
      intro hany
      obtain ⟨d, hd, hde⟩ := List.any_eq_true.mp hany
      obtain ⟨k', hin, hres⟩ := mem_collected hd
      have hk' := lookup_of_mem hs.nd hin
      have hl := hs.key k' d hk'
      obtain ⟨u1, s1⟩ := hi.cache k' d hk'
      obtain ⟨u2, s2⟩ := hi.cache k a hc
      have : k' = k := hu k' k u1 u2 s1 s2 (by rw [← hl]; simpa using hde)
      subst this
      rw [hk'] at hc; cases hc
      rw [hr] at hres; cases hres
    rw [hno]
    exact hx k a hc
  · intro k a ha
    exact hi.cache k a (surv k a ha).1
  · intro key ix hix
    have : lookup (dropKeys rs.rule rs.sindex (collected g rs.scache)) key = some ix := hix
    rw [lookup_dropKeys] at this
    split at this
    · cases this
    · exact hi.index key ix this

/-- the pinned lookup returns a cached, usable source with the key of `ls`. -/
theorem Legacy.hasEqual_sound (rs : RS) (now : Int) (ls l : Labels) (hs : Shape rs)
    (h : Legacy.hasEqual rs now ls = some l) :
    ∃ a, lookup rs.scache l = some a ∧ usable rs.rule now (rs.rule.src ls) a = true ∧
      rs.rule.eqKey l = rs.rule.eqKey ls := by
  unfold Legacy.hasEqual at h
  cases hix : lookup rs.sindex (rs.rule.eqKey ls) with
  | none => simp [hix] at h
  | some ix =>
    simp only [hix] at h
    cases hc : lookup rs.scache ix with
    | none => simp [hc] at h
    | some a =>
      simp only [hc] at h
      have hkey := hs.key ix a hc
      by_cases hr : a.resolvedAt now = true
      · simp [hr] at h
      · by_cases hx : (rs.rule.src ls && rs.rule.tgt a.labels) = true
        · simp [hr, hx] at h
        · simp [hr, hx] at h
          subst h
          refine ⟨a, by simpa [hkey] using hc, ?_, ?_⟩
          · unfold usable
            cases h1 : rs.rule.src ls <;> cases h2 : rs.rule.tgt a.labels <;> simp_all
          · rw [hkey]; exact hs.ixok _ _ hix

theorem Legacy.hasEqual_complete (rs : RS) (now : Int) (ls : Labels) (hx : SlotExact rs)
    (k : Labels) (a : Alert) (hk : lookup rs.scache k = some a)
    (hu : usable rs.rule now (rs.rule.src ls) a = true) (he : rs.rule.eqKey k = rs.rule.eqKey ls) :
    (Legacy.hasEqual rs now ls).isSome = true := by
  have hidx := hx k a hk
  rw [he] at hidx
  unfold Legacy.hasEqual
  simp only [hidx, hk]
  unfold usable at hu
  cases h0 : a.resolvedAt now <;> cases h1 : rs.rule.src ls <;> cases h2 : rs.rule.tgt a.labels <;> simp_all

end AM.Inhibit
