/-
  The `decodeState` loop on encoded states and on their prefixes (C11).
-/
import AM.Lemmas.Framing

namespace AM.Snapshot

/-- What the theorems need of one stored message: the trusted field codec
    round-trips it, the loop's validity test accepts it, post-processing undoes
    the marshalling preparation, and its encoding fits protodelim's size limit. -/
structure Good {M} (c : Codec M) (maxSize : Nat) (m : M) : Prop where
  codec : c.decodeMsg (c.encodeMsg (c.pre m)) = some (c.pre m)
  valid : c.valid (c.pre m) = true
  post  : c.post (c.pre m) = m
  size  : (c.encodeMsg (c.pre m)).length ≤ maxSize
  u64   : (c.encodeMsg (c.pre m)).length < 2 ^ 64

theorem encodeState_take_succ {M} (c : Codec M) (m : M) (ms : List M) (k : Nat) :
    encodeState c ((m :: ms).take (k + 1)) = encodeRecord (c.encodeMsg (c.pre m)) ++ encodeState c (ms.take k) := by
  simp [encodeState]

/-- one loop step over a complete good record -/
theorem decodeLoop_step {M} (c : Codec M) (maxSize fuel : Nat) (m : M) (rest : Bytes) (acc : List M)
    (g : Good c maxSize m) :
    decodeLoop c maxSize (fuel + 1) (encodeRecord (c.encodeMsg (c.pre m)) ++ rest) acc =
      decodeLoop c maxSize fuel rest (m :: acc) := by
  rw [decodeLoop, readRecord_encode _ _ _ g.size g.u64]
  simp [g.codec, g.valid, g.post]

/-- Every prefix `p` of an encoded state: the loop fails, or `p` is exactly the
    encoding of the first `k` records and those are what it returns. -/
theorem decodeLoop_prefix {M} (c : Codec M) (maxSize : Nat) (ms : List M)
    (hg : ∀ m ∈ ms, Good c maxSize m) :
    ∀ (acc : List M) (fuel : Nat) (p s : Bytes), encodeState c ms = p ++ s → p.length < fuel →
      decodeLoop c maxSize fuel p acc = .error ∨
      ∃ k, k ≤ ms.length ∧ p = encodeState c (ms.take k) ∧
        decodeLoop c maxSize fuel p acc = .ok (acc.reverse ++ ms.take k) := by
  induction ms with
  | nil =>
    intro acc fuel p s h hf
    have hp : p = [] := by
      simp [encodeState] at h; exact h.1
    subst hp
    right
    refine ⟨0, by simp, by simp [encodeState], ?_⟩
    cases fuel with
    | zero => simp at hf
    | succ f => simp [decodeLoop, readRecord]
  | cons m ms ih =>
    intro acc fuel p s h hf
    have g := hg m (by simp)
    have hg' : ∀ x ∈ ms, Good c maxSize x := fun x hx => hg x (by simp [hx])
    cases fuel with
    | zero => simp at hf
    | succ f =>
      simp only [encodeState] at h
      -- complete first record, continue with the tail
      have whole : ∀ q, p = encodeRecord (c.encodeMsg (c.pre m)) ++ q → (∃ s', encodeState c ms = q ++ s') →
          decodeLoop c maxSize (f + 1) p acc = .error ∨
          ∃ k, k ≤ (m :: ms).length ∧ p = encodeState c ((m :: ms).take k) ∧
            decodeLoop c maxSize (f + 1) p acc = .ok (acc.reverse ++ (m :: ms).take k) := by
        intro q hq ⟨s', hs'⟩
        subst hq
        rw [decodeLoop_step c maxSize f m q acc g]
        have hlen : q.length < f := by
          have := encodeRecord_ne_nil (c.encodeMsg (c.pre m))
          have : 0 < (encodeRecord (c.encodeMsg (c.pre m))).length := List.length_pos_iff.mpr this
          simp at hf; omega
        rcases ih hg' (m :: acc) f q s' hs' hlen with he | ⟨k, hk, hq, hr⟩
        · left; exact he
        · right
          refine ⟨k + 1, by simp; omega, ?_, ?_⟩
          · rw [encodeState_take_succ, ← hq]
          · rw [hr]; simp
      rcases List.append_eq_append_iff.mp h with ⟨q, hq1, hq2⟩ | ⟨a, ha1, ha2⟩
      · exact whole q hq1 ⟨s, hq2⟩
      · -- p is a prefix of the first record: R = p ++ a
        by_cases hp : p = []
        · subst hp
          right
          exact ⟨0, by simp, by simp [encodeState], by simp [decodeLoop, readRecord]⟩
        · by_cases han : a = []
          · subst han
            simp at ha1 ha2
            exact whole [] (by simp [ha1]) ⟨s, by simp [ha2]⟩
          · left
            rw [decodeLoop, readRecord_proper_prefix maxSize _ p a ha1 hp han g.u64]

/-- fuel `length + 1` is enough: the loop never returns `.error` for lack of fuel on a whole encoding -/
theorem decodeLoop_encode {M} (c : Codec M) (maxSize : Nat) (ms : List M)
    (hg : ∀ m ∈ ms, Good c maxSize m) (acc : List M) (fuel : Nat)
    (hf : (encodeState c ms).length < fuel) :
    decodeLoop c maxSize fuel (encodeState c ms) acc = .ok (acc.reverse ++ ms) := by
  induction ms generalizing acc fuel with
  | nil =>
    cases fuel with
    | zero => simp at hf
    | succ f => simp [encodeState, decodeLoop, readRecord]
  | cons m ms ih =>
    cases fuel with
    | zero => simp at hf
    | succ f =>
      have g := hg m (by simp)
      simp only [encodeState] at hf ⊢
      rw [decodeLoop_step c maxSize f m _ acc g]
      have : 0 < (encodeRecord (c.encodeMsg (c.pre m))).length :=
        List.length_pos_iff.mpr (encodeRecord_ne_nil _)
      rw [ih (fun x hx => hg x (by simp [hx])) (m :: acc) f (by simp at hf; omega)]
      simp

end AM.Snapshot
