/-
  C16: the UTF-8 parser reads back what `Matchers.String` prints (any length).
-/
import AM.Lemmas.MatcherUTF8RT

namespace AM.Mt
open AM

set_option linter.unusedSimpArgs false

theorem scan_openBrace (X : Str) : scan (.ch '{' :: X) = .ok (⟨.openBrace, [.ch '{']⟩, X) := by
  simp [scan]
theorem scan_closeBrace (X : Str) : scan (.ch '}' :: X) = .ok (⟨.closeBrace, [.ch '}']⟩, X) := by
  simp [scan]
theorem scan_comma (X : Str) : scan (.ch ',' :: X) = .ok (⟨.comma, [.ch ',']⟩, X) := by
  simp [scan]

theorem parseOpenBrace_then_close (acc : List Matcher) (hb : Bool) (Y : Str) :
    parseOpenBrace ⟨acc, hb, .ch '{' :: .ch '}' :: Y⟩ = .next .closeBrace ⟨acc, true, .ch '}' :: Y⟩ := by
  simp [parseOpenBrace, accept, acceptPeek, scan_openBrace, scan_closeBrace]

theorem parseOpenBrace_then_word (acc : List Matcher) (hb : Bool) (X r : Str) (t : Token)
    (hs : scan X = .ok (t, r)) (hk : t.kind = .quoted ∨ t.kind = .unquoted) :
    parseOpenBrace ⟨acc, hb, .ch '{' :: X⟩ = .next .matcher ⟨acc, true, X⟩ := by
  have hne : t.kind ≠ .eof := by rcases hk with h | h <;> simp [h]
  have h2 : t.kind ≠ .closeBrace := by rcases hk with h | h <;> simp [h]
  simp [parseOpenBrace, accept, acceptPeek, scan_openBrace, hs, hne, h2]

theorem parseEndOfMatcher_comma (acc : List Matcher) (hb : Bool) (Y : Str) :
    parseEndOfMatcher ⟨acc, hb, .ch ',' :: Y⟩ = .next .comma ⟨acc, hb, .ch ',' :: Y⟩ := by
  simp [parseEndOfMatcher, expectPeek, scan_comma]

theorem parseEndOfMatcher_close (acc : List Matcher) (hb : Bool) (Y : Str) :
    parseEndOfMatcher ⟨acc, hb, .ch '}' :: Y⟩ = .next .closeBrace ⟨acc, hb, .ch '}' :: Y⟩ := by
  simp [parseEndOfMatcher, expectPeek, scan_closeBrace]

theorem parseComma_word (acc : List Matcher) (hb : Bool) (X r : Str) (t : Token)
    (hs : scan X = .ok (t, r)) (hk : t.kind = .quoted ∨ t.kind = .unquoted) :
    parseComma ⟨acc, hb, .ch ',' :: X⟩ = .next .matcher ⟨acc, hb, X⟩ := by
  rcases hk with h | h <;> simp [parseComma, expect, expectPeek, scan_comma, hs, h]

theorem parseCloseBrace_open (acc : List Matcher) (Y : Str) :
    parseCloseBrace ⟨acc, true, .ch '}' :: Y⟩ = .next .eof ⟨acc, true, Y⟩ := by
  simp [parseCloseBrace, expect, expectPeek, scan_closeBrace]

/-- the automaton over a non-empty comma-separated list followed by the closing brace -/
theorem run_commaSep (compiles : Str → Bool) (f : Matcher → Str) (ms : List Matcher) (hne : ms ≠ [])
    (hf : ∀ m ∈ ms, ReadsAs compiles (f m) m) (acc : List Matcher) (k : Nat) :
    run compiles (k + 3 * ms.length + 1) .matcher ⟨acc, true, commaSep f ms ++ [.ch '}']⟩ = .ok (acc ++ ms) := by
  induction ms generalizing acc with
  | nil => exact absurd rfl hne
  | cons m rest ih =>
    cases rest with
    | nil =>
      obtain ⟨hm, _⟩ := hf m (by simp) acc true [.ch '}']
      have e : k + 3 * [m].length + 1 = k + 1 + 1 + 1 + 1 := by simp
      rw [e]
      simp only [commaSep, run_succ, step, hm, parseEndOfMatcher_close, parseCloseBrace_open, parseEOF_eof]
    | cons m' rest' =>
      have hrest : ∀ x ∈ m' :: rest', ReadsAs compiles (f x) x := fun x hx => hf x (by simp [hx])
      have ih' := ih (by simp) hrest (acc ++ [m])
      obtain ⟨hm, _⟩ := hf m (by simp) acc true (.ch ',' :: (commaSep f (m' :: rest') ++ [.ch '}']))
      -- the text after the comma starts with the next matcher's first token
      have hnext : ∃ t r, scan (commaSep f (m' :: rest') ++ [.ch '}']) = .ok (t, r) ∧
          (t.kind = .quoted ∨ t.kind = .unquoted) := by
        cases rest' with
        | nil =>
          obtain ⟨_, t, r, hs, hk⟩ := hf m' (by simp) [] true [.ch '}']
          exact ⟨t, r, by simpa [commaSep] using hs, hk⟩
        | cons m'' rest'' =>
          obtain ⟨_, t, r, hs, hk⟩ := hf m' (by simp) [] true (.ch ',' :: (commaSep f (m'' :: rest'') ++ [.ch '}']))
          exact ⟨t, r, by simpa [commaSep] using hs, hk⟩
      obtain ⟨t, r, hs, hk⟩ := hnext
      have e : k + 3 * (m :: m' :: rest').length + 1 = (k + 3 * (m' :: rest').length + 1) + 1 + 1 + 1 := by
        simp only [List.length_cons]; omega
      have etxt : commaSep f (m :: m' :: rest') ++ [.ch '}'] =
          f m ++ (.ch ',' :: (commaSep f (m' :: rest') ++ [.ch '}'])) := by
        simp [commaSep]
      rw [e, etxt]
      rw [run_succ]; simp only [step, hm]
      rw [run_succ]; simp only [step, parseEndOfMatcher_comma]
      rw [run_succ]; simp only [step, parseComma_word _ _ _ r t hs hk]
      rw [ih']
      simp

theorem readsAs_nonempty {compiles : Str → Bool} {txt : Str} {m : Matcher} (h : ReadsAs compiles txt m) :
    1 ≤ txt.length := by
  obtain ⟨_, t, r, hs, hk⟩ := h [] false []
  cases txt with
  | nil =>
    simp [scan_nil] at hs
    obtain ⟨rfl, _⟩ := hs
    simp at hk
  | cons _ _ => simp

theorem commaSep_length (f : Matcher → Str) (ms : List Matcher) (hf : ∀ m ∈ ms, 1 ≤ (f m).length) :
    ms.length ≤ (commaSep f ms).length := by
  induction ms with
  | nil => simp
  | cons m rest ih =>
    cases rest with
    | nil => simpa [commaSep] using hf m (by simp)
    | cons m' rest' =>
      have := ih (fun x hx => hf x (by simp [hx]))
      have h1 := hf m (by simp)
      simp only [commaSep, List.length_append, List.length_cons] at this ⊢
      omega

/-- `parse.Matchers` on `{` + comma-separated matcher texts + `}` -/
theorem utf8Matchers_braced (compiles : Str → Bool) (f : Matcher → Str) (ms : List Matcher)
    (hf : ∀ m ∈ ms, ReadsAs compiles (f m) m) :
    utf8Matchers compiles (.ch '{' :: (commaSep f ms ++ [.ch '}'])) = .ok ms := by
  cases ms with
  | nil =>
    have e : parseFuel (.ch '{' :: (commaSep f [] ++ [.ch '}'])) = 9 + 1 + 1 + 1 := by simp [parseFuel, commaSep]
    unfold utf8Matchers
    rw [e]
    simp only [commaSep, List.nil_append, run_succ, step, parseOpenBrace_then_close, parseCloseBrace_open, parseEOF_eof]
  | cons m rest =>
    have hlen := commaSep_length f (m :: rest) (fun x hx => readsAs_nonempty (hf x hx))
    -- first token of the list text
    have hfirst : ∃ t r, scan (commaSep f (m :: rest) ++ [.ch '}']) = .ok (t, r) ∧
        (t.kind = .quoted ∨ t.kind = .unquoted) := by
      cases rest with
      | nil =>
        obtain ⟨_, t, r, hs, hk⟩ := hf m (by simp) [] true [.ch '}']
        exact ⟨t, r, by simpa [commaSep] using hs, hk⟩
      | cons m' rest' =>
        obtain ⟨_, t, r, hs, hk⟩ := hf m (by simp) [] true (.ch ',' :: (commaSep f (m' :: rest') ++ [.ch '}']))
        exact ⟨t, r, by simpa [commaSep] using hs, hk⟩
    obtain ⟨t, r, hs, hk⟩ := hfirst
    obtain ⟨k, hk'⟩ : ∃ k, parseFuel (.ch '{' :: (commaSep f (m :: rest) ++ [.ch '}'])) =
        (k + 3 * (m :: rest).length + 1) + 1 := by
      refine ⟨3 * (commaSep f (m :: rest)).length + 12 - (3 * (m :: rest).length + 2), ?_⟩
      simp only [parseFuel, List.length_cons, List.length_append, List.length_nil] at hlen ⊢
      omega
    unfold utf8Matchers
    rw [hk', run_succ]
    simp only [step, parseOpenBrace_then_word _ _ _ r t hs hk]
    rw [run_commaSep compiles f (m :: rest) (by simp) hf [] k]
    simp

end AM.Mt
