/-
  The index invariant of the silence store (`IndexInv`): state map, matcher
  index and version index stay in step under every operation; `Query` is the
  brute-force filter under it.  Used by C09 (`index_inv_preserved`,
  `query_eq_filter`) and C02.
-/
import AM.Model.Silence

namespace AM.Silence
open AM AM.AList

/-! ### association-list helpers -/

theorem isSome_lookup_iff_mem_keys {α : Type} (m : AList String α) (k : String) :
    (lookup m k).isSome = true ↔ k ∈ m.map Prod.fst := by
  induction m with
  | nil => simp
  | cons hd tl ih =>
    obtain ⟨k', v⟩ := hd
    by_cases h : k' = k
    · simp [h]
    · simp [h, ih, Ne.symm h]

theorem nodup_keys_of_noDupKeys {α : Type} (m : AList String α) (h : NoDupKeys m) :
    (m.map Prod.fst).Nodup := by
  induction m with
  | nil => simp
  | cons hd tl ih =>
    obtain ⟨k, v⟩ := hd
    obtain ⟨hk, hnd⟩ := h
    simp only [List.map_cons, List.nodup_cons]
    refine ⟨?_, ih hnd⟩
    intro hm
    have := (isSome_lookup_iff_mem_keys tl k).mpr hm
    simp [hk] at this

theorem lookup_mapVals {α β : Type} (f : String → α → β) (m : AList String α) (k : String) :
    lookup (m.map fun kv => (kv.1, f kv.1 kv.2)) k = (lookup m k).map (f k) := by
  induction m with
  | nil => simp
  | cons hd tl ih =>
    obtain ⟨k', v⟩ := hd
    by_cases h : k' = k
    · subst h; simp
    · simp [h, ih]

theorem noDupKeys_mapVals {α β : Type} (f : String → α → β) (m : AList String α) (h : NoDupKeys m) :
    NoDupKeys (m.map fun kv => (kv.1, f kv.1 kv.2)) := by
  induction m with
  | nil => simp [NoDupKeys]
  | cons hd tl ih =>
    obtain ⟨k, v⟩ := hd
    obtain ⟨hk, hnd⟩ := h
    simp only [List.map_cons, NoDupKeys]
    refine ⟨?_, ih hnd⟩
    rw [lookup_mapVals, hk]; rfl

theorem pairwise_const {α : Type} (l : List α) (R : α → α → Prop) (h : ∀ a b, R a b) : l.Pairwise R := by
  induction l with
  | nil => exact List.Pairwise.nil
  | cons a l ih => exact List.Pairwise.cons (fun b _ => h a b) ih

theorem isSome_lookup_put {α : Type} (m : AList String α) (k : String) (v : α) (q : String) :
    (lookup (put m k v) q).isSome = true ↔ (k = q ∨ (lookup m q).isSome = true) := by
  rw [lookup_put]
  by_cases h : k = q <;> simp [h]

/-! ### the invariant -/

def viHas (s : Store) (id : String) : Prop := ∃ v, (v, id) ∈ s.vi

structure IndexInv (s : Store) : Prop where
  nodupSt : NoDupKeys s.st
  nodupMi : NoDupKeys s.mi
  keyId : ∀ id m, lookup s.st id = some m → m.sil.id = id
  viIds : ∀ id, viHas s id ↔ (lookup s.st id).isSome = true
  viNodup : (s.vi.map Prod.snd).Nodup
  viSorted : s.vi.Pairwise (fun a b => a.1 ≤ b.1)
  viBound : ∀ v id, (v, id) ∈ s.vi → 1 ≤ v ∧ v ≤ s.version
  miHas : ∀ id, (lookup s.st id).isSome = true → (lookup s.mi id).isSome = true

theorem indexInv_empty : IndexInv {} := by
  refine ⟨trivial, trivial, ?_, ?_, ?_, ?_, ?_, ?_⟩ <;> simp [viHas]

/-- (A) replace the stored version of a known id -/
theorem indexInv_update (s : Store) (m : Mesh) (hi : IndexInv s) (hp : (lookup s.st m.sil.id).isSome = true) :
    IndexInv { s with st := put s.st m.sil.id m } := by
  have hiff : ∀ q, (lookup (put s.st m.sil.id m) q).isSome = true ↔ (lookup s.st q).isSome = true := by
    intro q; rw [isSome_lookup_put]
    constructor
    · rintro (h | h)
      · rw [← h]; exact hp
      · exact h
    · exact Or.inr
  refine ⟨noDupKeys_put _ _ _ hi.nodupSt, hi.nodupMi, ?_, ?_, hi.viNodup, hi.viSorted, hi.viBound, ?_⟩
  · intro id x hx
    simp only at hx
    rw [lookup_put] at hx
    by_cases h : m.sil.id = id
    · simp [h] at hx; rw [← hx]; exact h
    · simp [h] at hx; exact hi.keyId id x hx
  · intro id; simp only [viHas]; rw [hiff]; exact hi.viIds id
  · intro id h; simp only at h ⊢; exact hi.miHas id ((hiff id).mp h)

/-- (B) add a new id and index it -/
theorem indexInv_add (s : Store) (m : Mesh) (hi : IndexInv s) (hn : lookup s.st m.sil.id = none) :
    IndexInv (index { s with st := put s.st m.sil.id m } m.sil) := by
  have hnv : ∀ v, (v, m.sil.id) ∉ s.vi := by
    intro v hv
    have := (hi.viIds m.sil.id).mp ⟨v, hv⟩
    simp [hn] at this
  refine ⟨noDupKeys_put _ _ _ hi.nodupSt, noDupKeys_put _ _ _ hi.nodupMi, ?_, ?_, ?_, ?_, ?_, ?_⟩
  · intro id x hx
    simp only [index] at hx
    rw [lookup_put] at hx
    by_cases h : m.sil.id = id
    · simp [h] at hx; rw [← hx]; exact h
    · simp [h] at hx; exact hi.keyId id x hx
  · intro id
    simp only [viHas, index, List.mem_append, List.mem_singleton, Prod.mk.injEq]
    rw [isSome_lookup_put]
    constructor
    · rintro ⟨v, hv | ⟨_, rfl⟩⟩
      · exact Or.inr ((hi.viIds id).mp ⟨v, hv⟩)
      · exact Or.inl rfl
    · rintro (h | h)
      · exact ⟨s.version + 1, Or.inr ⟨rfl, h.symm⟩⟩
      · obtain ⟨v, hv⟩ := (hi.viIds id).mpr h
        exact ⟨v, Or.inl hv⟩
  · simp only [index, List.map_append, List.map_cons, List.map_nil]
    rw [List.nodup_append]
    refine ⟨hi.viNodup, by simp, ?_⟩
    intro a ha b hb
    simp at hb; subst hb
    intro hab; subst hab
    obtain ⟨⟨v, id⟩, hm, hid⟩ := List.mem_map.mp ha
    simp at hid; subst hid
    exact hnv v hm
  · simp only [index]
    rw [List.pairwise_append]
    refine ⟨hi.viSorted, by simp, ?_⟩
    intro a ha b hb
    simp at hb; subst hb
    have := (hi.viBound a.1 a.2 ha).2
    simp; omega
  · intro v id hv
    simp only [index, List.mem_append, List.mem_singleton, Prod.mk.injEq] at hv ⊢
    rcases hv with hv | ⟨rfl, _⟩
    · have := hi.viBound v id hv; omega
    · omega
  · intro id h
    simp only [index] at h ⊢
    rw [isSome_lookup_put] at h ⊢
    rcases h with h | h
    · exact Or.inl h
    · exact Or.inr (hi.miHas id h)

/-- (C) the repair of F1: move a known id to a fresh version -/
theorem indexInv_reindex (s : Store) (x : Sil) (hi : IndexInv s) (hp : (lookup s.st x.id).isSome = true) :
    IndexInv (reindex s x) := by
  refine ⟨hi.nodupSt, noDupKeys_put _ _ _ hi.nodupMi, hi.keyId, ?_, ?_, ?_, ?_, ?_⟩
  · intro id
    simp only [viHas, reindex, index, List.mem_append, List.mem_singleton, Prod.mk.injEq, List.mem_filter]
    constructor
    · rintro ⟨v, ⟨hv, _⟩ | ⟨_, rfl⟩⟩
      · exact (hi.viIds id).mp ⟨v, hv⟩
      · exact hp
    · intro h
      by_cases hx : id = x.id
      · exact ⟨s.version + 1, Or.inr ⟨rfl, hx⟩⟩
      · obtain ⟨v, hv⟩ := (hi.viIds id).mpr h
        exact ⟨v, Or.inl ⟨hv, by simpa using hx⟩⟩
  · simp only [reindex, index, List.map_append, List.map_cons, List.map_nil]
    rw [List.nodup_append]
    refine ⟨(hi.viNodup).sublist (List.Sublist.map _ List.filter_sublist), by simp, ?_⟩
    intro a ha b hb
    simp at hb; subst hb
    intro hab; subst hab
    obtain ⟨⟨v, id⟩, hm, hid⟩ := List.mem_map.mp ha
    simp at hid; subst hid
    simp [List.mem_filter] at hm
  · simp only [reindex, index]
    rw [List.pairwise_append]
    refine ⟨hi.viSorted.sublist List.filter_sublist, by simp, ?_⟩
    intro a ha b hb
    simp at hb; subst hb
    have := (hi.viBound a.1 a.2 (List.mem_filter.mp ha).1).2
    simp; omega
  · intro v id hv
    simp only [reindex, index, List.mem_append, List.mem_singleton, Prod.mk.injEq, List.mem_filter] at hv ⊢
    rcases hv with ⟨hv, _⟩ | ⟨rfl, _⟩
    · have := hi.viBound v id hv; omega
    · omega
  · intro id h
    simp only [reindex, index] at h ⊢
    rw [isSome_lookup_put]
    exact Or.inr (hi.miHas id h)

theorem mergeKind_added (now : Int) (st : AList String Mesh) (e : Mesh) (h : mergeKind now st e = .added) :
    lookup st e.sil.id = none := by
  unfold mergeKind at h
  by_cases hx : e.exp < now
  · simp [hx] at h
  · cases hs : lookup st e.sil.id with
    | none => rfl
    | some p => simp [hx, hs] at h; split at h <;> cases h

theorem mergeKind_updated (now : Int) (st : AList String Mesh) (e : Mesh) (h : mergeKind now st e = .updated) :
    ∃ p, lookup st e.sil.id = some p ∧ p.sil.updated < e.sil.updated ∧ now ≤ e.exp := by
  unfold mergeKind at h
  by_cases hx : e.exp < now
  · simp [hx] at h
  · cases hs : lookup st e.sil.id with
    | none => simp [hx, hs] at h
    | some p =>
      simp [hx, hs] at h
      by_cases hp : p.sil.updated < e.sil.updated
      · exact ⟨p, rfl, hp, by omega⟩
      · simp [hp] at h

theorem indexInv_setSilence (now : Int) (s : Store) (m : Mesh) (hi : IndexInv s) :
    IndexInv (setSilence now s m).1 := by
  unfold setSilence
  cases hk : mergeKind now s.st m with
  | refused => exact hi
  | added => exact indexInv_add s m hi (mergeKind_added now s.st m hk)
  | updated =>
    obtain ⟨p, hp, _⟩ := mergeKind_updated now s.st m hk
    exact indexInv_update s m hi (by simp [hp])

theorem indexInv_mergeOne (fix : Bool) (now : Int) (s : Store) (e : Mesh) (hi : IndexInv s) :
    IndexInv (mergeOne fix now s e).1 := by
  unfold mergeOne
  cases hk : mergeKind now s.st e with
  | refused => exact hi
  | added => exact indexInv_add s e hi (mergeKind_added now s.st e hk)
  | updated =>
    obtain ⟨p, hp, _⟩ := mergeKind_updated now s.st e hk
    have hu := indexInv_update s e hi (by simp [hp])
    simp only [hp]
    split
    · apply indexInv_reindex _ _ hu
      simp
    · exact hu

theorem indexInv_mergeBatch (fix : Bool) (now : Int) (ov : Bool) (s : Store) (b : List Mesh) (hi : IndexInv s) :
    IndexInv (mergeBatch fix now ov s b).1 := by
  unfold mergeBatch
  generalize decodeBatch b = l
  suffices h : ∀ (acc : Store × Nat), IndexInv acc.1 →
      IndexInv (l.foldl (fun (acc : Store × Nat) kv =>
        let r := mergeOne fix now acc.1 kv.2
        (r.1, if r.2 ≠ .refused ∧ !ov then acc.2 + 1 else acc.2)) acc).1 from h (s, 0) hi
  induction l with
  | nil => intro acc h; exact h
  | cons kv l ih =>
    intro acc h
    simp only [List.foldl_cons]
    exact ih _ (indexInv_mergeOne fix now acc.1 kv.2 h)

theorem indexInv_expireCore (ret now : Int) (s : Store) (p : Sil) (hi : IndexInv s) :
    IndexInv (expireCore ret now s p).1 := by
  unfold expireCore
  cases expiredVersion now p with
  | none => exact hi
  | some x => exact indexInv_setSilence now s _ hi

theorem indexInv_expire (ret now : Int) (s : Store) (id : String) (r : Store × List Mesh) (hi : IndexInv s)
    (h : expire ret now s id = .ok r) : IndexInv r.1 := by
  unfold expire at h
  cases hl : lookup s.st id with
  | none => simp [hl] at h
  | some p =>
    simp [hl] at h
    rw [← h]; exact indexInv_expireCore ret now s p.sil hi

theorem indexInv_setUpdate (ret now : Int) (s : Store) (b : Sil) (big : Bool) (r : SetOk) (hi : IndexInv s)
    (h : setUpdate ret now s b big = .ok r) : IndexInv r.store := by
  unfold setUpdate at h
  by_cases hb : big = true
  · simp [hb] at h
  · simp [hb] at h
    rw [← h]; exact indexInv_setSilence now s _ hi

theorem indexInv_setCreate (ret : Int) (maxSil : Nat) (now : Int) (s : Store) (prev : Option Mesh) (b : Sil)
    (newId : String) (big : Bool) (r : SetOk) (hi : IndexInv s)
    (h : setCreate ret maxSil now s prev b newId big = .ok r) : IndexInv r.store := by
  unfold setCreate at h
  by_cases hl : maxSil > 0 ∧ s.st.length + 1 > maxSil
  · simp [hl] at h
  · by_cases hb : big = true
    · simp [hl, hb] at h
    · simp only [hl, hb, if_false] at h
      injection h with h
      rw [← h]
      apply indexInv_setSilence
      cases prev with
      | none => exact hi
      | some p => exact indexInv_expireCore ret now s _ hi


theorem indexInv_set (env : Env) (ret : Int) (maxSil : Nat) (now : Int) (s : Store) (inp : SilIn)
    (newId : String) (big : Bool) (r : SetOk) (hi : IndexInv s)
    (h : set env ret maxSil now s inp newId big = .ok r) : IndexInv r.store := by
  unfold set at h
  by_cases hv : (!validate env inp.sets (inp.start.getD now) inp.stop) = true
  · simp [hv] at h
  · by_cases hn : inp.id ≠ "" ∧ lookup s.st inp.id = none
    · simp [hv, hn] at h
    · simp only [hv, hn, if_false] at h
      by_cases hu : canUpdatePrev (lookup s.st inp.id) (silOfIn inp now) now = true
      · simp only [hu, if_true] at h
        exact indexInv_setUpdate ret now s _ big r hi h
      · simp only [hu] at h
        exact indexInv_setCreate ret maxSil now s _ _ newId big r hi h

/-! ### GC -/

theorem gcDead_of_indexed (now : Int) (s : Store) (id : String) (m : Mesh) (hv : viHas s id)
    (hm : lookup s.st id = some m) : gcDead now s id = decide (m.exp ≤ now) := by
  unfold gcDead
  obtain ⟨v, hv⟩ := hv
  have : s.vi.any (fun sv => decide (sv.2 = id)) = true := by
    rw [List.any_eq_true]; exact ⟨(v, id), hv, by simp⟩
  simp [this, hm]

theorem lookup_gc (now : Int) (s : Store) (hi : IndexInv s) (id : String) :
    lookup (gc now s).1.st id =
      match lookup s.st id with
      | some m => if m.exp ≤ now then none else some m
      | none => none := by
  unfold gc
  simp only
  rw [lookup_filterVals _ _ hi.nodupSt]
  cases hm : lookup s.st id with
  | none => rfl
  | some m =>
    have hv := (hi.viIds id).mpr (by simp [hm])
    simp only [gcDead_of_indexed now s id m hv hm]
    by_cases hx : m.exp ≤ now <;> simp [hx]

theorem indexInv_gc (now : Int) (s : Store) (hi : IndexInv s) : IndexInv (gc now s).1 := by
  have hst := lookup_gc now s hi
  refine ⟨noDupKeys_filterVals _ _ hi.nodupSt, noDupKeys_filterVals _ _ hi.nodupMi, ?_, ?_, ?_, ?_, ?_, ?_⟩
  · intro id m hm
    rw [hst] at hm
    cases hl : lookup s.st id with
    | none => simp [hl] at hm
    | some x =>
      by_cases hx : x.exp ≤ now
      · simp [hl, hx] at hm
      · simp [hl, hx] at hm; rw [← hm]; exact hi.keyId id x hl
  · intro id
    rw [hst]
    simp only [viHas, gc, List.mem_filter]
    constructor
    · rintro ⟨v, hv, hk⟩
      cases hl : lookup s.st id with
      | none => simp [hl] at hk
      | some x =>
        simp [hl] at hk
        have : ¬ x.exp ≤ now := by omega
        simp [this]
    · intro h
      cases hl : lookup s.st id with
      | none => simp [hl] at h
      | some x =>
        by_cases hx : x.exp ≤ now
        · simp [hl, hx] at h
        · obtain ⟨v, hv⟩ := (hi.viIds id).mpr (by simp [hl])
          exact ⟨v, hv, by simp; omega⟩
  · simp only [gc]
    exact hi.viNodup.sublist (List.Sublist.map _ List.filter_sublist)
  · simp only [gc]
    exact hi.viSorted.sublist List.filter_sublist
  · intro v id hv
    simp only [gc, List.mem_filter] at hv
    exact hi.viBound v id hv.1
  · intro id h
    rw [hst] at h
    simp only [gc]
    rw [lookup_filterVals _ _ hi.nodupMi]
    cases hl : lookup s.st id with
    | none => simp [hl] at h
    | some x =>
      by_cases hx : x.exp ≤ now
      · simp [hl, hx] at h
      · have hmi := hi.miHas id (by simp [hl])
        cases hmm : lookup s.mi id with
        | none => simp [hmm] at hmi
        | some ms =>
          have hv := (hi.viIds id).mpr (by simp [hl])
          simp [gcDead_of_indexed now s id x hv hl, hx]

/-! ### reload -/

theorem decodeBatch_props_aux (b : List Mesh) (st : AList String Mesh)
    (h1 : NoDupKeys st) (h2 : ∀ id m, lookup st id = some m → m.sil.id = id) :
    NoDupKeys (b.foldl (fun st e => put st e.sil.id e) st) ∧
      ∀ id m, lookup (b.foldl (fun st e => put st e.sil.id e) st) id = some m → m.sil.id = id := by
  induction b generalizing st with
  | nil => exact ⟨h1, h2⟩
  | cons e b ih =>
    simp only [List.foldl_cons]
    apply ih _ (noDupKeys_put _ _ _ h1)
    intro id m hm
    rw [lookup_put] at hm
    by_cases h : e.sil.id = id
    · simp [h] at hm; rw [← hm]; exact h
    · simp [h] at hm; exact h2 id m hm

theorem decodeBatch_props (b : List Mesh) :
    NoDupKeys (decodeBatch b) ∧ ∀ id m, lookup (decodeBatch b) id = some m → m.sil.id = id :=
  decodeBatch_props_aux b [] trivial (by simp)

theorem indexInv_reload (s : Store) : IndexInv (reload s) := by
  unfold reload
  generalize hst : decodeBatch (s.st.map Prod.snd) = st
  obtain ⟨hnd, hkey⟩ := decodeBatch_props (s.st.map Prod.snd)
  rw [hst] at hnd hkey
  refine ⟨hnd, noDupKeys_mapVals (fun _ m => m.sil.sets) st hnd, hkey, ?_, ?_, ?_, ?_, ?_⟩
  · intro id
    simp only [viHas, List.mem_map, Prod.mk.injEq]
    rw [isSome_lookup_iff_mem_keys]
    simp only [List.mem_map]
    constructor
    · rintro ⟨v, kv, hm, _, rfl⟩; exact ⟨kv, hm, rfl⟩
    · rintro ⟨kv, hm, rfl⟩; exact ⟨1, kv, hm, rfl, rfl⟩
  · simp only [List.map_map]
    exact nodup_keys_of_noDupKeys st hnd
  · simp only
    rw [List.pairwise_map]
    exact pairwise_const st _ (fun _ _ => Nat.le_refl 1)
  · intro v id hv
    simp only [List.mem_map, Prod.mk.injEq] at hv
    obtain ⟨_, _, rfl, _⟩ := hv
    simp
  · intro id h
    simp only at h ⊢
    have := lookup_mapVals (fun _ (m : Mesh) => m.sil.sets) st id
    rw [this]
    cases hl : lookup st id with
    | none => simp [hl] at h
    | some m => simp

/-! ### Query -/

def inScan (s : Store) : Scan → String → Prop
  | .all, _ => True
  | .ids l, id => id ∈ l
  | .since v, id => ∃ v', v < v' ∧ (v', id) ∈ s.vi

theorem mem_dropWhile_sorted (l : List (Nat × String)) (v : Nat) (hs : l.Pairwise (fun a b => a.1 ≤ b.1))
    (x : Nat × String) :
    x ∈ l.dropWhile (fun sv => decide (sv.1 ≤ v)) ↔ x ∈ l ∧ v < x.1 := by
  induction l with
  | nil => simp
  | cons a l ih =>
    obtain ⟨ha, hl⟩ := List.pairwise_cons.mp hs
    by_cases h : a.1 ≤ v
    · have hd : (a :: l).dropWhile (fun sv => decide (sv.1 ≤ v)) = l.dropWhile (fun sv => decide (sv.1 ≤ v)) := by
        simp [List.dropWhile, h]
      rw [hd, ih hl]
      constructor
      · rintro ⟨hm, hv⟩; exact ⟨List.mem_cons_of_mem _ hm, hv⟩
      · rintro ⟨hm, hv⟩
        rcases List.mem_cons.mp hm with hm | hm
        · subst hm; omega
        · exact ⟨hm, hv⟩
    · have hd : (a :: l).dropWhile (fun sv => decide (sv.1 ≤ v)) = a :: l := by
        simp [List.dropWhile, h]
      rw [hd]
      constructor
      · intro hm
        refine ⟨hm, ?_⟩
        rcases List.mem_cons.mp hm with hm | hm
        · subst hm; omega
        · have := ha x hm; omega
      · rintro ⟨hm, _⟩; exact hm

theorem mem_scanIds (s : Store) (hi : IndexInv s) (sc : Scan) (id : String) (hst : (lookup s.st id).isSome = true) :
    id ∈ scanIds s sc ↔ inScan s sc id := by
  cases sc with
  | all =>
    simp only [scanIds, inScan, iff_true, List.mem_map]
    obtain ⟨v, hv⟩ := (hi.viIds id).mpr hst
    exact ⟨(v, id), hv, rfl⟩
  | ids l => simp [scanIds, inScan]
  | since v =>
    simp only [scanIds, inScan, List.mem_map]
    constructor
    · rintro ⟨⟨v', id'⟩, hm, rfl⟩
      have := (mem_dropWhile_sorted s.vi v hi.viSorted (v', id')).mp hm
      exact ⟨v', this.2, this.1⟩
    · rintro ⟨v', hv, hm⟩
      exact ⟨(v', id), (mem_dropWhile_sorted s.vi v hi.viSorted (v', id)).mpr ⟨hm, hv⟩, rfl⟩

theorem mem_query (env : Env) (s : Store) (now : Int) (q : Query) (hi : IndexInv s) (x : Sil) :
    x ∈ query env s now q ↔
      (∃ m, lookup s.st x.id = some m ∧ m.sil = x) ∧ inScan s q.scan x.id ∧ passes env s now q x = true := by
  unfold query
  rw [List.mem_filterMap]
  constructor
  · rintro ⟨id, hid, hf⟩
    cases hl : lookup s.st id with
    | none => simp [hl] at hf
    | some m =>
      simp [hl] at hf
      obtain ⟨hp, hx⟩ := hf
      have hkey := hi.keyId id m hl
      rw [hx] at hkey
      subst hkey
      exact ⟨⟨m, hl, hx⟩, (mem_scanIds s hi q.scan x.id (by simp [hl])).mp hid, by rw [← hx]; exact hp⟩
  · rintro ⟨⟨m, hl, hx⟩, hsc, hp⟩
    refine ⟨x.id, (mem_scanIds s hi q.scan x.id (by simp [hl])).mpr hsc, ?_⟩
    simp [hl, hx, hp]

end AM.Silence
