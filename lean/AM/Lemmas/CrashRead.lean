/-
  What a crash at any point of a snapshot run can leave at the target path,
  expressed through the crash states of the state the run started from (C11).
-/
import AM.Lemmas.CrashFS

namespace AM.CrashFS
open AM.Snapshot (Bytes)

/-- Every directory version resolves the target to an allocated inode. -/
def TargetWF (fs : FS) (target : String) : Prop :=
  ∀ j id, (fs.dirAt j).get target = some id → id < fs.inodes.length

theorem crashRead_during_old (fs0 : FS) (tmp target : String) (d : Bytes) (s : Nat) (fd : Option (Nat × Nat))
    (extra : List DirOp) (hwf : TargetWF fs0 target) (j j' m : Nat)
    (h : ((during fs0 tmp d s fd extra).dirAt j).get target = (fs0.dirAt j').get target) :
    crashRead (during fs0 tmp d s fd extra) j m target = crashRead fs0 j' m target := by
  unfold crashRead
  rw [h]
  cases hg : (fs0.dirAt j').get target with
  | none => rfl
  | some id =>
    have hlt := hwf j' id hg
    simp only [during]
    rw [List.getElem?_append_left hlt]

theorem crashRead_during_new (fs0 : FS) (tmp target : String) (new : Bytes) (fd : Option (Nat × Nat))
    (extra : List DirOp) (j m : Nat)
    (h : ((during fs0 tmp new new.length fd extra).dirAt j).get target = some fs0.inodes.length) :
    crashRead (during fs0 tmp new new.length fd extra) j m target = some new := by
  unfold crashRead
  rw [h]
  simp [during, List.take_of_length_le]

/-- The heart of C11's crash argument: at every crash point `(i, j, m)` of a
    snapshot run the target reads as it would have in some crash state `(j', m)`
    of the start state — with `j'` a *current* version if `j` is — or it reads
    the complete new snapshot. -/
theorem crash_point_cases_phase (fs0 : FS) (tmp target : String) (new : Bytes)
    (hne : tmp ≠ target) (hwf : TargetWF fs0 target)
    (j m : Nat) (fs : FS) (hph : Phase fs0 tmp target new fs) :
    (∃ j', (fs.log.length ≤ j → fs0.log.length ≤ j') ∧
        crashRead fs j m target = crashRead fs0 j' m target) ∨
    crashRead fs j m target = some new := by
  have old_case : ∀ (d : Bytes) (s : Nat) (fd : Option (Nat × Nat)),
      ∃ j', ((during fs0 tmp d s fd []).log.length ≤ j → fs0.log.length ≤ j') ∧
        crashRead (during fs0 tmp d s fd []) j m target = crashRead fs0 j' m target := by
    intro d s fd
    by_cases h : j ≤ fs0.log.length
    · refine ⟨j, ?_, ?_⟩
      · intro hj; simp [during] at hj; omega
      · exact crashRead_during_old _ _ _ _ _ _ _ hwf _ _ _ (by rw [dirAt_during_le _ _ _ _ _ _ _ h])
    · refine ⟨fs0.log.length, fun _ => Nat.le_refl _, ?_⟩
      apply crashRead_during_old _ _ _ _ _ _ _ hwf
      rw [dirAt_during_gt _ _ _ _ _ _ _ (by omega)]
      simp [Dir.get_put, hne, dirNow_eq_dirAt]
  cases hph with
  | start => left; exact ⟨j, fun h => h, rfl⟩
  | writing d => left; exact old_case d 0 _
  | synced => left; exact old_case _ _ _
  | closed => left; exact old_case _ _ _
  | renamed =>
    by_cases h : j ≤ fs0.log.length
    · left
      refine ⟨j, ?_, ?_⟩
      · intro hj; simp [during] at hj; omega
      · exact crashRead_during_old _ _ _ _ _ _ _ hwf _ _ _ (by rw [dirAt_during_le _ _ _ _ _ _ _ h])
    · by_cases h1 : j = fs0.log.length + 1
      · left
        refine ⟨fs0.log.length, fun _ => Nat.le_refl _, ?_⟩
        apply crashRead_during_old _ _ _ _ _ _ _ hwf
        rw [dirAt_during_gt _ _ _ _ _ _ _ (by omega)]
        have : j - fs0.log.length - 1 = 0 := by omega
        simp [this, Dir.get_put, hne, dirNow_eq_dirAt]
      · right
        apply crashRead_during_new
        rw [dirAt_during_gt _ _ _ _ _ _ _ (by omega)]
        have : j - fs0.log.length - 1 = (j - fs0.log.length - 2) + 1 := by omega
        rw [this]
        simp [applyDirOp, Dir.get_put]

/-- The heart of C11's crash argument: at every crash point `(i, j, m)` of a
    snapshot run the target reads as it would have in some crash state `(j', m)`
    of the start state — with `j'` a *current* version if `j` is — or it reads
    the complete new snapshot. -/
theorem crash_point_cases (fs0 : FS) (tmp target : String) (trunc : Bool) (chunks : List Bytes)
    (hne : tmp ≠ target) (hfresh : fs0.dirNow.get tmp = none) (hwf : TargetWF fs0 target)
    (i j m : Nat) :
    (∃ j', ((run fs0 ((snapshotOps tmp trunc target chunks).take i)).log.length ≤ j → fs0.log.length ≤ j') ∧
        crashRead (run fs0 ((snapshotOps tmp trunc target chunks).take i)) j m target = crashRead fs0 j' m target) ∨
    crashRead (run fs0 ((snapshotOps tmp trunc target chunks).take i)) j m target = some chunks.flatten :=
  crash_point_cases_phase fs0 tmp target chunks.flatten hne hwf j m _
    (phase_of_take fs0 tmp target trunc chunks hfresh i)

/-- after a completed run: current versions read the new snapshot, and the target stays well-formed -/
theorem after_snapshot (fs0 : FS) (tmp target : String) (trunc : Bool) (chunks : List Bytes)
    (hne : tmp ≠ target) (hfresh : fs0.dirNow.get tmp = none) (hwf : TargetWF fs0 target) :
    let fs := run fs0 (snapshotOps tmp trunc target chunks)
    TargetWF fs target ∧
    (∀ j m, fs.log.length ≤ j → crashRead fs j m target = some chunks.flatten) ∧
    (∀ q, q ≠ target → fs0.dirNow.get q = none → fs.dirNow.get q = none) := by
  intro fs
  have hfs : fs = during fs0 tmp chunks.flatten chunks.flatten.length none [.rename tmp target] :=
    run_snapshot fs0 tmp target trunc chunks hfresh
  refine ⟨?_, ?_, ?_⟩
  · intro j id hg
    rw [hfs] at hg ⊢
    rcases get_target_renamed fs0 tmp target chunks.flatten chunks.flatten.length none hne j with ⟨j', hj'⟩ | ⟨_, hn⟩
    · rw [hj'] at hg
      have := hwf j' id hg
      simp [during]; omega
    · rw [hn] at hg
      simp [during]
      cases hg; omega
  · intro j m hj
    rw [hfs] at hj ⊢
    apply crashRead_during_new
    rw [dirAt_during_gt _ _ _ _ _ _ _ (by simp [during] at hj; omega)]
    have : j - fs0.log.length - 1 = (j - fs0.log.length - 2) + 1 := by simp [during] at hj; omega
    rw [this]
    simp [applyDirOp, Dir.get_put]
  · intro q hq h0
    rw [hfs, dirNow_eq_dirAt, dirAt_during_gt _ _ _ _ _ _ _ (by simp [during])]
    have : (during fs0 tmp chunks.flatten chunks.flatten.length none [DirOp.rename tmp target]).log.length
        - fs0.log.length - 1 = 1 := by simp [during]
    rw [this]
    simp [applyDirOp, Dir.get_put, Dir.get_erase, Ne.symm hq]
    by_cases htq : tmp = q
    · simp [htq]
    · simp [htq, h0]

end AM.CrashFS
