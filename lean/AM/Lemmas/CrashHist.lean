/-
  Snapshot attempts over a data directory that may already hold temp files of
  attempts that crashed (C11): closed form of every state of an attempt whose
  temp name is fresh OR already exists, and the invariant `HInv` that every
  such state — and the settled disk after a crash in it — preserves.

  What the argument needs of the temp file: its name differs from the target,
  and it is EMPTY when the first byte is written — because the name is fresh or
  because the open truncates (`phase_of_take'`, the only place where the
  hypothesis `trunc = true ∨ fresh` is used).
-/
import AM.Lemmas.CrashFS

namespace AM.CrashFS
open AM.Snapshot (Bytes)

/-! ### directory versions as a function of (dir0, log) -/

theorem dirAt_append_le (d0 : Dir) (log e : List DirOp) (j : Nat) (h : j ≤ log.length) :
    ((log ++ e).take j).foldl applyDirOp d0 = (log.take j).foldl applyDirOp d0 := by
  simp [List.take_append, show j - log.length = 0 by omega]

theorem dirAt_append_gt (d0 : Dir) (log e : List DirOp) (j : Nat) (h : log.length ≤ j) :
    ((log ++ e).take j).foldl applyDirOp d0 = (e.take (j - log.length)).foldl applyDirOp (log.foldl applyDirOp d0) := by
  simp [List.take_append, List.take_of_length_le h, List.foldl_append]

/-! ### the invariant -/

/-- What holds of the data directory between (and during) snapshot attempts:
    every directory version is well-formed and has no two names for one inode,
    no name other than the target currently resolves to an inode the target
    resolves to in any version (those inodes are never written again), and in
    every crash state the target reads something in `Q`. -/
structure HInv (fs : FS) (F : String) (Q : Option Bytes → Prop) : Prop where
  wf : ∀ j p id, (fs.dirAt j).get p = some id → id < fs.inodes.length
  inj : ∀ j p q id, (fs.dirAt j).get p = some id → (fs.dirAt j).get q = some id → p = q
  noalias : ∀ j id p, (fs.dirAt j).get F = some id → p ≠ F → fs.dirNow.get p ≠ some id
  weak : ∀ j m, Q (crashRead fs j m F)

theorem HInv.mono {fs : FS} {F : String} {Q Q' : Option Bytes → Prop} (h : HInv fs F Q)
    (hq : ∀ r, Q r → Q' r) : HInv fs F Q' :=
  ⟨h.wf, h.inj, h.noalias, fun j m => hq _ (h.weak j m)⟩

/-! ### a crash and restart -/

theorem crashFS_dirAt (fs : FS) (j : Nat) (ms : Nat → Nat) (j' : Nat) :
    (crashFS fs j ms).dirAt j' = fs.dirAt j := by
  simp [crashFS, FS.dirAt]

theorem crashFS_dirNow (fs : FS) (j : Nat) (ms : Nat → Nat) :
    (crashFS fs j ms).dirNow = fs.dirAt j := by
  simp [crashFS, FS.dirNow]

theorem crashRead_crashFS (fs : FS) (j : Nat) (ms : Nat → Nat) (j' m' : Nat) (F : String) :
    crashRead (crashFS fs j ms) j' m' F =
      match (fs.dirAt j).get F with
      | none => none
      | some id => crashRead fs j (ms id) F := by
  unfold crashRead
  rw [crashFS_dirAt]
  cases hg : (fs.dirAt j).get F with
  | none => rfl
  | some id =>
    dsimp only
    simp only [crashFS, List.getElem?_mapIdx]
    cases hi : fs.inodes[id]? with
    | none => simp
    | some ino => simp [List.take_take]

/-- **The disk a crash leaves behind satisfies the invariant again** — with the
    temp files of the interrupted attempt still on it. -/
theorem HInv.crashFS {fs : FS} {F : String} {Q : Option Bytes → Prop} (h : HInv fs F Q)
    (j : Nat) (ms : Nat → Nat) : HInv (crashFS fs j ms) F Q := by
  refine ⟨?_, ?_, ?_, ?_⟩
  · intro j' p id hg
    rw [crashFS_dirAt] at hg
    have := h.wf j p id hg
    simpa [AM.CrashFS.crashFS] using this
  · intro j' p q id hp hq
    rw [crashFS_dirAt] at hp hq
    exact h.inj j p q id hp hq
  · intro j' id p hF hne hp
    rw [crashFS_dirAt] at hF
    rw [crashFS_dirNow] at hp
    exact hne (h.inj j p F id hp hF)
  · intro j' m'
    rw [crashRead_crashFS]
    cases hg : (fs.dirAt j).get F with
    | none =>
      have := h.weak j 0
      simpa [crashRead, hg] using this
    | some id => exact h.weak j (ms id)

/-! ### the states of one attempt, temp name fresh or not -/

/-- the inode the attempt writes: the one its temp name already has, else a new one -/
def tmpId (fs0 : FS) (tmp : String) : Nat := (fs0.dirNow.get tmp).getD fs0.inodes.length

/-- the directory operation of the open: a link, unless the name exists -/
def preOps (fs0 : FS) (tmp : String) : List DirOp :=
  match fs0.dirNow.get tmp with
  | some _ => []
  | none => [.link tmp fs0.inodes.length]

def putI (l : List Inode) (t : Nat) (x : Inode) : List Inode :=
  if t < l.length then l.set t x else l ++ [x]

/-- state of an attempt: temp inode holding `x`, descriptor `fd`, `extra` = the rename once done -/
def mid (fs0 : FS) (tmp : String) (x : Inode) (fd : Option (Nat × Nat)) (extra : List DirOp) : FS :=
  { inodes := putI fs0.inodes (tmpId fs0 tmp) x, dir0 := fs0.dir0,
    log := fs0.log ++ (preOps fs0 tmp ++ extra), fd := fd }

theorem putI_length_ge (l : List Inode) (t : Nat) (x : Inode) : l.length ≤ (putI l t x).length := by
  unfold putI; split <;> simp

theorem putI_length_gt (l : List Inode) (t : Nat) (x : Inode) (ht : t ≤ l.length) : t < (putI l t x).length := by
  unfold putI; split <;> simp <;> omega

theorem getElem?_putI_self (l : List Inode) (t : Nat) (x : Inode) (ht : t ≤ l.length) :
    (putI l t x)[t]? = some x := by
  unfold putI
  split
  · rename_i h; simp [h]
  · have : t = l.length := by omega
    subst this; simp

theorem getElem?_putI_ne (l : List Inode) (t id : Nat) (x : Inode) (hne : id ≠ t) (hlt : id < l.length) :
    (putI l t x)[id]? = l[id]? := by
  unfold putI
  split
  · simp [Ne.symm hne]
  · rw [List.getElem?_append_left hlt]

theorem modifyInode_putI (l : List Inode) (t : Nat) (x : Inode) (f : Inode → Inode) (ht : t ≤ l.length) :
    modifyInode (putI l t x) t f = putI l t (f x) := by
  unfold modifyInode
  rw [getElem?_putI_self l t x ht]
  by_cases h : t < l.length
  · simp [putI, h]
  · have : t = l.length := by omega
    subst this; simp [putI]

theorem tmpId_le (fs0 : FS) (tmp : String)
    (hwf : ∀ id, fs0.dirNow.get tmp = some id → id < fs0.inodes.length) :
    tmpId fs0 tmp ≤ fs0.inodes.length := by
  unfold tmpId
  cases h : fs0.dirNow.get tmp with
  | none => simp
  | some id => have := hwf id h; simp; omega

/-! ### the directory versions of an attempt -/

/-- the directory right after the open -/
def dirOpen (fs0 : FS) (tmp : String) : Dir := (preOps fs0 tmp).foldl applyDirOp fs0.dirNow

/-- … and after the rename -/
def dirDone (fs0 : FS) (tmp F : String) : Dir := applyDirOp (dirOpen fs0 tmp) (.rename tmp F)

theorem dirOpen_get_tmp (fs0 : FS) (tmp : String) : (dirOpen fs0 tmp).get tmp = some (tmpId fs0 tmp) := by
  unfold dirOpen preOps tmpId
  cases h : fs0.dirNow.get tmp with
  | none => simp [applyDirOp, Dir.get_put]
  | some id => simp [h]

theorem dirOpen_get_ne (fs0 : FS) (tmp q : String) (hq : q ≠ tmp) :
    (dirOpen fs0 tmp).get q = fs0.dirNow.get q := by
  unfold dirOpen preOps
  cases h : fs0.dirNow.get tmp with
  | none => simp [applyDirOp, Dir.get_put, Ne.symm hq]
  | some id => simp

theorem dirDone_get (fs0 : FS) (tmp F q : String) (hne : tmp ≠ F) :
    (dirDone fs0 tmp F).get q =
      if q = F then some (tmpId fs0 tmp) else if q = tmp then none else fs0.dirNow.get q := by
  unfold dirDone
  simp only [applyDirOp, dirOpen_get_tmp]
  rw [Dir.get_put, Dir.get_erase]
  by_cases h1 : q = F
  · simp [h1]
  · by_cases h2 : q = tmp
    · subst h2; simp [hne, Ne.symm hne]
    · simp [h1, h2, Ne.symm h1, Ne.symm h2, dirOpen_get_ne fs0 tmp q h2]

theorem mid_dirAt (fs0 : FS) (tmp : String) (x : Inode) (fd : Option (Nat × Nat)) (extra : List DirOp) (j : Nat) :
    (mid fs0 tmp x fd extra).dirAt j =
      if j ≤ fs0.log.length then fs0.dirAt j
      else ((preOps fs0 tmp ++ extra).take (j - fs0.log.length)).foldl applyDirOp fs0.dirNow := by
  unfold FS.dirAt mid
  by_cases h : j ≤ fs0.log.length
  · simp only [h, if_true]; exact dirAt_append_le _ _ _ _ h
  · simp only [h, if_false]; exact dirAt_append_gt _ _ _ _ (by omega)

/-- every directory version of a state of the attempt is a version of the start
    state, the directory after the open, or — once renamed — the one after the rename -/
theorem mid_dirAt_cases (fs0 : FS) (tmp F : String) (x : Inode) (fd : Option (Nat × Nat)) (extra : List DirOp)
    (hex : extra = [] ∨ extra = [.rename tmp F]) (j : Nat) :
    (∃ j', (mid fs0 tmp x fd extra).dirAt j = fs0.dirAt j') ∨
    (mid fs0 tmp x fd extra).dirAt j = dirOpen fs0 tmp ∨
    (extra = [.rename tmp F] ∧ (mid fs0 tmp x fd extra).dirAt j = dirDone fs0 tmp F) := by
  rw [mid_dirAt]
  by_cases h : j ≤ fs0.log.length
  · left; exact ⟨j, by simp [h]⟩
  · simp only [h, if_false]
    have hk : 0 < j - fs0.log.length := by omega
    generalize j - fs0.log.length = k at hk
    unfold dirDone dirOpen
    cases hp : preOps fs0 tmp with
    | nil =>
      rcases hex with he | he <;> subst he
      · right; left; simp
      · right; right
        refine ⟨rfl, ?_⟩
        match k, hk with
        | k + 1, _ => simp
    | cons o rest =>
      have hrest : rest = [] := by
        unfold preOps at hp
        cases hg : fs0.dirNow.get tmp with
        | none => simp [hg] at hp; exact hp.2
        | some id => simp [hg] at hp
      subst hrest
      rcases hex with he | he <;> subst he
      · right; left
        match k, hk with
        | k + 1, _ => simp
      · match k, hk with
        | 1, _ => right; left; simp
        | k + 2, _ => right; right; exact ⟨rfl, by simp⟩

theorem mid_dirNow (fs0 : FS) (tmp F : String) (x : Inode) (fd : Option (Nat × Nat)) (extra : List DirOp)
    (hex : extra = [] ∨ extra = [.rename tmp F]) :
    (extra = [] ∧ (mid fs0 tmp x fd extra).dirNow = dirOpen fs0 tmp) ∨
    (extra = [.rename tmp F] ∧ (mid fs0 tmp x fd extra).dirNow = dirDone fs0 tmp F) := by
  unfold mid dirDone dirOpen
  rcases hex with he | he <;> subst he
  · left; simp [FS.dirNow, List.foldl_append]
  · right; simp [FS.dirNow, List.foldl_append]

/-! ### every state of an attempt satisfies the invariant -/

theorem tmpId_le' {fs0 : FS} {F : String} {Q : Option Bytes → Prop} (h : HInv fs0 F Q) (tmp : String) :
    tmpId fs0 tmp ≤ fs0.inodes.length :=
  tmpId_le fs0 tmp fun id hg => h.wf fs0.log.length tmp id (by rw [← dirNow_eq_dirAt]; exact hg)

/-- no other name resolves to the inode the attempt writes -/
theorem only_tmp {fs0 : FS} {F : String} {Q : Option Bytes → Prop} (h : HInv fs0 F Q) (tmp q : String)
    (hq : fs0.dirNow.get q = some (tmpId fs0 tmp)) : q = tmp := by
  unfold tmpId at hq
  cases hg : fs0.dirNow.get tmp with
  | none =>
    rw [hg] at hq
    have := h.wf fs0.log.length q _ (by rw [← dirNow_eq_dirAt]; exact hq)
    simp at this
  | some id =>
    rw [hg] at hq
    exact h.inj fs0.log.length q tmp id (by rw [← dirNow_eq_dirAt]; exact hq) (by rw [← dirNow_eq_dirAt]; exact hg)

/-- the inodes the target resolves to in any version are not the one the attempt writes -/
theorem frozen_ne_tmpId {fs0 : FS} {F : String} {Q : Option Bytes → Prop} (h : HInv fs0 F Q) (tmp : String)
    (hne : tmp ≠ F) (j id : Nat) (hF : (fs0.dirAt j).get F = some id) :
    id ≠ tmpId fs0 tmp ∧ id < fs0.inodes.length := by
  have hlt := h.wf j F id hF
  refine ⟨?_, hlt⟩
  unfold tmpId
  cases hg : fs0.dirNow.get tmp with
  | none => simp; omega
  | some t =>
    simp
    intro heq
    exact h.noalias j id tmp hF hne (by rw [hg, heq])

theorem HInv_mid {fs0 : FS} {F : String} {Q : Option Bytes → Prop} (h : HInv fs0 F Q) (tmp : String)
    (hne : tmp ≠ F) (x : Inode) (fd : Option (Nat × Nat)) (extra : List DirOp) (new : Bytes)
    (hex : extra = [] ∨ (extra = [.rename tmp F] ∧ x = ⟨new, new.length⟩)) :
    HInv (mid fs0 tmp x fd extra) F (fun r => Q r ∨ r = some new) := by
  have hex' : extra = [] ∨ extra = [.rename tmp F] := by
    rcases hex with he | ⟨he, _⟩
    · exact Or.inl he
    · exact Or.inr he
  have ht := tmpId_le' h tmp
  have hlen : fs0.inodes.length ≤ (mid fs0 tmp x fd extra).inodes.length := putI_length_ge _ _ _
  have htl : tmpId fs0 tmp < (mid fs0 tmp x fd extra).inodes.length := putI_length_gt _ _ _ ht
  refine ⟨?_, ?_, ?_, ?_⟩
  · -- wf
    intro j p id hg
    rcases mid_dirAt_cases fs0 tmp F x fd extra hex' j with ⟨j', hj⟩ | hj | ⟨_, hj⟩ <;> rw [hj] at hg
    · have := h.wf j' p id hg; omega
    · by_cases hp : p = tmp
      · subst hp; rw [dirOpen_get_tmp] at hg; cases hg; exact htl
      · rw [dirOpen_get_ne _ _ _ hp] at hg
        have := h.wf fs0.log.length p id (by rw [← dirNow_eq_dirAt]; exact hg); omega
    · rw [dirDone_get _ _ _ _ hne] at hg
      by_cases h1 : p = F
      · simp [h1] at hg; omega
      · by_cases h2 : p = tmp
        · subst h2; simp [hne] at hg
        · simp [h1, h2] at hg
          have := h.wf fs0.log.length p id (by rw [← dirNow_eq_dirAt]; exact hg); omega
  · -- inj
    intro j p q id hp hq
    rcases mid_dirAt_cases fs0 tmp F x fd extra hex' j with ⟨j', hj⟩ | hj | ⟨_, hj⟩ <;> rw [hj] at hp hq
    · exact h.inj j' p q id hp hq
    · by_cases h1 : p = tmp
      · by_cases h2 : q = tmp
        · rw [h1, h2]
        · subst h1
          rw [dirOpen_get_tmp] at hp; cases hp
          rw [dirOpen_get_ne _ _ _ h2] at hq
          exact absurd (only_tmp h _ q hq) h2
      · by_cases h2 : q = tmp
        · subst h2
          rw [dirOpen_get_tmp] at hq; cases hq
          rw [dirOpen_get_ne _ _ _ h1] at hp
          exact absurd (only_tmp h _ p hp) h1
        · rw [dirOpen_get_ne _ _ _ h1] at hp
          rw [dirOpen_get_ne _ _ _ h2] at hq
          exact h.inj fs0.log.length p q id (by rw [← dirNow_eq_dirAt]; exact hp) (by rw [← dirNow_eq_dirAt]; exact hq)
    · rw [dirDone_get _ _ _ _ hne] at hp hq
      by_cases p1 : p = F
      · by_cases q1 : q = F
        · rw [p1, q1]
        · by_cases q2 : q = tmp
          · subst q2; simp [hne] at hq
          · simp [p1] at hp; simp [q1, q2] at hq
            subst hp
            exact absurd (only_tmp h _ q hq) q2
      · by_cases p2 : p = tmp
        · subst p2; simp [hne] at hp
        · simp [p1, p2] at hp
          by_cases q1 : q = F
          · simp [q1] at hq
            subst hq
            exact absurd (only_tmp h _ p hp) p2
          · by_cases q2 : q = tmp
            · subst q2; simp [hne] at hq
            · simp [q1, q2] at hq
              exact h.inj fs0.log.length p q id (by rw [← dirNow_eq_dirAt]; exact hp) (by rw [← dirNow_eq_dirAt]; exact hq)
  · -- noalias
    intro j id p hF hpF hp
    -- what the target resolves to in version j: a frozen inode of the start state, or the temp inode after the rename
    have hfro : (∃ j', (fs0.dirAt j').get F = some id) ∨ (extra = [.rename tmp F] ∧ id = tmpId fs0 tmp) := by
      rcases mid_dirAt_cases fs0 tmp F x fd extra hex' j with ⟨j', hj⟩ | hj | ⟨he, hj⟩ <;> rw [hj] at hF
      · exact Or.inl ⟨j', hF⟩
      · rw [dirOpen_get_ne _ _ _ (Ne.symm hne)] at hF
        exact Or.inl ⟨fs0.log.length, by rw [← dirNow_eq_dirAt]; exact hF⟩
      · rw [dirDone_get _ _ _ _ hne] at hF
        simp at hF
        exact Or.inr ⟨he, hF.symm⟩
    rcases mid_dirNow fs0 tmp F x fd extra hex' with ⟨he, hn⟩ | ⟨he, hn⟩ <;> rw [hn] at hp
    · rcases hfro with ⟨j', hj'⟩ | ⟨he2, _⟩
      · by_cases h1 : p = tmp
        · subst h1
          rw [dirOpen_get_tmp] at hp; cases hp
          exact (frozen_ne_tmpId h _ hne j' _ hj').1 rfl
        · rw [dirOpen_get_ne _ _ _ h1] at hp
          exact h.noalias j' id p hj' hpF hp
      · rw [he] at he2; cases he2
    · rw [dirDone_get _ _ _ _ hne] at hp
      by_cases h2 : p = tmp
      · subst h2; simp [hne] at hp
      · simp [hpF, h2] at hp
        rcases hfro with ⟨j', hj'⟩ | ⟨_, hid⟩
        · exact h.noalias j' id p hj' hpF hp
        · subst hid
          exact h2 (only_tmp h _ p hp)
  · -- weak
    intro j m
    have old : ∀ j', ((mid fs0 tmp x fd extra).dirAt j).get F = (fs0.dirAt j').get F →
        crashRead (mid fs0 tmp x fd extra) j m F = crashRead fs0 j' m F := by
      intro j' hg
      unfold crashRead
      rw [hg]
      cases hF : (fs0.dirAt j').get F with
      | none => rfl
      | some id =>
        obtain ⟨hn, hl⟩ := frozen_ne_tmpId h tmp hne j' id hF
        simp only [mid]
        rw [getElem?_putI_ne _ _ _ _ hn hl]
    rcases mid_dirAt_cases fs0 tmp F x fd extra hex' j with ⟨j', hj⟩ | hj | ⟨he, hj⟩
    · left; rw [old j' (by rw [hj])]; exact h.weak j' m
    · left
      rw [old fs0.log.length (by rw [hj, dirOpen_get_ne _ _ _ (Ne.symm hne), ← dirNow_eq_dirAt])]
      exact h.weak _ m
    · right
      rcases hex with he0 | ⟨_, hx⟩
      · rw [he0] at he; cases he
      · unfold crashRead
        rw [hj, dirDone_get _ _ _ _ hne]
        simp only [if_true, mid]
        rw [getElem?_putI_self _ _ _ ht, hx]
        simp [List.take_of_length_le]

/-! ### the run of an attempt passes through `mid` states only -/

/-- The open: a fresh name gets a new empty inode, an existing name is emptied
    by `O_TRUNC`.  THIS is where the discipline of the temp file is needed. -/
theorem step_create' {fs0 : FS} {F : String} {Q : Option Bytes → Prop} (h : HInv fs0 F Q) (tmp : String)
    (trunc : Bool) (hopen : trunc = true ∨ fs0.dirNow.get tmp = none) :
    step fs0 (.create tmp trunc) = mid fs0 tmp ⟨[], 0⟩ (some (tmpId fs0 tmp, 0)) [] := by
  cases hg : fs0.dirNow.get tmp with
  | none => simp [step, hg, mid, tmpId, preOps, putI]
  | some id =>
    have htr : trunc = true := by
      rcases hopen with h1 | h1
      · exact h1
      · rw [hg] at h1; cases h1
    have hlt : id < fs0.inodes.length := h.wf fs0.log.length tmp id (by rw [← dirNow_eq_dirAt]; exact hg)
    simp [step, hg, mid, tmpId, preOps, putI, htr, hlt, modifyInode]

theorem run_writes' (fs0 : FS) (tmp : String) (ht : tmpId fs0 tmp ≤ fs0.inodes.length) (cs : List Bytes) (acc : Bytes) :
    run (mid fs0 tmp ⟨acc, 0⟩ (some (tmpId fs0 tmp, acc.length)) []) (cs.map .write) =
      mid fs0 tmp ⟨acc ++ cs.flatten, 0⟩ (some (tmpId fs0 tmp, (acc ++ cs.flatten).length)) [] := by
  induction cs generalizing acc with
  | nil => simp [run]
  | cons c cs ih =>
    simp only [List.map_cons, run, List.foldl_cons]
    have : step (mid fs0 tmp ⟨acc, 0⟩ (some (tmpId fs0 tmp, acc.length)) []) (.write c) =
        mid fs0 tmp ⟨acc ++ c, 0⟩ (some (tmpId fs0 tmp, (acc ++ c).length)) [] := by
      simp only [step, mid]
      rw [modifyInode_putI _ _ _ _ ht]
      simp [overwrite_end]
    rw [this]
    have := ih (acc ++ c)
    simp only [run] at this
    rw [this]
    simp

/-- the states an attempt passes through -/
inductive Phase' (fs0 : FS) (tmp target : String) (new : Bytes) : FS → Prop where
  | start : Phase' fs0 tmp target new fs0
  | writing (d : Bytes) : Phase' fs0 tmp target new (mid fs0 tmp ⟨d, 0⟩ (some (tmpId fs0 tmp, d.length)) [])
  | synced : Phase' fs0 tmp target new (mid fs0 tmp ⟨new, new.length⟩ (some (tmpId fs0 tmp, new.length)) [])
  | closed : Phase' fs0 tmp target new (mid fs0 tmp ⟨new, new.length⟩ none [])
  | renamed : Phase' fs0 tmp target new (mid fs0 tmp ⟨new, new.length⟩ none [.rename tmp target])

theorem phase_of_take' {fs0 : FS} {F : String} {Q : Option Bytes → Prop} (h : HInv fs0 F Q) (tmp : String)
    (trunc : Bool) (hopen : trunc = true ∨ fs0.dirNow.get tmp = none) (chunks : List Bytes) (i : Nat) :
    Phase' fs0 tmp F chunks.flatten (run fs0 ((snapshotOps tmp trunc F chunks).take i)) := by
  have ht := tmpId_le' h tmp
  cases i with
  | zero => simp [run]; exact .start
  | succ i =>
    simp only [snapshotOps, List.take_succ_cons]
    have hrun : ∀ l, run fs0 (.create tmp trunc :: l) = run (mid fs0 tmp ⟨[], 0⟩ (some (tmpId fs0 tmp, 0)) []) l := by
      intro l; simp [run, step_create' h tmp trunc hopen]
    rw [hrun, List.take_append]
    rw [run_append]
    have hw : (chunks.map Op.write).take i = (chunks.take i).map Op.write := by
      simp [List.map_take]
    have h0 := run_writes' fs0 tmp ht (chunks.take i) []
    simp only [List.length_nil, List.nil_append] at h0
    rw [hw, h0]
    simp only [List.length_map]
    by_cases hi : i ≤ chunks.length
    · have : i - chunks.length = 0 := by omega
      rw [this]
      simp only [List.take_zero, run, List.foldl_nil]
      exact .writing _
    · have hall : chunks.take i = chunks := List.take_of_length_le (by omega)
      rw [hall]
      rcases take_tail3 Op.fsync Op.close (Op.rename tmp F) (i - chunks.length) with h | h | h | h <;> rw [h]
      · simp only [run, List.foldl_nil]; exact .writing _
      · have : run (mid fs0 tmp ⟨chunks.flatten, 0⟩ (some (tmpId fs0 tmp, chunks.flatten.length)) []) [Op.fsync] =
            mid fs0 tmp ⟨chunks.flatten, chunks.flatten.length⟩ (some (tmpId fs0 tmp, chunks.flatten.length)) [] := by
          simp only [run, List.foldl_cons, List.foldl_nil, step, mid]
          rw [modifyInode_putI _ _ _ _ ht]
        rw [this]; exact .synced
      · have : run (mid fs0 tmp ⟨chunks.flatten, 0⟩ (some (tmpId fs0 tmp, chunks.flatten.length)) []) [Op.fsync, Op.close] =
            mid fs0 tmp ⟨chunks.flatten, chunks.flatten.length⟩ none [] := by
          simp only [run, List.foldl_cons, List.foldl_nil, step, mid]
          rw [modifyInode_putI _ _ _ _ ht]
        rw [this]; exact .closed
      · have : run (mid fs0 tmp ⟨chunks.flatten, 0⟩ (some (tmpId fs0 tmp, chunks.flatten.length)) [])
              [Op.fsync, Op.close, Op.rename tmp F] =
            mid fs0 tmp ⟨chunks.flatten, chunks.flatten.length⟩ none [.rename tmp F] := by
          simp only [run, List.foldl_cons, List.foldl_nil, step, mid]
          rw [modifyInode_putI _ _ _ _ ht]
          simp
        rw [this]; exact .renamed

/-- **Every state of an attempt — temp name fresh, or reused and truncated —
    satisfies the invariant**, with the new complete content added to what the
    target may read. -/
theorem HInv_attempt_point {fs0 : FS} {F : String} {Q : Option Bytes → Prop} (h : HInv fs0 F Q) (tmp : String)
    (hne : tmp ≠ F) (trunc : Bool) (hopen : trunc = true ∨ fs0.dirNow.get tmp = none) (chunks : List Bytes) (i : Nat) :
    HInv (run fs0 ((snapshotOps tmp trunc F chunks).take i)) F (fun r => Q r ∨ r = some chunks.flatten) := by
  have hph := phase_of_take' h tmp trunc hopen chunks i
  generalize run fs0 ((snapshotOps tmp trunc F chunks).take i) = fs at hph
  cases hph with
  | start => exact h.mono fun r hr => Or.inl hr
  | writing d => exact HInv_mid h tmp hne _ _ _ _ (Or.inl rfl)
  | synced => exact HInv_mid h tmp hne _ _ _ _ (Or.inl rfl)
  | closed => exact HInv_mid h tmp hne _ _ _ _ (Or.inl rfl)
  | renamed => exact HInv_mid h tmp hne _ _ _ _ (Or.inr ⟨rfl, rfl⟩)

end AM.CrashFS
