/-
  C16: the UTF-8 parser reads back what `Matcher.String` / `Matchers.String` print.
-/
import AM.Lemmas.MatcherLex
import AM.Lemmas.MatcherUnquote

namespace AM.Mt
open AM

set_option linter.unusedSimpArgs false

/-! ### single tokens -/

theorem not_reserved_ne {n : Nat} (h : isReserved n = false) :
    n ≠ 123 ∧ n ≠ 125 ∧ n ≠ 44 ∧ n ≠ 33 ∧ n ≠ 61 ∧ n ≠ 34 := by
  simp only [isReserved, Bool.or_eq_false_iff, beq_eq_false_iff_ne] at h
  omega

/-- an unquoted word followed by a reserved rune -/
theorem scan_unquoted (name : Str) (hne : name ≠ []) (hall : ∀ x ∈ name, isReserved x.cp = false)
    (a : Rune) (ha : isReserved a.cp = true) (X : Str) :
    scan (name ++ a :: X) = .ok (⟨.unquoted, name⟩, a :: X) := by
  cases name with
  | nil => exact absurd rfl hne
  | cons r name' =>
    have hr := hall r (by simp)
    obtain ⟨h1, h2, h3, h4, h5, h6⟩ := not_reserved_ne hr
    have htl : ∀ x ∈ name', (!isReserved x.cp) = true := by
      intro x hx; simp [hall x (by simp [hx])]
    have ht : List.takeWhile (fun x => !isReserved x.cp) (name' ++ a :: X) = name' := by
      rw [List.takeWhile_append_of_pos htl]; simp [List.takeWhile_cons, ha]
    have hd : List.dropWhile (fun x => !isReserved x.cp) (name' ++ a :: X) = a :: X := by
      rw [List.dropWhile_append_of_pos htl]; simp [List.dropWhile_cons, ha]
    simp only [List.cons_append, scan, h1, h2, h3, h4, h5, h6, hr, if_false, ht, hd]
    simp

def kindOfOp : Op → TokKind
  | .eq => .equals | .ne => .notEquals | .re => .matches | .nre => .notMatches

theorem scan_op (op : Op) (Y : Str) :
    scan (op.str ++ dq :: Y) = .ok (⟨kindOfOp op, op.str⟩, dq :: Y) := by
  cases op <;> simp [Op.str, scan, dq, kindOfOp]

theorem opOfKind_kindOfOp (op : Op) : opOfKind (kindOfOp op) = some op := by
  cases op <;> rfl

theorem scan_quoted (body Z : Str) (h : scanQuotedBody false (body ++ dq :: Z) = some (body ++ [dq], Z)) :
    scan (dq :: (body ++ [dq]) ++ Z) = .ok (⟨.quoted, dq :: (body ++ [dq])⟩, Z) := by
  have : dq :: (body ++ [dq]) ++ Z = dq :: (body ++ dq :: Z) := by simp
  rw [this]
  simp only [scan, dq, Rune.cp_ch] at h ⊢
  simp [h]

/-! ### one printed matcher -/

theorem expectPeek_ok {rest rest' : Str} {t : Token} {kinds : List TokKind}
    (hs : scan rest = .ok (t, rest')) (hne : t.kind ≠ .eof) (hk : kinds.contains t.kind = true) :
    expectPeek rest kinds = .ok t := by
  have hk' : t.kind ∈ kinds := by simpa using hk
  simp [expectPeek, hs, hne, hk']

theorem expect_ok {rest rest' : Str} {t : Token} {kinds : List TokKind}
    (hs : scan rest = .ok (t, rest')) (hne : t.kind ≠ .eof) (hk : kinds.contains t.kind = true) :
    expect rest kinds = .ok (t, rest') := by
  simp [expect, expectPeek_ok hs hne hk, hs]

/-- `txt` is read by the automaton's matcher state as `m`, whatever follows -/
def ReadsAs (compiles : Str → Bool) (txt : Str) (m : Matcher) : Prop :=
  ∀ (acc : List Matcher) (hb : Bool) (Z : Str),
    parseMatcher compiles ⟨acc, hb, txt ++ Z⟩ = .next .endOfMatcher ⟨acc ++ [m], hb, Z⟩ ∧
    ∃ t r, scan (txt ++ Z) = .ok (t, r) ∧ (t.kind = .quoted ∨ t.kind = .unquoted)

/-- the three tokens of a matcher, abstractly -/
theorem readsAs_of_tokens (compiles : Str → Bool) (T1 T3' : Str) (t1 : Token) (op : Op) (name value : Str)
    (hk1 : t1.kind = .quoted ∨ t1.kind = .unquoted)
    (h1 : ∀ X, scan (T1 ++ (op.str ++ X)) = .ok (t1, op.str ++ X))
    (hu1 : t1.unquote = some name)
    (h3 : ∀ Z, scanQuotedBody false (T3' ++ dq :: Z) = some (T3' ++ [dq], Z))
    (hu3 : unquote (dq :: (T3' ++ [dq])) = some value)
    (hc : op.isRegex = true → compiles value = true) :
    ReadsAs compiles (T1 ++ op.str ++ (dq :: (T3' ++ [dq]))) ⟨op, name, value⟩ := by
  intro acc hb Z
  have e : T1 ++ op.str ++ (dq :: (T3' ++ [dq])) ++ Z = T1 ++ (op.str ++ (dq :: (T3' ++ [dq]) ++ Z)) := by simp
  have s1 := h1 (dq :: (T3' ++ [dq]) ++ Z)
  have e2 : op.str ++ (dq :: (T3' ++ [dq]) ++ Z) = op.str ++ dq :: ((T3' ++ [dq]) ++ Z) := by simp
  have s2 := scan_op op ((T3' ++ [dq]) ++ Z)
  have s3 := scan_quoted T3' Z (h3 Z)
  have hk1' : ([TokKind.quoted, TokKind.unquoted].contains t1.kind) = true := by
    rcases hk1 with h | h <;> simp [h]
  have hne1 : t1.kind ≠ .eof := by rcases hk1 with h | h <;> simp [h]
  have hnm : newMatcher compiles op name value = .ok ⟨op, name, value⟩ := by
    simp only [newMatcher]
    cases hr : op.isRegex
    · simp
    · simp [hc hr]
  have hk2 : ([TokKind.equals, .notEquals, .matches, .notMatches].contains (kindOfOp op)) = true := by
    cases op <;> simp [kindOfOp]
  have hne2 : kindOfOp op ≠ .eof := by cases op <;> simp [kindOfOp]
  refine ⟨?_, t1, _, by rw [e]; exact s1, hk1⟩
  rw [e]
  simp only [List.append_assoc, List.cons_append, List.nil_append] at s1 s2 s3 ⊢
  have x1 := expect_ok s1 hne1 hk1'
  have x2 := expect_ok s2 hne2 hk2
  have x3 := expect_ok (kinds := [TokKind.unquoted, TokKind.quoted]) s3 (by simp) (by simp)
  have hu3' : (Token.mk .quoted (dq :: (T3' ++ [dq]))).unquote = some value := by
    simp [Token.unquote, hu3]
  unfold parseMatcher
  simp only [x1, hu1, x2, opOfKind_kindOfOp, x3, hu3', hnm]

theorem op_str_reserved (op : Op) : ∃ a tl, op.str = a :: tl ∧ isReserved a.cp = true := by
  obtain ⟨a, tl, h, ha⟩ := op_str_head op
  exact ⟨.ch a, tl, h, reserved_of_cp (by simp; omega)⟩

/-- `Matcher.String` (with the F7 repair) is read back -/
theorem readsAs_print (ip : Nat → Bool) (hp : ip 10 = false) (compiles : Str → Bool)
    (op : Op) (n v : List Char) (hc : op.isRegex = true → compiles (ofChars v) = true) :
    ReadsAs compiles (print ip ⟨op, ofChars n, ofChars v⟩) ⟨op, ofChars n, ofChars v⟩ := by
  unfold print
  simp only
  split
  · -- quoting branch
    have h1 : ∀ X, scan (quote ip (ofChars n) ++ (op.str ++ X)) =
        .ok (⟨.quoted, quote ip (ofChars n)⟩, op.str ++ X) := by
      intro X
      exact scan_quoted _ _ (sqb_quoteBody ip _ _)
    have := readsAs_of_tokens compiles (quote ip (ofChars n)) (quoteBody ip (ofChars v))
      ⟨.quoted, quote ip (ofChars n)⟩ op (ofChars n) (ofChars v) (Or.inl rfl) h1
      (by simp [Token.unquote, unquote_quote ip hp n])
      (fun Z => sqb_quoteBody ip _ Z) (unquote_quote ip hp v) hc
    simpa [quote] using this
  · -- OpenMetrics branch: the name is non-empty and has no reserved rune
    rename_i hcond
    simp only [Bool.or_eq_true, not_or, Bool.not_eq_true] at hcond
    obtain ⟨hne, hres⟩ := hcond
    have hne' : ofChars n ≠ [] := by
      intro h; rw [h] at hne; simp at hne
    have hall : ∀ x ∈ ofChars n, isReserved x.cp = false := by
      simpa [hasReserved] using hres
    obtain ⟨a, tl, hop, ha⟩ := op_str_reserved op
    have h1 : ∀ X, scan (ofChars n ++ (op.str ++ X)) = .ok (⟨.unquoted, ofChars n⟩, op.str ++ X) := by
      intro X
      rw [hop]
      exact scan_unquoted _ hne' hall a ha _
    exact readsAs_of_tokens compiles (ofChars n) (omEscape (ofChars v))
      ⟨.unquoted, ofChars n⟩ op (ofChars n) (ofChars v) (Or.inr rfl) h1
      (by simp [Token.unquote])
      (fun Z => sqb_omEscape _ Z) (unquote_omEscape v) hc

/-! ### the automaton around one matcher -/

theorem scan_nil : scan [] = .ok (⟨.eof, []⟩, []) := rfl

theorem parseOpenBrace_word (acc : List Matcher) (hb : Bool) (txt r : Str) (t : Token)
    (hs : scan txt = .ok (t, r)) (hk : t.kind = .quoted ∨ t.kind = .unquoted) :
    parseOpenBrace ⟨acc, hb, txt⟩ = .next .matcher ⟨acc, false, txt⟩ := by
  have hne : t.kind ≠ .eof := by rcases hk with h | h <;> simp [h]
  have h1 : t.kind ≠ .openBrace := by rcases hk with h | h <;> simp [h]
  have h2 : t.kind ≠ .closeBrace := by rcases hk with h | h <;> simp [h]
  simp [parseOpenBrace, accept, acceptPeek, hs, hne, h1, h2]

theorem parseEndOfMatcher_eof (acc : List Matcher) (hb : Bool) :
    parseEndOfMatcher ⟨acc, hb, []⟩ = .next .closeBrace ⟨acc, hb, []⟩ := by
  simp [parseEndOfMatcher, expectPeek, scan_nil]

theorem parseCloseBrace_eof (acc : List Matcher) :
    parseCloseBrace ⟨acc, false, []⟩ = .next .eof ⟨acc, false, []⟩ := by
  simp [parseCloseBrace, expect, expectPeek, scan_nil]

theorem parseEOF_eof (acc : List Matcher) (hb : Bool) :
    parseEOF ⟨acc, hb, []⟩ = .done ⟨acc, hb, []⟩ := by
  simp [parseEOF, scan_nil]

theorem run_succ (compiles : Str → Bool) (fuel : Nat) (s : PState) (p : P) :
    run compiles (fuel + 1) s p =
      match step compiles s p with
      | .panic => .panic
      | .err e => .err (toErr e)
      | .done p' => .ok p'.ms
      | .next s' p' => run compiles fuel s' p' := rfl

/-- `parse.Matchers` on the text of one matcher -/
theorem utf8Matchers_single (compiles : Str → Bool) (txt : Str) (m : Matcher)
    (h : ReadsAs compiles txt m) : utf8Matchers compiles txt = .ok [m] := by
  obtain ⟨hm, t, r, hs, hk⟩ := h [] false []
  simp only [List.append_nil, List.nil_append] at hm hs
  have e : parseFuel txt = (3 * txt.length + 1) + 1 + 1 + 1 + 1 + 1 := by simp [parseFuel]
  unfold utf8Matchers
  rw [e]
  simp only [run_succ, step, parseOpenBrace_word [] false txt r t hs hk, hm, parseEndOfMatcher_eof,
    parseCloseBrace_eof, parseEOF_eof]

theorem utf8Matcher_single (compiles : Str → Bool) (txt : Str) (m : Matcher)
    (h : ReadsAs compiles txt m) : utf8Matcher compiles txt = .ok m := by
  simp [utf8Matcher, utf8Matchers_single compiles txt m h]

end AM.Mt
