/-
  `Inv` is preserved by every micro-step (C06, concurrent part).
-/
import AM.Lemmas.GroupMapInv

namespace AM.GroupMap
open AM AM.AList

theorem thrOK_done (s : State) (t : Nat) (T : Thr) (h : T.pc = .done) : ThrOK s t T :=
  ⟨fun hc => by simp [h] at hc, fun _ hc => by simp [h] at hc, fun hc => by simp [h] at hc,
   fun hc => by simp [h] at hc⟩

theorem grpsLe_trans {s s1 s2 : State} (h1 : GrpsLe s s1) (h2 : GrpsLe s1 s2) : GrpsLe s s2 := by
  intro g G hg
  obtain ⟨G1, hg1, l1⟩ := h1 g G hg
  obtain ⟨G2, hg2, l2⟩ := h2 g G1 hg1
  refine ⟨G2, hg2, by rw [l2.1, l1.1], by rw [l2.2.1, l1.2.1], fun h => l2.2.2.1 (l1.2.2.1 h),
    fun h => l2.2.2.2.1 (l1.2.2.2.1 h), ?_⟩
  intro hp hp2
  have hp1 : G1.published = false := by
    cases h : G1.published with
    | false => rfl
    | true => rw [l2.2.2.2.1 h] at hp2; cases hp2
  rw [l2.2.2.2.2 hp1 hp2, l1.2.2.2.2 hp hp1]

theorem privKept_trans {t : Option Nat} {s s1 s2 : State} (h1 : PrivKept t s s1) (h2 : PrivKept t s1 s2) :
    PrivKept t s s2 := fun g G hg hp ho => h2 g G (h1 g G hg hp ho) hp ho

/-- overwrite one existing record with a `GrpLe`-larger one -/
theorem grpsLe_put {s s' : State} {g : Nat} {G G' : Grp} (hs : s'.grps = put s.grps g G')
    (hg : lookup s.grps g = some G) (h : GrpLe G G') : GrpsLe s s' := by
  intro x X hx
  rw [hs, lookup_put]
  by_cases e : g = x
  · subst e; rw [hg] at hx; cases hx; exact ⟨G', by simp, h⟩
  · exact ⟨X, by simp [e, hx], GrpLe.refl X⟩

theorem grpsLe_put_new {s s' : State} {g : Nat} {G' : Grp} (hs : s'.grps = put s.grps g G')
    (hg : lookup s.grps g = none) : GrpsLe s s' := by
  intro x X hx
  rw [hs, lookup_put]
  by_cases e : g = x
  · subst e; rw [hg] at hx; cases hx
  · exact ⟨X, by simp [e, hx], GrpLe.refl X⟩

theorem privKept_put {t : Option Nat} {s s' : State} {g : Nat} {G' : Grp} (hs : s'.grps = put s.grps g G')
    (h : ∀ G, lookup s.grps g = some G → G.published = true ∨ some G.owner = t) : PrivKept t s s' := by
  intro x X hx hp ho
  rw [hs, lookup_put]
  by_cases e : g = x
  · subst e
    rcases h X hx with h | h
    · rw [h] at hp; cases hp
    · exact absurd h ho
  · simp [e, hx]

theorem fresh_put_old {s : State} (hinv : Inv s) {g : Nat} {G G' : Grp} (hg : lookup s.grps g = some G) :
    ∀ x X, lookup (put s.grps g G') x = some X → x < s.next := by
  intro x X hx
  rw [lookup_put] at hx
  by_cases e : g = x
  · subst e; exact hinv.fresh g G hg
  · simp [e] at hx; exact hinv.fresh x X hx

/-- inserting an alert into a published group -/
theorem inv_insert {s : State} {t g : Nat} {T' : Thr} {G G' : Grp} (hinv : Inv s)
    (hg : lookup s.grps g = some G) (hpub : G.published = true)
    (hG' : insertInto G T'.a = some G') (hdone : T'.pc = .done) :
    Inv (setThr (setGrp s g G') t T') := by
  unfold insertInto at hG'
  by_cases hd : G.destroyed = true
  · simp [hd] at hG'
  · simp only [hd] at hG'
    simp only [Bool.false_eq_true, if_false, Option.some.injEq] at hG'
    have hd' : G.destroyed = false := by simpa using hd
    have hle : GrpLe G G' := by
      subst hG'
      exact ⟨rfl, rfl, fun h => absurd h hd, id, fun h => by rw [hpub] at h; cases h⟩
    have hfp : G'.fp = G.fp := hle.1
    have hpub' : G'.published = true := hle.2.2.2.1 hpub
    refine inv_of_frame (t := t) (T' := T') hinv rfl (grpsLe_put rfl hg hle)
      (privKept_put rfl (fun X hX => by rw [hg] at hX; cases hX; exact Or.inl hpub))
      (fresh_put_old hinv hg) ?_ ?_ ?_ ⟨rfl, rfl⟩
    · intro x X hx hp hnd
      simp only [setThr_grps, setGrp_grps, lookup_put] at hx
      simp only [setThr_map, setGrp_map]
      by_cases e : g = x
      · subst e; simp at hx; subst hx
        rw [hfp]; exact hinv.orph g G hg hpub hd'
      · simp [e] at hx; exact hinv.orph x X hx hp hnd
    · intro fp x hx
      simp only [setThr_map, setGrp_map] at hx
      obtain ⟨X, hX, hXfp, hXp⟩ := hinv.mapok fp x hx
      simp only [setThr_grps, setGrp_grps, lookup_put]
      by_cases e : g = x
      · subst e; rw [hg] at hX; cases hX
        exact ⟨G', by simp, by rw [hfp, hXfp], hpub'⟩
      · exact ⟨X, by simp [e, hX], hXfp, hXp⟩
    · exact thrOK_done _ _ _ hdone

/-- publishing the thread's private group `n` under its fingerprint; `s1` is `s` with the map entry
    written (and, for `CompareAndSwap`, the old group cancelled) -/
theorem inv_publish {s s1 : State} {t n : Nat} {T T' : Thr} {N : Grp} (hinv : Inv s)
    (hn : lookup s.grps n = some N) (hNfp : N.fp = T.fp) (hNo : N.owner = t)
    (hdone : T'.pc = .done)
    (hs1map : s1.map = put s.map T.fp n) (hs1next : s1.next = s.next) (hs1thrs : s1.thrs = s.thrs)
    (hs1mpc : s1.mpc = s.mpc ∧ s1.mg = s.mg)
    (hle1 : GrpsLe s s1) (hpk1 : PrivKept (some t) s s1) (hs1n : lookup s1.grps n = some N)
    (hrec : ∀ x X, lookup s1.grps x = some X → ∃ X0, lookup s.grps x = some X0 ∧ X.fp = X0.fp ∧
              X.published = X0.published ∧ X.destroyed = X0.destroyed)
    (hold : ∀ x X0, lookup s.map T.fp = some x → lookup s.grps x = some X0 → X0.destroyed = true) :
    Inv (setThr (setGrp s1 n { N with published := true }) t T') := by
  have hle2 : GrpsLe s1 (setGrp s1 n { N with published := true }) :=
    grpsLe_put rfl hs1n ⟨rfl, rfl, id, fun _ => rfl, fun _ h => by cases h⟩
  have hpk2 : PrivKept (some t) s1 (setGrp s1 n { N with published := true }) :=
    privKept_put rfl (fun X hX => by rw [hs1n] at hX; cases hX; exact Or.inr (by rw [hNo]))
  have hfinal : ∀ x X, lookup (setGrp s1 n { N with published := true }).grps x = some X →
      (x = n ∧ X = { N with published := true }) ∨
      (x ≠ n ∧ ∃ X0, lookup s.grps x = some X0 ∧ X.fp = X0.fp ∧ X.published = X0.published ∧ X.destroyed = X0.destroyed) := by
    intro x X hx
    simp only [setGrp_grps, lookup_put] at hx
    by_cases e : n = x
    · subst e; simp at hx; exact Or.inl ⟨rfl, hx.symm⟩
    · simp [e] at hx
      exact Or.inr ⟨fun h => e h.symm, hrec x X hx⟩
  refine inv_of_frame (s := s) (t := t) (T' := T') hinv (by simp only [setThr_thrs, setGrp_thrs, hs1thrs])
    (grpsLe_trans hle1 hle2) (privKept_trans hpk1 hpk2) ?_ ?_ ?_ ?_ ⟨hs1mpc.1, hs1mpc.2⟩
  · intro x X hx
    simp only [setThr_grps, setThr_next, setGrp_next, hs1next] at hx ⊢
    rcases hfinal x X hx with ⟨rfl, _⟩ | ⟨_, X0, hX0, _⟩
    · exact hinv.fresh _ N hn
    · exact hinv.fresh x X0 hX0
  · intro x X hx hp hnd
    simp only [setThr_grps] at hx
    simp only [setThr_map, setGrp_map, hs1map, lookup_put]
    rcases hfinal x X hx with ⟨rfl, rfl⟩ | ⟨hxn, X0, hX0, hfp, hpb, hds⟩
    · simp [hNfp]
    · rw [hpb] at hp; rw [hds] at hnd
      have hm := hinv.orph x X0 hX0 hp hnd
      by_cases e : T.fp = X.fp
      · rw [hfp] at e
        rw [← e] at hm
        have := hold x X0 hm hX0
        rw [this] at hnd; cases hnd
      · simp [e]; rw [hfp]; exact hm
  · intro fp x hx
    simp only [setThr_map, setGrp_map, hs1map, lookup_put] at hx
    simp only [setThr_grps]
    by_cases e : T.fp = fp
    · simp [e] at hx; subst hx
      exact ⟨{ N with published := true }, by simp, by simp [hNfp, e], rfl⟩
    · simp [e] at hx
      obtain ⟨X0, hX0, hfp0, hp0⟩ := hinv.mapok fp x hx
      obtain ⟨X, hX, hl⟩ := (grpsLe_trans hle1 hle2) x X0 hX0
      exact ⟨X, hX, by rw [hl.1, hfp0], hl.2.2.2.1 hp0⟩
  · exact thrOK_done _ _ _ hdone

end AM.GroupMap
