/-
  `Inv` is preserved by every action of every schedule (C06, concurrent part).
-/
import AM.Lemmas.GroupMapStep

set_option linter.unusedSimpArgs false

namespace AM.GroupMap
open AM AM.AList

theorem insertInto_none {G : Grp} {a : Nat} (h : insertInto G a = none) : G.destroyed = true := by
  unfold insertInto at h
  by_cases hd : G.destroyed = true
  · exact hd
  · simp [hd] at h

theorem inv_stepThr {s s' : State} {t : Nat} {T : Thr} (hinv : Inv s) (hl : lookup s.thrs t = some T)
    (hs : stepThr s t T = some s') : Inv s' := by
  have hT := hinv.thr t T hl
  unfold stepThr at hs
  cases hpc : T.pc with
  | load =>
    simp only [hpc] at hs
    cases hm : lookup s.map T.fp with
    | some g =>
      simp only [hm, Option.some.injEq] at hs; subst hs
      obtain ⟨G, hG, hfp, hp⟩ := hinv.mapok T.fp g hm
      refine inv_thr_only hinv ⟨fun _ => ⟨g, G, rfl, hG, hfp, hp⟩, fun _ hc => ?_, fun hc => ?_, fun hc => ?_⟩ <;> simp at hc
    | none =>
      simp only [hm, Option.some.injEq] at hs; subst hs
      refine inv_thr_only hinv ⟨fun hc => ?_, fun h _ => ?_, fun hc => ?_, fun hc => ?_⟩
      · simp at hc
      · simp at h
      · simp at hc
      · simp at hc
  | insLoaded =>
    simp only [hpc] at hs
    obtain ⟨g, G, he, hG, hfp, hp⟩ := hT.el_ok (Or.inl hpc)
    simp only [he, hG] at hs
    cases hi : insertInto G T.a with
    | some G' =>
      simp only [hi, Option.some.injEq] at hs; subst hs
      exact inv_insert hinv hG hp hi rfl
    | none =>
      simp only [hi, Option.some.injEq] at hs; subst hs
      have hd := insertInto_none hi
      refine inv_thr_only hinv ⟨fun _ => ⟨g, G, by simp [he], hG, hfp, hp⟩, fun _ _ => ⟨g, G, by simp [he], hG, hd⟩, fun hc => ?_, fun hc => ?_⟩ <;> simp at hc
  | create =>
    simp only [hpc] at hs
    by_cases hlim : s.limit > 0 ∧ s.num ≥ (s.limit : Int)
    · simp only [hlim, and_self, if_true, Option.some.injEq] at hs; subst hs
      exact inv_thr_only hinv (thrOK_done _ _ _ rfl)
    · simp only [hlim, if_false, Option.some.injEq] at hs; subst hs
      have hnone : lookup s.grps s.next = none := by
        cases h : lookup s.grps s.next with
        | none => rfl
        | some X => exact absurd (hinv.fresh _ X h) (Nat.lt_irrefl _)
      let G0 : Grp := { fp := T.fp, alerts := [T.a], destroyed := false, published := false, cancelled := false, owner := t }
      have hold : ∀ x X, lookup s.grps x = some X → lookup (put s.grps s.next G0) x = some X := by
        intro x X hx
        rw [lookup_put]
        by_cases e : s.next = x
        · subst e; rw [hnone] at hx; cases hx
        · simp [e, hx]
      refine inv_of_frame (s := s) (t := t) hinv rfl (grpsLe_put_new (g := s.next) (G' := G0) rfl hnone)
        (privKept_put (g := s.next) (G' := G0) rfl (fun X hX => by rw [hnone] at hX; cases hX)) ?_ ?_ ?_ ?_ ⟨rfl, rfl⟩
      · intro x X hx
        have hx2 : lookup (put s.grps s.next G0) x = some X := hx
        show x < s.next + 1
        rw [lookup_put] at hx2
        by_cases e : s.next = x
        · subst e; exact Nat.lt_succ_self _
        · simp [e] at hx2
          exact Nat.lt_succ_of_lt (hinv.fresh x X hx2)
      · intro x X hx hp hnd
        simp only [setThr_grps] at hx
        have hx2 : lookup (put s.grps s.next G0) x = some X := hx
        rw [lookup_put] at hx2
        by_cases e : s.next = x
        · simp [e] at hx2; subst hx2; simp [G0] at hp
        · simp [e] at hx2
          exact hinv.orph x X hx2 hp hnd
      · intro fp x hx
        obtain ⟨X, hX, hfp, hp⟩ := hinv.mapok fp x hx
        exact ⟨X, hold x X hX, hfp, hp⟩
      · refine ⟨fun hc => ?_, fun hld hc => ?_, fun _ => ?_, fun hc => ?_⟩
        · have hc' : T.loaded = true := by simpa using hc
          obtain ⟨g, G, he, hG, hfp, hp⟩ := hT.el_ok (Or.inr (Or.inr (Or.inr ⟨hc', Or.inl hpc⟩)))
          exact ⟨g, G, he, hold g G hG, hfp, hp⟩
        · obtain ⟨g, G, he, hG, hd⟩ := hT.el_dead hld (Or.inl hpc)
          exact ⟨g, G, he, hold g G hG, hd⟩
        · refine ⟨s.next, G0, rfl, ?_, rfl, rfl, rfl, by simp [G0], rfl⟩
          show lookup (put s.grps s.next G0) s.next = some G0
          simp
        · simp at hc
  | loop =>
    simp only [hpc, Option.some.injEq] at hs; subst hs
    by_cases hld : T.loaded = true
    · obtain ⟨g, G, he, hG, hfp, hp⟩ := hT.el_ok (Or.inr (Or.inr (Or.inr ⟨hld, Or.inr (Or.inl hpc)⟩)))
      obtain ⟨g', G', he', hG', hd⟩ := hT.el_dead hld (Or.inr (Or.inl hpc))
      refine inv_thr_only hinv ⟨fun _ => ⟨g, G, he, hG, hfp, hp⟩, fun _ _ => ⟨g', G', he', hG', hd⟩,
        fun _ => hT.ag_ok (Or.inl hpc), fun _ => hld⟩
    · have hld' : T.loaded = false := by simpa using hld
      refine inv_thr_only hinv ⟨fun hc => ?_, fun h _ => ?_, fun _ => hT.ag_ok (Or.inl hpc), fun hc => ?_⟩
      · simp [hld'] at hc
      · simp [hld'] at h
      · simp [hld'] at hc
  | cas =>
    simp only [hpc] at hs
    have hld := hT.cas_loaded hpc
    obtain ⟨g, G, he, hG, hfp, hp⟩ := hT.el_ok (Or.inr (Or.inr (Or.inl hpc)))
    obtain ⟨g', G', he', hG', hd⟩ := hT.el_dead hld (Or.inr (Or.inr (Or.inl hpc)))
    rw [he] at he'; cases he'
    rw [hG] at hG'; cases hG'
    obtain ⟨n, N, ha, hN, hNfp, hNp, hNd, hNa, hNo⟩ := hT.ag_ok (Or.inr (Or.inl hpc))
    simp only [he, ha, hG, hN] at hs
    by_cases hm : lookup s.map T.fp = some g
    · simp only [hm, if_true, Option.some.injEq] at hs; subst hs
      have hgn : g ≠ n := by
        intro e; subst e; rw [hG] at hN; cases hN; rw [hp] at hNp; cases hNp
      let s1 : State := setGrp { s with map := put s.map T.fp n } g { G with cancelled := true }
      have hs1n : lookup s1.grps n = some N := by
        simp only [s1, setGrp_grps, lookup_put]; simp [hgn, hN]
      have hrec : ∀ x X, lookup s1.grps x = some X → ∃ X0, lookup s.grps x = some X0 ∧ X.fp = X0.fp ∧
              X.published = X0.published ∧ X.destroyed = X0.destroyed := by
        intro x X hx
        simp only [s1, setGrp_grps, lookup_put] at hx
        by_cases e : g = x
        · subst e; simp at hx; subst hx; exact ⟨G, hG, rfl, rfl, rfl⟩
        · simp [e] at hx; exact ⟨X, hx, rfl, rfl, rfl⟩
      refine inv_publish (s := s) (s1 := s1) (T := T) hinv hN hNfp hNo rfl rfl rfl rfl ⟨rfl, rfl⟩
        (grpsLe_put (g := g) (G := G) (G' := { G with cancelled := true }) rfl hG
          ⟨rfl, rfl, id, id, fun h => by rw [hp] at h; cases h⟩)
        (privKept_put (g := g) (G' := { G with cancelled := true }) rfl
          (fun X hX => by rw [hG] at hX; cases hX; exact Or.inl hp))
        hs1n hrec ?_
      intro x X0 hx hX0
      rw [hm] at hx; cases hx
      rw [hG] at hX0; cases hX0
      exact hd
    · simp only [hm, if_false, Option.some.injEq] at hs; subst hs
      refine inv_thr_only hinv ⟨fun hc => ?_, fun h _ => ?_, fun _ => ⟨n, N, by simp [ha], hN, hNfp, hNp, hNd, hNa, hNo⟩, fun hc => ?_⟩
      · simp at hc
      · simp at h
      · simp at hc
  | los =>
    simp only [hpc] at hs
    obtain ⟨n, N, ha, hN, hNfp, hNp, hNd, hNa, hNo⟩ := hT.ag_ok (Or.inr (Or.inr (Or.inl hpc)))
    simp only [ha, hN] at hs
    cases hm : lookup s.map T.fp with
    | none =>
      simp only [hm, Option.some.injEq] at hs; subst hs
      let s1 : State := { s with map := put s.map T.fp n, num := s.num + 1 }
      refine inv_publish (s := s) (s1 := s1) (T := T) hinv hN hNfp hNo rfl rfl rfl rfl ⟨rfl, rfl⟩
        (grpsLe_refl _ _ rfl) (privKept_refl _ _ _ rfl) hN (fun x X hx => ⟨X, hx, rfl, rfl, rfl⟩) ?_
      intro x X0 hx _
      rw [hm] at hx; cases hx
    | some g =>
      simp only [hm, Option.some.injEq] at hs; subst hs
      obtain ⟨G, hG, hfp, hp⟩ := hinv.mapok T.fp g hm
      refine inv_thr_only hinv ⟨fun _ => ⟨g, G, rfl, hG, hfp, hp⟩, fun _ hc => ?_,
        fun _ => ⟨n, N, by simp [ha], hN, hNfp, hNp, hNd, hNa, hNo⟩, fun hc => ?_⟩ <;> simp at hc
  | insExisting =>
    simp only [hpc] at hs
    obtain ⟨g, G, he, hG, hfp, hp⟩ := hT.el_ok (Or.inr (Or.inl hpc))
    simp only [he, hG] at hs
    cases hi : insertInto G T.a with
    | some G' =>
      simp only [hi, Option.some.injEq] at hs; subst hs
      exact inv_insert hinv hG hp hi rfl
    | none =>
      simp only [hi, Option.some.injEq] at hs; subst hs
      have hd := insertInto_none hi
      refine inv_thr_only hinv ⟨fun _ => ⟨g, G, by simp [he], hG, hfp, hp⟩, fun _ _ => ⟨g, G, by simp [he], hG, hd⟩,
        fun _ => ?_, fun hc => ?_⟩
      · obtain ⟨n, N, ha, hN, hNfp, hNp, hNd, hNa, hNo⟩ := hT.ag_ok (Or.inr (Or.inr (Or.inr (Or.inl hpc))))
        exact ⟨n, N, by simp [ha], hN, hNfp, hNp, hNd, hNa, hNo⟩
      simp at hc
  | retry =>
    simp only [hpc] at hs
    by_cases hr : T.retries + 1 > s.maxRetries
    · simp only [hr, if_true, Option.some.injEq] at hs; subst hs
      exact inv_thr_only hinv (thrOK_done _ _ _ rfl)
    · simp only [hr, if_false, Option.some.injEq] at hs; subst hs
      refine inv_thr_only hinv ⟨fun hc => ?_, fun hld _ => ?_, fun _ => hT.ag_ok (Or.inr (Or.inr (Or.inr (Or.inr hpc)))), fun hc => ?_⟩
      · have hc' : T.loaded = true := by simpa using hc
        exact hT.el_ok (Or.inr (Or.inr (Or.inr ⟨hc', Or.inr (Or.inr hpc)⟩)))
      · exact hT.el_dead hld (Or.inr (Or.inr (Or.inr hpc)))
      · simp at hc
  | done => simp [hpc] at hs

/-- assembling `Inv` after an environment action (flush, maintenance): thread records untouched -/
theorem inv_of_env {s s' : State} (hinv : Inv s) (hthrs : s'.thrs = s.thrs)
    (hle : GrpsLe s s') (hpriv : PrivKept none s s')
    (hfresh : ∀ g G, lookup s'.grps g = some G → g < s'.next)
    (horph : ∀ g G, lookup s'.grps g = some G → G.published = true → G.destroyed = false → lookup s'.map G.fp = some g)
    (hmap : ∀ fp g, lookup s'.map fp = some g → ∃ G, lookup s'.grps g = some G ∧ G.fp = fp ∧ G.published = true)
    (hmd : (s'.mpc = .stop ∨ s'.mpc = .cad) → ∃ G, lookup s'.grps s'.mg = some G ∧ G.destroyed = true)
    (hmp : s'.mpc ≠ .idle → ∃ G, lookup s'.grps s'.mg = some G ∧ G.published = true) : Inv s' := by
  refine ⟨hfresh, horph, hmap, ?_, hmd, hmp⟩
  intro t T hl
  rw [hthrs] at hl
  exact thrOK_frame (hinv.thr t T hl) hle (fun g G hg hp _ => hpriv g G hg hp (by simp))

/-- an action that only moves the maintenance program counter -/
theorem inv_mpc_only {s : State} (hinv : Inv s) (mpc : MPC) (mg : Nat)
    (hmd : (mpc = .stop ∨ mpc = .cad) → ∃ G, lookup s.grps mg = some G ∧ G.destroyed = true)
    (hmp : mpc ≠ .idle → ∃ G, lookup s.grps mg = some G ∧ G.published = true) :
    Inv { s with mpc := mpc, mg := mg } :=
  inv_of_env hinv rfl (grpsLe_refl _ _ rfl) (privKept_refl _ _ _ rfl) hinv.fresh hinv.orph hinv.mapok hmd hmp

theorem inv_flush {s : State} {g : Nat} {G : Grp} (hinv : Inv s) (hG : lookup s.grps g = some G)
    (hp : G.published = true) (del : List Nat) : Inv (setGrp s g (flushGrp G del)) := by
  have hle : GrpLe G (flushGrp G del) :=
    ⟨rfl, rfl, fun h => by simp [flushGrp, h], id, fun h => by rw [hp] at h; cases h⟩
  have hgl := grpsLe_put (s := s) (s' := setGrp s g (flushGrp G del)) rfl hG hle
  refine inv_of_env hinv rfl hgl
    (privKept_put rfl (fun X hX => by rw [hG] at hX; cases hX; exact Or.inl hp)) (fresh_put_old hinv hG) ?_ ?_ ?_ ?_
  · intro x X hx hpx hnd
    simp only [setGrp_grps, lookup_put] at hx
    simp only [setGrp_map]
    by_cases e : g = x
    · subst e; simp at hx; subst hx
      have hnd' : G.destroyed = false := by
        cases h : G.destroyed with
        | false => rfl
        | true => simp [flushGrp, h] at hnd
      exact hinv.orph g G hG hp hnd'
    · simp [e] at hx; exact hinv.orph x X hx hpx hnd
  · intro fp x hx
    obtain ⟨X, hX, hfp, hpX⟩ := hinv.mapok fp x hx
    obtain ⟨X', hX', hl⟩ := hgl x X hX
    exact ⟨X', hX', by rw [hl.1, hfp], hl.2.2.2.1 hpX⟩
  · intro hc
    obtain ⟨X, hX, hd⟩ := hinv.mnt_dead hc
    obtain ⟨X', hX', hl⟩ := hgl _ X hX
    exact ⟨X', hX', hl.2.2.1 hd⟩
  · intro hc
    obtain ⟨X, hX, hd⟩ := hinv.mnt_pub hc
    obtain ⟨X', hX', hl⟩ := hgl _ X hX
    exact ⟨X', hX', hl.2.2.2.1 hd⟩

/-- **step preservation**: every enabled action of every thread keeps the invariant -/
theorem inv_step {s s' : State} (a : Act) (hinv : Inv s) (hs : step s a = some s') : Inv s' := by
  cases a with
  | «begin» t al fp =>
    simp only [step] at hs
    have hfreshT : ∀ T : Thr, T.pc = .load → T.loaded = false → ThrOK s t T := by
      intro T h1 h2
      exact ⟨fun hc => by simp [h1, h2] at hc, fun h _ => by simp [h2] at h, fun hc => by simp [h1] at hc,
             fun hc => by simp [h1] at hc⟩
    cases hl : lookup s.thrs t with
    | none =>
      simp only [hl, Option.some.injEq] at hs; subst hs
      exact inv_thr_only hinv (hfreshT _ rfl rfl)
    | some T =>
      simp only [hl] at hs
      by_cases hd : T.pc = .done
      · simp only [hd, if_true, Option.some.injEq] at hs; subst hs
        exact inv_thr_only hinv (hfreshT _ rfl rfl)
      · simp [hd] at hs
  | step t =>
    simp only [step] at hs
    cases hl : lookup s.thrs t with
    | none => simp [hl] at hs
    | some T => simp only [hl] at hs; exact inv_stepThr hinv hl hs
  | flush g del =>
    simp only [step] at hs
    cases hG : lookup s.grps g with
    | none => simp [hG] at hs
    | some G =>
      simp only [hG] at hs
      by_cases hp : G.published = true
      · simp only [hp, if_true, Option.some.injEq] at hs; subst hs
        exact inv_flush hinv hG hp del
      · simp [hp] at hs
  | mPick g =>
    simp only [step] at hs
    cases hm : s.mpc <;> cases hG : lookup s.grps g <;> simp only [hm, hG] at hs <;> try (simp at hs; done)
    rename_i G
    by_cases hp : G.published = true
    · simp only [hp, if_true, Option.some.injEq] at hs; subst hs
      exact inv_mpc_only hinv .check g (fun hc => by simp at hc) (fun _ => ⟨G, hG, hp⟩)
    · simp [hp] at hs
  | mStep =>
    simp only [step] at hs
    cases hm : s.mpc <;> cases hG : lookup s.grps s.mg <;> simp only [hm, hG] at hs <;> try (simp at hs; done)
    · -- check
      rename_i G
      simp only [Option.some.injEq] at hs; subst hs
      have hpub := hinv.mnt_pub (by simp [hm])
      by_cases hd : G.destroyed = true
      · simp only [hd, if_true]
        exact inv_mpc_only hinv .stop s.mg (fun _ => ⟨G, hG, hd⟩) (fun _ => hpub)
      · simp only [hd]
        exact inv_mpc_only hinv .idle s.mg (fun hc => by simp at hc) (fun hc => by simp at hc)
    · -- stop: cancel the group
      rename_i G
      simp only [Option.some.injEq] at hs; subst hs
      obtain ⟨G1, hG1, hd⟩ := hinv.mnt_dead (Or.inl hm)
      obtain ⟨G2, hG2, hp⟩ := hinv.mnt_pub (by simp [hm])
      rw [hG] at hG1 hG2; cases hG1; cases hG2
      have hle : GrpLe G { G with cancelled := true } := ⟨rfl, rfl, id, id, fun h => by rw [hp] at h; cases h⟩
      have hgl := grpsLe_put (s := s) (s' := { setGrp s s.mg { G with cancelled := true } with mpc := .cad }) rfl hG hle
      refine inv_of_env hinv rfl hgl
        (privKept_put (g := s.mg) (G' := { G with cancelled := true }) rfl
          (fun X hX => by rw [hG] at hX; cases hX; exact Or.inl hp)) (fresh_put_old hinv hG) ?_ ?_ ?_ ?_
      · intro x X hx hpx hnd
        have hx2 : lookup (put s.grps s.mg { G with cancelled := true }) x = some X := hx
        rw [lookup_put] at hx2
        show lookup s.map X.fp = some x
        by_cases e : s.mg = x
        · simp [e] at hx2; subst hx2; rw [hd] at hnd; cases hnd
        · simp [e] at hx2; exact hinv.orph x X hx2 hpx hnd
      · intro fp x hx
        obtain ⟨X, hX, hfp, hpX⟩ := hinv.mapok fp x hx
        obtain ⟨X', hX', hl⟩ := hgl x X hX
        exact ⟨X', hX', by rw [hl.1, hfp], hl.2.2.2.1 hpX⟩
      · intro _
        exact ⟨{ G with cancelled := true }, by show lookup (put s.grps s.mg _) s.mg = _; simp, hd⟩
      · intro _
        exact ⟨{ G with cancelled := true }, by show lookup (put s.grps s.mg _) s.mg = _; simp, hp⟩
    · -- cad: CompareAndDelete
      rename_i G
      obtain ⟨G1, hG1, hd⟩ := hinv.mnt_dead (Or.inr hm)
      rw [hG] at hG1; cases hG1
      by_cases hmap : lookup s.map G.fp = some s.mg
      · simp only [hmap, if_true, Option.some.injEq] at hs; subst hs
        refine inv_of_env hinv rfl (grpsLe_refl _ _ rfl) (privKept_refl _ _ _ rfl) hinv.fresh ?_ ?_
          (fun hc => by simp at hc) (fun hc => by simp at hc)
        · intro x X hx hpx hnd
          have hm0 := hinv.orph x X hx hpx hnd
          show lookup (erase s.map G.fp) X.fp = some x
          rw [lookup_erase]
          by_cases e : G.fp = X.fp
          · rw [e] at hmap; rw [hmap] at hm0; cases hm0
            have hx' : lookup s.grps s.mg = some X := hx
            rw [hG] at hx'; cases hx'; rw [hd] at hnd; cases hnd
          · simp [e, hm0]
        · intro fp x hx
          have hx2 : lookup (erase s.map G.fp) fp = some x := hx
          rw [lookup_erase] at hx2
          by_cases e : G.fp = fp
          · simp [e] at hx2
          · simp [e] at hx2; exact hinv.mapok fp x hx2
      · simp only [hmap, if_false, Option.some.injEq] at hs; subst hs
        exact inv_mpc_only hinv .idle s.mg (fun hc => by simp at hc) (fun hc => by simp at hc)

/-- **induction over the schedule**: the invariant holds after any run from any state satisfying it -/
theorem inv_run (acts : List Act) : ∀ {s s' : State}, Inv s → run s acts = some s' → Inv s' := by
  induction acts with
  | nil => intro s s' h hr; simp [run] at hr; subst hr; exact h
  | cons a rest ih =>
    intro s s' h hr
    simp only [run] at hr
    cases hs : step s a with
    | none => simp [hs] at hr
    | some s1 => simp only [hs] at hr; exact ih (inv_step a h hs) hr

end AM.GroupMap
