/-
  `Inv` is preserved by every action of every schedule (C06, concurrent part).
-/
import AM.Lemmas.GroupMapStep

namespace AM.GroupMap
open AM AM.AList

theorem insertInto_none {G : Grp} {a : Nat} (h : insertInto G a = none) : G.destroyed = true := by
  unfold insertInto at h
  by_cases hd : G.destroyed = true
  · exact hd
  · simp [hd] at h

theorem inv_stepThr {s s' : State} {t : Nat} {T : Thr} (hinv : Inv s) (hl : lookup s.thrs t = some T)
    (hs : stepThr s t T = some s') : Inv s' := by
  have hT := hinv.thr t T hl
  unfold stepThr at hs
  cases hpc : T.pc with
  | load =>
    simp only [hpc] at hs
    cases hm : lookup s.map T.fp with
    | some g =>
      simp only [hm, Option.some.injEq] at hs; subst hs
      obtain ⟨G, hG, hfp, hp⟩ := hinv.mapok T.fp g hm
      refine inv_thr_only hinv ⟨fun _ => ⟨g, G, rfl, hG, hfp, hp⟩, fun _ hc => ?_, fun hc => ?_, fun hc => ?_⟩ <;> simp at hc
    | none =>
      simp only [hm, Option.some.injEq] at hs; subst hs
      refine inv_thr_only hinv ⟨fun hc => ?_, fun h _ => ?_, fun hc => ?_, fun hc => ?_⟩
      · simp at hc
      · simp at h
      · simp at hc
      · simp at hc
  | insLoaded =>
    simp only [hpc] at hs
    obtain ⟨g, G, he, hG, hfp, hp⟩ := hT.el_ok (Or.inl hpc)
    simp only [he, hG] at hs
    cases hi : insertInto G T.a with
    | some G' =>
      simp only [hi, Option.some.injEq] at hs; subst hs
      exact inv_insert hinv hG hp hi rfl
    | none =>
      simp only [hi, Option.some.injEq] at hs; subst hs
      have hd := insertInto_none hi
      refine inv_thr_only hinv ⟨fun _ => ⟨g, G, by simp [he], hG, hfp, hp⟩, fun _ _ => ⟨g, G, by simp [he], hG, hd⟩, fun hc => ?_, fun hc => ?_⟩ <;> simp at hc
  | create =>
    simp only [hpc] at hs
    by_cases hlim : s.limit > 0 ∧ s.num ≥ (s.limit : Int)
    · simp only [hlim, and_self, if_true, Option.some.injEq] at hs; subst hs
      exact inv_thr_only hinv (thrOK_done _ _ _ rfl)
    · simp only [hlim, if_false, Option.some.injEq] at hs; subst hs
      have hnone : lookup s.grps s.next = none := by
        cases h : lookup s.grps s.next with
        | none => rfl
        | some X => exact absurd (hinv.fresh _ X h) (Nat.lt_irrefl _)
      let G0 : Grp := { fp := T.fp, alerts := [T.a], destroyed := false, published := false, cancelled := false, owner := t }
      have hold : ∀ x X, lookup s.grps x = some X → lookup (put s.grps s.next G0) x = some X := by
        intro x X hx
        rw [lookup_put]
        by_cases e : s.next = x
        · subst e; rw [hnone] at hx; cases hx
        · simp [e, hx]
      refine inv_of_frame (s := s) (t := t) hinv rfl (grpsLe_put_new (g := s.next) (G' := G0) rfl hnone)
        (privKept_put (g := s.next) (G' := G0) rfl (fun X hX => by rw [hnone] at hX; cases hX)) ?_ ?_ ?_ ?_ ⟨rfl, rfl⟩
      · intro x X hx
        have hx2 : lookup (put s.grps s.next G0) x = some X := hx
        show x < s.next + 1
        rw [lookup_put] at hx2
        by_cases e : s.next = x
        · subst e; exact Nat.lt_succ_self _
        · simp [e] at hx2
          exact Nat.lt_succ_of_lt (hinv.fresh x X hx2)
      · intro x X hx hp hnd
        simp only [setThr_grps] at hx
        have hx2 : lookup (put s.grps s.next G0) x = some X := hx
        rw [lookup_put] at hx2
        by_cases e : s.next = x
        · simp [e] at hx2; subst hx2; simp [G0] at hp
        · simp [e] at hx2
          exact hinv.orph x X hx2 hp hnd
      · intro fp x hx
        obtain ⟨X, hX, hfp, hp⟩ := hinv.mapok fp x hx
        exact ⟨X, hold x X hX, hfp, hp⟩
      · refine ⟨fun hc => ?_, fun hld hc => ?_, fun _ => ?_, fun hc => ?_⟩
        · have hc' : T.loaded = true := by simpa using hc
          obtain ⟨g, G, he, hG, hfp, hp⟩ := hT.el_ok (Or.inr (Or.inr (Or.inr ⟨hc', Or.inl hpc⟩)))
          exact ⟨g, G, he, hold g G hG, hfp, hp⟩
        · obtain ⟨g, G, he, hG, hd⟩ := hT.el_dead hld (Or.inl hpc)
          exact ⟨g, G, he, hold g G hG, hd⟩
        · refine ⟨s.next, G0, rfl, ?_, rfl, rfl, rfl, by simp [G0], rfl⟩
          show lookup (put s.grps s.next G0) s.next = some G0
          simp
        · simp at hc
  | loop =>
    simp only [hpc, Option.some.injEq] at hs; subst hs
    by_cases hld : T.loaded = true
    · obtain ⟨g, G, he, hG, hfp, hp⟩ := hT.el_ok (Or.inr (Or.inr (Or.inr ⟨hld, Or.inr (Or.inl hpc)⟩)))
      obtain ⟨g', G', he', hG', hd⟩ := hT.el_dead hld (Or.inr (Or.inl hpc))
      refine inv_thr_only hinv ⟨fun _ => ⟨g, G, he, hG, hfp, hp⟩, fun _ _ => ⟨g', G', he', hG', hd⟩,
        fun _ => hT.ag_ok (Or.inl hpc), fun _ => hld⟩
    · have hld' : T.loaded = false := by simpa using hld
      refine inv_thr_only hinv ⟨fun hc => ?_, fun h _ => ?_, fun _ => hT.ag_ok (Or.inl hpc), fun hc => ?_⟩
      · simp [hld'] at hc
      · simp [hld'] at h
      · simp [hld'] at hc
  | cas =>
    simp only [hpc] at hs
    have hld := hT.cas_loaded hpc
    obtain ⟨g, G, he, hG, hfp, hp⟩ := hT.el_ok (Or.inr (Or.inr (Or.inl hpc)))
    obtain ⟨g', G', he', hG', hd⟩ := hT.el_dead hld (Or.inr (Or.inr (Or.inl hpc)))
    rw [he] at he'; cases he'
    rw [hG] at hG'; cases hG'
    obtain ⟨n, N, ha, hN, hNfp, hNp, hNd, hNa, hNo⟩ := hT.ag_ok (Or.inr (Or.inl hpc))
    simp only [he, ha, hG, hN] at hs
    by_cases hm : lookup s.map T.fp = some g
    · simp only [hm, if_true, Option.some.injEq] at hs; subst hs
      have hgn : g ≠ n := by
        intro e; subst e; rw [hG] at hN; cases hN; rw [hp] at hNp; cases hNp
      let s1 : State := setGrp { s with map := put s.map T.fp n } g { G with cancelled := true }
      have hs1n : lookup s1.grps n = some N := by
        simp only [s1, setGrp_grps, lookup_put]; simp [hgn, hN]
      have hrec : ∀ x X, lookup s1.grps x = some X → ∃ X0, lookup s.grps x = some X0 ∧ X.fp = X0.fp ∧
              X.published = X0.published ∧ X.destroyed = X0.destroyed := by
        intro x X hx
        simp only [s1, setGrp_grps, lookup_put] at hx
        by_cases e : g = x
        · subst e; simp at hx; subst hx; exact ⟨G, hG, rfl, rfl, rfl⟩
        · simp [e] at hx; exact ⟨X, hx, rfl, rfl, rfl⟩
      refine inv_publish (s := s) (s1 := s1) (T := T) hinv hN hNfp hNo rfl rfl rfl rfl ⟨rfl, rfl⟩
        (grpsLe_put (g := g) (G := G) (G' := { G with cancelled := true }) rfl hG
          ⟨rfl, rfl, id, id, fun h => by rw [hp] at h; cases h⟩)
        (privKept_put (g := g) (G' := { G with cancelled := true }) rfl
          (fun X hX => by rw [hG] at hX; cases hX; exact Or.inl hp))
        hs1n hrec ?_
      intro x X0 hx hX0
      rw [hm] at hx; cases hx
      rw [hG] at hX0; cases hX0
      exact hd
    · simp only [hm, if_false, Option.some.injEq] at hs; subst hs
      refine inv_thr_only hinv ⟨fun hc => ?_, fun h _ => ?_, fun _ => ⟨n, N, by simp [ha], hN, hNfp, hNp, hNd, hNa, hNo⟩, fun hc => ?_⟩
      · simp at hc
      · simp at h
      · simp at hc
  | los =>
    simp only [hpc] at hs
    obtain ⟨n, N, ha, hN, hNfp, hNp, hNd, hNa, hNo⟩ := hT.ag_ok (Or.inr (Or.inr (Or.inl hpc)))
    simp only [ha, hN] at hs
    cases hm : lookup s.map T.fp with
    | none =>
      simp only [hm, Option.some.injEq] at hs; subst hs
      let s1 : State := { s with map := put s.map T.fp n, num := s.num + 1 }
      refine inv_publish (s := s) (s1 := s1) (T := T) hinv hN hNfp hNo rfl rfl rfl rfl ⟨rfl, rfl⟩
        (grpsLe_refl _ _ rfl) (privKept_refl _ _ _ rfl) hN (fun x X hx => ⟨X, hx, rfl, rfl, rfl⟩) ?_
      intro x X0 hx _
      rw [hm] at hx; cases hx
    | some g =>
      simp only [hm, Option.some.injEq] at hs; subst hs
      obtain ⟨G, hG, hfp, hp⟩ := hinv.mapok T.fp g hm
      refine inv_thr_only hinv ⟨fun _ => ⟨g, G, rfl, hG, hfp, hp⟩, fun _ hc => ?_,
        fun _ => ⟨n, N, by simp [ha], hN, hNfp, hNp, hNd, hNa, hNo⟩, fun hc => ?_⟩ <;> simp at hc
  | insExisting =>
    simp only [hpc] at hs
    obtain ⟨g, G, he, hG, hfp, hp⟩ := hT.el_ok (Or.inr (Or.inl hpc))
    simp only [he, hG] at hs
    cases hi : insertInto G T.a with
    | some G' =>
      simp only [hi, Option.some.injEq] at hs; subst hs
      exact inv_insert hinv hG hp hi rfl
    | none =>
      simp only [hi, Option.some.injEq] at hs; subst hs
      have hd := insertInto_none hi
      refine inv_thr_only hinv ⟨fun _ => ⟨g, G, by simp [he], hG, hfp, hp⟩, fun _ _ => ⟨g, G, by simp [he], hG, hd⟩,
        fun _ => ?_, fun hc => ?_⟩
      · obtain ⟨n, N, ha, hN, hNfp, hNp, hNd, hNa, hNo⟩ := hT.ag_ok (Or.inr (Or.inr (Or.inr (Or.inl hpc))))
        exact ⟨n, N, by simp [ha], hN, hNfp, hNp, hNd, hNa, hNo⟩
      simp at hc
  | retry =>
    simp only [hpc] at hs
    by_cases hr : T.retries + 1 > s.maxRetries
    · simp only [hr, if_true, Option.some.injEq] at hs; subst hs
      exact inv_thr_only hinv (thrOK_done _ _ _ rfl)
    · simp only [hr, if_false, Option.some.injEq] at hs; subst hs
      refine inv_thr_only hinv ⟨fun hc => ?_, fun hld _ => ?_, fun _ => hT.ag_ok (Or.inr (Or.inr (Or.inr (Or.inr hpc)))), fun hc => ?_⟩
      · have hc' : T.loaded = true := by simpa using hc
        exact hT.el_ok (Or.inr (Or.inr (Or.inr ⟨hc', Or.inr (Or.inr hpc)⟩)))
      · exact hT.el_dead hld (Or.inr (Or.inr (Or.inr hpc)))
      · simp at hc
  | done => simp [hpc] at hs

end AM.GroupMap
