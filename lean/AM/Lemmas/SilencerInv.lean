/-
  Invariants behind C02: the matcher-index invariant (`MiInv`), the relation
  `Step` between a store before and after an operation as seen by mute caches
  computed earlier, and the cache invariant (`CacheInv`) with its preservation
  under `Step`.
-/
import AM.Model.Silencer
import AM.Lemmas.SilenceStore
import AM.Props.C12

namespace AM.Silence
open AM AM.AList

/-- not expired = active or pending -/
def live (x : Sil) (now : Int) : Prop := getState x now ≠ .expired

theorem live_mono (x : Sil) (now now' : Int) (hle : now ≤ now') (h : live x now') : live x now := by
  intro he; exact h (expired_mono x now now' he hle)

/-! ### matchers are a function of the id -/

/-- Every version of an id carries the matcher sets `msOf id`, and so does the matcher index. -/
structure MiInv (msOf : String → MatcherSets) (s : Store) : Prop where
  st : ∀ id m, lookup s.st id = some m → m.sil.sets = msOf id
  mi : ∀ id ms, lookup s.mi id = some ms → ms = msOf id

theorem miInv_empty (msOf : String → MatcherSets) : MiInv msOf {} := ⟨by simp, by simp⟩

theorem miInv_setSilence (msOf : String → MatcherSets) (now : Int) (s : Store) (m : Mesh)
    (hm : m.sil.sets = msOf m.sil.id) (h : MiInv msOf s) : MiInv msOf (setSilence now s m).1 := by
  constructor
  · intro id x hx
    rw [setSilence_lookup] at hx
    by_cases hk : m.sil.id = id
    · simp only [hk, if_true, upd] at hx
      split at hx
      · exact h.st id x hx
      · cases hl : lookup s.st id with
        | none => simp [hl] at hx; rw [← hx, ← hk]; exact hm
        | some p =>
          simp only [hl] at hx
          split at hx
          · injection hx with hx; rw [← hx, ← hk]; exact hm
          · injection hx with hx; rw [← hx]; exact h.st id p hl
    · simp [hk] at hx; exact h.st id x hx
  · intro id ms hms
    unfold setSilence at hms
    cases hk : mergeKind now s.st m with
    | refused => simp [hk] at hms; exact h.mi id ms hms
    | updated => simp [hk] at hms; exact h.mi id ms hms
    | added =>
      simp [hk, index] at hms
      rw [lookup_put] at hms
      by_cases hid : m.sil.id = id
      · simp [hid] at hms; rw [← hms, ← hid]; exact hm
      · simp [hid] at hms; exact h.mi id ms hms

theorem miInv_mergeOne (msOf : String → MatcherSets) (fix : Bool) (now : Int) (s : Store) (e : Mesh)
    (hm : e.sil.sets = msOf e.sil.id) (h : MiInv msOf s) : MiInv msOf (mergeOne fix now s e).1 := by
  constructor
  · intro id x hx
    rw [(mergeOne_st fix now s e).1, lookup_stMerge] at hx
    by_cases hk : e.sil.id = id
    · simp only [hk, if_true, upd] at hx
      split at hx
      · exact h.st id x hx
      · cases hl : lookup s.st id with
        | none => simp [hl] at hx; rw [← hx, ← hk]; exact hm
        | some p =>
          simp only [hl] at hx
          split at hx
          · injection hx with hx; rw [← hx, ← hk]; exact hm
          · injection hx with hx; rw [← hx]; exact h.st id p hl
    · simp [hk] at hx; exact h.st id x hx
  · intro id ms hms
    have hput : ∀ (mi : AList String MatcherSets), (∀ id ms, lookup mi id = some ms → ms = msOf id) →
        lookup (put mi e.sil.id e.sil.sets) id = some ms → ms = msOf id := by
      intro mi hmi hl
      rw [lookup_put] at hl
      by_cases hid : e.sil.id = id
      · simp [hid] at hl; rw [← hl, ← hid]; exact hm
      · simp [hid] at hl; exact hmi id ms hl
    unfold mergeOne at hms
    cases hk : mergeKind now s.st e with
    | refused => simp [hk] at hms; exact h.mi id ms hms
    | added => simp [hk, index] at hms; exact hput s.mi h.mi hms
    | updated =>
      obtain ⟨p, hp, _⟩ := mergeKind_updated now s.st e hk
      simp only [hk, hp] at hms
      split at hms
      · simp [reindex, index] at hms; exact hput s.mi h.mi hms
      · exact h.mi id ms hms

theorem miInv_gc (msOf : String → MatcherSets) (now : Int) (s : Store) (hi : IndexInv s) (h : MiInv msOf s) :
    MiInv msOf (gc now s).1 := by
  constructor
  · intro id x hx
    rw [lookup_gc now s hi] at hx
    cases hl : lookup s.st id with
    | none => simp [hl] at hx
    | some m =>
      by_cases he : m.exp ≤ now
      · simp [hl, he] at hx
      · simp [hl, he] at hx; rw [← hx]; exact h.st id m hl
  · intro id ms hms
    simp only [gc] at hms
    rw [lookup_filterVals _ _ hi.nodupMi] at hms
    cases hl : lookup s.mi id with
    | none => simp [hl] at hms
    | some x =>
      simp only [hl] at hms
      split at hms
      · injection hms with hms; rw [← hms]; exact h.mi id x hl
      · cases hms

theorem miInv_reload (msOf : String → MatcherSets) (s : Store) (hi : IndexInv s) (h : MiInv msOf s) :
    MiInv msOf (reload s) := by
  have hst := lookup_reload s hi
  constructor
  · intro id x hx; rw [hst] at hx; exact h.st id x hx
  · intro id ms hms
    have : lookup (reload s).mi id = (lookup (reload s).st id).map (fun m => m.sil.sets) := by
      unfold reload
      exact lookup_mapVals (fun _ (m : Mesh) => m.sil.sets) _ id
    rw [this, hst] at hms
    cases hl : lookup s.st id with
    | none => simp [hl] at hms
    | some m => simp [hl] at hms; rw [← hms]; exact h.st id m hl

/-! ### `Step` -/

/-- What an operation may do to the store, from the point of view of a mute cache computed
    before it: every silence that is live afterwards either was live before and kept (or
    raised) its place in the version index, or sits at a version newer than anything a
    cache can have seen. -/
structure Step (now : Int) (s s' : Store) : Prop where
  ver : s.version ≤ s'.version
  src : ∀ id m', lookup s'.st id = some m' → live m'.sil now →
      (∃ m, lookup s.st id = some m ∧ live m.sil now ∧ ∀ v, (v, id) ∈ s.vi → ∃ v', v ≤ v' ∧ (v', id) ∈ s'.vi)
      ∨ (∃ v', s.version < v' ∧ (v', id) ∈ s'.vi)

theorem step_refl (now : Int) (s : Store) : Step now s s :=
  ⟨Nat.le_refl _, fun id m' hl hv => Or.inl ⟨m', hl, hv, fun v hm => ⟨v, Nat.le_refl _, hm⟩⟩⟩

theorem step_trans {now : Int} {a b c : Store} (h₁ : Step now a b) (h₂ : Step now b c) : Step now a c := by
  refine ⟨Nat.le_trans h₁.ver h₂.ver, ?_⟩
  intro id m' hl hv
  rcases h₂.src id m' hl hv with ⟨m, hm, hlm, hvi⟩ | ⟨v', hv', hmem⟩
  · rcases h₁.src id m hm hlm with ⟨m0, hm0, hl0, hvi0⟩ | ⟨v', hv', hmem⟩
    · left
      refine ⟨m0, hm0, hl0, ?_⟩
      intro v hmv
      obtain ⟨v1, h1, hm1⟩ := hvi0 v hmv
      obtain ⟨v2, h2, hm2⟩ := hvi v1 hm1
      exact ⟨v2, Nat.le_trans h1 h2, hm2⟩
    · right
      obtain ⟨v2, h2, hm2⟩ := hvi v' hmem
      exact ⟨v2, by omega, hm2⟩
  · right
    exact ⟨v', by have := h₁.ver; omega, hmem⟩

/-- (A) replacing the version of a known id, unless that revives it -/
theorem step_update (now : Int) (s : Store) (m p : Mesh) (hp : lookup s.st m.sil.id = some p)
    (h : live m.sil now → live p.sil now) : Step now s { s with st := put s.st m.sil.id m } := by
  refine ⟨Nat.le_refl _, ?_⟩
  intro id m' hl hv
  left
  simp only at hl
  rw [lookup_put] at hl
  by_cases hk : m.sil.id = id
  · simp [hk] at hl
    subst hl
    exact ⟨p, by rw [← hk]; exact hp, h hv, fun v hm => ⟨v, Nat.le_refl _, hm⟩⟩
  · simp [hk] at hl
    exact ⟨m', hl, hv, fun v hm => ⟨v, Nat.le_refl _, hm⟩⟩

/-- (B) adding a new id and indexing it -/
theorem step_add (now : Int) (s : Store) (m : Mesh) :
    Step now s (index { s with st := put s.st m.sil.id m } m.sil) := by
  refine ⟨by simp [index], ?_⟩
  intro id m' hl hv
  simp only [index] at hl
  rw [lookup_put] at hl
  by_cases hk : m.sil.id = id
  · right
    exact ⟨s.version + 1, by omega, by simp [index, hk]⟩
  · left
    simp [hk] at hl
    exact ⟨m', hl, hv, fun v hm => ⟨v, Nat.le_refl _, by simp [index, hm]⟩⟩

/-- (C) the repair of F1: replacing the version of a known id and re-indexing it -/
theorem step_reindex (now : Int) (s : Store) (e : Mesh) :
    Step now s (reindex { s with st := put s.st e.sil.id e } e.sil) := by
  refine ⟨by simp [reindex, index], ?_⟩
  intro id m' hl hv
  simp only [reindex, index] at hl
  rw [lookup_put] at hl
  by_cases hk : e.sil.id = id
  · right
    exact ⟨s.version + 1, by omega, by simp [reindex, index, hk]⟩
  · left
    simp [hk] at hl
    refine ⟨m', hl, hv, fun v hm => ⟨v, Nat.le_refl _, ?_⟩⟩
    simp only [reindex, index, List.mem_append, List.mem_filter]
    left
    exact ⟨hm, by simpa using Ne.symm hk⟩

theorem step_setSilence (now : Int) (s : Store) (m : Mesh)
    (h : ∀ p, lookup s.st m.sil.id = some p → live m.sil now → live p.sil now) :
    Step now s (setSilence now s m).1 := by
  unfold setSilence
  cases hk : mergeKind now s.st m with
  | refused => exact step_refl now s
  | added => exact step_add now s m
  | updated =>
    obtain ⟨p, hp, _⟩ := mergeKind_updated now s.st m hk
    exact step_update now s m p hp (h p hp)

/-- `Revives`: the merge replaces a locally expired version by one that is not expired. -/
def Revives (now : Int) (s : Store) (e : Mesh) : Prop :=
  ∃ p, lookup s.st e.sil.id = some p ∧ getState p.sil now = .expired ∧ getState e.sil now ≠ .expired

/-- one iteration of `Silences.Merge`: fine under the repaired discipline, and under the
    pinned one as long as the merge does not revive an expired silence -/
theorem step_mergeOne (fix : Bool) (now : Int) (s : Store) (e : Mesh)
    (h : fix = true ∨ ¬ Revives now s e) : Step now s (mergeOne fix now s e).1 := by
  unfold mergeOne
  cases hk : mergeKind now s.st e with
  | refused => exact step_refl now s
  | added => exact step_add now s e
  | updated =>
    obtain ⟨p, hp, _⟩ := mergeKind_updated now s.st e hk
    simp only [hp]
    by_cases hrev : getState p.sil now = .expired ∧ getState e.sil now ≠ .expired
    · rcases h with hf | hn
      · have : (fix && (decide (getState p.sil now = .expired) && !decide (getState e.sil now = .expired))) = true := by
          simp [hf, hrev.1, hrev.2]
        simp only [this, if_true]
        exact step_reindex now s e
      · exact absurd ⟨p, hp, hrev.1, hrev.2⟩ hn
    · have : (fix && (decide (getState p.sil now = .expired) && !decide (getState e.sil now = .expired))) = false := by
        by_cases h1 : getState p.sil now = .expired
        · have h2 : getState e.sil now = .expired := by
            by_cases h2 : getState e.sil now = .expired
            · exact h2
            · exact absurd ⟨h1, h2⟩ hrev
          simp [h2]
        · simp [h1]
      simp only [this]
      apply step_update now s e p hp
      intro hle hpe
      exact hrev ⟨hpe, hle⟩

theorem step_expireCore (ret now : Int) (s : Store) (p : Mesh) (hl : lookup s.st p.sil.id = some p) :
    Step now s (expireCore ret now s p.sil).1 := by
  unfold expireCore
  cases hx : expiredVersion now p.sil with
  | none => exact step_refl now s
  | some x =>
    simp only
    apply step_setSilence
    intro q hq _
    have hid : (toMesh ret x).sil.id = p.sil.id := expiredVersion_id now p.sil x hx
    rw [hid, hl] at hq
    injection hq with hq
    subst hq
    intro he
    unfold expiredVersion at hx
    simp [he] at hx

theorem step_gc (now now' : Int) (s : Store) (hi : IndexInv s) : Step now s (gc now' s).1 := by
  refine ⟨by simp [gc], ?_⟩
  intro id m' hl hv
  left
  rw [lookup_gc now' s hi] at hl
  cases hs : lookup s.st id with
  | none => simp [hs] at hl
  | some m =>
    by_cases he : m.exp ≤ now'
    · simp [hs, he] at hl
    · simp [hs, he] at hl
      subst hl
      refine ⟨m, rfl, hv, fun v hm => ⟨v, Nat.le_refl _, ?_⟩⟩
      simp only [gc, List.mem_filter]
      refine ⟨hm, ?_⟩
      simp [hs]; omega

/-! ### the cache invariant -/

structure CacheInv (msOf : String → MatcherSets) (env : Env) (s : Store) (c : Cache) (now : Int) : Prop where
  /-- a cache entry never runs ahead of the store, and every cached id matches the alert -/
  sound : ∀ ls, (cacheGet c ls).version ≤ s.version ∧
            ∀ id, id ∈ (cacheGet c ls).ids → matchesSets env.re (msOf id) ls = true
  /-- every stored silence that matches the alert and is not expired is either cached or
      indexed after the cached version -/
  complete : ∀ ls id m, lookup s.st id = some m → matchesSets env.re (msOf id) ls = true → live m.sil now →
            id ∈ (cacheGet c ls).ids ∨ ∃ v, (v, id) ∈ s.vi ∧ (cacheGet c ls).version < v

theorem cacheInv_time (msOf : String → MatcherSets) (env : Env) (s : Store) (c : Cache) (now now' : Int)
    (hle : now ≤ now') (h : CacheInv msOf env s c now) : CacheInv msOf env s c now' :=
  ⟨h.sound, fun ls id m hl hm hv => h.complete ls id m hl hm (live_mono m.sil now now' hle hv)⟩

theorem cacheInv_step (msOf : String → MatcherSets) (env : Env) (s s' : Store) (c : Cache) (now : Int)
    (h : CacheInv msOf env s c now) (hs : Step now s s') : CacheInv msOf env s' c now := by
  constructor
  · intro ls
    exact ⟨Nat.le_trans (h.sound ls).1 hs.ver, (h.sound ls).2⟩
  · intro ls id m' hl hm hv
    rcases hs.src id m' hl hv with ⟨m, hlm, hvm, hvi⟩ | ⟨v', hv', hmem⟩
    · rcases h.complete ls id m hlm hm hvm with hin | ⟨v, hmv, hlt⟩
      · exact Or.inl hin
      · obtain ⟨v', hle, hm'⟩ := hvi v hmv
        exact Or.inr ⟨v', hm', by omega⟩
    · exact Or.inr ⟨v', hmem, by have := (h.sound ls).1; omega⟩

/-- an empty (or evicted) cache entry is valid for any store that satisfies the index invariant -/
theorem complete_default (s : Store) (hi : IndexInv s) (id : String) (m : Mesh) (hl : lookup s.st id = some m) :
    ∃ v, (v, id) ∈ s.vi ∧ 0 < v := by
  obtain ⟨v, hv⟩ := (hi.viIds id).mpr (by simp [hl])
  exact ⟨v, hv, by have := (hi.viBound v id hv).1; omega⟩

theorem cacheGet_nil (ls : LabelSet) : cacheGet ([] : Cache) ls = {} := rfl

theorem cacheInv_fresh (msOf : String → MatcherSets) (env : Env) (s : Store) (hi : IndexInv s) (now : Int) :
    CacheInv msOf env s [] now := by
  constructor
  · intro ls; simp [cacheGet_nil]
  · intro ls id m hl _ _
    right
    obtain ⟨v, hv, hpos⟩ := complete_default s hi id m hl
    exact ⟨v, hv, by simpa [cacheGet_nil] using hpos⟩

theorem cacheGet_put (c : Cache) (ls ls' : LabelSet) (ce : CacheEntry) :
    cacheGet (put c ls ce) ls' = if ls = ls' then ce else cacheGet c ls' := by
  unfold cacheGet
  rw [lookup_put]
  by_cases h : ls = ls' <;> simp [h]

theorem cacheGet_erase (c : Cache) (ls ls' : LabelSet) :
    cacheGet (erase c ls) ls' = if ls = ls' then {} else cacheGet c ls' := by
  unfold cacheGet
  rw [lookup_erase]
  by_cases h : ls = ls' <;> simp [h]

theorem cacheGet_postGC (fps : List LabelSet) (c : Cache) (ls : LabelSet) :
    cacheGet (postGC c fps) ls = cacheGet c ls ∨ cacheGet (postGC c fps) ls = {} := by
  unfold postGC
  induction fps generalizing c with
  | nil => left; rfl
  | cons f rest ih =>
    simp only [List.foldl_cons]
    rcases ih (erase c f) with h | h
    · rw [h, cacheGet_erase]
      by_cases hf : f = ls
      · right; simp [hf]
      · left; simp [hf]
    · right; exact h

/-- `PostGC` (alert garbage collection) only evicts entries -/
theorem cacheInv_postGC (msOf : String → MatcherSets) (env : Env) (s : Store) (c : Cache) (now : Int)
    (fps : List LabelSet) (hi : IndexInv s) (h : CacheInv msOf env s c now) :
    CacheInv msOf env s (postGC c fps) now := by
  constructor
  · intro ls
    rcases cacheGet_postGC fps c ls with hg | hg
    · rw [hg]; exact h.sound ls
    · rw [hg]; simp
  · intro ls id m hl hm hv
    rcases cacheGet_postGC fps c ls with hg | hg
    · rw [hg]; exact h.complete ls id m hl hm hv
    · rw [hg]
      right
      obtain ⟨v, hmv, hpos⟩ := complete_default s hi id m hl
      exact ⟨v, hmv, hpos⟩

end AM.Silence
