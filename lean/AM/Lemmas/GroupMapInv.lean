/-
  Step-preservation of the group-map invariant (C06, concurrent part).
-/
import AM.Model.GroupMap

namespace AM.GroupMap
open AM AM.AList

/-- per-thread part of the invariant -/
structure ThrOK (s : State) (t : Nat) (T : Thr) : Prop where
  /-- whenever the thread still uses `el`, it is a published group of the thread's fingerprint -/
  el_ok : (T.pc = .insLoaded ∨ T.pc = .insExisting ∨ T.pc = .cas ∨
            (T.loaded = true ∧ (T.pc = .create ∨ T.pc = .loop ∨ T.pc = .retry))) →
          ∃ g G, T.el = some g ∧ lookup s.grps g = some G ∧ G.fp = T.fp ∧ G.published = true
  /-- the `loaded` branch of the loop only ever holds a destroyed `el` -/
  el_dead : T.loaded = true → (T.pc = .create ∨ T.pc = .loop ∨ T.pc = .cas ∨ T.pc = .retry) →
          ∃ g G, T.el = some g ∧ lookup s.grps g = some G ∧ G.destroyed = true
  /-- inside the loop the thread owns a private, live group holding its alert -/
  ag_ok : (T.pc = .loop ∨ T.pc = .cas ∨ T.pc = .los ∨ T.pc = .insExisting ∨ T.pc = .retry) →
          ∃ n N, T.ag = some n ∧ lookup s.grps n = some N ∧ N.fp = T.fp ∧ N.published = false ∧
            N.destroyed = false ∧ T.a ∈ N.alerts ∧ N.owner = t
  cas_loaded : T.pc = .cas → T.loaded = true

structure Inv (s : State) : Prop where
  fresh : ∀ g G, lookup s.grps g = some G → g < s.next
  /-- a published, non-destroyed group is the one mapped under its fingerprint -/
  orph : ∀ g G, lookup s.grps g = some G → G.published = true → G.destroyed = false → lookup s.map G.fp = some g
  mapok : ∀ fp g, lookup s.map fp = some g → ∃ G, lookup s.grps g = some G ∧ G.fp = fp ∧ G.published = true
  thr : ∀ t T, lookup s.thrs t = some T → ThrOK s t T
  mnt_dead : (s.mpc = .stop ∨ s.mpc = .cad) → ∃ G, lookup s.grps s.mg = some G ∧ G.destroyed = true

theorem inv_init (limit maxRetries : Nat) : Inv { limit, maxRetries } := by
  constructor <;> simp

/-- how one step may change a group record: never un-destroys, never un-publishes, keeps `fp` and `owner`;
    an unpublished group is not touched at all unless it is being published -/
def GrpLe (G G' : Grp) : Prop :=
  G'.fp = G.fp ∧ G'.owner = G.owner ∧ (G.destroyed = true → G'.destroyed = true) ∧ (G.published = true → G'.published = true) ∧
  (G.published = false → G'.published = false → G' = G)

theorem GrpLe.refl (G : Grp) : GrpLe G G := ⟨rfl, rfl, id, id, fun _ _ => rfl⟩

end AM.GroupMap
