/-
  Step-preservation of the group-map invariant (C06, concurrent part).
-/
import AM.Model.GroupMap

namespace AM.GroupMap
open AM AM.AList

/-- per-thread part of the invariant -/
structure ThrOK (s : State) (t : Nat) (T : Thr) : Prop where
  /-- whenever the thread still uses `el`, it is a published group of the thread's fingerprint -/
  el_ok : (T.pc = .insLoaded ∨ T.pc = .insExisting ∨ T.pc = .cas ∨
            (T.loaded = true ∧ (T.pc = .create ∨ T.pc = .loop ∨ T.pc = .retry))) →
          ∃ g G, T.el = some g ∧ lookup s.grps g = some G ∧ G.fp = T.fp ∧ G.published = true
  /-- the `loaded` branch of the loop only ever holds a destroyed `el` -/
  el_dead : T.loaded = true → (T.pc = .create ∨ T.pc = .loop ∨ T.pc = .cas ∨ T.pc = .retry) →
          ∃ g G, T.el = some g ∧ lookup s.grps g = some G ∧ G.destroyed = true
  /-- inside the loop the thread owns a private, live group holding its alert -/
  ag_ok : (T.pc = .loop ∨ T.pc = .cas ∨ T.pc = .los ∨ T.pc = .insExisting ∨ T.pc = .retry) →
          ∃ n N, T.ag = some n ∧ lookup s.grps n = some N ∧ N.fp = T.fp ∧ N.published = false ∧
            N.destroyed = false ∧ T.a ∈ N.alerts ∧ N.owner = t
  cas_loaded : T.pc = .cas → T.loaded = true

structure Inv (s : State) : Prop where
  fresh : ∀ g G, lookup s.grps g = some G → g < s.next
  /-- a published, non-destroyed group is the one mapped under its fingerprint -/
  orph : ∀ g G, lookup s.grps g = some G → G.published = true → G.destroyed = false → lookup s.map G.fp = some g
  mapok : ∀ fp g, lookup s.map fp = some g → ∃ G, lookup s.grps g = some G ∧ G.fp = fp ∧ G.published = true
  thr : ∀ t T, lookup s.thrs t = some T → ThrOK s t T
  mnt_dead : (s.mpc = .stop ∨ s.mpc = .cad) → ∃ G, lookup s.grps s.mg = some G ∧ G.destroyed = true
  mnt_pub : s.mpc ≠ .idle → ∃ G, lookup s.grps s.mg = some G ∧ G.published = true

theorem inv_init (limit maxRetries : Nat) : Inv { limit, maxRetries } := by
  constructor <;> simp

/-- how one step may change a group record: never un-destroys, never un-publishes, keeps `fp` and `owner`;
    an unpublished group is not touched at all unless it is being published -/
def GrpLe (G G' : Grp) : Prop :=
  G'.fp = G.fp ∧ G'.owner = G.owner ∧ (G.destroyed = true → G'.destroyed = true) ∧ (G.published = true → G'.published = true) ∧
  (G.published = false → G'.published = false → G' = G)

theorem GrpLe.refl (G : Grp) : GrpLe G G := ⟨rfl, rfl, id, id, fun _ _ => rfl⟩

@[simp] theorem setThr_grps (s : State) (t : Nat) (T : Thr) : (setThr s t T).grps = s.grps := rfl
@[simp] theorem setThr_map (s : State) (t : Nat) (T : Thr) : (setThr s t T).map = s.map := rfl
@[simp] theorem setThr_next (s : State) (t : Nat) (T : Thr) : (setThr s t T).next = s.next := rfl
@[simp] theorem setThr_mpc (s : State) (t : Nat) (T : Thr) : (setThr s t T).mpc = s.mpc := rfl
@[simp] theorem setThr_mg (s : State) (t : Nat) (T : Thr) : (setThr s t T).mg = s.mg := rfl
@[simp] theorem setThr_thrs (s : State) (t : Nat) (T : Thr) : (setThr s t T).thrs = put s.thrs t T := rfl
@[simp] theorem setGrp_grps (s : State) (g : Nat) (G : Grp) : (setGrp s g G).grps = put s.grps g G := rfl
@[simp] theorem setGrp_map (s : State) (g : Nat) (G : Grp) : (setGrp s g G).map = s.map := rfl
@[simp] theorem setGrp_next (s : State) (g : Nat) (G : Grp) : (setGrp s g G).next = s.next := rfl
@[simp] theorem setGrp_mpc (s : State) (g : Nat) (G : Grp) : (setGrp s g G).mpc = s.mpc := rfl
@[simp] theorem setGrp_mg (s : State) (g : Nat) (G : Grp) : (setGrp s g G).mg = s.mg := rfl
@[simp] theorem setGrp_thrs (s : State) (g : Nat) (G : Grp) : (setGrp s g G).thrs = s.thrs := rfl

/-- groups only evolve by `GrpLe` -/
def GrpsLe (s s' : State) : Prop :=
  ∀ g G, lookup s.grps g = some G → ∃ G', lookup s'.grps g = some G' ∧ GrpLe G G'

/-- unpublished groups not owned by `t` are untouched -/
def PrivKept (t : Option Nat) (s s' : State) : Prop :=
  ∀ g G, lookup s.grps g = some G → G.published = false → some G.owner ≠ t → lookup s'.grps g = some G

theorem thrOK_frame {s s' : State} {t : Nat} {T : Thr} (h : ThrOK s t T) (hle : GrpsLe s s')
    (hpriv : ∀ g G, lookup s.grps g = some G → G.published = false → G.owner = t → lookup s'.grps g = some G) :
    ThrOK s' t T := by
  constructor
  · intro hc
    obtain ⟨g, G, he, hg, hfp, hpub⟩ := h.el_ok hc
    obtain ⟨G', hg', hl⟩ := hle g G hg
    exact ⟨g, G', he, hg', by rw [hl.1, hfp], hl.2.2.2.1 hpub⟩
  · intro hl hc
    obtain ⟨g, G, he, hg, hd⟩ := h.el_dead hl hc
    obtain ⟨G', hg', hle'⟩ := hle g G hg
    exact ⟨g, G', he, hg', hle'.2.2.1 hd⟩
  · intro hc
    obtain ⟨n, N, ha, hn, hfp, hpub, hd, hmem, ho⟩ := h.ag_ok hc
    exact ⟨n, N, ha, hpriv n N hn hpub ho, hfp, hpub, hd, hmem, ho⟩
  · exact h.cas_loaded

/-- assembling `Inv` after a step of thread `t` -/
theorem inv_of_frame {s s' : State} {t : Nat} {T' : Thr} (hinv : Inv s)
    (hthrs : s'.thrs = put s.thrs t T')
    (hle : GrpsLe s s') (hpriv : PrivKept (some t) s s')
    (hfresh : ∀ g G, lookup s'.grps g = some G → g < s'.next)
    (horph : ∀ g G, lookup s'.grps g = some G → G.published = true → G.destroyed = false → lookup s'.map G.fp = some g)
    (hmap : ∀ fp g, lookup s'.map fp = some g → ∃ G, lookup s'.grps g = some G ∧ G.fp = fp ∧ G.published = true)
    (hT : ThrOK s' t T') (hm : s'.mpc = s.mpc ∧ s'.mg = s.mg) : Inv s' := by
  refine ⟨hfresh, horph, hmap, ?_, ?_, ?_⟩
  · intro t' T hl
    rw [hthrs, lookup_put] at hl
    by_cases htt : t = t'
    · subst htt; simp at hl; subst hl; exact hT
    · simp [htt] at hl
      refine thrOK_frame (hinv.thr t' T hl) hle ?_
      intro g G hg hp ho
      exact hpriv g G hg hp (by rw [ho]; intro h; exact htt (Option.some.inj h).symm)
  · intro hc
    rw [hm.1] at hc
    obtain ⟨G, hg, hd⟩ := hinv.mnt_dead hc
    obtain ⟨G', hg', hle'⟩ := hle _ G hg
    rw [hm.2]
    exact ⟨G', hg', hle'.2.2.1 hd⟩
  · intro hc
    rw [hm.1] at hc
    obtain ⟨G, hg, hd⟩ := hinv.mnt_pub hc
    obtain ⟨G', hg', hle'⟩ := hle _ G hg
    rw [hm.2]
    exact ⟨G', hg', hle'.2.2.2.1 hd⟩

theorem grpsLe_refl (s s' : State) (h : s'.grps = s.grps) : GrpsLe s s' := by
  intro g G hg; exact ⟨G, by rw [h]; exact hg, GrpLe.refl G⟩

theorem privKept_refl (t : Option Nat) (s s' : State) (h : s'.grps = s.grps) : PrivKept t s s' := by
  intro g G hg _ _; rw [h]; exact hg

/-- a step that only rewrites the stepping thread's record -/
theorem inv_thr_only {s : State} {t : Nat} {T' : Thr} (hinv : Inv s) (hT : ThrOK s t T') :
    Inv (setThr s t T') :=
  inv_of_frame hinv rfl (grpsLe_refl _ _ rfl) (privKept_refl _ _ _ rfl) hinv.fresh hinv.orph hinv.mapok
    (thrOK_frame hT (grpsLe_refl _ _ rfl) (fun _ _ hg _ _ => hg)) ⟨rfl, rfl⟩

end AM.GroupMap
