/-
  C16: the classic list parser (`ParseMatchers`) reads back what
  `Matchers.String` prints when every name is a classic label name: the comma
  splitter with its quote/escape state cuts exactly between the matchers.
-/
import AM.Lemmas.MatcherClassicRT

namespace AM.Mt
open AM

set_option linter.unusedSimpArgs false

/-- prepend to the token under construction -/
def consHead (T : Str) : List Str → List Str
  | t :: ts => (T ++ t) :: ts
  | [] => [T]

theorem consHead_nil (l : List Str) (h : l ≠ []) : consHead [] l = l := by
  cases l with
  | nil => exact absurd rfl h
  | cons t ts => simp [consHead]

theorem consHead_append (a b : Str) (l : List Str) : consHead (a ++ b) l = consHead a (consHead b l) := by
  cases l <;> simp [consHead]

theorem splitLoop_ne_nil (inQ esc : Bool) (s : Str) : splitLoop inQ esc s ≠ [] := by
  induction s generalizing inQ esc with
  | nil => simp [splitLoop]
  | cons r s ih =>
    unfold splitLoop
    split
    · simp
    · simp only
      split <;> simp

/-- one rune that is written to the token -/
theorem splitLoop_cons (inQ esc : Bool) (r : Rune) (s : Str) (h : ¬(r.cp = 44 ∧ inQ = false)) :
    splitLoop inQ esc (r :: s) =
      consHead [r.norm] (splitLoop (splitState inQ esc r.cp).1 (splitState inQ esc r.cp).2 s) := by
  rw [splitLoop]
  simp only [h, if_false]
  cases hx : splitLoop (splitState inQ esc r.cp).1 (splitState inQ esc r.cp).2 s <;> simp [consHead]

/-- a comma outside quotes ends the token -/
theorem splitLoop_comma (esc : Bool) (s : Str) :
    splitLoop false esc (.ch ',' :: s) = [] :: splitLoop false esc s := by
  rw [splitLoop]; simp

/-- runes other than `,` `"` `\` outside quotes -/
theorem splitLoop_plain (P : Str) (hP : ∀ x ∈ P, x.cp ≠ 44 ∧ x.cp ≠ 34 ∧ x.cp ≠ 92) (hv : Valid P) (rest : Str) :
    splitLoop false false (P ++ rest) = consHead P (splitLoop false false rest) := by
  induction P with
  | nil => simp [consHead_nil _ (splitLoop_ne_nil _ _ _)]
  | cons x P ih =>
    obtain ⟨h44, h34, h92⟩ := hP x (by simp)
    rw [valid_cons] at hv
    have hx : x.norm = x := by
      cases x with
      | ch c => rfl
      | bad b => simp at hv
    simp only [List.cons_append]
    rw [splitLoop_cons _ _ _ _ (by simp [h44])]
    simp only [splitState, h44, h34, h92, if_false]
    rw [ih (fun y hy => hP y (by simp [hy])) hv.2, hx, ← consHead_append]
    simp

/-! inside quotes -/

theorem sl_q_bs (esc : Bool) (s : Str) :
    splitLoop true esc (bs :: s) = consHead [bs] (splitLoop true (!esc) s) := by
  rw [splitLoop_cons _ _ _ _ (by simp)]
  simp [splitState, bs, Rune.norm]

theorem sl_q_dq_esc (s : Str) :
    splitLoop true true (dq :: s) = consHead [dq] (splitLoop true false s) := by
  rw [splitLoop_cons _ _ _ _ (by simp)]
  simp [splitState, dq, Rune.norm]

theorem sl_q_dq (s : Str) :
    splitLoop true false (dq :: s) = consHead [dq] (splitLoop false false s) := by
  rw [splitLoop_cons _ _ _ _ (by simp)]
  simp [splitState, dq, Rune.norm]

theorem sl_q_plain (c : Char) (esc : Bool) (h34 : c.toNat ≠ 34) (h92 : c.toNat ≠ 92) (s : Str)
    (hesc : c.toNat = 44 → esc = false) :
    splitLoop true esc (.ch c :: s) = consHead [.ch c] (splitLoop true false s) := by
  rw [splitLoop_cons _ _ _ _ (by simp)]
  by_cases h44 : c.toNat = 44
  · simp [splitState, h44, hesc h44, Rune.norm]
  · simp [splitState, h44, h34, h92, Rune.norm]

/-- inside quotes: the OpenMetrics-escaped value up to and including the closing quote -/
theorem splitLoop_omEscape (cs : List Char) (rest : Str) :
    splitLoop true false (omEscape (ofChars cs) ++ dq :: rest) =
      consHead (omEscape (ofChars cs) ++ [dq]) (splitLoop false false rest) := by
  induction cs with
  | nil =>
    simp only [ofChars, List.map_nil, omEscape, List.nil_append]
    exact sl_q_dq rest
  | cons c cs ih =>
    simp only [ofChars, List.map_cons] at ih ⊢
    rw [omEscape]
    by_cases h92 : (Rune.ch c).cp = 92
    · rw [if_pos h92]
      simp only [List.cons_append]
      rw [sl_q_bs, sl_q_bs]
      simp [ih, ← consHead_append]
    · rw [if_neg h92]
      by_cases h10 : (Rune.ch c).cp = 10
      · rw [if_pos h10]
        simp only [List.cons_append]
        rw [sl_q_bs, sl_q_plain 'n' _ (by decide) (by decide) _ (by decide)]
        simp [ih, ← consHead_append]
      · rw [if_neg h10]
        by_cases h34 : (Rune.ch c).cp = 34
        · rw [if_pos h34]
          simp only [List.cons_append]
          rw [sl_q_bs]
          simp only [Bool.not_false]
          rw [sl_q_dq_esc]
          simp [ih, ← consHead_append]
        · rw [if_neg h34]
          simp only [List.cons_append]
          simp only [Rune.cp_ch] at h92 h34
          rw [sl_q_plain c _ h34 h92 _ (fun _ => rfl)]
          simp [ih, ← consHead_append]

/-- a printed classic matcher is cut out as one token -/
theorem splitLoop_printed (name : Str) (op : Op) (cs : List Char) (hn : classicName name = true) (rest : Str) :
    splitLoop false false (name ++ op.str ++ (dq :: (omEscape (ofChars cs) ++ [dq])) ++ rest) =
      consHead (name ++ op.str ++ (dq :: (omEscape (ofChars cs) ++ [dq]))) (splitLoop false false rest) := by
  obtain ⟨_, _, _, _, hall⟩ := classicName_spec hn
  have hP : ∀ x ∈ name ++ op.str, x.cp ≠ 44 ∧ x.cp ≠ 34 ∧ x.cp ≠ 92 := by
    intro x hx
    rw [List.mem_append] at hx
    rcases hx with h | h
    · have := hall x h
      simp only [isNameChar, isNameStart, Bool.or_eq_true, Bool.and_eq_true, decide_eq_true_eq, beq_iff_eq] at this
      omega
    · cases op <;> simp [Op.str] at h <;> rcases h with rfl | rfl <;> simp
  have hvalid : Valid (name ++ op.str) := by
    rw [valid_append]
    constructor
    · intro x hx
      cases x with
      | ch c => rfl
      | bad b =>
        have := hall _ hx
        simp [Rune.cp, isNameChar, isNameStart] at this
    · cases op <;> simp [Op.str, Valid]
  have e : name ++ op.str ++ (dq :: (omEscape (ofChars cs) ++ [dq])) ++ rest =
      (name ++ op.str) ++ (dq :: (omEscape (ofChars cs) ++ dq :: rest)) := by simp
  rw [e, splitLoop_plain _ hP hvalid]
  have hq : splitLoop false false (dq :: (omEscape (ofChars cs) ++ dq :: rest)) =
      consHead [dq] (splitLoop true false (omEscape (ofChars cs) ++ dq :: rest)) := by
    rw [splitLoop_cons _ _ _ _ (by simp [dq])]
    simp [splitState, dq, Rune.norm]
  rw [hq, splitLoop_omEscape cs rest, ← consHead_append, ← consHead_append]
  simp

/-! ### the whole list -/

/-- `T` is cut out as one token whatever follows -/
def OneToken (T : Str) : Prop :=
  ∀ rest, splitLoop false false (T ++ rest) = consHead T (splitLoop false false rest)

theorem splitLoop_commaSep (f : Matcher → Str) (ms : List Matcher) (hne : ms ≠ [])
    (hf : ∀ m ∈ ms, OneToken (f m)) : splitLoop false false (commaSep f ms) = ms.map f := by
  induction ms with
  | nil => exact absurd rfl hne
  | cons m rest ih =>
    cases rest with
    | nil =>
      have := hf m (by simp) []
      simp only [List.append_nil] at this
      simp [commaSep, this, splitLoop, consHead]
    | cons m' rest' =>
      have ih' := ih (by simp) (fun x hx => hf x (by simp [hx]))
      have := hf m (by simp) (.ch ',' :: commaSep f (m' :: rest'))
      simp only [commaSep] at this ⊢
      rw [this, splitLoop_comma, ih']
      simp [consHead]

theorem finishTokens_stable (ts : List Str) (h : ∀ t ∈ ts, trimSpaceU t = t ∧ t ≠ []) :
    finishTokens ts = ts := by
  induction ts with
  | nil => rfl
  | cons t rest ih =>
    cases rest with
    | nil =>
      obtain ⟨h1, h2⟩ := h t (by simp)
      have : t.isEmpty = false := by cases t <;> simp at h2 ⊢
      simp [finishTokens, h1, this]
    | cons t' rest' =>
      have := ih (fun x hx => h x (by simp [hx]))
      simp only [finishTokens] at this ⊢
      rw [this]

theorem parseAll_map (compiles : Str → Bool) (f : Matcher → Str) (ms : List Matcher)
    (h : ∀ m ∈ ms, classicMatcher compiles (f m) = .ok m) : parseAll compiles (ms.map f) = .ok ms := by
  induction ms with
  | nil => rfl
  | cons m rest ih =>
    simp [parseAll, h m (by simp), ih (fun x hx => h x (by simp [hx]))]

theorem print_classic (ip : Nat → Bool) (m : Matcher) (hn : classicName m.name = true) :
    print ip m = m.name ++ m.op.str ++ (dq :: (omEscape m.value ++ [dq])) := by
  have hres : hasReserved m.name = false := classicName_no_reserved hn
  have hne : m.name.isEmpty = false := by
    obtain ⟨r, rest, hs, _, _⟩ := classicName_spec hn
    simp [hs]
  simp [print, hres, hne]

theorem trimSpaceU_printed (name : Str) (op : Op) (body : Str) (hn : classicName name = true) :
    trimSpaceU (name ++ op.str ++ (dq :: (body ++ [dq]))) = name ++ op.str ++ (dq :: (body ++ [dq])) ∧
    name ++ op.str ++ (dq :: (body ++ [dq])) ≠ [] := by
  obtain ⟨r, rest, hs, hstart, _⟩ := classicName_spec hn
  have hsp : isSpaceU r.cp = false := by
    have := nameChar_not_reserved (nameStart_nameChar hstart)
    simp only [isReserved, Bool.or_eq_false_iff] at this
    exact this.1.1.1.1.1.1.1.1.1.1
  subst hs
  constructor
  · unfold trimSpaceU
    have h1 : List.dropWhile (fun r => isSpaceU r.cp) (r :: rest ++ op.str ++ dq :: (body ++ [dq])) =
        r :: rest ++ op.str ++ dq :: (body ++ [dq]) := by
      simp [List.dropWhile_cons, hsp]
    rw [h1]
    have := trimRight_concat (fun r => isSpaceU r.cp) (r :: rest ++ op.str ++ dq :: body) dq (by simp [dq, isSpaceU])
    simpa using this
  · simp

/-- `labels.ParseMatchers` on `{` + printed classic matchers + `}` -/
theorem classicMatchers_printList (ip : Nat → Bool) (compiles : Str → Bool) (ms : List Matcher)
    (hn : ∀ m ∈ ms, classicName m.name = true)
    (hv : ∀ m ∈ ms, ∃ cs, m.value = ofChars cs)
    (hc : ∀ m ∈ ms, classicMatcher compiles (print ip m) = .ok m) :
    classicMatchers compiles (printList ip ms) = .ok ms := by
  have hpre : trimPrefixBrace (printList ip ms) = commaSep (print ip) ms ++ [.ch '}'] := by
    simp [printList, trimPrefixBrace]
  have hsuf : trimSuffixBrace (commaSep (print ip) ms ++ [.ch '}']) = commaSep (print ip) ms := by
    simp [trimSuffixBrace]
  unfold classicMatchers classicTokens
  rw [hpre, hsuf]
  cases ms with
  | nil => simp [commaSep, splitLoop, finishTokens, trimSpaceU, trimRight, parseAll]
  | cons m rest =>
    have hone : ∀ x ∈ m :: rest, OneToken (print ip x) := by
      intro x hx rest'
      obtain ⟨cs, hcs⟩ := hv x hx
      rw [print_classic ip x (hn x hx), hcs]
      exact splitLoop_printed x.name x.op cs (hn x hx) rest'
    rw [splitLoop_commaSep (print ip) (m :: rest) (by simp) hone]
    rw [finishTokens_stable]
    · exact parseAll_map compiles (print ip) (m :: rest) hc
    · intro t ht
      simp only [List.mem_map] at ht
      obtain ⟨x, hx, rfl⟩ := ht
      rw [print_classic ip x (hn x hx)]
      exact trimSpaceU_printed x.name x.op _ (hn x hx)

end AM.Mt
