/-
  C16: `strconv.Unquote` inverts both printers of a value: OpenMetrics escaping
  and `strconv.Quote` (for every valid string and every `isPrint` table that
  does not call the line feed printable).
-/
import AM.Lemmas.MatcherBasic

namespace AM.Mt
open AM

set_option linter.unusedSimpArgs false

/-! ### assembling code points -/

theorem assemble_chars (cs : List Char) : assemble (cs.map Piece.ch) [] = some cs := by
  induction cs with
  | nil => simp [assemble, flushRaw, decodeRunes, decodeFuel, validB, toChars]
  | cons c cs ih =>
    simp [assemble, ih, flushRaw, decodeRunes, decodeFuel, validB, toChars]

/-! ### OpenMetrics escaping read by Unquote -/

theorem uqLoop_omEscape (cs : List Char) :
    uqLoop .norm (omEscape (ofChars cs) ++ [dq]) = some (cs.map Piece.ch) := by
  simp only [dq]
  induction cs with
  | nil => simp [ofChars, omEscape, uqLoop, uqStep]
  | cons c cs ih =>
    simp only [ofChars, List.map_cons] at ih ⊢
    unfold omEscape
    by_cases h92 : (Rune.ch c).cp = 92
    · simp [h92, uqLoop, uqStep, bs, ih]
      exact (char_eq_of_toNat h92).symm
    · by_cases h10 : (Rune.ch c).cp = 10
      · simp [h92, h10, uqLoop, uqStep, bs, ih]
        exact (char_eq_of_toNat h10).symm
      · by_cases h34 : (Rune.ch c).cp = 34
        · simp [h92, h10, h34, uqLoop, uqStep, bs, dq, ih]
          exact (char_eq_of_toNat h34).symm
        · simp only [h92, h10, h34, if_false, List.cons_append]
          simp only [Rune.cp_ch] at h92 h34 h10
          simp [uqLoop, uqStep, h92, h34, h10, ih]

theorem unquote_omEscape (cs : List Char) :
    unquote (dq :: (omEscape (ofChars cs) ++ [dq])) = some (ofChars cs) := by
  have h := uqLoop_omEscape cs
  simp only [unquote, dq, Rune.cp_ch] at h ⊢
  simp [h, assemble_chars]

/-! ### hexadecimal escapes -/

theorem unhex_hexDigit : ∀ d, d < 16 → unhex (hexDigit d).cp = some d := by decide

/-- what happens when the last digit of an escape has been read -/
def hexFinish (k : HexKind) (v : Nat) (rest : Str) : Option (List Piece) :=
  match k with
  | .x => (uqLoop .norm rest).map (bytePiece v :: ·)
  | _ => if validRune v then (uqLoop .norm rest).map (Piece.ch (Char.ofNat v) :: ·) else none

theorem uqLoop_hex (k : HexKind) (ds : List Nat) (hds : ∀ d ∈ ds, d < 16) (hne : ds ≠ []) (acc : Nat) (rest : Str) :
    uqLoop (.hex k ds.length acc) (ds.map hexDigit ++ rest) =
      hexFinish k (ds.foldl (fun a d => a * 16 + d) acc) rest := by
  induction ds generalizing acc with
  | nil => exact absurd rfl hne
  | cons d ds ih =>
    have hd : d < 16 := hds d (by simp)
    cases ds with
    | nil =>
      simp only [List.length_cons, List.length_nil, List.map_cons, List.map_nil, List.foldl_cons,
        List.foldl_nil, List.cons_append, List.nil_append, uqLoop, uqStep, unhex_hexDigit d hd]
      cases k
      · simp [hexFinish]
      · simp only [hexFinish]; cases hv : validRune (acc * 16 + d) <;> simp
      · simp only [hexFinish]; cases hv : validRune (acc * 16 + d) <;> simp
    | cons d' ds' =>
      have := ih (fun x hx => hds x (by simp [hx])) (by simp) (acc * 16 + d)
      simp only [List.length_cons, List.map_cons, List.cons_append, List.foldl_cons] at this ⊢
      rw [← this]
      simp only [uqLoop, uqStep, unhex_hexDigit d hd]
      simp

theorem uqLoop_hex2 (n : Nat) (hn : n < 256) (rest : Str) :
    uqLoop (.hex .x 2 0) (hex2 n ++ rest) = (uqLoop .norm rest).map (bytePiece n :: ·) := by
  have := uqLoop_hex .x [n / 16 % 16, n % 16] (by intro d hd; simp at hd; omega) (by simp) 0 rest
  simp only [List.length_cons, List.length_nil, List.map_cons, List.map_nil, List.foldl_cons, List.foldl_nil] at this
  have e : (0 * 16 + n / 16 % 16) * 16 + n % 16 = n := by omega
  rw [e] at this
  simpa [hex2, hexFinish] using this

theorem uqLoop_hex4 (n : Nat) (hn : n < 65536) (hv : validRune n = true) (rest : Str) :
    uqLoop (.hex .u 4 0) (hex4 n ++ rest) = (uqLoop .norm rest).map (Piece.ch (Char.ofNat n) :: ·) := by
  have := uqLoop_hex .u [n / 4096 % 16, n / 256 % 16, n / 16 % 16, n % 16]
    (by intro d hd; simp at hd; omega) (by simp) 0 rest
  simp only [List.length_cons, List.length_nil, List.map_cons, List.map_nil, List.foldl_cons, List.foldl_nil] at this
  have e : (((0 * 16 + n / 4096 % 16) * 16 + n / 256 % 16) * 16 + n / 16 % 16) * 16 + n % 16 = n := by omega
  rw [e] at this
  simpa [hex4, hexFinish, hv] using this

theorem uqLoop_hex8 (n : Nat) (hn : n < 4294967296) (hv : validRune n = true) (rest : Str) :
    uqLoop (.hex .U 8 0) (hex8 n ++ rest) = (uqLoop .norm rest).map (Piece.ch (Char.ofNat n) :: ·) := by
  have := uqLoop_hex .U [n / 65536 / 4096 % 16, n / 65536 / 256 % 16, n / 65536 / 16 % 16, n / 65536 % 16,
      n % 65536 / 4096 % 16, n % 65536 / 256 % 16, n % 65536 / 16 % 16, n % 65536 % 16]
    (by intro d hd; simp at hd; omega) (by simp) 0 rest
  simp only [List.length_cons, List.length_nil, List.map_cons, List.map_nil, List.foldl_cons, List.foldl_nil] at this
  have e : (((((((0 * 16 + n / 65536 / 4096 % 16) * 16 + n / 65536 / 256 % 16) * 16 + n / 65536 / 16 % 16) * 16 + n / 65536 % 16) * 16 +
      n % 65536 / 4096 % 16) * 16 + n % 65536 / 256 % 16) * 16 + n % 65536 / 16 % 16) * 16 + n % 65536 % 16 = n := by omega
  rw [e] at this
  simpa [hex8, hex4, hexFinish, hv] using this

theorem validRune_char (c : Char) : validRune c.toNat = true := by
  have h := c.valid
  simp only [validRune, Bool.or_eq_true, Bool.and_eq_true, decide_eq_true_eq]
  simp only [Char.toNat, UInt32.isValidChar, Nat.isValidChar] at h ⊢
  omega

theorem char_lt (c : Char) : c.toNat < 4294967296 := by
  have := validRune_char c
  simp only [validRune, Bool.or_eq_true, Bool.and_eq_true, decide_eq_true_eq] at this
  omega

/-! ### `strconv.Quote` read by Unquote -/

/-- one quoted rune is read back as that rune -/
theorem uqLoop_quoteRune (ip : Nat → Bool) (hp : ip 10 = false) (c : Char) (rest : Str) :
    uqLoop .norm (quoteRune ip (.ch c) ++ rest) = (uqLoop .norm rest).map (Piece.ch c :: ·) := by
  have hc : Char.ofNat c.toNat = c := Char.ofNat_toNat c
  unfold quoteRune
  simp only
  by_cases h1 : c.toNat = 34 ∨ c.toNat = 92
  · rcases h1 with h | h
    · obtain rfl : c = Char.ofNat 34 := char_eq_of_toNat h
      simp [uqLoop, uqStep, bs]
      cases uqLoop UQ.norm rest <;> rfl
    · obtain rfl : c = Char.ofNat 92 := char_eq_of_toNat h
      simp [uqLoop, uqStep, bs]
      cases uqLoop UQ.norm rest <;> rfl
  · have h34 : c.toNat ≠ 34 := fun h => h1 (Or.inl h)
    have h92 : c.toNat ≠ 92 := fun h => h1 (Or.inr h)
    simp only [h1, if_false]
    by_cases hpr : ip c.toNat = true
    · have h10 : c.toNat ≠ 10 := by intro h; rw [h, hp] at hpr; exact absurd hpr (by simp)
      simp [hpr, uqLoop, uqStep, h34, h92, h10]
    · simp only [hpr, if_false, Bool.false_eq_true]
      by_cases h7 : c.toNat = 7
      · obtain rfl : c = Char.ofNat 7 := char_eq_of_toNat h7
        simp [uqLoop, uqStep, bs]
        cases uqLoop UQ.norm rest <;> rfl
      by_cases h8 : c.toNat = 8
      · obtain rfl : c = Char.ofNat 8 := char_eq_of_toNat h8
        simp [uqLoop, uqStep, bs]
        cases uqLoop UQ.norm rest <;> rfl
      by_cases h12 : c.toNat = 12
      · obtain rfl : c = Char.ofNat 12 := char_eq_of_toNat h12
        simp [uqLoop, uqStep, bs]
        cases uqLoop UQ.norm rest <;> rfl
      by_cases h10 : c.toNat = 10
      · obtain rfl : c = Char.ofNat 10 := char_eq_of_toNat h10
        simp [uqLoop, uqStep, bs]
        cases uqLoop UQ.norm rest <;> rfl
      by_cases h13 : c.toNat = 13
      · obtain rfl : c = Char.ofNat 13 := char_eq_of_toNat h13
        simp [uqLoop, uqStep, bs]
        cases uqLoop UQ.norm rest <;> rfl
      by_cases h9 : c.toNat = 9
      · obtain rfl : c = Char.ofNat 9 := char_eq_of_toNat h9
        simp [uqLoop, uqStep, bs]
        cases uqLoop UQ.norm rest <;> rfl
      by_cases h11 : c.toNat = 11
      · obtain rfl : c = Char.ofNat 11 := char_eq_of_toNat h11
        simp [uqLoop, uqStep, bs]
        cases uqLoop UQ.norm rest <;> rfl
      simp only [h7, h8, h12, h10, h13, h9, h11, if_false]
      by_cases hx : c.toNat < 32 ∨ c.toNat = 127
      · have hlt : c.toNat < 256 := by omega
        have hb : bytePiece c.toNat = Piece.ch c := by
          have : c.toNat < 128 := by omega
          simp [bytePiece, this, hc]
        simp only [hx, if_true, List.cons_append]
        simp only [uqLoop, uqStep, bs, Rune.cp_ch]
        simp [uqLoop_hex2 c.toNat hlt rest, hb]
        cases uqLoop UQ.norm rest <;> rfl
      · simp only [hx, if_false]
        by_cases hu : c.toNat < 65536
        · simp only [hu, if_true, List.cons_append]
          simp only [uqLoop, uqStep, bs, Rune.cp_ch]
          simp [uqLoop_hex4 c.toNat hu (validRune_char c) rest, hc]
          cases uqLoop UQ.norm rest <;> rfl
        · simp only [hu, if_false, List.cons_append]
          simp only [uqLoop, uqStep, bs, Rune.cp_ch]
          simp [uqLoop_hex8 c.toNat (char_lt c) (validRune_char c) rest, hc]
          cases uqLoop UQ.norm rest <;> rfl

theorem uqLoop_quoteBody (ip : Nat → Bool) (hp : ip 10 = false) (cs : List Char) :
    uqLoop .norm (quoteBody ip (ofChars cs) ++ [dq]) = some (cs.map Piece.ch) := by
  induction cs with
  | nil => simp [ofChars, quoteBody, uqLoop, uqStep, dq]
  | cons c cs ih =>
    simp only [ofChars, List.map_cons, quoteBody, List.append_assoc] at ih ⊢
    rw [uqLoop_quoteRune ip hp c, ih]
    simp

theorem unquote_quote (ip : Nat → Bool) (hp : ip 10 = false) (cs : List Char) :
    unquote (quote ip (ofChars cs)) = some (ofChars cs) := by
  have h := uqLoop_quoteBody ip hp cs
  simp only [unquote, quote, dq, Rune.cp_ch] at h ⊢
  simp [h, assemble_chars]

end AM.Mt
