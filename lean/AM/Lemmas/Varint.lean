/-
  Lemmas about the varint framing of AM.Model.Snapshot.
-/
import AM.Model.Snapshot

namespace AM.Snapshot

theorem encodeVarint_small {n : Nat} (h : n < 128) : encodeVarint n = [n] := by
  rw [encodeVarint]; simp [h]

theorem encodeVarint_big {n : Nat} (h : ¬ n < 128) :
    encodeVarint n = (n % 128 + 128) :: encodeVarint (n / 128) := by
  rw [encodeVarint]; simp [h]

/-- every emitted byte is a byte -/
theorem encodeVarint_lt (n : Nat) : ∀ b ∈ encodeVarint n, b < 256 := by
  induction n using encodeVarint.induct with
  | case1 n h => rw [encodeVarint_small h]; intro b hb; simp at hb; omega
  | case2 n h ih =>
    rw [encodeVarint_big h]; intro b hb
    simp at hb
    rcases hb with hb | hb
    · omega
    · exact ih b hb

/-- shape: continuation bytes then one final byte -/
theorem encodeVarint_shape (n : Nat) :
    ∃ init last, encodeVarint n = init ++ [last] ∧ (∀ b ∈ init, 128 ≤ b) ∧ last < 128 := by
  induction n using encodeVarint.induct with
  | case1 n h => exact ⟨[], n, by rw [encodeVarint_small h]; simp, by simp, h⟩
  | case2 n h ih =>
    obtain ⟨init, last, he, hi, hl⟩ := ih
    refine ⟨(n % 128 + 128) :: init, last, by rw [encodeVarint_big h, he]; simp, ?_, hl⟩
    intro b hb
    simp at hb
    rcases hb with hb | hb
    · omega
    · exact hi b hb

theorem encodeVarint_ne_nil (n : Nat) : encodeVarint n ≠ [] := by
  obtain ⟨i, l, h, _, _⟩ := encodeVarint_shape n
  rw [h]; simp

/-- a run of continuation bytes never decodes (truncated, or more than ten bytes) -/
theorem readVarint_high (k : Nat) (q : Bytes) (h : ∀ b ∈ q, 128 ≤ b) : readVarint k q = none := by
  induction q generalizing k with
  | nil => cases k <;> simp [readVarint]
  | cons b q ih =>
    cases k with
    | zero => simp [readVarint]
    | succ k =>
      have hb : ¬ b < 128 := by have := h b (by simp); omega
      have := ih k (fun x hx => h x (by simp [hx]))
      simp [readVarint, hb, this]

/-- reading back an encoded size: `k` bytes suffice when `n < 2·128^(k-1)`
    (for `k = 10` that is `n < 2^64`, every `uint64`). -/
theorem readVarint_encode (k n : Nat) (rest : Bytes) (hn : n < 2 * 128 ^ k) :
    readVarint (k + 1) (encodeVarint n ++ rest) = some (n, rest) := by
  induction k generalizing n with
  | zero =>
    have h : n < 128 := by omega
    rw [encodeVarint_small h]
    have : ¬ 2 ≤ n := by omega
    simp [readVarint, h, this]
  | succ k ih =>
    by_cases h : n < 128
    · rw [encodeVarint_small h]
      simp [readVarint, h]
    · rw [encodeVarint_big h]
      have hdiv : n / 128 < 2 * 128 ^ k := by
        have : 2 * 128 ^ (k + 1) = 128 * (2 * 128 ^ k) := by rw [Nat.pow_succ]; omega
        omega
      have hb : ¬ (n % 128 + 128 < 128) := by omega
      simp only [List.cons_append, readVarint, hb, if_false, ih (n / 128) hdiv]
      congr 2
      omega

theorem varint_roundtrip (n : Nat) (rest : Bytes) (hn : n < 2 ^ 64) :
    readVarint 10 (encodeVarint n ++ rest) = some (n, rest) := by
  apply readVarint_encode 9 n rest
  have : (2:Nat) * 128 ^ 9 = 2 ^ 64 := by decide
  omega

end AM.Snapshot
