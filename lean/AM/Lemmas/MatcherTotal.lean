/-
  C16 `parsers_total`: none of the `panic(...)` sites of parse.go is reachable and
  the parser automaton always stops within its fuel `3·|input| + 6`.
-/
import AM.Lemmas.MatcherBasic

namespace AM.Mt
open AM

/-! ### the lexer consumes input -/

theorem tot_dropWhile_le (p : Rune → Bool) (l : Str) : (l.dropWhile p).length ≤ l.length := by
  induction l with
  | nil => simp
  | cons a l ih =>
    simp only [List.dropWhile_cons]
    split
    · simp only [List.length_cons]; omega
    · simp

theorem tot_sqb_length : ∀ (s : Str) (b : Bool) (body r : Str),
    scanQuotedBody b s = some (body, r) → r.length < s.length := by
  intro s
  induction s with
  | nil => intro b body r h; simp [scanQuotedBody] at h
  | cons x rest ih =>
    intro b body r h
    have key : ∀ b', Option.map (fun p : Str × Str => (x :: p.1, p.2)) (scanQuotedBody b' rest) = some (body, r) →
        r.length < (x :: rest).length := by
      intro b' h'
      simp only [Option.map_eq_some_iff] at h'
      obtain ⟨⟨b1, r1⟩, h1, h2⟩ := h'
      simp only [Prod.mk.injEq] at h2
      obtain ⟨_, rfl⟩ := h2
      have := ih _ _ _ h1
      simp only [List.length_cons]; omega
    cases b with
    | true =>
      simp only [scanQuotedBody] at h
      exact key _ h
    | false =>
      simp only [scanQuotedBody] at h
      split at h
      · exact key _ h
      · split at h
        · simp only [Option.some.injEq, Prod.mk.injEq] at h
          obtain ⟨_, rfl⟩ := h
          simp
        · exact key _ h

theorem tot_scan_length : ∀ (s : Str) (t : Token) (r : Str), scan s = .ok (t, r) →
    r.length ≤ s.length ∧ (t.kind ≠ .eof → r.length < s.length) := by
  intro s
  induction s with
  | nil =>
    intro t r h
    simp only [scan, Except.ok.injEq, Prod.mk.injEq] at h
    obtain ⟨rfl, rfl⟩ := h
    simp
  | cons x rest ih =>
    intro t r h
    simp only [scan] at h
    split at h
    · simp only [Except.ok.injEq, Prod.mk.injEq] at h
      obtain ⟨_, rfl⟩ := h
      simp
    · split at h
      · simp only [Except.ok.injEq, Prod.mk.injEq] at h
        obtain ⟨_, rfl⟩ := h
        simp
      · split at h
        · simp only [Except.ok.injEq, Prod.mk.injEq] at h
          obtain ⟨_, rfl⟩ := h
          simp
        · split at h
          · -- '!'
            split at h
            · split at h
              · simp only [Except.ok.injEq, Prod.mk.injEq] at h
                obtain ⟨_, rfl⟩ := h
                simp only [List.length_cons]; omega
              · split at h
                · simp only [Except.ok.injEq, Prod.mk.injEq] at h
                  obtain ⟨_, rfl⟩ := h
                  simp only [List.length_cons]; omega
                · simp at h
            · simp at h
          · split at h
            · -- '='
              split at h
              · split at h
                · simp only [Except.ok.injEq, Prod.mk.injEq] at h
                  obtain ⟨_, rfl⟩ := h
                  simp only [List.length_cons]; omega
                · simp only [Except.ok.injEq, Prod.mk.injEq] at h
                  obtain ⟨_, rfl⟩ := h
                  simp
              · simp only [Except.ok.injEq, Prod.mk.injEq] at h
                obtain ⟨_, rfl⟩ := h
                simp
            · split at h
              · -- quoted
                split at h
                · rename_i body rest' hq
                  simp only [Except.ok.injEq, Prod.mk.injEq] at h
                  obtain ⟨_, rfl⟩ := h
                  have := tot_sqb_length _ _ _ _ hq
                  simp only [List.length_cons]; omega
                · simp at h
              · split at h
                · simp only [Except.ok.injEq, Prod.mk.injEq] at h
                  obtain ⟨_, rfl⟩ := h
                  have := tot_dropWhile_le (fun x => !isReserved x.cp) rest
                  simp only [List.length_cons]; omega
                · split at h
                  · obtain ⟨h1, h2⟩ := ih _ _ h
                    simp only [List.length_cons]
                    exact ⟨by omega, fun hne => by have := h2 hne; omega⟩
                  · simp at h

/-! ### the peek/scan helpers -/

theorem tot_expectPeek_inv {rest : Str} {kinds : List TokKind} {t : Token}
    (h : expectPeek rest kinds = .ok t) :
    ∃ r, scan rest = .ok (t, r) ∧ t.kind ≠ .eof ∧ kinds.contains t.kind = true := by
  unfold expectPeek at h
  cases hs : scan rest with
  | error e => simp [hs] at h
  | ok x =>
    obtain ⟨t', r⟩ := x
    simp only [hs] at h
    split at h
    · simp at h
    · rename_i hne
      split at h
      · simp at h
      · rename_i hk
        simp only [Except.ok.injEq] at h
        subst h
        exact ⟨r, rfl, hne, by simpa using hk⟩

theorem tot_acceptPeek_inv {rest : Str} {kinds : List TokKind} {b : Bool}
    (h : acceptPeek rest kinds = .ok b) :
    ∃ t r, scan rest = .ok (t, r) ∧ t.kind ≠ .eof := by
  unfold acceptPeek at h
  cases hs : scan rest with
  | error e => simp [hs] at h
  | ok x =>
    obtain ⟨t', r⟩ := x
    simp only [hs] at h
    split at h
    · simp at h
    · rename_i hne
      exact ⟨t', r, rfl, hne⟩

theorem tot_expect_no_panic (rest : Str) (kinds : List TokKind) : expect rest kinds ≠ .panic := by
  unfold expect
  cases he : expectPeek rest kinds with
  | error e => simp
  | ok t =>
    obtain ⟨r, hs, _, _⟩ := tot_expectPeek_inv he
    simp [hs]

theorem tot_expect_inv {rest : Str} {kinds : List TokKind} {t : Token} {r : Str}
    (h : expect rest kinds = .ok (t, r)) :
    kinds.contains t.kind = true ∧ r.length < rest.length := by
  unfold expect at h
  cases he : expectPeek rest kinds with
  | error e => simp [he] at h
  | ok t' =>
    obtain ⟨r', hs, hne, hk⟩ := tot_expectPeek_inv he
    simp only [he, hs, R.ok.injEq, Prod.mk.injEq] at h
    obtain ⟨rfl, rfl⟩ := h
    exact ⟨hk, (tot_scan_length _ _ _ hs).2 hne⟩

theorem tot_accept_no_panic (rest : Str) (kinds : List TokKind) : accept rest kinds ≠ .panic := by
  unfold accept
  cases he : acceptPeek rest kinds with
  | error e => simp
  | ok b =>
    obtain ⟨t, r, hs, _⟩ := tot_acceptPeek_inv he
    cases b <;> simp [hs]

theorem tot_accept_length {rest : Str} {kinds : List TokKind} {b : Bool} {r : Str}
    (h : accept rest kinds = .ok (b, r)) : r.length ≤ rest.length := by
  unfold accept at h
  cases he : acceptPeek rest kinds with
  | error e => simp [he] at h
  | ok b' =>
    obtain ⟨t, r', hs, _⟩ := tot_acceptPeek_inv he
    cases b' with
    | false =>
      simp only [he, R.ok.injEq, Prod.mk.injEq] at h
      obtain ⟨_, rfl⟩ := h
      exact Nat.le_refl _
    | true =>
      simp only [he, hs, R.ok.injEq, Prod.mk.injEq] at h
      obtain ⟨_, rfl⟩ := h
      exact (tot_scan_length _ _ _ hs).1

/-! ### the automaton: no panic, and a decreasing measure -/

def totRank : PState → Nat
  | .eof => 0
  | .closeBrace => 1
  | .comma => 2
  | .endOfMatcher => 3
  | .matcher => 4
  | .openBrace => 5

def totMu (st : PState) (p : P) : Nat := 3 * p.rest.length + totRank st

/-- what a state function must satisfy -/
def TotGood (st : PState) (p : P) (r : Step) : Prop :=
  r ≠ .panic ∧ ∀ st' p', r = .next st' p' → totMu st' p' < totMu st p

theorem tot_good_err (st : PState) (p : P) (e : PErr) : TotGood st p (.err e) :=
  ⟨by simp, by intro st' p' h; simp at h⟩

theorem tot_good_done (st : PState) (p p1 : P) : TotGood st p (.done p1) :=
  ⟨by simp, by intro st' p' h; simp at h⟩

theorem tot_good_next (st st1 : PState) (p p1 : P) (h : totMu st1 p1 < totMu st p) :
    TotGood st p (.next st1 p1) := by
  refine ⟨by simp, ?_⟩
  intro st' p' h'
  simp only [Step.next.injEq] at h'
  obtain ⟨rfl, rfl⟩ := h'
  exact h

theorem tot_openBrace (p : P) : TotGood .openBrace p (parseOpenBrace p) := by
  unfold parseOpenBrace
  cases ha : accept p.rest [.openBrace] with
  | panic => exact absurd ha (tot_accept_no_panic _ _)
  | err e =>
    simp only
    split
    · exact tot_good_next _ _ _ _ (by simp [totMu, totRank])
    · exact tot_good_err _ _ _
  | ok x =>
    obtain ⟨has, rest⟩ := x
    have hl := tot_accept_length ha
    simp only
    cases hp : acceptPeek rest [.closeBrace] with
    | error e =>
      simp only
      split
      · exact tot_good_next _ _ _ _ (by simp only [totMu, totRank]; omega)
      · exact tot_good_err _ _ _
    | ok b =>
      cases b
      · exact tot_good_next _ _ _ _ (by simp only [totMu, totRank]; omega)
      · exact tot_good_next _ _ _ _ (by simp only [totMu, totRank]; omega)

theorem tot_closeBrace (p : P) : TotGood .closeBrace p (parseCloseBrace p) := by
  unfold parseCloseBrace
  cases he : expect p.rest [.closeBrace] with
  | panic => exact absurd he (tot_expect_no_panic _ _)
  | err e =>
    split
    · exact tot_good_err _ _ _
    · exact tot_good_next _ _ _ _ (by simp only [totMu, totRank]; omega)
  | ok x =>
    obtain ⟨t, rest⟩ := x
    have hl := (tot_expect_inv he).2
    split
    · exact tot_good_next _ _ _ _ (by simp only [totMu, totRank]; omega)
    · exact tot_good_err _ _ _

theorem tot_endOfMatcher (p : P) : TotGood .endOfMatcher p (parseEndOfMatcher p) := by
  unfold parseEndOfMatcher
  cases he : expectPeek p.rest [.comma, .closeBrace] with
  | error e =>
    simp only
    split
    · exact tot_good_next _ _ _ _ (by simp only [totMu, totRank]; omega)
    · exact tot_good_err _ _ _
  | ok t =>
    obtain ⟨r, _, _, hk⟩ := tot_expectPeek_inv he
    simp only
    split
    · exact tot_good_next _ _ _ _ (by simp only [totMu, totRank]; omega)
    · split
      · exact tot_good_next _ _ _ _ (by simp only [totMu, totRank]; omega)
      · rename_i h1 h2
        simp at hk
        cases hk with
        | inl h => exact absurd h h1
        | inr h => exact absurd h h2

theorem tot_comma (p : P) : TotGood .comma p (parseComma p) := by
  unfold parseComma
  cases he : expect p.rest [.comma] with
  | panic => exact absurd he (tot_expect_no_panic _ _)
  | err e => exact tot_good_err _ _ _
  | ok x =>
    obtain ⟨t, rest⟩ := x
    have hl := (tot_expect_inv he).2
    simp only
    cases hp : expectPeek rest [.closeBrace, .unquoted, .quoted] with
    | error e =>
      simp only
      split
      · exact tot_good_next _ _ _ _ (by simp only [totMu, totRank]; omega)
      · exact tot_good_err _ _ _
    | ok t' =>
      simp only
      split
      · exact tot_good_next _ _ _ _ (by simp only [totMu, totRank]; omega)
      · exact tot_good_next _ _ _ _ (by simp only [totMu, totRank]; omega)

theorem tot_eof (p : P) : TotGood .eof p (parseEOF p) := by
  unfold parseEOF
  cases hs : scan p.rest with
  | error e => exact tot_good_err _ _ _
  | ok x =>
    obtain ⟨t, r⟩ := x
    simp only
    split
    · exact tot_good_done _ _ _
    · exact tot_good_err _ _ _

theorem tot_opOfKind {k : TokKind}
    (h : [TokKind.equals, .notEquals, .matches, .notMatches].contains k = true) :
    ∃ op, opOfKind k = some op := by
  cases k <;> simp at h <;> exact ⟨_, rfl⟩

theorem tot_matcher (compiles : Str → Bool) (p : P) :
    TotGood .matcher p (parseMatcher compiles p) := by
  unfold parseMatcher
  cases h1 : expect p.rest [.quoted, .unquoted] with
  | panic => exact absurd h1 (tot_expect_no_panic _ _)
  | err e => exact tot_good_err _ _ _
  | ok x1 =>
    obtain ⟨t1, r1⟩ := x1
    have l1 := (tot_expect_inv h1).2
    simp only
    cases hu1 : t1.unquote with
    | none => exact tot_good_err _ _ _
    | some name =>
      simp only
      cases h2 : expect r1 [.equals, .notEquals, .matches, .notMatches] with
      | panic => exact absurd h2 (tot_expect_no_panic _ _)
      | err e => exact tot_good_err _ _ _
      | ok x2 =>
        obtain ⟨t2, r2⟩ := x2
        obtain ⟨k2, l2⟩ := tot_expect_inv h2
        obtain ⟨op, hop⟩ := tot_opOfKind k2
        simp only [hop]
        cases h3 : expect r2 [.unquoted, .quoted] with
        | panic => exact absurd h3 (tot_expect_no_panic _ _)
        | err e => exact tot_good_err _ _ _
        | ok x3 =>
          obtain ⟨t3, r3⟩ := x3
          have l3 := (tot_expect_inv h3).2
          simp only
          cases hu3 : t3.unquote with
          | none => exact tot_good_err _ _ _
          | some value =>
            simp only
            cases hm : newMatcher compiles op name value with
            | error e => exact tot_good_err _ _ _
            | ok m =>
              exact tot_good_next _ _ _ _ (by simp only [totMu, totRank]; omega)

theorem tot_step (compiles : Str → Bool) (st : PState) (p : P) :
    TotGood st p (step compiles st p) := by
  cases st
  · exact tot_openBrace p
  · exact tot_closeBrace p
  · exact tot_matcher compiles p
  · exact tot_endOfMatcher p
  · exact tot_comma p
  · exact tot_eof p

theorem tot_run_succ (compiles : Str → Bool) (fuel : Nat) (s : PState) (p : P) :
    run compiles (fuel + 1) s p =
      match step compiles s p with
      | .panic => .panic
      | .err e => .err (toErr e)
      | .done p' => .ok p'.ms
      | .next s' p' => run compiles fuel s' p' := rfl

theorem tot_run_no_panic (compiles : Str → Bool) :
    ∀ (fuel : Nat) (st : PState) (p : P), run compiles fuel st p ≠ .panic := by
  intro fuel
  induction fuel with
  | zero => intro st p; simp [run]
  | succ n ih =>
    intro st p
    rw [tot_run_succ]
    have hg := tot_step compiles st p
    cases hs : step compiles st p with
    | panic => exact absurd hs hg.1
    | err e => simp
    | done p' => simp
    | next s' p' => exact ih s' p'

theorem tot_run_no_fuel (compiles : Str → Bool) :
    ∀ (fuel : Nat) (st : PState) (p : P), totMu st p < fuel → run compiles fuel st p ≠ .fuel := by
  intro fuel
  induction fuel with
  | zero => intro st p h; omega
  | succ n ih =>
    intro st p h
    rw [tot_run_succ]
    have hg := tot_step compiles st p
    cases hs : step compiles st p with
    | panic => simp
    | err e => simp
    | done p' => simp
    | next s' p' =>
      have := hg.2 s' p' hs
      exact ih s' p' (by omega)

/-- none of the `panic(...)` sites of parse.go is reachable, and the automaton stops within its fuel -/
theorem utf8Matchers_total (compiles : Str → Bool) (s : Str) :
    utf8Matchers compiles s ≠ .panic ∧ utf8Matchers compiles s ≠ .fuel := by
  unfold utf8Matchers
  refine ⟨tot_run_no_panic compiles _ _ _, tot_run_no_fuel compiles _ _ _ ?_⟩
  simp only [totMu, totRank, parseFuel]
  omega

theorem utf8Matcher_total (compiles : Str → Bool) (s : Str) :
    utf8Matcher compiles s ≠ .panic ∧ utf8Matcher compiles s ≠ .fuel := by
  obtain ⟨h1, h2⟩ := utf8Matchers_total compiles s
  unfold utf8Matcher
  cases h : utf8Matchers compiles s with
  | panic => exact absurd h h1
  | fuel => exact absurd h h2
  | err e => simp
  | ok ms =>
    cases ms with
    | nil => simp
    | cons m tl => cases tl <;> simp

end AM.Mt
