/-
  C16 helper lemmas: character classes, valid strings, the printed form.
-/
import AM.Model.MatcherCompat

namespace AM.Mt
open AM

/-! ### characters -/

theorem char_eq_of_toNat {c : Char} {n : Nat} (h : c.toNat = n) : c = Char.ofNat n := by
  rw [← h, Char.ofNat_toNat]

theorem rune_eq_of_cp {c : Char} {n : Nat} (h : (Rune.ch c).cp = n) : Rune.ch c = .ch (Char.ofNat n) := by
  rw [char_eq_of_toNat h]

theorem valid_exists_chars {s : Str} (h : Valid s) : ∃ cs : List Char, s = ofChars cs := by
  induction s with
  | nil => exact ⟨[], rfl⟩
  | cons r rest ih =>
    rw [valid_cons] at h
    obtain ⟨cs, hcs⟩ := ih h.2
    cases r with
    | ch c => exact ⟨c :: cs, by simp [ofChars, hcs]⟩
    | bad b => simp at h

theorem valid_ofChars (cs : List Char) : Valid (ofChars cs) := by
  intro r hr
  simp [ofChars] at hr
  obtain ⟨c, _, rfl⟩ := hr
  rfl

theorem nameStart_nameChar {n : Nat} (h : isNameStart n = true) : isNameChar n = true := by
  simp [isNameChar, h]

theorem nameChar_not_reserved {n : Nat} (h : isNameChar n = true) : isReserved n = false := by
  simp only [isNameChar, isNameStart, Bool.or_eq_true, Bool.and_eq_true, decide_eq_true_eq, beq_iff_eq] at h
  simp only [isReserved, isSpaceU, Bool.or_eq_false_iff, Bool.and_eq_false_iff, beq_eq_false_iff_ne, decide_eq_false_iff_not]
  omega

theorem nameChar_not_reSpace {n : Nat} (h : isNameChar n = true) : isReSpace n = false := by
  simp only [isNameChar, isNameStart, Bool.or_eq_true, Bool.and_eq_true, decide_eq_true_eq, beq_iff_eq] at h
  simp only [isReSpace, Bool.or_eq_false_iff, beq_eq_false_iff_ne]
  omega

theorem reserved_of_cp {n : Nat} (h : n = 123 ∨ n = 125 ∨ n = 33 ∨ n = 61 ∨ n = 126 ∨ n = 44 ∨ n = 92 ∨ n = 34 ∨ n = 39 ∨ n = 96) :
    isReserved n = true := by
  simp only [isReserved, Bool.or_eq_true, beq_iff_eq]
  omega

/-- a classic name: non-empty, all name characters, first one not a digit -/
theorem classicName_spec {s : Str} (h : classicName s = true) :
    ∃ r rest, s = r :: rest ∧ isNameStart r.cp = true ∧ ∀ x ∈ s, isNameChar x.cp = true := by
  cases s with
  | nil => simp [classicName] at h
  | cons r rest =>
    simp only [classicName, Bool.and_eq_true, List.all_eq_true] at h
    refine ⟨r, rest, rfl, h.1, ?_⟩
    intro x hx
    cases hx with
    | head => exact nameStart_nameChar h.1
    | tail _ hx => exact h.2 x hx

theorem classicName_no_reserved {s : Str} (h : classicName s = true) : hasReserved s = false := by
  obtain ⟨_, _, _, _, hall⟩ := classicName_spec h
  simp only [hasReserved, List.any_eq_false]
  intro x hx
  simp [nameChar_not_reserved (hall x hx)]

/-- the operator text starts with a reserved, non-name, non-space character -/
theorem op_str_head (op : Op) : ∃ a tl, op.str = Rune.ch a :: tl ∧ (a.toNat = 61 ∨ a.toNat = 33) := by
  cases op
  · exact ⟨'=', [], rfl, Or.inl (by decide)⟩
  · exact ⟨'!', _, rfl, Or.inr (by decide)⟩
  · exact ⟨'=', _, rfl, Or.inl (by decide)⟩
  · exact ⟨'!', _, rfl, Or.inr (by decide)⟩

theorem trimRight_concat (p : Rune → Bool) (xs : Str) (q : Rune) (h : p q = false) :
    trimRight p (xs ++ [q]) = xs ++ [q] := by
  simp [trimRight, List.reverse_append, h]

/-! ### OpenMetrics escaping -/

theorem valid_omEscape {s : Str} (h : Valid s) : Valid (omEscape s) := by
  induction s with
  | nil => simp [omEscape]
  | cons r rest ih =>
    rw [valid_cons] at h
    unfold omEscape
    split
    · simp [valid_cons, bs, ih h.2]
    · split
      · simp [valid_cons, bs, ih h.2]
      · split
        · simp [valid_cons, bs, dq, ih h.2]
        · simp [valid_cons, h.1, ih h.2]

end AM.Mt
