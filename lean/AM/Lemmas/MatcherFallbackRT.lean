/-
  C16: on the printed form of a matcher whose name is NOT a classic label name
  the classic parser fails, and the printed form never trips the brace guard —
  so the fallback parser returns what the UTF-8 parser returns.
-/
import AM.Lemmas.MatcherClassicRT

namespace AM.Mt
open AM

set_option linter.unusedSimpArgs false

theorem not_reserved_not_reSpace {n : Nat} (h : isReserved n = false) : isReSpace n = false := by
  simp only [isReserved, isSpaceU, Bool.or_eq_false_iff, beq_eq_false_iff_ne] at h
  simp only [isReSpace, Bool.or_eq_false_iff, beq_eq_false_iff_ne]
  omega

theorem split_first (p : Rune → Bool) (l : Str) :
    (∀ y ∈ l, p y = true) ∨ ∃ pre x post, l = pre ++ x :: post ∧ (∀ y ∈ pre, p y = true) ∧ p x = false := by
  induction l with
  | nil => left; simp
  | cons a l ih =>
    by_cases ha : p a = true
    · rcases ih with h | ⟨pre, x, post, hl, hpre, hx⟩
      · left; intro y hy
        cases hy with
        | head => exact ha
        | tail _ hy => exact h y hy
      · right
        refine ⟨a :: pre, x, post, by simp [hl], ?_, hx⟩
        intro y hy
        cases hy with
        | head => exact ha
        | tail _ hy => exact hpre y hy
    · right
      exact ⟨[], a, l, rfl, by simp, by simpa using ha⟩

/-- the regexp does not match `name op …` when `name` has no reserved rune and is not a classic name -/
theorem classicScan_nonclassic (name : Str) (op : Op) (X : Str) (hne : name ≠ [])
    (hres : ∀ x ∈ name, isReserved x.cp = false) (hnc : classicName name = false) :
    classicScan (name ++ (op.str ++ X)) = none := by
  obtain ⟨a, tl, hop, ha⟩ := op_str_head op
  have hopNotName : isNameChar a.toNat = false := by
    rcases ha with h | h <;> simp [isNameChar, isNameStart, h]
  cases name with
  | nil => exact absurd rfl hne
  | cons r name' =>
    have hr : isReSpace r.cp = false := not_reserved_not_reSpace (hres r (by simp))
    have h1 : List.dropWhile (fun r => isReSpace r.cp) (r :: name' ++ (op.str ++ X)) = r :: name' ++ (op.str ++ X) := by
      simp [List.dropWhile_cons, hr]
    rcases split_first (fun y => isNameChar y.cp) (r :: name') with hall | ⟨pre, x, post, hl, hpre, hx⟩
    · -- every rune is a name character: the first one must be a digit
      have hstart : isNameStart r.cp = false := by
        simp only [classicName, Bool.and_eq_false_iff] at hnc
        rcases hnc with h | h
        · exact h
        · exfalso
          simp only [List.all_eq_false] at h
          obtain ⟨y, hy, hny⟩ := h
          exact hny (hall y (by simp [hy]))
      have h2 : List.takeWhile (fun r => isNameChar r.cp) (r :: name' ++ (op.str ++ X)) = r :: name' := by
        rw [List.takeWhile_append_of_pos hall, hop]
        simp [List.takeWhile_cons, hopNotName]
      unfold classicScan
      simp only [h1, h2]
      simp [hstart]
    · -- some rune of the name is neither a name character nor reserved
      have hxres : isReserved x.cp = false := hres x (by rw [hl]; simp)
      have hxsp : isReSpace x.cp = false := not_reserved_not_reSpace hxres
      have hxop : x.cp ≠ 61 ∧ x.cp ≠ 33 := by
        simp only [isReserved, Bool.or_eq_false_iff, beq_eq_false_iff_ne] at hxres
        omega
      have e : r :: name' ++ (op.str ++ X) = pre ++ (x :: (post ++ (op.str ++ X))) := by
        rw [hl]; simp
      have h2 : List.takeWhile (fun r => isNameChar r.cp) (pre ++ (x :: (post ++ (op.str ++ X)))) = pre := by
        rw [List.takeWhile_append_of_pos hpre]
        simp [List.takeWhile_cons, hx]
      have h3 : List.dropWhile (fun r => isNameChar r.cp) (pre ++ (x :: (post ++ (op.str ++ X)))) = x :: (post ++ (op.str ++ X)) := by
        rw [List.dropWhile_append_of_pos hpre]
        simp [List.dropWhile_cons, hx]
      have h4 : List.dropWhile (fun r => isReSpace r.cp) (x :: (post ++ (op.str ++ X))) = x :: (post ++ (op.str ++ X)) := by
        simp [List.dropWhile_cons, hxsp]
      have h5 : scanOp (x :: (post ++ (op.str ++ X))) = none := by
        simp [scanOp, hxop.1, hxop.2]
      unfold classicScan
      rw [e] at h1 ⊢
      simp only [h1, h2, h3, h4, h5]
      cases pre with
      | nil => rfl
      | cons q _ => by_cases hq : isNameStart q.cp = true <;> simp [hq]

theorem classicScan_quoted (X : Str) : classicScan (dq :: X) = none := by
  unfold classicScan
  simp [List.dropWhile_cons, List.takeWhile_cons, dq, isReSpace, isNameChar, isNameStart]

/-- `labels.ParseMatcher` rejects the printed form of a matcher whose name is not classic -/
theorem classicMatcher_print_nonclassic (ip : Nat → Bool) (compiles : Str → Bool) (m : Matcher)
    (hnc : classicName m.name = false) : classicMatcher compiles (print ip m) = .error .syntax := by
  unfold print
  split
  · simp only [quote, List.cons_append, classicMatcher, classicScan_quoted]
  · rename_i hcond
    simp only [Bool.or_eq_true, not_or, Bool.not_eq_true] at hcond
    obtain ⟨hne, hres⟩ := hcond
    have hne' : m.name ≠ [] := by
      intro h; rw [h] at hne; simp at hne
    have hall : ∀ x ∈ m.name, isReserved x.cp = false := by
      simpa [hasReserved] using hres
    rw [List.append_assoc]
    simp only [classicMatcher, classicScan_nonclassic m.name m.op _ hne' hall hnc]

/-- the printed form ends with '"' and starts with '"' or an unreserved rune: no brace guard -/
theorem print_no_brace_guard (ip : Nat → Bool) (m : Matcher) :
    (hasBracePrefix (print ip m) || hasBraceSuffix (print ip m)) = false := by
  have hsuf : ∃ Y, print ip m = Y ++ [dq] := by
    unfold print
    split
    · exact ⟨quote ip m.name ++ m.op.str ++ (dq :: quoteBody ip m.value), by simp [quote]⟩
    · exact ⟨m.name ++ m.op.str ++ (dq :: omEscape m.value), by simp⟩
  have hpre : hasBracePrefix (print ip m) = false := by
    unfold print
    split
    · simp [quote, hasBracePrefix, dq]
    · rename_i hcond
      simp only [Bool.or_eq_true, not_or, Bool.not_eq_true] at hcond
      obtain ⟨hne, hres⟩ := hcond
      cases hn : m.name with
      | nil => rw [hn] at hne; simp at hne
      | cons r rest =>
        have : isReserved r.cp = false := by
          have hall : ∀ x ∈ m.name, isReserved x.cp = false := by simpa [hasReserved] using hres
          exact hall r (by simp [hn])
        have h123 : r.cp ≠ 123 := by
          simp only [isReserved, Bool.or_eq_false_iff, beq_eq_false_iff_ne] at this
          omega
        simp [hasBracePrefix, h123]
  obtain ⟨Y, hY⟩ := hsuf
  have hs : hasBraceSuffix (print ip m) = false := by
    rw [hY]
    simp [hasBraceSuffix, dq]
  simp [hpre, hs]

end AM.Mt
