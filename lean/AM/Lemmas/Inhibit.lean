/-
  Lemmas about the inhibitor model (AM.Model.Inhibit) used by AM.Props.C03:
  what `updateIndex` does to the index, the per-rule invariants, and the
  characterisation of `hasEqual` through the rule's source cache.
-/
import AM.Model.Inhibit
import AM.Base.AlertsMap

namespace AM.Inhibit
open AM AM.AList

/-! ### `updateIndex` -/

@[simp] theorem updateIndex_scache (rs : RS) (a : Alert) : (updateIndex rs a).scache = rs.scache := by
  unfold updateIndex
  split
  · rfl
  · split
    · rfl
    · split
      · rfl
      · split <;> rfl

@[simp] theorem updateIndex_rule (rs : RS) (a : Alert) : (updateIndex rs a).rule = rs.rule := by
  unfold updateIndex
  split
  · rfl
  · split
    · rfl
    · split
      · rfl
      · split <;> rfl

/-- `updateIndex` either leaves the index alone (then the alert's key was
    indexed already) or points the alert's key at the alert. -/
theorem updateIndex_sindex (rs : RS) (a : Alert) :
    ((updateIndex rs a).sindex = rs.sindex ∧ (lookup rs.sindex (rs.rule.eqKey a.labels)).isSome = true) ∨
    (updateIndex rs a).sindex = put rs.sindex (rs.rule.eqKey a.labels) a.labels := by
  unfold updateIndex
  cases h : lookup rs.sindex (rs.rule.eqKey a.labels) with
  | none => right; simp
  | some ix =>
    by_cases hix : ix = a.labels
    · left; simp [hix]
    · cases hc : lookup rs.scache ix with
      | none => right; simp [hix, hc]
      | some ex =>
        by_cases hr : ex.resolvedAt a.endsAt = true
        · right; simp [hix, hc, hr]
        · left; simp [hix, hc, hr]

theorem updateIndex_has_key (rs : RS) (a : Alert) :
    (lookup (updateIndex rs a).sindex (rs.rule.eqKey a.labels)).isSome = true := by
  rcases updateIndex_sindex rs a with ⟨h1, h2⟩ | h
  · rw [h1]; exact h2
  · rw [h]; simp

theorem updateIndex_mono (rs : RS) (a : Alert) (key : List String)
    (h : (lookup rs.sindex key).isSome = true) : (lookup (updateIndex rs a).sindex key).isSome = true := by
  rcases updateIndex_sindex rs a with ⟨h1, _⟩ | h'
  · rw [h1]; exact h
  · rw [h', lookup_put]; split <;> simp [h]

/-- index entries point at label sets having that key. -/
def IndexOK (r : Rule) (ix : AList (List String) Labels) : Prop :=
  ∀ key l, lookup ix key = some l → r.eqKey l = key

theorem updateIndex_indexOK (rs : RS) (a : Alert) (h : IndexOK rs.rule rs.sindex) :
    IndexOK rs.rule (updateIndex rs a).sindex := by
  rcases updateIndex_sindex rs a with ⟨h1, _⟩ | h'
  · rw [h1]; exact h
  · rw [h']; intro key l hl
    rw [lookup_put] at hl
    by_cases hk : rs.rule.eqKey a.labels = key
    · simp [hk] at hl; subst hl; exact hk
    · simp [hk] at hl; exact h key l hl

theorem foldl_updateIndex_scache (L : List Alert) (rs : RS) :
    (L.foldl updateIndex rs).scache = rs.scache ∧ (L.foldl updateIndex rs).rule = rs.rule := by
  induction L generalizing rs with
  | nil => simp
  | cons a L ih => simp [List.foldl_cons, ih]

theorem foldl_updateIndex_mono (L : List Alert) (rs : RS) (key : List String)
    (h : (lookup rs.sindex key).isSome = true) : (lookup (L.foldl updateIndex rs).sindex key).isSome = true := by
  induction L generalizing rs with
  | nil => simpa using h
  | cons a L ih => exact ih _ (updateIndex_mono rs a key h)

theorem foldl_updateIndex_has (L : List Alert) (rs : RS) (a : Alert) (ha : a ∈ L) :
    (lookup (L.foldl updateIndex rs).sindex (rs.rule.eqKey a.labels)).isSome = true := by
  induction L generalizing rs with
  | nil => simp at ha
  | cons b L ih =>
    rcases List.mem_cons.mp ha with rfl | hin
    · exact foldl_updateIndex_mono L _ _ (updateIndex_has_key rs a)
    · have := ih (updateIndex rs b) hin
      simpa using this

theorem foldl_updateIndex_indexOK (L : List Alert) (rs : RS) (h : IndexOK rs.rule rs.sindex) :
    IndexOK rs.rule (L.foldl updateIndex rs).sindex := by
  induction L generalizing rs with
  | nil => exact h
  | cons b L ih =>
    have := ih (updateIndex rs b) (by simpa using updateIndex_indexOK rs b h)
    simpa using this

/-! ### `dropKeys` -/

theorem dropKeys_indexOK (r : Rule) (ix : AList (List String) Labels) (dead : List Alert) (h : IndexOK r ix) :
    IndexOK r (dropKeys r ix dead) := by
  unfold dropKeys
  induction dead generalizing ix with
  | nil => exact h
  | cons d dead ih =>
    apply ih
    intro key l hl
    rw [lookup_erase] at hl
    by_cases hk : r.eqKey d.labels = key
    · simp [hk] at hl
    · simp [hk] at hl; exact h key l hl

theorem lookup_dropKeys (r : Rule) (ix : AList (List String) Labels) (dead : List Alert) (key : List String) :
    lookup (dropKeys r ix dead) key = if dead.any (fun d => r.eqKey d.labels == key) then none else lookup ix key := by
  unfold dropKeys
  induction dead generalizing ix with
  | nil => simp
  | cons d dead ih =>
    rw [List.foldl_cons, ih, lookup_erase]
    by_cases h1 : dead.any (fun d => r.eqKey d.labels == key) = true
    · simp [h1]
    · by_cases hk : r.eqKey d.labels = key <;> simp [h1, hk]

/-! ### cache GC -/

theorem mem_collected {now : Int} {c : AList Labels Alert} {d : Alert} (h : d ∈ collected now c) :
    ∃ k, (k, d) ∈ c ∧ d.resolvedAt now = true := by
  unfold collected at h
  obtain ⟨⟨k, d'⟩, hin, rfl⟩ := List.mem_map.mp h
  obtain ⟨h1, h2⟩ := List.mem_filter.mp hin
  exact ⟨k, h1, by simpa using h2⟩

theorem collected_of_mem {now : Int} {c : AList Labels Alert} {k : Labels} {d : Alert}
    (h : (k, d) ∈ c) (hr : d.resolvedAt now = true) : d ∈ collected now c := by
  unfold collected
  exact List.mem_map.mpr ⟨(k, d), List.mem_filter.mpr ⟨h, by simpa using hr⟩, rfl⟩

theorem lookup_survivors (now : Int) (c : AList Labels Alert) (hnd : NoDupKeys c) (k : Labels) :
    lookup (survivors now c) k =
      match lookup c k with
      | some a => if a.resolvedAt now then none else some a
      | none => none := by
  unfold survivors
  rw [lookup_filterVals _ _ hnd]
  cases lookup c k with
  | none => rfl
  | some a => by_cases h : a.resolvedAt now = true <;> simp [h]

end AM.Inhibit

namespace AM.Inhibit
open AM AM.AList

/-! ### invariants -/

/-- the latest-version map is keyed by the alerts' own label sets. -/
structure LatOK (lat : AList Labels Alert) : Prop where
  nd : NoDupKeys lat
  key : ∀ k a, lookup lat k = some a → a.labels = k

/-- shape of a rule's cache and index (no reference to the history). -/
structure Shape (rs : RS) : Prop where
  nd : NoDupKeys rs.scache
  key : ∀ k a, lookup rs.scache k = some a → a.labels = k
  ixok : IndexOK rs.rule rs.sindex

/-- every cached alert's equal-key has an index entry (repaired code). -/
def Indexed (rs : RS) : Prop :=
  ∀ k a, lookup rs.scache k = some a → (lookup rs.sindex (rs.rule.eqKey k)).isSome = true

/-- the cache holds exactly the latest versions of the source-side alerts,
    except resolved ones that a GC no later than `now` removed. -/
structure Tracks (lat : AList Labels Alert) (now : Int) (rs : RS) : Prop where
  sound : ∀ k a, lookup rs.scache k = some a → rs.rule.src k = true ∧ lookup lat k = some a
  complete : ∀ k a, lookup lat k = some a → rs.rule.src k = true → a.resolvedAt now = false →
    lookup rs.scache k = some a

/-- the `find?` over the cache values used by the fallback scan. -/
theorem find_vals_isSome {c : AList Labels Alert} (p : Alert → Bool) :
    ((c.map Prod.snd).find? p).isSome = true ↔ ∃ k a, (k, a) ∈ c ∧ p a = true := by
  rw [List.find?_isSome]
  constructor
  · rintro ⟨a, hin, hp⟩
    obtain ⟨⟨k, a'⟩, hin', rfl⟩ := List.mem_map.mp hin
    exact ⟨k, a', hin', hp⟩
  · rintro ⟨k, a, hin, hp⟩
    exact ⟨a, List.mem_map.mpr ⟨(k, a), hin, rfl⟩, hp⟩

/-- what the repaired `hasEqual` returns is a cached, usable source with the key of `ls`. -/
theorem hasEqual_sound (rs : RS) (now : Int) (ls l : Labels) (hs : Shape rs)
    (h : hasEqual rs now ls = some l) :
    ∃ a, lookup rs.scache l = some a ∧ usable rs.rule now (rs.rule.src ls) a = true ∧
      rs.rule.eqKey l = rs.rule.eqKey ls := by
  unfold hasEqual at h
  cases hix : lookup rs.sindex (rs.rule.eqKey ls) with
  | none => simp [hix] at h
  | some ix =>
    simp only [hix] at h
    have scan : ∀ l, (((rs.scache.map Prod.snd).find? fun a =>
        a.labels != ix && usable rs.rule now (rs.rule.src ls) a && rs.rule.eqKey a.labels == rs.rule.eqKey ls).map (·.labels)) = some l →
        ∃ a, lookup rs.scache l = some a ∧ usable rs.rule now (rs.rule.src ls) a = true ∧
          rs.rule.eqKey l = rs.rule.eqKey ls := by
      intro l hl
      obtain ⟨a, hf, rfl⟩ := Option.map_eq_some_iff.mp hl
      have hp := List.find?_some hf
      have hin := List.mem_of_find?_eq_some hf
      obtain ⟨⟨k, a'⟩, hin', rfl⟩ := List.mem_map.mp hin
      have hk := lookup_of_mem hs.nd hin'
      have hkey := hs.key k a' hk
      simp only [Bool.and_eq_true, beq_iff_eq] at hp
      refine ⟨a', ?_, hp.1.2, hp.2⟩
      simpa [hkey] using hk
    cases hc : lookup rs.scache ix with
    | none => simp only [hc] at h; exact scan l h
    | some a =>
      simp only [hc] at h
      by_cases hu : usable rs.rule now (rs.rule.src ls) a = true
      · simp only [hu, if_true] at h
        have hl : a.labels = l := by simpa using h
        have hkey := hs.key ix a hc
        subst hl
        refine ⟨a, by simpa [hkey] using hc, hu, ?_⟩
        rw [hkey]; exact hs.ixok _ _ hix
      · simp only [hu] at h; exact scan l h

/-- the repaired `hasEqual` finds a source whenever the cache holds a usable one with that key. -/
theorem hasEqual_complete (rs : RS) (now : Int) (ls : Labels) (hs : Shape rs) (hi : Indexed rs)
    (k : Labels) (a : Alert) (hk : lookup rs.scache k = some a)
    (hu : usable rs.rule now (rs.rule.src ls) a = true) (he : rs.rule.eqKey k = rs.rule.eqKey ls) :
    (hasEqual rs now ls).isSome = true := by
  have hkey := hs.key k a hk
  have hidx := hi k a hk
  rw [he] at hidx
  unfold hasEqual
  cases hix : lookup rs.sindex (rs.rule.eqKey ls) with
  | none => simp [hix] at hidx
  | some ix =>
    simp only [hix]
    have scanOK : ¬ (k = ix) → (((rs.scache.map Prod.snd).find? fun a =>
        a.labels != ix && usable rs.rule now (rs.rule.src ls) a && rs.rule.eqKey a.labels == rs.rule.eqKey ls).map (·.labels)).isSome = true := by
      intro hne
      rw [Option.isSome_map, find_vals_isSome]
      refine ⟨k, a, mem_of_lookup hk, ?_⟩
      simp [hkey, hne, hu, he]
    cases hc : lookup rs.scache ix with
    | none =>
      simp only
      apply scanOK
      intro hki; subst hki; rw [hk] at hc; cases hc
    | some a' =>
      simp only
      by_cases hu' : usable rs.rule now (rs.rule.src ls) a' = true
      · simp [hu']
      · simp only [hu']
        apply scanOK
        intro hki; subst hki; rw [hk] at hc; cases hc; exact hu' hu

end AM.Inhibit

namespace AM.Inhibit
open AM AM.AList

/-! ### preservation: `processAlert` -/

@[simp] theorem procRule_rule (a : Alert) (rs : RS) : (procRule a rs).rule = rs.rule := by
  unfold procRule; split <;> simp

theorem procRule_scache (a : Alert) (rs : RS) :
    (procRule a rs).scache = if rs.rule.src a.labels then put rs.scache a.labels a else rs.scache := by
  unfold procRule; split <;> simp

theorem procRule_shape (a : Alert) (rs : RS) (h : Shape rs) : Shape (procRule a rs) := by
  unfold procRule
  by_cases hs : rs.rule.src a.labels = true
  · simp only [hs, if_true]
    refine ⟨?_, ?_, ?_⟩
    · simpa using noDupKeys_put _ _ _ h.nd
    · intro k b hb
      simp only [updateIndex_scache, lookup_put] at hb
      by_cases hk : a.labels = k
      · simp [hk] at hb; subst hb; exact hk
      · simp [hk] at hb; exact h.key k b hb
    · have := updateIndex_indexOK { rs with scache := put rs.scache a.labels a } a h.ixok
      simpa using this
  · simpa [hs] using h

theorem procRule_indexed (a : Alert) (rs : RS) (h : Indexed rs) : Indexed (procRule a rs) := by
  unfold procRule
  by_cases hs : rs.rule.src a.labels = true
  · simp only [hs, if_true]
    intro k b hb
    simp only [updateIndex_scache, lookup_put] at hb
    simp only [updateIndex_rule]
    by_cases hk : a.labels = k
    · subst hk
      exact updateIndex_has_key { rs with scache := put rs.scache a.labels a } a
    · simp [hk] at hb
      exact updateIndex_mono { rs with scache := put rs.scache a.labels a } a _ (h k b hb)
  · simpa [hs] using h

theorem procRule_tracks (lat : AList Labels Alert) (now : Int) (a : Alert) (rs : RS)
    (h : Tracks lat now rs) : Tracks (put lat a.labels a) now (procRule a rs) := by
  by_cases hs : rs.rule.src a.labels = true
  · refine ⟨?_, ?_⟩
    · intro k b hb
      rw [procRule_scache] at hb
      simp only [hs, if_true, lookup_put] at hb
      rw [procRule_rule, lookup_put]
      by_cases hk : a.labels = k
      · simp [hk] at hb; subst hb; subst hk; simp [hs]
      · simp [hk] at hb; simpa [hk] using h.sound k b hb
    · intro k b hb hsrc hres
      rw [procRule_rule] at hsrc
      rw [procRule_scache]
      simp only [hs, if_true, lookup_put] at hb ⊢
      by_cases hk : a.labels = k
      · simpa [hk] using hb
      · simp [hk] at hb ⊢; exact h.complete k b hb hsrc hres
  · refine ⟨?_, ?_⟩
    · intro k b hb
      rw [procRule_scache] at hb
      simp only [hs] at hb
      rw [procRule_rule, lookup_put]
      have := h.sound k b hb
      have hk : a.labels ≠ k := by
        intro hk; subst hk; exact hs this.1
      simpa [hk] using this
    · intro k b hb hsrc hres
      rw [procRule_rule] at hsrc
      rw [procRule_scache]
      simp only [hs]
      have hk : a.labels ≠ k := by
        intro hk; subst hk; exact hs hsrc
      rw [lookup_put] at hb
      simp [hk] at hb
      simpa using h.complete k b hb hsrc hres

/-! ### preservation: cache GC -/

theorem gcRule_rule (g : Int) (rs : RS) : (gcRule g rs).rule = rs.rule := by
  unfold gcRule
  simp only
  split
  · rfl
  · exact (foldl_updateIndex_scache _ _).2

theorem gcRule_scache (g : Int) (rs : RS) : (gcRule g rs).scache = survivors g rs.scache := by
  unfold gcRule
  simp only
  split
  · rfl
  · exact (foldl_updateIndex_scache _ _).1

theorem gcRule_shape (g : Int) (rs : RS) (h : Shape rs) : Shape (gcRule g rs) := by
  refine ⟨?_, ?_, ?_⟩
  · rw [gcRule_scache]; exact noDupKeys_filterVals _ _ h.nd
  · intro k a ha
    rw [gcRule_scache, lookup_survivors _ _ h.nd] at ha
    cases hc : lookup rs.scache k with
    | none => simp [hc] at ha
    | some b =>
      simp only [hc] at ha
      by_cases hr : b.resolvedAt g = true
      · simp [hr] at ha
      · simp [hr] at ha; subst ha; exact h.key k b hc
  · rw [gcRule_rule]
    unfold gcRule
    simp only
    have hd := dropKeys_indexOK rs.rule rs.sindex (collected g rs.scache) h.ixok
    split
    · exact hd
    · exact foldl_updateIndex_indexOK _
        { rs with scache := survivors g rs.scache, sindex := dropKeys rs.rule rs.sindex (collected g rs.scache) } hd

theorem gcRule_indexed (g : Int) (rs : RS) (hs : Shape rs) (h : Indexed rs) : Indexed (gcRule g rs) := by
  intro k a ha
  rw [gcRule_scache] at ha
  rw [gcRule_rule]
  have ha' := ha
  rw [lookup_survivors _ _ hs.nd] at ha'
  cases hc : lookup rs.scache k with
  | none => simp [hc] at ha'
  | some b =>
    simp only [hc] at ha'
    by_cases hr : b.resolvedAt g = true
    · simp [hr] at ha'
    · simp [hr] at ha'; subst ha'
      unfold gcRule
      simp only
      by_cases hdead : (collected g rs.scache).isEmpty = true
      · simp only [hdead, if_true]
        have : collected g rs.scache = [] := by simpa using hdead
        rw [this]
        simpa [dropKeys] using h k b hc
      · simp only [hdead]
        have hkey := hs.key k b hc
        have hmem : b ∈ (survivors g rs.scache).map Prod.snd := List.mem_map.mpr ⟨(k, b), mem_of_lookup ha, rfl⟩
        have := foldl_updateIndex_has ((survivors g rs.scache).map Prod.snd)
          { rs with scache := survivors g rs.scache, sindex := dropKeys rs.rule rs.sindex (collected g rs.scache) } b hmem
        simpa [hkey] using this

theorem resolvedAt_mono {a : Alert} {g now : Int} (hg : g ≤ now) (h : a.resolvedAt now = false) :
    a.resolvedAt g = false := by
  unfold Alert.resolvedAt at *
  simp at *; omega

theorem gcRule_tracks (lat : AList Labels Alert) (now g : Int) (hg : g ≤ now) (rs : RS) (hs : Shape rs)
    (h : Tracks lat now rs) : Tracks lat now (gcRule g rs) := by
  refine ⟨?_, ?_⟩
  · intro k a ha
    rw [gcRule_scache, lookup_survivors _ _ hs.nd] at ha
    rw [gcRule_rule]
    cases hc : lookup rs.scache k with
    | none => simp [hc] at ha
    | some b =>
      simp only [hc] at ha
      by_cases hr : b.resolvedAt g = true
      · simp [hr] at ha
      · simp [hr] at ha; subst ha; exact h.sound k b hc
  · intro k a ha hsrc hres
    rw [gcRule_rule] at hsrc
    rw [gcRule_scache, lookup_survivors _ _ hs.nd, h.complete k a ha hsrc hres]
    simp [resolvedAt_mono hg hres]

end AM.Inhibit
