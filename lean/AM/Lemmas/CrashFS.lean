/-
  Closed form of the file-system state at every point of a snapshot's
  operation sequence, and directory lemmas (C11).
-/
import AM.Model.CrashFS

namespace AM.CrashFS
open AM.Snapshot (Bytes)

/-! ### directory -/

theorem Dir.get_erase (d : Dir) (p q : String) :
    (d.erase p).get q = if p = q then none else d.get q := by
  induction d with
  | nil => simp [Dir.erase, Dir.get]
  | cons hd tl ih =>
    obtain ⟨k, v⟩ := hd
    unfold Dir.erase
    by_cases h : k = p
    · subst h
      simp only [if_true, ih]
      by_cases h2 : k = q <;> simp [Dir.get, h2]
    · simp only [h, if_false, Dir.get, ih]
      by_cases h2 : k = q
      · subst h2; simp [Ne.symm h]
      · simp [h2]

theorem Dir.get_put (d : Dir) (p : String) (id : Nat) (q : String) :
    (d.put p id).get q = if p = q then some id else d.get q := by
  unfold Dir.put
  by_cases h : p = q
  · simp [Dir.get, h]
  · simp [Dir.get, h, Dir.get_erase]

/-! ### inode table -/

theorem modifyInode_last (I : List Inode) (x : Inode) (f : Inode → Inode) :
    modifyInode (I ++ [x]) I.length f = I ++ [f x] := by
  unfold modifyInode
  simp

theorem getElem?_append_some (I : List Inode) (x : Inode) (id : Nat) (ino : Inode)
    (h : I[id]? = some ino) : (I ++ [x])[id]? = some ino := by
  have hlt : id < I.length := by
    rcases Nat.lt_or_ge id I.length with h' | h'
    · exact h'
    · rw [List.getElem?_eq_none h'] at h; cases h
  rw [List.getElem?_append_left hlt]; exact h

/-! ### the states a snapshot run passes through -/

/-- state during/after the writes: fresh inode `n = |inodes|` holding `d`, `s` bytes of it synced -/
def during (fs0 : FS) (tmp : String) (d : Bytes) (s : Nat) (fd : Option (Nat × Nat)) (extra : List DirOp) : FS :=
  { inodes := fs0.inodes ++ [⟨d, s⟩], dir0 := fs0.dir0,
    log := fs0.log ++ (.link tmp fs0.inodes.length :: extra), fd := fd }

theorem overwrite_end (a d : Bytes) : overwrite a a.length d = a ++ d := by
  simp [overwrite]

theorem run_writes (fs0 : FS) (tmp : String) (cs : List Bytes) (acc : Bytes) :
    run (during fs0 tmp acc 0 (some (fs0.inodes.length, acc.length)) []) (cs.map .write) =
      during fs0 tmp (acc ++ cs.flatten) 0 (some (fs0.inodes.length, (acc ++ cs.flatten).length)) [] := by
  induction cs generalizing acc with
  | nil => simp [run]
  | cons c cs ih =>
    simp only [List.map_cons, run, List.foldl_cons]
    have : step (during fs0 tmp acc 0 (some (fs0.inodes.length, acc.length)) []) (.write c) =
        during fs0 tmp (acc ++ c) 0 (some (fs0.inodes.length, (acc ++ c).length)) [] := by
      simp [step, during, modifyInode_last, overwrite_end]
    rw [this]
    have := ih (acc ++ c)
    simp only [run] at this
    rw [this]
    simp

theorem step_create (fs0 : FS) (tmp : String) (trunc : Bool) (hfresh : fs0.dirNow.get tmp = none) :
    step fs0 (.create tmp trunc) = during fs0 tmp [] 0 (some (fs0.inodes.length, 0)) [] := by
  simp [step, hfresh, during]

/-- the state after the first `i` operations of a snapshot -/
inductive Phase (fs0 : FS) (tmp target : String) (new : Bytes) : FS → Prop where
  | start : Phase fs0 tmp target new fs0
  | writing (d : Bytes) : Phase fs0 tmp target new (during fs0 tmp d 0 (some (fs0.inodes.length, d.length)) [])
  | synced : Phase fs0 tmp target new (during fs0 tmp new new.length (some (fs0.inodes.length, new.length)) [])
  | closed : Phase fs0 tmp target new (during fs0 tmp new new.length none [])
  | renamed : Phase fs0 tmp target new (during fs0 tmp new new.length none [.rename tmp target])

theorem run_append (fs : FS) (a b : List Op) : run fs (a ++ b) = run (run fs a) b := by
  simp [run, List.foldl_append]

theorem take_tail3 (x y z : Op) (i : Nat) :
    [x, y, z].take i = [] ∨ [x, y, z].take i = [x] ∨ [x, y, z].take i = [x, y] ∨ [x, y, z].take i = [x, y, z] := by
  match i with
  | 0 => simp
  | 1 => simp
  | 2 => simp
  | _ + 3 => simp

theorem phase_of_take (fs0 : FS) (tmp target : String) (trunc : Bool) (chunks : List Bytes)
    (hfresh : fs0.dirNow.get tmp = none) (i : Nat) :
    Phase fs0 tmp target chunks.flatten (run fs0 ((snapshotOps tmp trunc target chunks).take i)) := by
  cases i with
  | zero => simp [run]; exact .start
  | succ i =>
    simp only [snapshotOps, List.take_succ_cons]
    have hrun : ∀ l, run fs0 (.create tmp trunc :: l) = run (during fs0 tmp [] 0 (some (fs0.inodes.length, 0)) []) l := by
      intro l; simp [run, step_create fs0 tmp trunc hfresh]
    rw [hrun, List.take_append]
    rw [run_append]
    have hw : (chunks.map Op.write).take i = (chunks.take i).map Op.write := by
      simp [List.map_take]
    have h0 := run_writes fs0 tmp (chunks.take i) []
    simp only [List.length_nil, List.nil_append] at h0
    rw [hw, h0]
    simp only [List.length_map]
    by_cases hi : i ≤ chunks.length
    · have : i - chunks.length = 0 := by omega
      rw [this]
      simp only [List.take_zero, run, List.foldl_nil]
      exact .writing _
    · have hall : chunks.take i = chunks := List.take_of_length_le (by omega)
      rw [hall]
      rcases take_tail3 Op.fsync Op.close (Op.rename tmp target) (i - chunks.length) with h | h | h | h <;> rw [h]
      · simp only [run, List.foldl_nil]; exact .writing _
      · have : run (during fs0 tmp chunks.flatten 0 (some (fs0.inodes.length, chunks.flatten.length)) []) [Op.fsync] =
            during fs0 tmp chunks.flatten chunks.flatten.length (some (fs0.inodes.length, chunks.flatten.length)) [] := by
          simp [run, step, during, modifyInode_last]
        rw [this]; exact .synced
      · have : run (during fs0 tmp chunks.flatten 0 (some (fs0.inodes.length, chunks.flatten.length)) []) [Op.fsync, Op.close] =
            during fs0 tmp chunks.flatten chunks.flatten.length none [] := by
          simp [run, step, during, modifyInode_last]
        rw [this]; exact .closed
      · have : run (during fs0 tmp chunks.flatten 0 (some (fs0.inodes.length, chunks.flatten.length)) []) [Op.fsync, Op.close, Op.rename tmp target] =
            during fs0 tmp chunks.flatten chunks.flatten.length none [.rename tmp target] := by
          simp [run, step, during, modifyInode_last]
        rw [this]; exact .renamed

theorem run_snapshot (fs0 : FS) (tmp target : String) (trunc : Bool) (chunks : List Bytes)
    (hfresh : fs0.dirNow.get tmp = none) :
    run fs0 (snapshotOps tmp trunc target chunks) =
      during fs0 tmp chunks.flatten chunks.flatten.length none [.rename tmp target] := by
  simp only [snapshotOps]
  have hrun : ∀ l, run fs0 (.create tmp trunc :: l) = run (during fs0 tmp [] 0 (some (fs0.inodes.length, 0)) []) l := by
    intro l; simp [run, step_create fs0 tmp trunc hfresh]
  have h0 := run_writes fs0 tmp chunks []
  simp only [List.length_nil, List.nil_append] at h0
  rw [hrun, run_append, h0]
  simp [run, step, during, modifyInode_last]

end AM.CrashFS

namespace AM.CrashFS
open AM.Snapshot (Bytes)

/-! ### directory versions of the states of a run -/

theorem dirNow_eq_dirAt (fs : FS) : fs.dirNow = fs.dirAt fs.log.length := by
  simp [FS.dirNow, FS.dirAt]

theorem dirAt_ge (fs : FS) (j : Nat) (h : fs.log.length ≤ j) : fs.dirAt j = fs.dirNow := by
  simp [FS.dirNow, FS.dirAt, List.take_of_length_le h]

theorem dirAt_during_le (fs0 : FS) (tmp : String) (d : Bytes) (s : Nat) (fd : Option (Nat × Nat)) (extra : List DirOp)
    (j : Nat) (h : j ≤ fs0.log.length) : (during fs0 tmp d s fd extra).dirAt j = fs0.dirAt j := by
  simp [FS.dirAt, during, List.take_append, show j - fs0.log.length = 0 by omega]

theorem dirAt_during_gt (fs0 : FS) (tmp : String) (d : Bytes) (s : Nat) (fd : Option (Nat × Nat)) (extra : List DirOp)
    (j : Nat) (h : fs0.log.length < j) :
    (during fs0 tmp d s fd extra).dirAt j =
      (extra.take (j - fs0.log.length - 1)).foldl applyDirOp (fs0.dirNow.put tmp fs0.inodes.length) := by
  have hj : j - fs0.log.length = (j - fs0.log.length - 1) + 1 := by omega
  simp only [FS.dirAt, during, List.take_append, List.foldl_append]
  rw [List.take_of_length_le (by omega), hj, List.take_succ_cons]
  simp [FS.dirNow, applyDirOp]

/-- the target as seen through any directory version of a state of the run,
    before the rename is logged: the same as through some version of the start state -/
theorem get_target_during (fs0 : FS) (tmp target : String) (d : Bytes) (s : Nat) (fd : Option (Nat × Nat))
    (hne : tmp ≠ target) (j : Nat) :
    ∃ j', ((during fs0 tmp d s fd []).dirAt j).get target = (fs0.dirAt j').get target := by
  by_cases h : j ≤ fs0.log.length
  · exact ⟨j, by rw [dirAt_during_le _ _ _ _ _ _ _ h]⟩
  · refine ⟨fs0.log.length, ?_⟩
    rw [dirAt_during_gt _ _ _ _ _ _ _ (by omega)]
    simp [Dir.get_put, hne, dirNow_eq_dirAt]

theorem get_target_renamed (fs0 : FS) (tmp target : String) (d : Bytes) (s : Nat) (fd : Option (Nat × Nat))
    (hne : tmp ≠ target) (j : Nat) :
    (∃ j', ((during fs0 tmp d s fd [.rename tmp target]).dirAt j).get target = (fs0.dirAt j').get target) ∨
    (fs0.log.length + 2 ≤ j ∧
      ((during fs0 tmp d s fd [.rename tmp target]).dirAt j).get target = some fs0.inodes.length) := by
  by_cases h : j ≤ fs0.log.length
  · left; exact ⟨j, by rw [dirAt_during_le _ _ _ _ _ _ _ h]⟩
  · rw [dirAt_during_gt _ _ _ _ _ _ _ (by omega)]
    by_cases h1 : j = fs0.log.length + 1
    · left
      refine ⟨fs0.log.length, ?_⟩
      have : j - fs0.log.length - 1 = 0 := by omega
      simp [this, Dir.get_put, hne, dirNow_eq_dirAt]
    · right
      refine ⟨by omega, ?_⟩
      have : j - fs0.log.length - 1 = (j - fs0.log.length - 2) + 1 := by omega
      rw [this]
      simp [applyDirOp, Dir.get_put]

end AM.CrashFS
