/-
  C16: what the UTF-8 lexer does on printed text.
-/
import AM.Lemmas.MatcherBasic

namespace AM.Mt
open AM

set_option linter.unusedSimpArgs false

/-! ### quoted tokens -/

theorem sqb_pair (y : Rune) (X : Str) :
    scanQuotedBody false (bs :: y :: X) = (scanQuotedBody false X).map (fun p => (bs :: y :: p.1, p.2)) := by
  simp [scanQuotedBody, bs]
  cases scanQuotedBody false X <;> simp

theorem sqb_plain (l : Str) (hl : ∀ x ∈ l, x.cp ≠ 92 ∧ x.cp ≠ 34) (X : Str) :
    scanQuotedBody false (l ++ X) = (scanQuotedBody false X).map (fun p => (l ++ p.1, p.2)) := by
  induction l with
  | nil => cases h : scanQuotedBody false X <;> simp [h]
  | cons x l ih =>
    have hx := hl x (by simp)
    have := ih (fun y hy => hl y (by simp [hy]))
    simp [scanQuotedBody, hx.1, hx.2, this]
    cases scanQuotedBody false X <;> simp

theorem sqb_close (X : Str) : scanQuotedBody false (dq :: X) = some ([dq], X) := by
  simp [scanQuotedBody, dq]

theorem sqb_omEscape (s rest : Str) :
    scanQuotedBody false (omEscape s ++ dq :: rest) = some (omEscape s ++ [dq], rest) := by
  induction s with
  | nil => simp [omEscape, sqb_close]
  | cons r s ih =>
    unfold omEscape
    split
    · simp only [List.cons_append, sqb_pair, ih]; simp
    · split
      · simp only [List.cons_append, sqb_pair, ih]; simp
      · split
        · simp only [List.cons_append, sqb_pair, ih]; simp
        · rename_i h92 _ h34
          have := sqb_plain [r] (by intro x hx; simp at hx; subst hx; exact ⟨h92, h34⟩) (omEscape s ++ dq :: rest)
          simp only [List.cons_append, List.nil_append] at this ⊢
          rw [this, ih]; simp

theorem hexDigit_plain (d : Nat) : (hexDigit d).cp ≠ 92 ∧ (hexDigit d).cp ≠ 34 := by
  unfold hexDigit
  split <;> simp

theorem hex2_plain (n : Nat) : ∀ x ∈ hex2 n, x.cp ≠ 92 ∧ x.cp ≠ 34 := by
  intro x hx
  simp only [hex2, List.mem_cons, List.mem_nil_iff, or_false] at hx
  rcases hx with rfl | rfl <;> exact hexDigit_plain _

theorem hex4_plain (n : Nat) : ∀ x ∈ hex4 n, x.cp ≠ 92 ∧ x.cp ≠ 34 := by
  intro x hx
  simp only [hex4, List.mem_cons, List.mem_nil_iff, or_false] at hx
  rcases hx with rfl | rfl | rfl | rfl <;> exact hexDigit_plain _

theorem hex8_plain (n : Nat) : ∀ x ∈ hex8 n, x.cp ≠ 92 ∧ x.cp ≠ 34 := by
  intro x hx
  simp only [hex8, List.mem_append] at hx
  rcases hx with h | h
  · exact hex4_plain _ x h
  · exact hex4_plain _ x h

theorem quoteRune_bad (ip : Nat → Bool) (b : UInt8) :
    quoteRune ip (.bad b) = bs :: .ch 'x' :: hex2 b.toNat := rfl

theorem quoteRune_ch (ip : Nat → Bool) (c : Char) :
    quoteRune ip (.ch c) =
      if c.toNat = 34 ∨ c.toNat = 92 then [bs, .ch c]
      else if ip c.toNat then [.ch c]
      else if c.toNat = 7 then [bs, .ch 'a']
      else if c.toNat = 8 then [bs, .ch 'b']
      else if c.toNat = 12 then [bs, .ch 'f']
      else if c.toNat = 10 then [bs, .ch 'n']
      else if c.toNat = 13 then [bs, .ch 'r']
      else if c.toNat = 9 then [bs, .ch 't']
      else if c.toNat = 11 then [bs, .ch 'v']
      else if c.toNat < 32 ∨ c.toNat = 127 then bs :: .ch 'x' :: hex2 c.toNat
      else if c.toNat < 0x10000 then bs :: .ch 'u' :: hex4 c.toNat
      else bs :: .ch 'U' :: hex8 c.toNat := rfl

/-- shape of one quoted rune: an escape pair followed by plain runes, or one plain rune -/
def QForm (l : Str) : Prop :=
  (∃ y l', l = bs :: y :: l' ∧ ∀ x ∈ l', x.cp ≠ 92 ∧ x.cp ≠ 34) ∨ (∃ x, l = [x] ∧ x.cp ≠ 92 ∧ x.cp ≠ 34)

theorem quoteRune_form (ip : Nat → Bool) (r : Rune) : QForm (quoteRune ip r) := by
  cases r with
  | bad b => rw [quoteRune_bad]; exact Or.inl ⟨_, _, rfl, hex2_plain _⟩
  | ch c =>
    rw [quoteRune_ch]
    split
    · exact Or.inl ⟨_, [], rfl, by simp⟩
    · rename_i hq
      split
      · exact Or.inr ⟨_, rfl, by simp; omega, by simp; omega⟩
      · repeat' split
        all_goals first
          | exact Or.inl ⟨_, [], rfl, by simp⟩
          | exact Or.inl ⟨_, _, rfl, hex2_plain _⟩
          | exact Or.inl ⟨_, _, rfl, hex4_plain _⟩
          | exact Or.inl ⟨_, _, rfl, hex8_plain _⟩

/-- a quoted rune is a sequence of escape pairs and plain runes: the lexer walks over it -/
theorem sqb_quoteRune (ip : Nat → Bool) (r : Rune) (X : Str) :
    scanQuotedBody false (quoteRune ip r ++ X) =
      (scanQuotedBody false X).map (fun p => (quoteRune ip r ++ p.1, p.2)) := by
  have hf := quoteRune_form ip r
  generalize quoteRune ip r = l at hf
  rcases hf with ⟨y, l', rfl, hl⟩ | ⟨x, rfl, h1, h2⟩
  · have := sqb_plain l' hl X
    simp only [List.cons_append, sqb_pair, this]
    cases scanQuotedBody false X <;> simp
  · have := sqb_plain [x] (by intro z hz; simp at hz; subst hz; exact ⟨h1, h2⟩) X
    simpa using this

theorem sqb_quoteBody (ip : Nat → Bool) (s rest : Str) :
    scanQuotedBody false (quoteBody ip s ++ dq :: rest) = some (quoteBody ip s ++ [dq], rest) := by
  induction s with
  | nil => simp [quoteBody, sqb_close]
  | cons r s ih =>
    simp only [quoteBody, List.append_assoc, sqb_quoteRune, ih]
    simp

end AM.Mt
