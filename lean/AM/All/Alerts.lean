-- modules of work area Alerts (add imports here)
import AM.Base.AlertsMap
import AM.Model.Alert
import AM.Model.Inhibit
import AM.Lemmas.Inhibit
import AM.Lemmas.InhibitLegacy
import AM.Props.C03
import AM.Model.Ingest
import AM.Props.C13
import AM.Model.Workers
import AM.Props.C14
