-- modules of work area Matcher (add imports here)
import AM.Base.UTF8
import AM.Model.MatcherPrint
import AM.Model.MatcherClassic
import AM.Model.MatcherUTF8
import AM.Model.MatcherCompat
import AM.Model.MatcherRegex
import AM.Props.C16
