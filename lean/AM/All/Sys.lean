import AM.Model.Dedup
import AM.Model.Group
import AM.Props.C04
