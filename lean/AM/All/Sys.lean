import AM.Model.Dedup
import AM.Model.Group
import AM.Model.Cluster
import AM.Props.C04
import AM.Props.C05
import AM.Props.C01
import AM.Props.C08
