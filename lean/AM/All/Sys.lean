import AM.Model.Dedup
import AM.Props.C04
