import AM.Base.Map
import AM.Model.Nflog
import AM.Props.C10
