import AM.Base.Map
import AM.Model.Nflog
import AM.Props.C10
import AM.Model.Suppress
import AM.Props.Suppress
import AM.Model.Registry
import AM.Props.Registry
