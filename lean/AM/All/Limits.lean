-- modules of work area Limits (add imports here)
import AM.Model.Bucket
import AM.Lemmas.AListCount
import AM.Props.C18Bucket
import AM.Model.SilLimits
import AM.Model.Sem
import AM.Props.C18
import AM.Model.Retry
import AM.Model.Fanout
import AM.Model.Trunc
import AM.Model.TemplateData
import AM.Props.C20
import AM.Model.Gossip
import AM.Props.C19
