-- modules of work area Silence (add imports here)
import AM.Model.Silence
import AM.Model.Silencer
import AM.Lemmas.SilenceStore
import AM.Props.C09
import AM.Props.C12
import AM.Lemmas.SilencerInv
import AM.Props.C02
import AM.Props.C02I
import AM.Props.C02M
