-- modules of work area Silence (add imports here)
import AM.Model.Silence
import AM.Model.Silencer
