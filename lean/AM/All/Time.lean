-- modules of work area Time (add imports here)
import AM.Base.Calendar
import AM.Model.TimeInterval
import AM.Props.C15
