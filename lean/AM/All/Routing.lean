-- modules of work area Routing (add imports here)
import AM.Base.Labels
import AM.Base.Matcher
import AM.Model.Route
import AM.Props.C07
