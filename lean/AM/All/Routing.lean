-- modules of work area Routing (add imports here)
import AM.Base.Labels
import AM.Base.Matcher
import AM.Model.Route
import AM.Model.Grouping
import AM.Model.GroupMap
import AM.Lemmas.GroupMapInv
import AM.Lemmas.GroupMapStep
import AM.Lemmas.GroupMapMain
import AM.Props.C07
import AM.Props.C06Conc
import AM.Props.C06Sched
import AM.Props.C06
