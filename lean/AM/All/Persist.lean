-- modules of work area Persist (add imports here)
import AM.Model.Snapshot
import AM.Model.CrashFS
import AM.Props.C11
import AM.Model.Config
import AM.Props.C17
