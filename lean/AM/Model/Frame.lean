/-
  Model of the framing of the TLS gossip transport (/repo/cluster/tls_connection.go): every memberlist
  packet is written as a 4-byte little-endian length followed by the message, in ONE write, onto a
  connection shared by all senders to that peer; the receiver reads length, then message, in a loop.
  Bytes are `Nat`s below 256.  Core Lean only.
-/
namespace AM.Frame

def le32 (n : Nat) : List Nat := [n % 256, n / 256 % 256, n / 65536 % 256, n / 16777216 % 256]

def encodeFrame (p : List Nat) : List Nat := le32 p.length ++ p

/-- what the receiver's read loop yields for a byte stream: the frames, or `none` when the stream ends inside
    a frame -/
def decodeFrames : Nat → List Nat → Option (List (List Nat))
  | _, [] => some []
  | 0, _ :: _ => none
  | fuel + 1, b0 :: b1 :: b2 :: b3 :: rest =>
    let n := b0 + 256 * b1 + 65536 * b2 + 16777216 * b3
    if rest.length < n then none
    else (decodeFrames fuel (rest.drop n)).map (fun fs => rest.take n :: fs)
  | _ + 1, _ => none

/-- the stream produced by writers that each write whole frames atomically, in some order -/
def streamOf (frames : List (List Nat)) : List Nat := frames.flatMap encodeFrame

end AM.Frame
