/-
  Model of the provider's store-and-publish step (/repo/provider/mem/mem.go `Alerts.Put`): under the
  provider lock a submitted version is stored and handed to every subscriber.  Core Lean only.
-/
namespace AM.PutOrder

inductive Eff where
  | store (id : Nat) (v : String)
  | publish (id : Nat) (v : String)
  deriving DecidableEq, Repr

/-- the pinned discipline: each Put stores and publishes in one critical section; `puts` is the order in
    which the submissions obtained the provider lock -/
def atomicTrace : List (Nat × String) → List Eff
  | [] => []
  | (i, v) :: rest => .store i v :: .publish i v :: atomicTrace rest

/-- the version the provider holds for an alert after a trace -/
def stored (id : Nat) : List Eff → Option String
  | [] => none
  | .store i v :: rest => (stored id rest).orElse fun _ => if i = id then some v else none
  | .publish _ _ :: rest => stored id rest

/-- the version a subscriber that applies what it receives in order (C14) ends up with -/
def applied (id : Nat) : List Eff → Option String
  | [] => none
  | .publish i v :: rest => (applied id rest).orElse fun _ => if i = id then some v else none
  | .store _ _ :: rest => applied id rest

end AM.PutOrder
