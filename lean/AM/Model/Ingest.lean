/-
  Model of alert ingestion: /repo/api/v2/api.go `postAlertsHandler` (timestamp
  defaulting, `removeEmptyLabels`, per-alert `Validate`, best-effort `Put`) and
  `getAlertsHandler` (the `EndsAt` filter of `alertFilter`), on top of the
  provider model of AM.Model.Alert (`Alert.Merge`, `mem.Alerts.Put`, GC).
  Core Lean only.
-/
import AM.Model.Alert

namespace AM.Ingest
open AM AM.AList

/-- one element of a POST /api/v2/alerts body, as decoded
    (`OpenAPIAlertsToAlerts`): a missing timestamp is the zero time = `none`. -/
structure PostAlert where
  labels   : Labels             -- as sent: may hold empty values and odd names
  annNames : List String := []  -- annotation names (only their validity matters)
  startsAt : Option Int
  endsAt   : Option Int
  payload  : String := ""       -- annotations, opaque
  deriving DecidableEq, Repr

/-- `removeEmptyLabels`. -/
def removeEmpty (ls : Labels) : Labels := ls.filter fun kv => kv.2 ≠ ""

/-- the defaulting loop of `postAlertsHandler` (labels untouched yet). -/
def defaults (now rt : Int) (p : PostAlert) : Alert :=
  let start := match p.startsAt, p.endsAt with
    | some s, _ => s
    | none, none => now
    | none, some e => e
  match p.endsAt with
  | none => { labels := p.labels, startsAt := start, endsAt := now + rt, updatedAt := now, timeout := true, payload := p.payload }
  | some e => { labels := p.labels, startsAt := start, endsAt := e, updatedAt := now, timeout := false, payload := p.payload }

/-- what reaches validation: defaults applied, empty-valued labels removed. -/
def prepare (now rt : Int) (p : PostAlert) : Alert :=
  { defaults now rt p with labels := removeEmpty p.labels }

/-- `Alert.Validate` after defaulting (`StartsAt` is never zero then); `nameOK`
    is `compat.IsValidLabelName`; label values are valid UTF-8 by construction
    (they arrive through the JSON decoder). -/
def valid (nameOK : String → Bool) (p : PostAlert) (a : Alert) : Bool :=
  !decide (a.endsAt < a.startsAt) && !a.labels.isEmpty &&
    a.labels.all (fun kv => nameOK kv.1) && p.annNames.all nameOK

/-- the valid alerts of a batch, in submission order. -/
def accepted (nameOK : String → Bool) (now rt : Int) (batch : List PostAlert) : List Alert :=
  batch.filterMap fun p =>
    let a := prepare now rt p
    if valid nameOK p a then some a else none

/-- `mem.Alerts.Put(valid…)`. -/
def putAll (now : Int) (s : Store) (as : List Alert) : Store := as.foldl (Store.putAlert now) s

inductive Code where
  | ok          -- 200
  | badRequest  -- 400: some alert of the batch failed validation
  deriving DecidableEq, Repr

/-- `postAlertsHandler`. -/
def post (nameOK : String → Bool) (now rt : Int) (s : Store) (batch : List PostAlert) : Store × Code :=
  let acc := accepted nameOK now rt batch
  (putAll now s acc, if acc.length = batch.length then .ok else .badRequest)

/-- the `EndsAt` part of `alertFilter`: `!a.EndsAt.IsZero() && a.EndsAt.Before(now)` drops. -/
def visible (now : Int) (a : Alert) : Bool := !decide (a.endsAt < now)

/-- `getAlertsHandler` without label / receiver / state filters. -/
def getAlerts (now : Int) (s : Store) : List Alert := (s.map Prod.snd).filter (visible now)

/-- the `active` / `silenced` / `inhibited` query flags of `GET /alerts` and `GET /alerts/groups` (all default to true). -/
structure Flags where
  active : Bool := true
  silenced : Bool := true
  inhibited : Bool := true
  deriving Repr, DecidableEq

/-- the status part of api/v2 `alertFilter`: three independent exclusions on the alert's CURRENT status
    (`nSil` = silences muting it, `nInh` = alerts inhibiting it; state `active` = neither). -/
def passesFlags (f : Flags) (nSil nInh : Nat) : Bool :=
  if !f.active && (nSil == 0 && nInh == 0) then false
  else if !f.silenced && nSil != 0 then false
  else if !f.inhibited && nInh != 0 then false
  else true

end AM.Ingest
