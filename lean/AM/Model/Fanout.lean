/-
  Model of /repo/notify/notify.go `MultiStage.Exec` (sequential, stops at the
  first error or when no alerts are left), `FanoutStage.Exec` (all members run,
  errors joined) and the per-integration chain built by `createReceiverStage`.
  Core Lean only.
-/
import AM.Model.Retry

namespace AM.Fanout
open AM.Retry

/-- what a stage hands on -/
inductive StageOut where
  | pass        -- alerts handed on, nil error
  | empty       -- nil error but no alerts left (e.g. DedupStage: nothing to notify)
  | err
  deriving DecidableEq, Repr

structure Stage where
  name : String
  out  : StageOut
  deriving DecidableEq, Repr

/-- `MultiStage.Exec`: names of the stages that ran, and whether an error came back. -/
def multi : List Stage → List String × Bool
  | [] => ([], false)
  | s :: rest =>
    match s.out with
    | .pass => let r := multi rest; (s.name :: r.1, r.2)
    | .empty => ([s.name], false)
    | .err => ([s.name], true)

/-- the order in which `createReceiverStage` appends the stages of one integration
    (pinned against the source by the go/ast fact check of engine `retry`) -/
def receiverOrder : List String := ["wait", "dedup", "retry", "setnotifies"]

/-- the chain of one integration given what each stage does -/
def chain (wait dedup : StageOut) (retry : Res) (setn : StageOut) : List Stage :=
  [⟨"wait", wait⟩, ⟨"dedup", dedup⟩, ⟨"retry", if retry.isSuccess then .pass else .err⟩, ⟨"setnotifies", setn⟩]

/-- `FanoutStage.Exec`: every member runs on its own inputs; the error is the join. -/
def fanout (members : List (List Stage)) : List (List String × Bool) × Bool :=
  let rs := members.map multi
  (rs, rs.any (·.2))

end AM.Fanout
