/-
  Model of /repo/dispatch/route.go: `newRoute` (option inheritance, index
  assignment, key/ID strings), `Route.Match`, and of the pure part of the
  dispatcher's grouping: `getGroupLabels`, `aggrGroup.GroupKey`.  Core Lean only.

  A `config.Route` after `UnmarshalYAML` is a `CRoute`: scalar fields in `CNode`
  (`groupBy = none` ⇔ `cr.GroupBy == nil`; `group_by: []` gives `some []`;
  `group_by: ['...']` gives `none` + `groupByAll`), children in a list.
  `CNode.matchers` is `cr.Match` (as `=` matchers) ++ `cr.MatchRE` (as `=~`
  matchers whose value is the *anchored* source `^(?:…)$`, because `newRoute`
  passes `lv.String()` of the compiled regexp) ++ `cr.Matchers`; `newRoute` sorts
  them, so the order of that concatenation is immaterial.
-/
import AM.Base.Matcher

namespace AM.Route
open AM AM.AList AM.Lbl

structure Opts where
  receiver : String
  groupBy : List String          -- a set; kept in configuration order
  groupByAll : Bool
  groupWait : Int
  groupInterval : Int
  repeatInterval : Int
  muteTI : List String
  activeTI : List String
  labels : LabelSet
  deriving DecidableEq, Repr, Inhabited

/-- `DefaultRouteOpts` (durations in ns). -/
def defaultOpts : Opts :=
  { receiver := "", groupBy := [], groupByAll := false,
    groupWait := 30 * 1000000000, groupInterval := 300 * 1000000000, repeatInterval := 14400 * 1000000000,
    muteTI := [], activeTI := [], labels := [] }

structure CNode where
  receiver : String := ""
  groupBy : Option (List String) := none
  groupByAll : Bool := false
  matchers : List Matcher := []
  cont : Bool := false
  groupWait : Option Int := none
  groupInterval : Option Int := none
  repeatInterval : Option Int := none
  muteTI : List String := []
  activeTI : List String := []
  labels : LabelSet := []
  deriving Repr, Inhabited

inductive CRoute where
  | mk (n : CNode) (routes : List CRoute)
  deriving Repr, Inhabited

/-- `maps.Copy(merged, opts.Labels); maps.Copy(merged, cr.Labels)`: the child's value wins. -/
def mergeLabels (parent child : LabelSet) : LabelSet :=
  child.foldr (fun kv acc => put acc kv.1 kv.2) parent

/-- The option part of `newRoute`: start from the parent's (or the default) options, override field by field. -/
def applyOpts (base : Opts) (n : CNode) : Opts :=
  { receiver := if n.receiver ≠ "" then n.receiver else base.receiver
    groupBy := match n.groupBy with | some l => l | none => base.groupBy
    groupByAll := match n.groupBy with
      | some _ => false
      | none => if n.groupByAll then true else base.groupByAll
    groupWait := n.groupWait.getD base.groupWait
    groupInterval := n.groupInterval.getD base.groupInterval
    repeatInterval := n.repeatInterval.getD base.repeatInterval
    muteTI := n.muteTI          -- not inherited: `opts.MuteTimeIntervals = cr.MuteTimeIntervals`
    activeTI := n.activeTI
    labels := if n.labels.isEmpty then base.labels else mergeLabels base.labels n.labels }

inductive Route where
  | mk (opts : Opts) (matchers : List Matcher) (cont : Bool) (idx : Nat) (key : String) (id : String)
       (routes : List Route)
  deriving Repr, Inhabited

namespace Route
def opts : Route → Opts | .mk o _ _ _ _ _ _ => o
def matchers : Route → List Matcher | .mk _ m _ _ _ _ _ => m
def cont : Route → Bool | .mk _ _ c _ _ _ _ => c
def idx : Route → Nat | .mk _ _ _ i _ _ _ => i
def key : Route → String | .mk _ _ _ _ k _ _ => k
def id : Route → String | .mk _ _ _ _ _ i _ => i
def routes : Route → List Route | .mk _ _ _ _ _ _ r => r
end Route

/-- parent context handed down by `newRoute`: the parent's `Key()`, `ID()` and this child's position. -/
structure PCtx where
  key : String
  id : String
  pos : Nat

def routeKey (p : Option PCtx) (ms : List Matcher) : String :=
  match p with
  | none => matchersString ms
  | some c => c.key ++ "/" ++ matchersString ms

def routeID (p : Option PCtx) (ms : List Matcher) : String :=
  match p with
  | none => matchersString ms
  | some c => c.id ++ "/" ++ matchersString ms ++ "/" ++ toString c.pos

mutual
/-- `newRoute`: children are built (and numbered) first, the node takes the next index. -/
def newRoute (base : Opts) (p : Option PCtx) (counter : Nat) : CRoute → Route × Nat
  | .mk n kids =>
    let opts := applyOpts base n
    let ms := sortMatchers n.matchers
    let key := routeKey p ms
    let id := routeID p ms
    let res := newRoutes opts key id 0 counter kids
    (.mk opts ms n.cont res.2 key id res.1, res.2 + 1)
/-- `newRoutes`. -/
def newRoutes (base : Opts) (pkey pid : String) (pos counter : Nat) : List CRoute → List Route × Nat
  | [] => ([], counter)
  | c :: cs =>
    let r := newRoute base (some { key := pkey, id := pid, pos := pos }) counter c
    let rs := newRoutes base pkey pid (pos + 1) r.2 cs
    (r.1 :: rs.1, rs.2)
end

/-- `dispatch.NewRoute(cr, nil)`. -/
def mkTree (cr : CRoute) : Route := (newRoute defaultOpts none 0 cr).1

mutual
/-- `Route.Match`, over an arbitrary node predicate `p` ("the node's matchers accept the label set"). -/
def matchP (p : Route → Bool) : Route → List Route
  | .mk o m c i k d kids =>
    if p (.mk o m c i k d kids) then
      let all := matchKids p kids
      if all.isEmpty then [.mk o m c i k d kids] else all
    else []
/-- the `for _, cr := range r.Routes` loop of `Route.Match`. -/
def matchKids (p : Route → Bool) : List Route → List Route
  | [] => []
  | c :: cs =>
    let m := matchP p c
    if !m.isEmpty && !c.cont then m else m ++ matchKids p cs
end

/-- the node predicate of the real `Match`: `r.Matchers.Matches(lset)`. -/
def accepts (re : String → String → Bool) (ls : LabelSet) (r : Route) : Bool :=
  matchesAll re r.matchers ls

/-- `Route.Match(lset)`. -/
def «match» (re : String → String → Bool) (r : Route) (ls : LabelSet) : List Route :=
  matchP (accepts re ls) r

mutual
/-- all nodes of a tree (`Route.Walk` order). -/
def nodes : Route → List Route
  | .mk o m c i k d kids => .mk o m c i k d kids :: nodesL kids
def nodesL : List Route → List Route
  | [] => []
  | c :: cs => nodes c ++ nodesL cs
end

/-! ### grouping (pure part of dispatch.go) -/

/-- is label `n` a grouping label of these options? -/
def inGroup (o : Opts) (n : String) : Bool := o.groupByAll || o.groupBy.contains n

/-- `getGroupLabels`. -/
def getGroupLabels (ls : LabelSet) (o : Opts) : LabelSet := restrict (inGroup o) ls

/-- `aggrGroup.GroupKey()`: `fmt.Sprintf("%s:%s", routeKey, labels)`. -/
def groupKeyOf (routeKey : String) (groupLabels : LabelSet) : String :=
  routeKey ++ ":" ++ lsString groupLabels

def groupKey (r : Route) (ls : LabelSet) : String := groupKeyOf r.key (getGroupLabels ls r.opts)

end AM.Route
