/-
  Model of /repo/limit/bucket.go (`Bucket.Upsert`, `Bucket.IsStale`) and of the
  per-alert-name limit in /repo/store/store.go (`Alerts.Set`, `Alerts.GC`,
  `gcLimitBuckets`).  Core Lean only.

  The bucket exists twice:
  * abstract: a finite map value → priority plus "the heap root is *a* minimum"
    (what `container/heap` promises); the root is an argument of `aupsert`, so
    theorems hold for every tie-break the heap may make;
  * array level: the slice `sortedItems` with `container/heap`'s `up`/`down`
    sifts, executed by the driver to know *which* minimum is the root and what
    the **last array slot** is (that is what the pinned `IsStale` reads: F4).

  Time is `Int` ns.  `item.expired(at)` is `priority < at`.  A missing
  `a.limits[name]` entry and an empty bucket behave identically (an empty bucket
  is stale and is re-created on demand), so "no bucket" is the empty map.
-/
import AM.Base.Map

namespace AM.Bucket
open AM AM.AList

/-! ### abstract bucket -/

abbrev Items := AList Nat Int

/-- `root` is a minimum of the bucket (the `container/heap` contract for slot 0). -/
def IsMin (b : Items) (root : Nat) : Prop :=
  ∃ p, lookup b root = some p ∧ ∀ k q, lookup b k = some q → p ≤ q

/-- `Bucket.Upsert` (capacity ≥ 1 is checked by the caller `Sys.set`).  -/
def aupsert (b : Items) (cap : Nat) (root : Nat) (now : Int) (v : Nat) (p : Int) : Items × Bool :=
  match lookup b v with
  | some _ => (put b v p, true)                       -- known value: update priority
  | none =>
    if b.length < cap then (put b v p, true)          -- not full
    else match lookup b root with                      -- full: look at the root only
      | some rp => if rp < now then (put (erase b root) v p, true) else (b, false)
      | none => (b, false)

/-- repaired `IsStale` (fixes/F4.diff): every item is expired (vacuously: empty). -/
def staleNew (b : Items) (now : Int) : Bool := b.all (fun kv => decide (kv.2 < now))

/-! ### one alert name of `store.Alerts` with a per-alert limit -/

structure Sys where
  cap    : Nat                 -- perAlertLimit (0 = no limit configured)
  bucket : Items := []         -- a.limits[name]
  alerts : Items := []         -- a.alerts restricted to this name: id ↦ EndsAt
  adm    : Items := []         -- ghost: last admitted EndsAt of every id ever admitted
  deriving Repr

/-- `Alerts.Set` for an alert of this name. -/
def Sys.set (s : Sys) (now : Int) (root id : Nat) (ends : Int) : Sys × Bool :=
  if s.cap = 0 then ({ s with alerts := put s.alerts id ends, adm := put s.adm id ends }, true)
  else
    let r := aupsert s.bucket s.cap root now id ends
    if r.2 then ({ s with bucket := r.1, alerts := put s.alerts id ends, adm := put s.adm id ends }, true)
    else (s, false)

/-- `Alerts.GC`: drop the bucket if stale, delete resolved alerts (`EndsAt ≤ now`). -/
def Sys.gc (s : Sys) (now : Int) : Sys :=
  { s with bucket := if staleNew s.bucket now then [] else s.bucket,
           alerts := filterVals (fun _ e => decide (e > now)) s.alerts }

/-- number of entries that are not expired at `now` (`¬ priority < now`). -/
def unexp (m : Items) (now : Int) : Nat := (filterVals (fun _ e => decide (now ≤ e)) m).length

inductive Op where
  | set (root id : Nat) (ends : Int)
  | gc
  deriving Repr, DecidableEq

def Sys.step (s : Sys) (now : Int) : Op → Sys
  | .set root id ends => (s.set now root id ends).1
  | .gc => s.gc now

/-- run a history of timed operations -/
def Sys.run (s : Sys) : List (Int × Op) → Sys
  | [] => s
  | (t, op) :: rest => (s.step t op).run rest

/-- instants never go backwards, starting at `t0`; returns the last instant -/
def Mono : Int → List (Int × Op) → Prop
  | _, [] => True
  | t0, (t, _) :: rest => t0 ≤ t ∧ Mono t rest

def lastTime : Int → List (Int × Op) → Int
  | t0, [] => t0
  | _, (t, _) :: rest => lastTime t rest

/-! ### array level: `sortedItems` + `container/heap` -/

abbrev Heap := List (Nat × Int)

def hget (h : Heap) (i : Nat) : Nat × Int := h.getD i (0, 0)
def hless (h : Heap) (i j : Nat) : Bool := decide ((hget h i).2 < (hget h j).2)
def hswap (h : Heap) (i j : Nat) : Heap := (h.set i (hget h j)).set j (hget h i)

/-- `heap.up` -/
def up : Nat → Heap → Nat → Heap
  | 0, h, _ => h
  | f + 1, h, j =>
    let i := (j - 1) / 2
    if i = j ∨ !hless h j i then h else up f (hswap h i j) i

/-- `heap.down`; returns the final position too (`i > i0` is Go's result). -/
def down : Nat → Heap → Nat → Nat → Heap × Nat
  | 0, h, i, _ => (h, i)
  | f + 1, h, i, n =>
    let j1 := 2 * i + 1
    if j1 ≥ n then (h, i) else
    let j := if j1 + 1 < n ∧ hless h (j1 + 1) j1 then j1 + 1 else j1
    if !hless h j i then (h, i) else down f (hswap h i j) j n

def hpush (h : Heap) (x : Nat × Int) : Heap :=
  let h' := h ++ [x]
  up h'.length h' (h'.length - 1)

/-- `heap.Pop`: swap root and last, sift down over the first n-1, cut the last. -/
def hpop (h : Heap) : Heap :=
  let n := h.length - 1
  let h' := hswap h 0 n
  ((down h'.length h' 0 n).1).dropLast

/-- `heap.Fix` after a priority change at `i`. -/
def hfix (h : Heap) (i : Nat) : Heap :=
  let r := down h.length h i h.length
  if r.2 > i then r.1 else up h.length h i

def hfind : Heap → Nat → Nat → Option Nat
  | [], _, _ => none
  | (v', _) :: rest, v, i => if v' = v then some i else hfind rest v (i + 1)

/-- `Bucket.Upsert` on the array. -/
def hupsert (h : Heap) (cap : Nat) (now : Int) (v : Nat) (p : Int) : Heap × Bool :=
  match hfind h v 0 with
  | some i => (hfix (h.set i (v, p)) i, true)
  | none =>
    if h.length < cap then (hpush h (v, p), true)
    else if (hget h 0).2 < now then (hpush (hpop h) (v, p), true)
    else (h, false)

/-- pinned `IsStale`: empty, or the **last array slot** is expired. -/
def hstaleOld (h : Heap) (now : Int) : Bool :=
  match h.getLast? with
  | none => true
  | some x => decide (x.2 < now)

/-- repaired `IsStale`: all slots expired. -/
def hstaleNew (h : Heap) (now : Int) : Bool := h.all (fun kv => decide (kv.2 < now))

/-- array-level system for one name; `old = true` is the pinned discipline. -/
structure HSys where
  cap    : Nat
  old    : Bool := false
  heap   : Heap := []
  alerts : Items := []
  adm    : Items := []
  deriving Repr

def HSys.set (s : HSys) (now : Int) (id : Nat) (ends : Int) : HSys × Bool :=
  if s.cap = 0 then ({ s with alerts := put s.alerts id ends, adm := put s.adm id ends }, true)
  else
    let r := hupsert s.heap s.cap now id ends
    if r.2 then ({ s with heap := r.1, alerts := put s.alerts id ends, adm := put s.adm id ends }, true)
    else (s, false)

def HSys.gc (s : HSys) (now : Int) : HSys :=
  let stale := if s.old then hstaleOld s.heap now else hstaleNew s.heap now
  { s with heap := if stale then [] else s.heap,
           alerts := filterVals (fun _ e => decide (e > now)) s.alerts }

inductive HOp where
  | set (id : Nat) (ends : Int)
  | gc
  deriving Repr, DecidableEq

def HSys.step (s : HSys) (now : Int) : HOp → HSys
  | .set id ends => (s.set now id ends).1
  | .gc => s.gc now

def HSys.run (s : HSys) : List (Int × HOp) → HSys
  | [] => s
  | (t, op) :: rest => (s.step t op).run rest

/-- the root the array model presents to `aupsert` -/
def hroot (h : Heap) : Nat := (hget h 0).1

/-- executable check of the `container/heap` contract on a concrete array -/
def hrootIsMin (h : Heap) : Bool := h.all (fun kv => decide ((hget h 0).2 ≤ kv.2))

end AM.Bucket
