/-
  Model of a cluster for ONE (group, integration): N instances, each with its
  own notification log (`AM.Nflog`) and pipeline tail (`AM.Dedup`), a gossip
  channel that may delay, lose, duplicate and reorder the broadcast log entries,
  log GC, and crashes with or without a snapshot.  Core Lean only.

  The cluster wait (position × peer timeout, ClusterWaitStage) is *when* a flush
  event of an instance happens; the flush event itself is decide-send-record.
-/
import AM.Model.Dedup

namespace AM.Cluster
open AM AM.AList AM.Nflog AM.Dedup

inductive Ev where
  | flush (i : Nat) (f : Flush)           -- instance i flushes (after its cluster wait)
  | deliver (e : Entry) (j : Nat) (now : Int)   -- gossip: j merges an entry some instance broadcast earlier
  | gc (i : Nat) (now : Int)
  | crash (i : Nat) (keep : Bool)         -- restart; `keep` = the snapshot held the current state, else empty
  deriving Repr

structure CState where
  logs  : Nat → State                     -- one log per instance
  sends : List (Nat × Notification) := [] -- every successful delivery to the receiver, newest first
  bcast : List Entry := []                -- every entry ever handed to the gossip layer

def getLog (cs : CState) (i : Nat) : State := cs.logs i
def setLog (cs : CState) (i : Nat) (s : State) : CState :=
  { cs with logs := fun j => if j = i then s else cs.logs j }

/-- the entry `Log.Log` broadcasts for a recorded flush -/
def entryOfFlush (c : Cfg) (f : Flush) : Entry :=
  { key := c.key, ts := f.wall, exp := logExpiry f.wall c.retention (2 * c.repeatI),
    firing := f.firing, resolved := f.resolved, data := "-" }

def step (c : Cfg) (cs : CState) : Ev → CState
  | .flush i f =>
    let o := flushStep c (getLog cs i) f
    let cs1 := setLog cs i o.st
    { cs1 with
      sends := (match o.sent with | some n => (i, n) :: cs.sends | none => cs.sends),
      bcast := if o.logged then entryOfFlush c f :: cs.bcast else cs.bcast }
  | .deliver e j now =>
    -- only entries that were really broadcast can be delivered (the channel invents nothing)
    if cs.bcast.contains e then setLog cs j (merge now (getLog cs j) e) else cs
  | .gc i now => setLog cs i (gc now (getLog cs i)).1
  | .crash i keep => if keep then cs else setLog cs i []

def run (c : Cfg) (evs : List Ev) (cs : CState) : CState := evs.foldl (step c) cs

def init : CState := { logs := fun _ => [] }

end AM.Cluster
