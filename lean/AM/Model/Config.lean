/-
  Model of configuration loading (/repo/config/config.go: `Load`,
  `Config.UnmarshalYAML`, `Route.UnmarshalYAML`, `Receiver.UnmarshalYAML`,
  `TimeInterval.UnmarshalYAML`, `checkReceiver`, `checkTimeInterval`), of
  `config.Coordinator.Reload` and of secret masking on marshalling — C17.

  `RawConfig` is what YAML decoding yields *before* any check.  `validate`
  applies the checks of the Go code in the order in which the Go code reaches
  them when the document lists its keys in the order
      global, route, receivers, mute_time_intervals, time_intervals, inhibit_rules
  (the order the harness emits): checks inside `UnmarshalYAML` hooks run during
  decoding — for routes children before their parent —, the checks of
  `Config.UnmarshalYAML` afterwards, those of `Load` last.  Errors are compared
  by class only.  Core Lean only.
-/
namespace AM.Config

inductive Err where
  | decode              -- YAML syntax/type error, unknown field, a notifier's own validation: not modelled further
  | matchName           -- Route: invalid label name in `match`
  | groupByLabel        -- Route: invalid label name in group_by
  | groupByMix          -- Route: '...' together with labels
  | groupByDup          -- Route: duplicated label in group_by
  | groupIntervalZero
  | repeatIntervalZero
  | receiverNoName      -- Receiver: missing name
  | receiverLabelName   -- Receiver: label "name" differs from the name
  | intervalNoName      -- (Mute)TimeInterval: missing name
  | globalConflict      -- Config: "at most one of x & x_file"
  | dupReceiver
  | integrationDefault  -- Config: an integration lacks a value and the global default is missing
  | noRoute
  | rootNoReceiver
  | rootMatchers
  | rootMute
  | rootActive
  | undefinedReceiver
  | dupInterval
  | undefinedInterval
  | rootContinue        -- Load
  deriving DecidableEq, Repr

def Err.name : Err → String
  | .decode => "decode" | .matchName => "matchName" | .groupByLabel => "groupByLabel"
  | .groupByMix => "groupByMix" | .groupByDup => "groupByDup" | .groupIntervalZero => "groupIntervalZero"
  | .repeatIntervalZero => "repeatIntervalZero" | .receiverNoName => "receiverNoName"
  | .receiverLabelName => "receiverLabelName" | .intervalNoName => "intervalNoName"
  | .globalConflict => "globalConflict" | .dupReceiver => "dupReceiver"
  | .integrationDefault => "integrationDefault" | .noRoute => "noRoute" | .rootNoReceiver => "rootNoReceiver"
  | .rootMatchers => "rootMatchers" | .rootMute => "rootMute" | .rootActive => "rootActive"
  | .undefinedReceiver => "undefinedReceiver" | .dupInterval => "dupInterval"
  | .undefinedInterval => "undefinedInterval" | .rootContinue => "rootContinue"

/-- one route without its children -/
structure Node where
  receiver   : String := ""
  groupBy    : Option (List String) := none  -- `none`: key absent; `some []`: explicit empty list
  matchNames : List String := []             -- keys of the deprecated `match` map
  nMatchers  : Nat := 0                      -- |match| + |match_re| + |matchers|
  mute       : List String := []
  active     : List String := []
  cont       : Bool := false
  groupInterval  : Option Int := none        -- ns
  repeatInterval : Option Int := none
  extra      : String := ""                  -- matcher texts, group_wait, labels: compared, not validated
  deriving DecidableEq, Repr, Inhabited

inductive Route where
  | mk (node : Node) (children : List Route)
  deriving Repr, Inhabited

def Route.node : Route → Node
  | .mk n _ => n
def Route.children : Route → List Route
  | .mk _ cs => cs

structure RawReceiver where
  name : String
  labelName : Option String := none    -- value of the label "name" if given
  needsDefault : Bool := false         -- an integration relies on a global default that is not there
  deriving DecidableEq, Repr, Inhabited

structure RawConfig where
  decodeFault    : Bool := false
  globalConflict : Bool := false
  route          : Option Route := none
  receivers      : List RawReceiver := []
  muteIntervals  : List String := []   -- names, mute_time_intervals (deprecated key)
  timeIntervals  : List String := []   -- names, time_intervals
  deriving Repr, Inhabited

/-- label names the generators emit are classic names or empty; only emptiness is ever invalid -/
def validLabel (s : String) : Bool := s ≠ ""

def hasDup : List String → Bool
  | [] => false
  | x :: xs => xs.contains x || hasDup xs

/-- `GroupBy` as computed by `Route.UnmarshalYAML`: the labels other than '...' -/
def Node.labels (n : Node) : List String := (n.groupBy.getD []).filter (· ≠ "...")
def Node.groupByAll (n : Node) : Bool := (n.groupBy.getD []).contains "..."

/-- the checks of `Route.UnmarshalYAML` on one node, in order -/
def nodeErr (n : Node) : Option Err :=
  if n.matchNames.any (fun k => !validLabel k) then some .matchName
  else if n.labels.any (fun l => !validLabel l) then some .groupByLabel
  else if !n.labels.isEmpty && n.groupByAll then some .groupByMix
  else if hasDup n.labels then some .groupByDup
  else if n.groupInterval = some 0 then some .groupIntervalZero
  else if n.repeatInterval = some 0 then some .repeatIntervalZero
  else none

/-- first error of a node check over the tree, children before their parent
    (the order of nested `UnmarshalYAML` calls, of `checkReceiver` and of `checkTimeInterval`) -/
def firstErr (f : Node → Option Err) : Route → Option Err
  | .mk n cs =>
    match firstErrs f cs with
    | some e => some e
    | none => f n
where
  firstErrs (f : Node → Option Err) : List Route → Option Err
    | [] => none
    | r :: rs =>
      match firstErr f r with
      | some e => some e
      | none => firstErrs f rs

/-- `checkReceiver` on one node -/
def receiverErr (names : List String) (n : Node) : Option Err :=
  if n.receiver = "" then none
  else if names.contains n.receiver then none else some .undefinedReceiver

/-- `checkTimeInterval` on one node -/
def intervalErr (names : List String) (n : Node) : Option Err :=
  if (n.active ++ n.mute).all names.contains then none else some .undefinedInterval

/-- receivers loop of `Config.UnmarshalYAML`: duplicate name, then integration defaults -/
def receiversErr : List String → List RawReceiver → Option Err
  | _, [] => none
  | seen, r :: rs =>
    if seen.contains r.name then some .dupReceiver
    else if r.needsDefault then some .integrationDefault
    else receiversErr (r.name :: seen) rs

/-- `Receiver.UnmarshalYAML`, receiver by receiver -/
def receiversDecodeErr : List RawReceiver → Option Err
  | [] => none
  | r :: rs =>
    if r.name = "" then some .receiverNoName
    else if (match r.labelName with | some v => decide (v ≠ r.name) | none => false) then some .receiverLabelName
    else receiversDecodeErr rs

def firstSome : List (Option Err) → Option Err
  | [] => none
  | some e :: _ => some e
  | none :: rest => firstSome rest

/-- all checks, in the order the Go code reaches them -/
def check (c : RawConfig) : Option Err :=
  match c.route with
  | none =>
    firstSome [
      (if c.decodeFault then some .decode else none),
      receiversDecodeErr c.receivers,
      (if (c.muteIntervals ++ c.timeIntervals).any (· = "") then some .intervalNoName else none),
      (if c.globalConflict then some .globalConflict else none),
      receiversErr [] c.receivers,
      some .noRoute]
  | some r =>
    firstSome [
      -- decoding
      (if c.decodeFault then some .decode else none),
      firstErr nodeErr r,
      receiversDecodeErr c.receivers,
      (if (c.muteIntervals ++ c.timeIntervals).any (· = "") then some .intervalNoName else none),
      -- Config.UnmarshalYAML
      (if c.globalConflict then some .globalConflict else none),
      receiversErr [] c.receivers,
      (if r.node.receiver = "" then some .rootNoReceiver else none),
      (if r.node.nMatchers > 0 then some .rootMatchers else none),
      (if !r.node.mute.isEmpty then some .rootMute else none),
      (if !r.node.active.isEmpty then some .rootActive else none),
      firstErr (receiverErr (c.receivers.map (·.name))) r,
      (if hasDup (c.muteIntervals ++ c.timeIntervals) then some .dupInterval else none),
      firstErr (intervalErr (c.muteIntervals ++ c.timeIntervals)) r,
      -- Load
      (if r.node.cont then some .rootContinue else none)]

/-- the loaded configuration: the checked raw configuration (defaults and inheritance are not modelled) -/
abbrev Config := RawConfig

def validate (c : RawConfig) : Except Err Config :=
  match check c with
  | some e => .error e
  | none => .ok c

/-! ### well-formedness (the eight clauses of the property) -/

/-- a predicate on every node of the tree -/
def Route.all (p : Node → Bool) : Route → Bool
  | .mk n cs => p n && allList p cs
where
  allList (p : Node → Bool) : List Route → Bool
    | [] => true
    | r :: rs => Route.all p r && allList p rs

structure Clauses where
  rootReceiver    : Bool   -- 1 root has a receiver
  rootNoMatchers  : Bool   -- 2 … no matchers
  rootNoIntervals : Bool   -- 3 … no mute / active intervals
  receiversDefined : Bool  -- 4 every route's receiver is defined
  intervalsDefined : Bool  -- 5 every referenced time interval is defined
  namesUnique     : Bool   -- 6 receiver names and interval names are unique
  groupByOK       : Bool   -- 7 group_by: no duplicate label, '...' not mixed with labels
  intervalsNonZero : Bool  -- 8 group_interval, repeat_interval non-zero
  deriving DecidableEq, Repr

def clauses (c : RawConfig) : Clauses :=
  match c.route with
  | none => ⟨false, false, false, false, false, false, false, false⟩
  | some r =>
    let names := c.receivers.map (·.name)
    let tis := c.muteIntervals ++ c.timeIntervals
    { rootReceiver := r.node.receiver ≠ "",
      rootNoMatchers := r.node.nMatchers = 0,
      rootNoIntervals := r.node.mute.isEmpty && r.node.active.isEmpty,
      receiversDefined := r.all (fun n => n.receiver = "" || names.contains n.receiver),
      intervalsDefined := r.all (fun n => (n.active ++ n.mute).all tis.contains),
      namesUnique := !hasDup names && !hasDup tis,
      groupByOK := r.all (fun n => !hasDup n.labels && !(!n.labels.isEmpty && n.groupByAll)),
      intervalsNonZero := r.all (fun n => n.groupInterval ≠ some 0 && n.repeatInterval ≠ some 0) }

def WellFormed (c : RawConfig) : Prop :=
  clauses c = ⟨true, true, true, true, true, true, true, true⟩

def violated (c : RawConfig) : List String :=
  let k := clauses c
  (if k.rootReceiver then [] else ["root-receiver"]) ++
  (if k.rootNoMatchers then [] else ["root-matchers"]) ++
  (if k.rootNoIntervals then [] else ["root-intervals"]) ++
  (if k.receiversDefined then [] else ["undefined-receiver"]) ++
  (if k.intervalsDefined then [] else ["undefined-interval"]) ++
  (if k.namesUnique then [] else ["duplicate-name"]) ++
  (if k.groupByOK then [] else ["group-by"]) ++
  (if k.intervalsNonZero then [] else ["zero-interval"])

/-! ### Coordinator -/

structure Coord (C : Type) where
  config : Option C := none       -- Coordinator.config
  applied : List C := []          -- configs handed to the subscribers, latest first

/-- `Coordinator.Reload`: `load` is the outcome of `LoadFile`; `subsOk` whether every subscriber accepts -/
def Coord.reload {C E} (s : Coord C) (load : Except E C) (subsOk : Bool) : Coord C × Bool :=
  match load with
  | .error _ => (s, false)
  | .ok c => ({ config := some c, applied := c :: s.applied }, subsOk)

/-! ### the reloader: the subscriber that applies a loaded configuration (app/reloader.go `reload`) -/

/-- what a step of the reload does to the running instance WHEN IT SUCCEEDS -/
inductive Effect where
  | none         -- builds something new, touches nothing that runs
  | aux          -- re-targets a long-lived helper (tracer provider, event-recorder outputs)
  | stopOld      -- stops the running inhibitor / dispatcher
  | publishApi   -- `apih.Update`: the configuration the API serves
  | startNew     -- starts and publishes the new inhibitor / dispatcher
  deriving DecidableEq, Repr

structure Step where
  name     : String
  fallible : Bool
  effect   : Effect
  deriving DecidableEq, Repr

/-- the configuration-scoped part of the running instance -/
structure Live (C : Type) where
  running : Option C := none     -- the configuration whose dispatcher + inhibitor are alive (none: nothing routes)
  served  : Option C := none     -- what the status API shows
  aux     : Option C := none     -- tracing / event recorder targets
  deriving DecidableEq, Repr

def Effect.apply {C} (c : C) : Effect → Live C → Live C
  | .none, s => s
  | .aux, s => { s with aux := some c }
  | .stopOld, s => { s with running := Option.none }
  | .publishApi, s => { s with served := some c }
  | .startNew, s => { s with running := some c }

/-- Run the steps in order with configuration `c`; `failAt = some k` makes the
    step at position `k` fail if it can fail (a failing step has no effect and
    ends the reload).  Returns the state and whether the reload succeeded. -/
def runSteps {C} : List Step → C → Option Nat → Live C → Live C × Bool
  | [], _, _, s => (s, true)
  | st :: rest, c, failAt, s =>
    if st.fallible ∧ failAt = some 0 then (s, false)
    else runSteps rest c (failAt.map (· - 1)) (st.effect.apply c s)

/-- the order discipline: once a step has touched the running instance, no later step can fail -/
def safeOrder : List Step → Bool
  | [] => true
  | st :: rest => if st.effect = .none then safeOrder rest else rest.all (fun r => !r.fallible)

/-- `reloader.reload` as it is: templates, receivers (fallible, build only); tracing
    (the last step that can fail; re-targets the tracer on success); then event
    recorder, stop old inhibitor + dispatcher, publish to the API, start the new ones. -/
def reloaderSteps : List Step :=
  [ ⟨"templates", true, .none⟩, ⟨"receivers", true, .none⟩, ⟨"tracing", true, .aux⟩,
    ⟨"eventrecorder", false, .aux⟩, ⟨"stop-inhibitor", false, .stopOld⟩, ⟨"stop-dispatcher", false, .stopOld⟩,
    ⟨"api-update", false, .publishApi⟩, ⟨"start-inhibitor", false, .startNew⟩, ⟨"start-dispatcher", false, .startNew⟩ ]

/-- the application: coordinator + reloader subscriber -/
structure AppState (C : Type) where
  coord : Coord C := {}
  live  : Live C := {}

/-- `Coordinator.Reload` with the reloader as its subscriber: `load` = outcome of
    `LoadFile`, `failAt` = which reloader step (if any) fails. -/
def AppState.reload {C E} (steps : List Step) (a : AppState C) (load : Except E C) (failAt : Option Nat) :
    AppState C × Bool :=
  match load with
  | .error _ => (a, false)
  | .ok c =>
    let (l, ok) := runSteps steps c failAt a.live
    ({ coord := (a.coord.reload (.ok c : Except E C) ok).1, live := l }, ok)

/-! ### marshalling with masked secrets -/

inductive Leaf where
  | plain (v : String)
  | secret (v : String)
  deriving DecidableEq, Repr

/-- the field table: a tree of named fields whose leaves are tagged -/
inductive Field where
  | leaf (name : String) (l : Leaf)
  | node (name : String) (fields : List Field)
  deriving Repr

def mask : String := "<secret>"

/-- what `MarshalYAML` of a leaf emits: secrets become `<secret>` (empty ones are omitted) -/
def Leaf.render : Leaf → List String
  | .plain v => [v]
  | .secret v => if v = "" then [] else [mask]

/-- the emitted tokens (keys and scalar values) of the marshalled document -/
def Field.render : Field → List String
  | .leaf name l => name :: l.render
  | .node name fs => name :: renderList fs
where
  renderList : List Field → List String
    | [] => []
    | f :: fs => Field.render f ++ renderList fs

def Field.secrets : Field → List String
  | .leaf _ (.secret v) => [v]
  | .leaf _ (.plain _) => []
  | .node _ fs => secretsList fs
where
  secretsList : List Field → List String
    | [] => []
    | f :: fs => Field.secrets f ++ secretsList fs

def Field.plains : Field → List String
  | .leaf name (.plain v) => [name, v]
  | .leaf name (.secret _) => [name]
  | .node name fs => name :: plainsList fs
where
  plainsList : List Field → List String
    | [] => []
    | f :: fs => Field.plains f ++ plainsList fs

end AM.Config

namespace AM.Config

/-! ### printing (`Config.String()`) and loading it back, routing tree only -/

/-- what `yaml.Marshal` keeps of one route: `group_by` is tagged `omitempty`, so an
    explicit empty list is not written and reads back as "absent" -/
def printNode (n : Node) : Node :=
  if n.groupBy = some [] then { n with groupBy := none } else n

/-- `Load (String c)` on the routing tree -/
def printLoad : Route → Route
  | .mk n cs => .mk (printNode n) (printLoadList cs)
where
  printLoadList : List Route → List Route
    | [] => []
    | r :: rs => printLoad r :: printLoadList rs

end AM.Config

/-! ### the deprecated regular-expression maps (`match_re`, `source_match_re`, `target_match_re`)

`config/common.Regexp` is a compiled expression plus its source text.  The zero value (nothing compiled) is what a YAML
`null` decodes to, and `MatchRegexps.UnmarshalYAML` refuses a map holding one ("invalid regexp value").  `compiles` is
the parameter standing for `regexp.Compile`. -/
namespace AM.Config

/-- `Regexp`: `compiled` = the embedded `*regexp.Regexp` is non-nil. -/
structure Rx where
  compiled : Bool
  original : String
  deriving DecidableEq, Repr

/-- a YAML scalar as far as these maps are concerned -/
inductive Scalar where
  | null
  | str (s : String)
  deriving DecidableEq, Repr

/-- `Regexp.MarshalYAML` after F13: a compiled expression prints its source text, also when that is empty. -/
def Rx.print (r : Rx) : Scalar :=
  if r.original ≠ "" ∨ r.compiled then .str r.original else .null

/-- `Regexp.MarshalYAML` as pinned: the empty source text printed as `null`. -/
def Rx.printOld (r : Rx) : Scalar :=
  if r.original ≠ "" then .str r.original else .null

/-- `Regexp.UnmarshalYAML` + the check of `MatchRegexps.UnmarshalYAML`: `null` leaves the zero value, which is refused. -/
def Rx.load (compiles : String → Bool) : Scalar → Option Rx
  | .null => none
  | .str s => if compiles s then some ⟨true, s⟩ else none

end AM.Config

/-! ### null entries of an integration list (`slack_configs: [null]`, also opsgenie, wechat, rocketchat)

The loader walks the entries, takes a default for a `null` one, fills the global settings in and validates the result.
`build` is `receiver.BuildReceiverIntegrations`: it dereferences every entry. -/
namespace AM.Config

/-- an integration entry after decoding: `none` = YAML `null`; the payload stands for the settings -/
abbrev Entry := Option Nat

/-- the loader after F14: the default taken for a `null` entry is stored back into the list -/
def fillNulls (dflt : Nat) (es : List Entry) : List Entry := es.map fun e => some (e.getD dflt)

/-- the loader as pinned: the default lives in a loop variable only, the list keeps its `null` -/
def fillNullsOld (_dflt : Nat) (es : List Entry) : List Entry := es

/-- building the integrations: `none` = nil dereference (the process dies) -/
def build (es : List Entry) : Option (List Nat) := es.mapM id

end AM.Config
