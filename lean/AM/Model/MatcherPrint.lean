/-
  Model of /repo/pkg/labels/matcher.go: `Matcher`, `MatchType.String`,
  `NewMatcher`, `Matcher.String` (OpenMetrics-escape vs. `strconv.Quote`
  branch), `Matchers.String`, `isReserved`, `openMetricsEscape`, and of
  `strconv.Quote` (go1.25 `appendQuotedWith`/`appendEscapedRune`).  Core only.

  `isPrint : Nat → Bool` (`strconv.IsPrint` on the code point) is a parameter:
  the Unicode tables are not modelled.  Regular-expression compilation is the
  parameter `compiles` (does `regexp.Compile("^(?:" + v + ")$")` succeed).

  `print` is the printer WITH the candidate repair fixes/F7.diff (an empty
  name is quoted); `printPinned` is the printer of the pinned tree.
-/
import AM.Base.UTF8

namespace AM.Mt
open AM

/-! ### code points used below
  9 \t  10 \n  11 \v  12 \f  13 \r  32 space  33 !  34 "  39 '  44 ,  61 =
  92 \  96 `  123 {  125 }  126 ~ -/

/-- `unicode.IsSpace` -/
def isSpaceU (n : Nat) : Bool :=
  n == 9 || n == 10 || n == 11 || n == 12 || n == 13 || n == 32 || n == 0x85 || n == 0xA0 ||
  n == 0x1680 || (0x2000 ≤ n && n ≤ 0x200A) || n == 0x2028 || n == 0x2029 || n == 0x202F ||
  n == 0x205F || n == 0x3000

/-- `isReserved`: `unicode.IsSpace(r) || strings.ContainsRune("{}!=~,\\\"'`", r)` -/
def isReserved (n : Nat) : Bool :=
  isSpaceU n || n == 123 || n == 125 || n == 33 || n == 61 || n == 126 || n == 44 ||
  n == 92 || n == 34 || n == 39 || n == 96

inductive Op where
  | eq | ne | re | nre
  deriving DecidableEq, Repr, Inhabited

def Op.isRegex : Op → Bool
  | .re | .nre => true
  | _ => false

/-- `MatchType.String` -/
def Op.str : Op → Str
  | .eq => [.ch '=']
  | .ne => [.ch '!', .ch '=']
  | .re => [.ch '=', .ch '~']
  | .nre => [.ch '!', .ch '~']

structure Matcher where
  op : Op
  name : Str
  value : Str
  deriving DecidableEq, Repr, Inhabited

inductive Err where
  | syntax      -- any lexical / grammatical rejection
  | regex       -- `regexp.Compile` refused the value
  | count       -- `parse.Matcher`: not exactly one matcher
  | brace       -- compat single-matcher parsers: leading '{' or trailing '}'
  deriving DecidableEq, Repr, Inhabited

/-- `NewMatcher` -/
def newMatcher (compiles : Str → Bool) (op : Op) (n v : Str) : Except Err Matcher :=
  if op.isRegex && !compiles v then .error .regex else .ok ⟨op, n, v⟩

/-! ### `openMetricsEscape` (a byte replacer: `\` → `\\`, LF → `\n`, `"` → `\"`) -/

def bs : Rune := .ch '\\'
def dq : Rune := .ch '"'

def omEscape : Str → Str
  | [] => []
  | r :: rest =>
    if r.cp = 92 then bs :: bs :: omEscape rest
    else if r.cp = 10 then bs :: .ch 'n' :: omEscape rest
    else if r.cp = 34 then bs :: dq :: omEscape rest
    else r :: omEscape rest

/-! ### `strconv.Quote` -/

def hexDigit (n : Nat) : Rune :=
  .ch (match n with
    | 0 => '0' | 1 => '1' | 2 => '2' | 3 => '3' | 4 => '4' | 5 => '5' | 6 => '6' | 7 => '7'
    | 8 => '8' | 9 => '9' | 10 => 'a' | 11 => 'b' | 12 => 'c' | 13 => 'd' | 14 => 'e' | _ => 'f')

def hex2 (n : Nat) : Str := [hexDigit (n / 16 % 16), hexDigit (n % 16)]
def hex4 (n : Nat) : Str :=
  [hexDigit (n / 4096 % 16), hexDigit (n / 256 % 16), hexDigit (n / 16 % 16), hexDigit (n % 16)]
def hex8 (n : Nat) : Str := hex4 (n / 65536) ++ hex4 (n % 65536)

/-- one iteration of `appendQuotedWith` -/
def quoteRune (isPrint : Nat → Bool) : Rune → Str
  | .bad b => bs :: .ch 'x' :: hex2 b.toNat
  | .ch c =>
    if c.toNat = 34 ∨ c.toNat = 92 then [bs, .ch c]
    else if isPrint c.toNat then [.ch c]
    else if c.toNat = 7 then [bs, .ch 'a']
    else if c.toNat = 8 then [bs, .ch 'b']
    else if c.toNat = 12 then [bs, .ch 'f']
    else if c.toNat = 10 then [bs, .ch 'n']
    else if c.toNat = 13 then [bs, .ch 'r']
    else if c.toNat = 9 then [bs, .ch 't']
    else if c.toNat = 11 then [bs, .ch 'v']
    else if c.toNat < 32 ∨ c.toNat = 127 then bs :: .ch 'x' :: hex2 c.toNat
    else if c.toNat < 0x10000 then bs :: .ch 'u' :: hex4 c.toNat
    else bs :: .ch 'U' :: hex8 c.toNat

def quoteBody (isPrint : Nat → Bool) : Str → Str
  | [] => []
  | r :: rest => quoteRune isPrint r ++ quoteBody isPrint rest

def quote (isPrint : Nat → Bool) (s : Str) : Str := dq :: (quoteBody isPrint s ++ [dq])

/-! ### `Matcher.String`, `Matchers.String` -/

def hasReserved (s : Str) : Bool := s.any (fun r => isReserved r.cp)

/-- `Matcher.String` of the pinned tree. -/
def printPinned (isPrint : Nat → Bool) (m : Matcher) : Str :=
  if hasReserved m.name then quote isPrint m.name ++ m.op.str ++ quote isPrint m.value
  else m.name ++ m.op.str ++ (dq :: (omEscape m.value ++ [dq]))

/-- `Matcher.String` with fixes/F7.diff: an empty name takes the quoting branch. -/
def print (isPrint : Nat → Bool) (m : Matcher) : Str :=
  if m.name.isEmpty || hasReserved m.name then quote isPrint m.name ++ m.op.str ++ quote isPrint m.value
  else m.name ++ m.op.str ++ (dq :: (omEscape m.value ++ [dq]))

def commaSep (f : Matcher → Str) : List Matcher → Str
  | [] => []
  | [m] => f m
  | m :: rest => f m ++ (.ch ',' :: commaSep f rest)

/-- `Matchers.String` -/
def printList (isPrint : Nat → Bool) (ms : List Matcher) : Str :=
  .ch '{' :: (commaSep (print isPrint) ms ++ [.ch '}'])

def printListPinned (isPrint : Nat → Bool) (ms : List Matcher) : Str :=
  .ch '{' :: (commaSep (printPinned isPrint) ms ++ [.ch '}'])

/-! ### `Matcher.Matches`, `Matchers.Matches`, `MatcherSet.Matches`

  `fullMatch v s`: the regular expression `v` matches the WHOLE of `s` (the
  meaning of the `^(?:v)$` wrapping `NewMatcher` applies; AM.Model.MatcherRegex
  gives it a semantics for a fragment of the syntax — `FullMatch`, decided by
  `matchRe` — and AM.Props.C16 `wrapped_search_iff_full_match` shows that the
  wrapping followed by `MatchString` is exactly that). -/

abbrev LabelSet := List (Str × Str)

/-- `lset[name]`: a missing label reads as the empty string. -/
def LabelSet.get : LabelSet → Str → Str
  | [], _ => []
  | (k, v) :: rest, n => if k = n then v else LabelSet.get rest n

def Matcher.matchesValue (fullMatch : Str → Str → Bool) (m : Matcher) (s : Str) : Bool :=
  match m.op with
  | .eq => s == m.value
  | .ne => s != m.value
  | .re => fullMatch m.value s
  | .nre => !fullMatch m.value s

/-- `Matchers.Matches`: the loop with its early `return false`. -/
def matchesAll (fullMatch : Str → Str → Bool) : List Matcher → LabelSet → Bool
  | [], _ => true
  | m :: rest, ls =>
    if !m.matchesValue fullMatch (ls.get m.name) then false else matchesAll fullMatch rest ls

/-- `MatcherSet.Matches` -/
def matchesAny (fullMatch : Str → Str → Bool) : List (List Matcher) → LabelSet → Bool
  | [], _ => false
  | ms :: rest, ls => if matchesAll fullMatch ms ls then true else matchesAny fullMatch rest ls

end AM.Mt
