/-
  Model of /repo/timeinterval/timeinterval.go (`TimeInterval.ContainsTime`,
  `clamp`, `daysInMonth`, the range unmarshallers' validation, `parseTime`,
  `Intervener.Mutes`) and of the two time stages of /repo/notify/mute.go
  (`TimeMuteStage.Exec`, `TimeActiveStage.Exec`) with the group marker of
  /repo/marker/group.go.  Core Lean only.

  * An instant is `unix : Int` seconds.  The tz database is data: whoever calls
    the model supplies the UTC offset (seconds east) that the interval's
    location has at that instant (`tz : String → Int`).  A Go `time.Time`
    also carries a location of its own (the caller's: the dispatcher's flush
    instants come from a timer and carry the process's local zone); the model
    passes the offset of that location at the instant as `callerOff`.
    `Intervener.Mutes` hands `now.UTC()` to `ContainsTime` (`utcOff`), so an
    interval without a location is read in UTC there whatever zone the
    caller's instant carries — `AM.Props.C15`: `mutes_caller_zone_irrelevant`
    and the same for the two stages and the pipeline.
  * A field is `Option (List Range)`: `none` is Go's nil slice (field absent:
    matches everything), `some []` an empty non-nil slice (`times: []` in YAML:
    matches nothing) — `ContainsTime` tests `!= nil`, not `len`.
  * `daysInMonth` is the calendar table.  The pinned code computes
    `time.Date(y, m+1, 0, 12, 0, 0, 0, t.Location()).Day()`, which differs
    from the calendar in a location whose local calendar skipped the last day
    of that month (finding F9, fixes/daysInMonth.diff: evaluate in UTC); the
    model describes the repaired code.
-/
import AM.Base.Calendar
import AM.Base.Map

namespace AM.TimeInterval
open AM AM.Calendar

structure Range where
  lo : Int
  hi : Int
  deriving DecidableEq, Repr, Inhabited

structure TimeInterval where
  times       : Option (List Range) := none   -- minutes of day, `lo` inclusive, `hi` exclusive
  weekdays    : Option (List Range) := none   -- 0 = Sunday … 6
  daysOfMonth : Option (List Range) := none   -- 1 … 31 or -31 … -1
  months      : Option (List Range) := none   -- 1 … 12
  years       : Option (List Range) := none
  location    : Option String := none
  deriving DecidableEq, Repr, Inhabited

/-- What Go's `Time` accessors return for a local-seconds count. -/
structure Clock where
  year    : Int
  month   : Int
  day     : Int
  weekday : Int
  hour    : Int
  minute  : Int
  deriving DecidableEq, Repr, Inhabited

/-- Civil reading of `ls = unix + offset` local seconds since 1970-01-01T00:00 local. -/
def clockOf (ls : Int) : Clock :=
  let days := ls / 86400
  let sod := ls % 86400
  let c := civilFromDays days
  { year := c.year, month := c.month, day := c.day, weekday := weekday days,
    hour := sod / 3600, minute := sod % 3600 / 60 }

/-- `clamp`. -/
def clamp (n lo hi : Int) : Int :=
  if n ≤ lo then lo else if n ≥ hi then hi else n

/-- `nil` matches everything, otherwise some range must match (also for the empty list). -/
def inField (f : Option (List Range)) (p : Range → Bool) : Bool :=
  match f with
  | none => true
  | some l => l.any p

def timeMatch (mod : Int) (r : Range) : Bool := decide (mod ≥ r.lo ∧ mod < r.hi)
def incMatch (v : Int) (r : Range) : Bool := decide (v ≥ r.lo ∧ v ≤ r.hi)

/-- Negative day-of-month index → day counted from the month's end. -/
def resolveDay (dim d : Int) : Int := if d < 0 then dim + d + 1 else d

/-- The day-of-month loop body of `ContainsTime`. -/
def domMatch (dim day : Int) (r : Range) : Bool :=
  let b := resolveDay dim r.lo
  let e := resolveDay dim r.hi
  if b > dim then false
  else decide (day ≥ clamp b (-dim) dim ∧ day ≤ clamp e (-dim) dim)

/-- `ContainsTime` after the conversion to the interval's location, with the
    month length `dim` as a parameter (whatever `daysInMonth(t)` returned). -/
def containsClockWith (dim : Int) (iv : TimeInterval) (k : Clock) : Bool :=
  inField iv.times (timeMatch (k.hour * 60 + k.minute)) &&
  inField iv.daysOfMonth (domMatch dim k.day) &&
  inField iv.months (incMatch k.month) &&
  inField iv.weekdays (incMatch k.weekday) &&
  inField iv.years (incMatch k.year)

/-- `ContainsTime` (repaired code: the month length is the calendar's). -/
def containsClock (iv : TimeInterval) (k : Clock) : Bool :=
  containsClockWith (daysInMonth k.year k.month) iv k

/-- The specification (AM.Props.C15 `Spec`) as a computable predicate on civil
    fields, without `clamp`: the drivers evaluate it on the fields Go reports.
    `specB_iff` proves it equivalent to the declarative `Spec`. -/
def domSpecB (dim day : Int) (r : Range) : Bool :=
  decide (resolveDay dim r.lo ≤ day ∧ day ≤ resolveDay dim r.hi ∧ 1 ≤ day ∧ day ≤ dim)

def specB (iv : TimeInterval) (c : Civil) (wd mod : Int) : Bool :=
  inField iv.times (fun r => decide (r.lo ≤ mod ∧ mod < r.hi)) &&
  inField iv.daysOfMonth (domSpecB (daysInMonth c.year c.month) c.day) &&
  inField iv.months (fun r => decide (r.lo ≤ c.month ∧ c.month ≤ r.hi)) &&
  inField iv.weekdays (fun r => decide (r.lo ≤ wd ∧ wd ≤ r.hi)) &&
  inField iv.years (fun r => decide (r.lo ≤ c.year ∧ c.year ≤ r.hi))

/-- Offset under which `ContainsTime` reads the instant: the interval's own
    location if it has one, else the location of the `time.Time` it was given. -/
def effOffset (iv : TimeInterval) (tz : String → Int) (callerOff : Int) : Int :=
  match iv.location with
  | some l => tz l
  | none => callerOff

/-- `TimeInterval.ContainsTime`. -/
def containsTime (iv : TimeInterval) (unix : Int) (tz : String → Int) (callerOff : Int) : Bool :=
  containsClock iv (clockOf (unix + effOffset iv tz callerOff))

/-! ### `Intervener.Mutes` -/

/-- The configuration's named interval sets (`map[string][]TimeInterval`). -/
abbrev Named := AList String (List TimeInterval)

/-- `time.Time.UTC()`: the same instant carried in the UTC location — the offset
    of the location the result carries, whatever the argument carried. -/
def utcOff (_callerOff : Int) : Int := 0

/-- `Intervener.Mutes`: `none` = error (a name is not configured); otherwise the
    list `in` — a name once per interval of its set that contains the instant.
    `callerOff`: offset of the location carried by the `now` argument; the code
    normalises it with `now.UTC()` before every `ContainsTime`. -/
def mutesNames (cfg : Named) (unix : Int) (tz : String → Int) (callerOff : Int) : List String → Option (List String)
  | [] => some []
  | n :: rest =>
    match AList.lookup cfg n with
    | none => none
    | some ivs =>
      match mutesNames cfg unix tz callerOff rest with
      | none => none
      | some more =>
        some ((ivs.filter (fun iv => containsTime iv unix tz (utcOff callerOff))).map (fun _ => n) ++ more)

def mutes (cfg : Named) (names : List String) (unix : Int) (tz : String → Int) (callerOff : Int) :
    Option (Bool × List String) :=
  (mutesNames cfg unix tz callerOff names).map fun l => (!l.isEmpty, l)

/-! ### the two notify stages -/

/-- What a stage did. -/
structure StageOut where
  passed : Bool                          -- the stage returns its input alerts (false: none)
  err    : Bool                          -- … together with an error
  marker : Option (List String)          -- `SetMuted` argument, `none`: marker untouched
  deriving DecidableEq, Repr, Inhabited

/-- `TimeMuteStage.Exec` (route id and group key present).  `names = none`: the
    context carries no mute-interval key; `now = none`: no timestamp;
    `callerOff`: offset of the location the context's `now` carries (handed to
    `Intervener.Mutes` as it is). -/
def muteStage (cfg : Named) (names : Option (List String)) (now : Option Int) (tz : String → Int)
    (callerOff : Int) : StageOut :=
  match names with
  | none => { passed := true, err := false, marker := some [] }
  | some ns =>
    match now with
    | none => { passed := true, err := true, marker := some [] }
    | some t =>
      if ns.isEmpty then { passed := true, err := false, marker := some [] }
      else match mutes cfg ns t tz callerOff with
        | none => { passed := true, err := true, marker := none }
        | some (muted, by_) => { passed := !muted, err := false, marker := some by_ }

/-- `TimeActiveStage.Exec`. -/
def activeStage (cfg : Named) (names : Option (List String)) (now : Option Int) (tz : String → Int)
    (callerOff : Int) : StageOut :=
  match names with
  | none => { passed := true, err := false, marker := some [] }
  | some ns =>
    if ns.isEmpty then { passed := true, err := false, marker := some [] }
    else match now with
      | none => { passed := true, err := true, marker := some [] }
      | some t =>
        match mutes cfg ns t tz callerOff with
        | none => { passed := true, err := true, marker := none }
        | some (active, _) => { passed := active, err := false, marker := some (if active then [] else ns) }

/-- The pipeline order `MultiStage{…, tas, tms, …}` on a non-empty alert list:
    an error ends the pipeline with no alerts; the mute stage runs only if the
    active stage handed alerts on. -/
def pipeline (cfg : Named) (muteNames activeNames : Option (List String)) (now : Option Int)
    (tz : String → Int) (callerOff : Int) : StageOut :=
  let a := activeStage cfg activeNames now tz callerOff
  if a.err then { a with passed := false }
  else if !a.passed then a
  else
    let m := muteStage cfg muteNames now tz callerOff
    { passed := m.passed && !m.err, err := m.err,
      marker := match m.marker with | some x => some x | none => a.marker }

/-- `groupMarker.Muted` after `SetMuted names`. -/
def markerMuted (names : List String) : Bool := !names.isEmpty

/-! ### validation done by the unmarshallers -/

/-- `strconv.Atoi` on a 64-bit platform. -/
def atoi (s : String) : Option Int :=
  let cs := s.toList
  let (neg, ds) := match cs with
    | '-' :: r => (true, r)
    | '+' :: r => (false, r)
    | r => (false, r)
  if ds.isEmpty ∨ !ds.all Char.isDigit then none
  else
    let v : Int := ds.foldl (fun (acc : Int) c => acc * 10 + ((c.toNat - '0'.toNat : Nat) : Int)) 0
    let v := if neg then -v else v
    if v < -9223372036854775808 ∨ v > 9223372036854775807 then none else some v

def weekdayNames : List (String × Int) :=
  [("sunday", 0), ("monday", 1), ("tuesday", 2), ("wednesday", 3), ("thursday", 4), ("friday", 5), ("saturday", 6)]

def monthNames : List (String × Int) :=
  [("january", 1), ("february", 2), ("march", 3), ("april", 4), ("may", 5), ("june", 6), ("july", 7),
   ("august", 8), ("september", 9), ("october", 10), ("november", 11), ("december", 12)]

inductive Kind where
  | weekday | dayOfMonth | month | year
  deriving DecidableEq, Repr

/-- `memberFromString` of the four range types. -/
def member (k : Kind) (s : String) : Option Int :=
  match k with
  | .weekday => weekdayNames.lookup s
  | .month => match monthNames.lookup s with
    | some v => some v
    | none => atoi s
  | _ => atoi s

/-- `stringableRangeFromString` (input already lower-cased as `strings.ToLower` does for ASCII). -/
def rangeFromString (k : Kind) (s : String) : Option Range :=
  let s := s.toLower
  if s.contains ':' then
    match s.splitOn ":" with
    | [a, b] =>
      match member k a, member k b with
      | some x, some y => some ⟨x, y⟩
      | _, _ => none
    | _ => none
  else (member k s).map fun v => ⟨v, v⟩

/-- The checks after parsing in the four `UnmarshalYAML` methods. -/
def rangeValid (k : Kind) (r : Range) : Bool :=
  match k with
  | .weekday => decide (r.lo ≤ r.hi ∧ 0 ≤ r.lo ∧ r.lo ≤ 6 ∧ 0 ≤ r.hi ∧ r.hi ≤ 6)
  | .dayOfMonth =>
    let okB := decide (r.lo ≠ 0 ∧ -31 ≤ r.lo ∧ r.lo ≤ 31)
    let okE := decide (r.hi ≠ 0 ∧ -31 ≤ r.hi ∧ r.hi ≤ 31)
    let sign := !(decide (r.lo < 0 ∧ r.hi > 0))
    let cb := if r.lo < 0 then 28 + r.lo else r.lo
    let ce := if r.hi < 0 then 28 + r.hi else r.hi
    okB && okE && sign && decide (cb ≤ ce)
  | .month => decide (r.lo ≤ r.hi)
  | .year => decide (r.lo ≤ r.hi)

def parseRange (k : Kind) (s : String) : Option Range :=
  match rangeFromString k s with
  | some r => if rangeValid k r then some r else none
  | none => none

/-- `parseTime`: `HH:MM` with `00 ≤ HH ≤ 23`, `00 ≤ MM ≤ 59`, or `24:00`. -/
def parseTime (s : String) : Option Int :=
  match s.toList with
  | [h1, h2, ':', m1, m2] =>
    if h1.isDigit ∧ h2.isDigit ∧ m1.isDigit ∧ m2.isDigit then
      let h : Int := (((h1.toNat - 48) * 10 + (h2.toNat - 48) : Nat) : Int)
      let m : Int := (((m1.toNat - 48) * 10 + (m2.toNat - 48) : Nat) : Int)
      if (h ≤ 23 ∧ m ≤ 59) ∨ (h = 24 ∧ m = 0) then some (h * 60 + m) else none
    else none
  | _ => none

/-- `TimeRange.UnmarshalYAML`. -/
def parseTimeRange (startS endS : String) : Option Range :=
  if startS.isEmpty ∨ endS.isEmpty then none
  else match parseTime startS, parseTime endS with
    | some a, some b => if a ≥ b then none else some ⟨a, b⟩
    | _, _ => none

end AM.TimeInterval
