/-
  Model of the dispatcher's alert ingestion (/repo/dispatch/dispatch.go `run`):
  the provider publishes the updates of all alerts in order on ONE channel;
  N worker goroutines take updates from it and apply them to the aggregation
  groups (`routeAlert` → `groupAlert` → `aggrGroup.insert` → `store.Alerts.Set`,
  unconditional).  Micro-steps at the granularity of the Go code: a channel
  receive is atomic, a `Set` is atomic (store mutex); everything else interleaves
  freely.  Core Lean only.

  * `Legacy.*`  — the pinned tree: every worker receives from the shared channel.
  * the default — the repaired code (fixes/F3.diff): the `run` goroutine hands
    every update to the private queue of the worker that owns the alert's
    fingerprint (`fingerprint mod N`); a worker applies its queue in order.

  An update is identified by its alert (`fp`) and a version tag; the group store
  is `fp ↦ version held` (one group per alert is enough: an alert's groups
  receive the same `insert`s in the same worker step).
-/
namespace AM.Workers

structure Upd where
  fp  : Nat
  ver : Nat
  deriving DecidableEq, Repr

abbrev Group := Nat → Option Upd

def Group.set (g : Group) (u : Upd) : Group := fun k => if k = u.fp then some u else g k

/-- updates of alert `f` in a list, in order. -/
def ofFp (f : Nat) (l : List Upd) : List Upd := l.filter (fun u => u.fp = f)

/-- the last of `l`, else `d`. -/
def lastOr (l : List Upd) (d : Option Upd) : Option Upd :=
  match l.getLast? with
  | some u => some u
  | none => d

/-! ### repaired discipline: per-fingerprint worker queues -/

structure State where
  chan  : List Upd            -- the subscription channel, head = oldest
  q     : Nat → List Upd      -- per worker: received-or-queued updates, head = the one being applied next
  group : Group

inductive Step where
  | dist            -- `run` takes the head of the channel and queues it for the owner of its fingerprint
  | apply (w : Nat) -- worker `w` applies the head of its queue (`routeAlert` … `Set`)
  deriving DecidableEq, Repr

def setQ (q : Nat → List Upd) (w : Nat) (l : List Upd) : Nat → List Upd := fun k => if k = w then l else q k

/-- one enabled step, or `none` if the step is not enabled. -/
def step (owner : Nat → Nat) (s : State) : Step → Option State
  | .dist =>
    match s.chan with
    | [] => none
    | u :: rest => some { s with chan := rest, q := setQ s.q (owner u.fp) (s.q (owner u.fp) ++ [u]) }
  | .apply w =>
    match s.q w with
    | [] => none
    | u :: rest => some { s with q := setQ s.q w rest, group := s.group.set u }

def run (owner : Nat → Nat) (s : State) : List Step → Option State
  | [] => some s
  | st :: rest => match step owner s st with
    | none => none
    | some s' => run owner s' rest

def init (subs : List Upd) (g0 : Group) : State := { chan := subs, q := fun _ => [], group := g0 }

/-- nothing left to do. -/
def State.quiescent (s : State) : Prop := s.chan = [] ∧ ∀ w, s.q w = []

/-! ### the pinned tree: all workers receive from the shared channel -/
namespace Legacy

structure State where
  chan  : List Upd
  held  : Nat → Option Upd    -- per worker: the update received and not yet applied
  group : Group

inductive Step where
  | recv (w : Nat)   -- `alert := <-alertCh`
  | apply (w : Nat)  -- `d.routeAlert(ctx, alert.Data)` → `ag.alerts.Set(alert)`
  deriving DecidableEq, Repr

def step (n : Nat) (s : State) : Step → Option State
  | .recv w =>
    if w < n then
      match s.held w, s.chan with
      | none, u :: rest => some { s with chan := rest, held := fun k => if k = w then some u else s.held k }
      | _, _ => none
    else none
  | .apply w =>
    match s.held w with
    | some u => some { s with held := (fun k => if k = w then none else s.held k), group := s.group.set u }
    | none => none

def run (n : Nat) (s : State) : List Step → Option State
  | [] => some s
  | st :: rest => match step n s st with
    | none => none
    | some s' => run n s' rest

def init (subs : List Upd) (g0 : Group) : State := { chan := subs, held := fun _ => none, group := g0 }

end Legacy

/-! ### dispatcher start: the initial load

  `Dispatcher.Run`: `initial, it := alerts.SlurpAndSubscribe(…)` takes, atomically, a snapshot of the provider
  and a subscription; the snapshot is routed by the `Run` goroutine itself (`routeAlert` → `Set`, one alert after
  the other), then `run(it)` starts the distributor and the workers.  Everything that arrives on the
  subscription was published after the snapshot was taken, so every snapshot version is OLDER than every
  subscribed version of the same alert.

  * `concurrent = false` — the code as it is: no `dist`/`apply` step is enabled while snapshot items remain.
  * `concurrent = true`  — the snapshot is routed in the background while the workers already run. -/
namespace Load

structure State where
  snap : List Upd          -- snapshot items still to be routed, head = next
  w    : Workers.State     -- subscription channel, worker queues, groups

inductive Step where
  | load                       -- `Run` routes the next snapshot alert
  | work (st : Workers.Step)   -- a step of the distributor / of a worker
  deriving DecidableEq, Repr

def step (concurrent : Bool) (owner : Nat → Nat) (s : State) : Step → Option State
  | .load =>
    match s.snap with
    | [] => none
    | u :: rest => some { snap := rest, w := { s.w with group := s.w.group.set u } }
  | .work st =>
    if concurrent || s.snap.isEmpty then
      match Workers.step owner s.w st with
      | some w' => some { s with w := w' }
      | none => none
    else none

def run (concurrent : Bool) (owner : Nat → Nat) (s : State) : List Step → Option State
  | [] => some s
  | st :: rest => match step concurrent owner s st with
    | none => none
    | some s' => run concurrent owner s' rest

/-- a dispatcher started on a provider holding `snap`; `subs` arrive on the subscription -/
def init (snap subs : List Upd) (g0 : Group) : State := { snap, w := Workers.init subs g0 }

def State.quiescent (s : State) : Prop := s.snap = [] ∧ s.w.quiescent

/-- the groups after routing a whole snapshot -/
def loadAll : List Upd → Group → Group
  | [], g => g
  | u :: rest, g => loadAll rest (g.set u)

end Load

end AM.Workers
