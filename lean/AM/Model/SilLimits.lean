/-
  Small own model of the limit checks in /repo/silence/silence.go
  `Silences.Set` (+ `expire`, `GC`, `canUpdate`, `getState`, `state.merge`'s
  acceptance guard) — just enough of the lifecycle to know which of Set's two
  paths (update in place / create-or-replace) a request takes, because the count
  limit guards only the second.  Core Lean only.

  External inputs are parameters (DESIGN §2.2): the fresh uuid (`newId`) and the
  encoded size `proto.Size(MeshSilence)` of the request in its final form.
  Matchers are an opaque token (only their equality matters to `canUpdate`).
  Limits: 0 = not limited (Go: `m > 0 && …`).
-/
import AM.Base.Map

namespace AM.SilLimits
open AM AM.AList

structure Sil where
  starts  : Int
  ends    : Int
  updated : Int
  m       : Nat
  deriving DecidableEq, Repr, Inhabited

abbrev State := AList String Sil

structure Cfg where
  maxCount  : Nat
  maxSize   : Nat
  retention : Int
  deriving Repr

inductive SState where | pending | active | expired
  deriving DecidableEq, Repr

/-- `getState` -/
def getState (s : Sil) (now : Int) : SState :=
  if now < s.starts then .pending else if now > s.ends then .expired else .active

def sec : Int := 1000000000

/-- `canUpdate a b now` -/
def canUpdate (a b : Sil) (now : Int) : Bool :=
  if a.m ≠ b.m then false else
  match getState a now with
  | .active => decide (a.starts / sec = b.starts / sec) && !decide (b.ends < now)
  | .pending => !decide (b.starts < now)
  | .expired => false

/-- `state.merge` as used by `setSilence` for a locally produced version. -/
def merge (cfg : Cfg) (st : State) (now : Int) (id : String) (s : Sil) : State :=
  if s.ends + cfg.retention < now then st
  else match lookup st id with
    | none => put st id s
    | some p => if p.updated < s.updated then put st id s else st

/-- `Silences.expire` on an existing silence. -/
def expireSil (cfg : Cfg) (st : State) (now : Int) (id : String) (p : Sil) : State :=
  match getState p now with
  | .expired => st
  | .active => merge cfg st now id { p with ends := now, updated := now }
  | .pending => merge cfg st now id { p with starts := now, ends := now, updated := now }

inductive Res where
  | ok (id : String)
  | notFound
  | invalid
  | limitCount
  | limitSize
  deriving DecidableEq, Repr

structure Req where
  id     : String          -- "" = create
  starts : Int             -- negative = not given (times are ≥ 0 relative to the case start)
  ends   : Int
  m      : Nat
  deriving Repr

def tooBig (cfg : Cfg) (size : Nat) : Bool := decide (cfg.maxSize > 0 ∧ size > cfg.maxSize)
def full (cfg : Cfg) (st : State) : Bool := decide (cfg.maxCount > 0 ∧ st.length + 1 > cfg.maxCount)

def starts0 (r : Req) (now : Int) : Int := if r.starts < 0 then now else r.starts

/-- the create-or-replace path of `Set`: count check, (id, StartsAt, UpdatedAt filled in), size
    check, expire the replaced silence (`expirePrev`), insert. -/
def create (cfg : Cfg) (st : State) (now : Int) (sil : Sil) (newId : String) (size : Nat)
    (expirePrev : State → State) : State × Res :=
  if full cfg st then (st, .limitCount)
  else if tooBig cfg size then (st, .limitSize)
  else (merge cfg (expirePrev st) now newId { sil with starts := if sil.starts < now then now else sil.starts }, .ok newId)

/-- `Silences.Set`.  `size` is the encoded size of the request in its final form
    (after Id/StartsAt/UpdatedAt were filled in), `newId` the uuid drawn on the create path. -/
def set (cfg : Cfg) (st : State) (now : Int) (r : Req) (newId : String) (size : Nat) : State × Res :=
  if r.ends < starts0 r now then (st, .invalid) else
  let sil : Sil := { starts := starts0 r now, ends := r.ends, updated := now, m := r.m }
  match lookup st r.id with
  | none => if r.id ≠ "" then (st, .notFound) else create cfg st now sil newId size id
  | some p =>
    if canUpdate p sil now then
      if tooBig cfg size then (st, .limitSize) else (merge cfg st now r.id sil, .ok r.id)
    else create cfg st now sil newId size (fun s => expireSil cfg s now r.id p)

/-- `Silences.Expire` -/
def expire (cfg : Cfg) (st : State) (now : Int) (id : String) : State × Bool :=
  match lookup st id with
  | none => (st, false)
  | some p => (expireSil cfg st now id p, true)

/-- `Silences.GC` -/
def gc (cfg : Cfg) (st : State) (now : Int) : State :=
  filterVals (fun _ s => decide (s.ends + cfg.retention > now)) st

end AM.SilLimits
