/-
  Model of /repo/matcher/parse (lexer.go, token.go, parse.go) and of
  `strconv.Unquote` for double-quoted input (go1.25 `unquote`/`UnquoteChar`).
  Core only.

  Lexer: `scan` returns one token and the remaining input (positions/columns
  only feed error texts and are dropped; `peek` is `scan` without committing).
  The helper loops are structural recursions over the rune list.
  Parser: the finite state automaton of parse.go, one function per state,
  driven by `run` with fuel `3·|input| + 6` (`parsers_total` shows the fuel
  always suffices and that none of the `panic(...)` sites is reachable).
-/
import AM.Model.MatcherPrint

namespace AM.Mt
open AM

/-! ### `strconv.Unquote` (double-quoted form) -/

inductive Piece where
  | ch (c : Char)        -- a code point (`multibyte` or ASCII)
  | byte (b : UInt8)     -- a raw byte ≥ 0x80 from `\xHH` / `\ooo`
  deriving DecidableEq, Repr

inductive HexKind where
  | x | u | U
  deriving DecidableEq, Repr

/-- where the `unquote` loop is -/
inductive UQ where
  | norm
  | esc                                   -- just read a backslash
  | hex (k : HexKind) (left acc : Nat)    -- inside \x.. \u.... \U........
  | oct (left acc : Nat)                  -- inside \ooo
  | closed                                -- read the terminating quote
  deriving DecidableEq, Repr

/-- `unhex` -/
def unhex (n : Nat) : Option Nat :=
  if 48 ≤ n ∧ n ≤ 57 then some (n - 48)
  else if 97 ≤ n ∧ n ≤ 102 then some (n - 97 + 10)
  else if 65 ≤ n ∧ n ≤ 70 then some (n - 65 + 10)
  else none

/-- `utf8.ValidRune` -/
def validRune (v : Nat) : Bool := v < 0xD800 || (0xDFFF < v && v ≤ 0x10FFFF)

/-- value of a finished `\x`/octal escape: a byte; ASCII bytes are complete characters -/
def bytePiece (v : Nat) : Piece := if v < 0x80 then .ch (Char.ofNat v) else .byte (UInt8.ofNat v)

/-- one rune of input: new state and what is appended to `buf` -/
def uqStep : UQ → Rune → Option (UQ × List Piece)
  | .closed, _ => none                     -- `len(rem) > 0`
  | .norm, r =>
    if r.cp = 34 then some (.closed, [])
    else if r.cp = 92 then some (.esc, [])
    else if r.cp = 10 then none            -- raw newline
    else some (.norm, [.ch r.code])
  | .esc, r =>
    let n := r.cp
    if n = 97 then some (.norm, [.ch (Char.ofNat 7)])
    else if n = 98 then some (.norm, [.ch (Char.ofNat 8)])
    else if n = 102 then some (.norm, [.ch (Char.ofNat 12)])
    else if n = 110 then some (.norm, [.ch (Char.ofNat 10)])
    else if n = 114 then some (.norm, [.ch (Char.ofNat 13)])
    else if n = 116 then some (.norm, [.ch (Char.ofNat 9)])
    else if n = 118 then some (.norm, [.ch (Char.ofNat 11)])
    else if n = 120 then some (.hex .x 2 0, [])
    else if n = 117 then some (.hex .u 4 0, [])
    else if n = 85 then some (.hex .U 8 0, [])
    else if 48 ≤ n ∧ n ≤ 55 then some (.oct 2 (n - 48), [])
    else if n = 92 then some (.norm, [.ch '\\'])
    else if n = 34 then some (.norm, [.ch '"'])
    else none                              -- includes \' inside double quotes
  | .hex k left acc, r =>
    match unhex r.cp with
    | none => none
    | some d =>
      let v := acc * 16 + d
      if left ≤ 1 then
        match k with
        | .x => some (.norm, [bytePiece v])
        | _ => if validRune v then some (.norm, [.ch (Char.ofNat v)]) else none
      else some (.hex k (left - 1) v, [])
  | .oct left acc, r =>
    let n := r.cp
    if 48 ≤ n ∧ n ≤ 55 then
      let v := acc * 8 + (n - 48)
      if left ≤ 1 then (if v > 255 then none else some (.norm, [bytePiece v]))
      else some (.oct (left - 1) v, [])
    else none

def uqLoop : UQ → Str → Option (List Piece)
  | .closed, [] => some []
  | _, [] => none
  | st, r :: rest =>
    match uqStep st r with
    | none => none
    | some (st', ps) => (uqLoop st' rest).map (ps ++ ·)

/-- `string(buf)` followed by `utf8.ValidString`: code points are well-formed by
    construction; a maximal run of raw bytes must itself be well-formed UTF-8
    (a code point's encoding never starts with a continuation byte, so a raw
    run cannot borrow bytes from its neighbours). -/
def flushRaw (pend : List UInt8) : Option (List Char) :=
  let rs := decodeRunes pend.reverse
  if validB rs then some (toChars rs) else none

def assemble : List Piece → List UInt8 → Option (List Char)
  | [], pend => flushRaw pend
  | .byte b :: rest, pend => assemble rest (b :: pend)
  | .ch c :: rest, pend =>
    match flushRaw pend, assemble rest [] with
    | some a, some b => some (a ++ c :: b)
    | _, _ => none

/-- `token.unquote` for a quoted token: `strconv.Unquote` + `utf8.ValidString`. -/
def unquote (s : Str) : Option Str :=
  match s with
  | r :: rest =>
    if r.cp = 34 then
      match uqLoop .norm rest with
      | none => none
      | some ps => (assemble ps []).map ofChars
    else none
  | [] => none

/-! ### lexer -/

inductive TokKind where
  | eof | openBrace | closeBrace | comma | equals | notEquals | matches | notMatches | quoted | unquoted
  deriving DecidableEq, Repr, Inhabited

structure Token where
  kind : TokKind
  value : Str
  deriving DecidableEq, Repr, Inhabited

/-- error classes of the UTF-8 parser (`errors.Is(err, errEOF)` is the only test made on them) -/
inductive PErr where
  | eof        -- errEOF
  | lex        -- invalidInputError / expectedError / unterminatedError
  | syntax     -- any other rejection
  | regex
  deriving DecidableEq, Repr, Inhabited

/-- after the opening quote: the rest of the quoted token (including the closing
    quote) and the remaining input; `none` = unterminated. -/
def scanQuotedBody : Bool → Str → Option (Str × Str)
  | _, [] => none
  | true, r :: rest => (scanQuotedBody false rest).map (fun p => (r :: p.1, p.2))
  | false, r :: rest =>
    if r.cp = 92 then (scanQuotedBody true rest).map (fun p => (r :: p.1, p.2))
    else if r.cp = 34 then some ([r], rest)
    else (scanQuotedBody false rest).map (fun p => (r :: p.1, p.2))

/-- `lexer.scan` -/
def scan : Str → Except PErr (Token × Str)
  | [] => .ok (⟨.eof, []⟩, [])
  | r :: rest =>
    let n := r.cp
    if n = 123 then .ok (⟨.openBrace, [r]⟩, rest)
    else if n = 125 then .ok (⟨.closeBrace, [r]⟩, rest)
    else if n = 44 then .ok (⟨.comma, [r]⟩, rest)
    else if n = 33 then            -- scanOperator, '!'
      match rest with
      | b :: rest' =>
        if b.cp = 61 then .ok (⟨.notEquals, [r, b]⟩, rest')
        else if b.cp = 126 then .ok (⟨.notMatches, [r, b]⟩, rest')
        else .error .lex
      | [] => .error .lex
    else if n = 61 then            -- scanOperator, '='
      match rest with
      | b :: rest' => if b.cp = 126 then .ok (⟨.matches, [r, b]⟩, rest') else .ok (⟨.equals, [r]⟩, rest)
      | [] => .ok (⟨.equals, [r]⟩, rest)
    else if n = 34 then            -- scanQuoted
      match scanQuotedBody false rest with
      | some (body, rest') => .ok (⟨.quoted, r :: body⟩, rest')
      | none => .error .lex
    else if !isReserved n then     -- scanUnquoted
      .ok (⟨.unquoted, r :: rest.takeWhile (fun x => !isReserved x.cp)⟩,
           rest.dropWhile (fun x => !isReserved x.cp))
    else if isSpaceU n then scan rest
    else .error .lex

/-- `token.unquote` -/
def Token.unquote (t : Token) : Option Str :=
  if t.kind = .quoted then AM.Mt.unquote t.value else some t.value

/-! ### parser -/

inductive PState where
  | openBrace | closeBrace | matcher | endOfMatcher | comma | eof
  deriving DecidableEq, Repr

structure P where
  ms : List Matcher        -- p.matchers (in order)
  hasOpen : Bool           -- p.hasOpenBrace
  rest : Str               -- unread input of the lexer
  deriving Repr

inductive Step where
  | next (s : PState) (p : P)
  | done (p : P)
  | err (e : PErr)
  | panic
  deriving Repr

/-- result of a parser helper that may hit a `panic(...)` site -/
inductive R (α : Type) where
  | ok (a : α)
  | err (e : PErr)
  | panic
  deriving Repr

/-- `parser.expectPeek` -/
def expectPeek (rest : Str) (kinds : List TokKind) : Except PErr Token :=
  match scan rest with
  | .error e => .error e
  | .ok (t, _) =>
    if t.kind = .eof then .error .eof
    else if !kinds.contains t.kind then .error .syntax
    else .ok t

/-- `parser.acceptPeek` -/
def acceptPeek (rest : Str) (kinds : List TokKind) : Except PErr Bool :=
  match scan rest with
  | .error e => .error e
  | .ok (t, _) => if t.kind = .eof then .error .eof else .ok (kinds.contains t.kind)

/-- `parser.expect`: peek, then scan again ("failed to scan peeked token" panics) -/
def expect (rest : Str) (kinds : List TokKind) : R (Token × Str) :=
  match expectPeek rest kinds with
  | .error e => .err e
  | .ok t =>
    match scan rest with
    | .error _ => .panic
    | .ok (_, rest') => .ok (t, rest')

/-- `parser.accept`; returns (ok, err, remaining input) like the Go function returns `(ok, err)` -/
def accept (rest : Str) (kinds : List TokKind) : R (Bool × Str) :=
  match acceptPeek rest kinds with
  | .error e => .err e
  | .ok false => .ok (false, rest)
  | .ok true =>
    match scan rest with
    | .error _ => .panic
    | .ok (_, rest') => .ok (true, rest')

def parseOpenBrace (p : P) : Step :=
  match accept p.rest [.openBrace] with
  | .panic => .panic
  | .err e => if e = .eof then .next .eof p else .err e
  | .ok (has, rest) =>
    let p := { p with hasOpen := has, rest := rest }
    match acceptPeek p.rest [.closeBrace] with
    | .error e => if e = .eof then .next .closeBrace p else .err e
    | .ok true => .next .closeBrace p
    | .ok false => .next .matcher p

def parseCloseBrace (p : P) : Step :=
  if p.hasOpen then
    match expect p.rest [.closeBrace] with
    | .panic => .panic
    | .err _ => .err .syntax
    | .ok (_, rest) => .next .eof { p with rest := rest }
  else
    match expect p.rest [.closeBrace] with
    | .panic => .panic
    | .ok _ => .err .syntax
    | .err _ => .next .eof p

def opOfKind : TokKind → Option Op
  | .equals => some .eq
  | .notEquals => some .ne
  | .matches => some .re
  | .notMatches => some .nre
  | _ => none

def parseMatcher (compiles : Str → Bool) (p : P) : Step :=
  match expect p.rest [.quoted, .unquoted] with
  | .panic => .panic
  | .err _ => .err .syntax
  | .ok (t1, r1) =>
    match t1.unquote with
    | none => .err .syntax
    | some name =>
      match expect r1 [.equals, .notEquals, .matches, .notMatches] with
      | .panic => .panic
      | .err _ => .err .syntax
      | .ok (t2, r2) =>
        match opOfKind t2.kind with
        | none => .panic                       -- panic("bad operator …")
        | some op =>
          match expect r2 [.unquoted, .quoted] with
          | .panic => .panic
          | .err _ => .err .syntax
          | .ok (t3, r3) =>
            match t3.unquote with
            | none => .err .syntax
            | some value =>
              match newMatcher compiles op name value with
              | .error _ => .err .regex
              | .ok m => .next .endOfMatcher { p with ms := p.ms ++ [m], rest := r3 }

def parseEndOfMatcher (p : P) : Step :=
  match expectPeek p.rest [.comma, .closeBrace] with
  | .error e => if e = .eof then .next .closeBrace p else .err .syntax
  | .ok t =>
    if t.kind = .comma then .next .comma p
    else if t.kind = .closeBrace then .next .closeBrace p
    else .panic                                -- panic("bad token …")

def parseComma (p : P) : Step :=
  match expect p.rest [.comma] with
  | .panic => .panic
  | .err _ => .err .syntax
  | .ok (_, rest) =>
    let p := { p with rest := rest }
    match expectPeek p.rest [.closeBrace, .unquoted, .quoted] with
    | .error e => if e = .eof then .next .closeBrace p else .err .syntax
    | .ok t => if t.kind = .closeBrace then .next .closeBrace p else .next .matcher p

def parseEOF (p : P) : Step :=
  match scan p.rest with
  | .error _ => .err .syntax
  | .ok (t, _) => if t.kind = .eof then .done p else .err .syntax

def step (compiles : Str → Bool) : PState → P → Step
  | .openBrace, p => parseOpenBrace p
  | .closeBrace, p => parseCloseBrace p
  | .matcher, p => parseMatcher compiles p
  | .endOfMatcher, p => parseEndOfMatcher p
  | .comma, p => parseComma p
  | .eof, p => parseEOF p

inductive Outcome (α : Type) where
  | ok (a : α)
  | err (e : Err)
  | panic        -- a `panic(...)` site was reached (parse.Matchers recovers it into an error)
  | fuel         -- the automaton did not stop within its fuel
  deriving Repr, DecidableEq

def toErr : PErr → Err
  | .regex => .regex
  | _ => .syntax

/-- `parser.parse`: iterate the automaton -/
def run (compiles : Str → Bool) : Nat → PState → P → Outcome (List Matcher)
  | 0, _, _ => .fuel
  | fuel + 1, s, p =>
    match step compiles s p with
    | .panic => .panic
    | .err e => .err (toErr e)
    | .done p' => .ok p'.ms
    | .next s' p' => run compiles fuel s' p'

def parseFuel (s : Str) : Nat := 3 * s.length + 6

/-- `parse.Matchers` -/
def utf8Matchers (compiles : Str → Bool) (s : Str) : Outcome (List Matcher) :=
  run compiles (parseFuel s) .openBrace { ms := [], hasOpen := false, rest := s }

/-- `parse.Matcher` -/
def utf8Matcher (compiles : Str → Bool) (s : Str) : Outcome Matcher :=
  match utf8Matchers compiles s with
  | .ok [m] => .ok m
  | .ok _ => .err .count
  | .err e => .err e
  | .panic => .panic
  | .fuel => .fuel

end AM.Mt
