/-
  A crash model of the file-system operations a snapshot performs
  (/repo/nflog/nflog.go and /repo/silence/silence.go: `openReplace`,
  `Snapshot`, `replaceFile.Close` = Sync → Close → Rename) — C11.

  * An inode has `data` (what a running process reads) and `synced`, the length
    of the prefix known to be on stable storage (`fsync` returned).
  * The directory is a durable start directory `dir0` plus the log of
    directory operations executed since (`link` by create, `rename`).
  * Operations act through the single open descriptor `fd` (a snapshot run
    opens exactly one file), as the real calls do: `write`/`fsync` keep
    addressing the same inode after a `rename`.  The descriptor carries a file
    position: `open` puts it at 0 and a `write` OVERWRITES in place from there
    (what is beyond the written range stays).  `open(O_CREAT|O_TRUNC)` of an
    existing name empties that inode first; without `O_TRUNC` the old bytes
    stay and a shorter new content keeps the stale tail.
  * A machine that crashed and restarted is again a settled disk (`crashFS`):
    the directory version that reached the disk, every inode cut to what
    reached the disk, nothing open.  Temp files of attempts that crashed before
    their rename therefore PERSIST into the later attempts (`runHist`).

  Crash states.  A crash after the first `i` operations of a sequence leaves
    - directory: `dir0` with the first `j` logged directory operations applied
        · "rename durable on return" (strong): `j = log.length`
        · "ordered metadata"        (weak):   any `j ≤ log.length`
    - every inode: its synced prefix plus any `m` further bytes
      (`data.take (synced + m)`), for any `m`.
  A crash *during* a `write` is a crash after a shorter write, which the data
  prefixes already cover; `rename`, `link` are atomic.  `create … trunc` on an
  existing name truncates that inode at once (simplification: truncation is
  durable on return in both models; only sequences that open the target
  directly are affected, and those are torn in either reading).  A write into
  the synced part of an inode makes it dirty from there (`min synced off`).
  Core Lean only.
-/
import AM.Model.Snapshot

namespace AM.CrashFS
open AM.Snapshot (Bytes)

structure Inode where
  data   : Bytes
  synced : Nat
  deriving DecidableEq, Repr, Inhabited

abbrev Dir := List (String × Nat)

def Dir.get : Dir → String → Option Nat
  | [], _ => none
  | (k, v) :: rest, p => if k = p then some v else Dir.get rest p

def Dir.erase : Dir → String → Dir
  | [], _ => []
  | (k, v) :: rest, p => if k = p then Dir.erase rest p else (k, v) :: Dir.erase rest p

def Dir.put (d : Dir) (p : String) (id : Nat) : Dir := (p, id) :: Dir.erase d p

inductive DirOp where
  | link (p : String) (id : Nat)
  | rename (p q : String)
  deriving DecidableEq, Repr

def applyDirOp (d : Dir) : DirOp → Dir
  | .link p id => d.put p id
  | .rename p q =>
    match d.get p with
    | some id => (d.erase p).put q id
    | none => d

inductive Op where
  | create (p : String) (trunc : Bool)   -- open(p, O_RDWR|O_CREAT [|O_TRUNC]); position 0
  | write (d : Bytes)         -- on the open descriptor, at its position
  | fsync                     -- on the open descriptor (fdatasync counts as fsync)
  | close
  | rename (p q : String)
  deriving DecidableEq, Repr

structure FS where
  inodes : List Inode := []
  dir0   : Dir := []
  log    : List DirOp := []
  fd     : Option (Nat × Nat) := none      -- open descriptor: inode, file position
  deriving Repr

/-- directory after the first `j` logged directory operations -/
def FS.dirAt (fs : FS) (j : Nat) : Dir := (fs.log.take j).foldl applyDirOp fs.dir0

/-- what the running process sees -/
def FS.dirNow (fs : FS) : Dir := fs.log.foldl applyDirOp fs.dir0

def modifyInode (l : List Inode) (id : Nat) (f : Inode → Inode) : List Inode :=
  match l[id]? with
  | some ino => l.set id (f ino)
  | none => l

/-- `pwrite`-like: `d` replaces the bytes of `data` from `off` on; what lies beyond stays -/
def overwrite (data : Bytes) (off : Nat) (d : Bytes) : Bytes :=
  data.take off ++ d ++ data.drop (off + d.length)

def step (fs : FS) : Op → FS
  | .create p trunc =>
    match fs.dirNow.get p with
    | some id => { fs with inodes := if trunc then modifyInode fs.inodes id (fun _ => ⟨[], 0⟩) else fs.inodes,
                           fd := some (id, 0) }
    | none => { fs with inodes := fs.inodes ++ [⟨[], 0⟩], log := fs.log ++ [.link p fs.inodes.length],
                        fd := some (fs.inodes.length, 0) }
  | .write d =>
    match fs.fd with
    | some (id, off) =>
      { fs with inodes := modifyInode fs.inodes id
                  (fun ino => ⟨overwrite ino.data off d, min ino.synced off⟩),   -- overwritten bytes are dirty again
                fd := some (id, off + d.length) }
    | none => fs
  | .fsync =>
    match fs.fd with
    | some (id, _) => { fs with inodes := modifyInode fs.inodes id (fun ino => { ino with synced := ino.data.length }) }
    | none => fs
  | .close => { fs with fd := none }
  | .rename p q => { fs with log := fs.log ++ [.rename p q] }

def run (fs : FS) (ops : List Op) : FS := ops.foldl step fs

/-- content of path `p` after a crash that kept `j` directory operations and
    `m` unsynced bytes; `none` = the path does not exist -/
def crashRead (fs : FS) (j m : Nat) (p : String) : Option Bytes :=
  match (fs.dirAt j).get p with
  | none => none
  | some id =>
    match fs.inodes[id]? with
    | none => none
    | some ino => some (ino.data.take (ino.synced + m))

/-- the operation sequence of one snapshot: `openReplace` (`os.Create` of the
    temp name: `O_CREAT|O_TRUNC` in the code as it is), `io.Copy` (zero or more
    writes), `replaceFile.Close` (fsync, close, rename onto the target) -/
def snapshotOps (tmp : String) (trunc : Bool) (target : String) (chunks : List Bytes) : List Op :=
  .create tmp trunc :: (chunks.map .write ++ [.fsync, .close, .rename tmp target])

/-! ### histories of attempts, some of which crash -/

/-- The machine after a crash and restart: directory version `j` reached the
    disk, inode `id` kept its synced prefix and `ms id` further bytes; all of
    that is durable now, nothing is open. -/
def crashFS (fs : FS) (j : Nat) (ms : Nat → Nat) : FS :=
  { inodes := fs.inodes.mapIdx fun id ino => ⟨ino.data.take (ino.synced + ms id), (ino.data.take (ino.synced + ms id)).length⟩,
    dir0 := fs.dirAt j, log := [], fd := none }

/-- One snapshot attempt: the temp name and open flag it uses, the bytes it
    writes, and — if the machine crashes during it — after how many operations
    (`i`), with how much of the directory log (`j`) and of each inode's unsynced
    data (`ms`) on disk. -/
structure Attempt where
  tmp    : String
  trunc  : Bool
  chunks : List Bytes
  crash  : Option (Nat × Nat × (Nat → Nat)) := none

def runAttempt (target : String) (fs : FS) (a : Attempt) : FS :=
  match a.crash with
  | none => run fs (snapshotOps a.tmp a.trunc target a.chunks)
  | some (i, j, ms) => crashFS (run fs ((snapshotOps a.tmp a.trunc target a.chunks).take i)) j ms

/-- a whole life of the data directory: attempts that complete and attempts that crash, in any order -/
def runHist (target : String) (fs : FS) (as : List Attempt) : FS := as.foldl (runAttempt target) fs

/-- the discipline every attempt of a history must keep, evaluated in the state it
    starts in (decidable form of `HistOK`, C11): temp name ≠ target, and the temp
    file is empty when written — truncating open, or a name that does not exist -/
def histOKb (target : String) : FS → List Attempt → Bool
  | _, [] => true
  | fs, a :: rest =>
    (a.tmp != target) && (a.trunc || (fs.dirNow.get a.tmp).isNone) && histOKb target (runAttempt target fs a) rest

/-- all crash coordinates `(i, j, m)` of an operation sequence started in `fs0`
    (for the engines: enumeration of every crash state) -/
def crashPoints (weak : Bool) (fs0 : FS) (ops : List Op) : List (Nat × Nat × Nat) :=
  (List.range (ops.length + 1)).flatMap fun i =>
    let fs := run fs0 (ops.take i)
    let js := if weak then List.range (fs.log.length + 1) else [fs.log.length]
    let unsynced := fs.inodes.foldl (fun acc ino => max acc (ino.data.length - ino.synced)) 0
    js.flatMap fun j => (List.range (unsynced + 1)).map fun m => (i, j, m)

end AM.CrashFS
