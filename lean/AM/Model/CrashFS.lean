/-
  A crash model of the file-system operations a snapshot performs
  (/repo/nflog/nflog.go and /repo/silence/silence.go: `openReplace`,
  `Snapshot`, `replaceFile.Close` = Sync → Close → Rename) — C11.

  * An inode has `data` (what a running process reads) and `synced`, the length
    of the prefix known to be on stable storage (`fsync` returned).
  * The directory is a durable start directory `dir0` plus the log of
    directory operations executed since (`link` by create, `rename`).
  * Operations act through the single open descriptor `fd` (a snapshot run
    opens exactly one file), as the real calls do: `write`/`fsync` keep
    addressing the same inode after a `rename`.

  Crash states.  A crash after the first `i` operations of a sequence leaves
    - directory: `dir0` with the first `j` logged directory operations applied
        · "rename durable on return" (strong): `j = log.length`
        · "ordered metadata"        (weak):   any `j ≤ log.length`
    - every inode: its synced prefix plus any `m` further bytes
      (`data.take (synced + m)`), for any `m`.
  A crash *during* a `write` is a crash after a shorter write, which the data
  prefixes already cover; `rename`, `link` are atomic.  `create` on an existing
  name truncates that inode at once (simplification: truncation is durable on
  return in both models; only sequences that open the target directly are
  affected, and those are torn in either reading).
  Core Lean only.
-/
import AM.Model.Snapshot

namespace AM.CrashFS
open AM.Snapshot (Bytes)

structure Inode where
  data   : Bytes
  synced : Nat
  deriving DecidableEq, Repr, Inhabited

abbrev Dir := List (String × Nat)

def Dir.get : Dir → String → Option Nat
  | [], _ => none
  | (k, v) :: rest, p => if k = p then some v else Dir.get rest p

def Dir.erase : Dir → String → Dir
  | [], _ => []
  | (k, v) :: rest, p => if k = p then Dir.erase rest p else (k, v) :: Dir.erase rest p

def Dir.put (d : Dir) (p : String) (id : Nat) : Dir := (p, id) :: Dir.erase d p

inductive DirOp where
  | link (p : String) (id : Nat)
  | rename (p q : String)
  deriving DecidableEq, Repr

def applyDirOp (d : Dir) : DirOp → Dir
  | .link p id => d.put p id
  | .rename p q =>
    match d.get p with
    | some id => (d.erase p).put q id
    | none => d

inductive Op where
  | create (p : String)       -- open(p, O_RDWR|O_CREAT|O_TRUNC)
  | write (d : Bytes)         -- on the open descriptor
  | fsync                     -- on the open descriptor (fdatasync counts as fsync)
  | close
  | rename (p q : String)
  deriving DecidableEq, Repr

structure FS where
  inodes : List Inode := []
  dir0   : Dir := []
  log    : List DirOp := []
  fd     : Option Nat := none
  deriving Repr

/-- directory after the first `j` logged directory operations -/
def FS.dirAt (fs : FS) (j : Nat) : Dir := (fs.log.take j).foldl applyDirOp fs.dir0

/-- what the running process sees -/
def FS.dirNow (fs : FS) : Dir := fs.log.foldl applyDirOp fs.dir0

def modifyInode (l : List Inode) (id : Nat) (f : Inode → Inode) : List Inode :=
  match l[id]? with
  | some ino => l.set id (f ino)
  | none => l

def step (fs : FS) : Op → FS
  | .create p =>
    match fs.dirNow.get p with
    | some id => { fs with inodes := modifyInode fs.inodes id (fun _ => ⟨[], 0⟩), fd := some id }
    | none => { fs with inodes := fs.inodes ++ [⟨[], 0⟩], log := fs.log ++ [.link p fs.inodes.length],
                        fd := some fs.inodes.length }
  | .write d =>
    match fs.fd with
    | some id => { fs with inodes := modifyInode fs.inodes id (fun ino => { ino with data := ino.data ++ d }) }
    | none => fs
  | .fsync =>
    match fs.fd with
    | some id => { fs with inodes := modifyInode fs.inodes id (fun ino => { ino with synced := ino.data.length }) }
    | none => fs
  | .close => { fs with fd := none }
  | .rename p q => { fs with log := fs.log ++ [.rename p q] }

def run (fs : FS) (ops : List Op) : FS := ops.foldl step fs

/-- content of path `p` after a crash that kept `j` directory operations and
    `m` unsynced bytes; `none` = the path does not exist -/
def crashRead (fs : FS) (j m : Nat) (p : String) : Option Bytes :=
  match (fs.dirAt j).get p with
  | none => none
  | some id =>
    match fs.inodes[id]? with
    | none => none
    | some ino => some (ino.data.take (ino.synced + m))

/-- the operation sequence of one snapshot: `openReplace` (create a fresh temp
    name), `io.Copy` (zero or more writes), `replaceFile.Close` (fsync, close,
    rename onto the target) -/
def snapshotOps (tmp target : String) (chunks : List Bytes) : List Op :=
  .create tmp :: (chunks.map .write ++ [.fsync, .close, .rename tmp target])

/-- all crash coordinates `(i, j, m)` of an operation sequence started in `fs0`
    (for the engines: enumeration of every crash state) -/
def crashPoints (weak : Bool) (fs0 : FS) (ops : List Op) : List (Nat × Nat × Nat) :=
  (List.range (ops.length + 1)).flatMap fun i =>
    let fs := run fs0 (ops.take i)
    let js := if weak then List.range (fs.log.length + 1) else [fs.log.length]
    let unsynced := fs.inodes.foldl (fun acc ino => max acc (ino.data.length - ino.synced)) 0
    js.flatMap fun j => (List.range (unsynced + 1)).map fun m => (i, j, m)

end AM.CrashFS
