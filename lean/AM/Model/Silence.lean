/-
  Model of /repo/silence/silence.go (the store part): `state.merge`,
  `decodeState`, `Silences.{setSilence, indexSilence, Set, canUpdate, expire,
  GC, Query, Merge, loadSnapshot}`, `getState`, `validateSilence`, plus the
  three API-level checks of api/v2 `postSilencesHandler` and the API's
  `CurrentState`.  Core Lean only.

  Time is `Int` nanoseconds.  A silence id is an opaque `String`; the uuid
  drawn by `Set` is an *input* (`newId`).  Regular expressions, regex
  compilation and label-name validity are parameters (`Env`).  `proto.Size`
  against `MaxSilenceSizeBytes` is an input flag (`big`).

  Not modelled (assumed absent from inputs): the legacy `comments` list and the
  legacy single `matchers` field (the harness never emits them), zero
  `ExpiresAt`, matcher patterns that do not compile arriving through `Merge`.

  `fix` selects the indexing discipline of `Silences.Merge` for an update of a
  known id: `false` = the pinned tree (index only when added), `true` = the
  repair of finding F1 (an update that turns an expired silence unexpired is
  re-indexed under a fresh version, see fixes/F1.diff).
-/
import AM.Base.Map

namespace AM.Silence
open AM AM.AList

inductive MatchOp where
  | eq | neq | re | nre
  deriving DecidableEq, Repr, Inhabited

structure Matcher where
  op : MatchOp
  name : String
  pattern : String
  deriving DecidableEq, Repr, Inhabited

abbrev MatcherSets := List (List Matcher)
abbrev LabelSet := List (String × String)

structure Sil where
  id : String
  sets : MatcherSets
  start : Int
  stop : Int            -- EndsAt
  updated : Int
  comment : String      -- comment + creator, opaque payload
  deriving DecidableEq, Repr, Inhabited

/-- `pb.MeshSilence`. -/
structure Mesh where
  sil : Sil
  exp : Int             -- ExpiresAt
  deriving DecidableEq, Repr, Inhabited

inductive SState where
  | pending | active | expired
  deriving DecidableEq, Repr, Inhabited

/-- External functions the code calls. -/
structure Env where
  re : String → String → Bool       -- anchored pattern fully matches value
  reOk : String → Bool              -- `regexp.Compile` succeeds
  nameOk : String → Bool            -- `compat.IsValidLabelName`

/-- `getState`: pending iff `ts < start`, expired iff `ts > end`. -/
def getState (s : Sil) (ts : Int) : SState :=
  if ts < s.start then .pending else if ts > s.stop then .expired else .active

/-- `silence.CurrentState` as used by the API's GET rendering: expired iff `now ≥ end`. -/
def currentState (s : Sil) (now : Int) : SState :=
  if now < s.start then .pending else if now < s.stop then .active else .expired

/-! ### matching -/

def lsGet (ls : LabelSet) (n : String) : String := (lookup ls n).getD ""

def Matcher.matches (re : String → String → Bool) (m : Matcher) (v : String) : Bool :=
  match m.op with
  | .eq => decide (v = m.pattern)
  | .neq => !decide (v = m.pattern)
  | .re => re m.pattern v
  | .nre => !re m.pattern v

def matchesSet (re : String → String → Bool) (ms : List Matcher) (ls : LabelSet) : Bool :=
  ms.all fun m => m.matches re (lsGet ls m.name)

/-- `labels.MatcherSet.Matches`: OR over sets, AND inside a set. -/
def matchesSets (re : String → String → Bool) (sets : MatcherSets) (ls : LabelSet) : Bool :=
  sets.any fun ms => matchesSet re ms ls

/-! ### the store -/

structure Store where
  st : AList String Mesh := []
  mi : AList String MatcherSets := []       -- matcher index
  vi : List (Nat × String) := []            -- version index, ascending versions
  version : Nat := 0
  deriving Repr, Inhabited

inductive MergeRes where
  | refused | added | updated
  deriving DecidableEq, Repr, Inhabited

/-- `state.merge`'s decision: `(changed, added)` = `(k ≠ refused, k = added)`. -/
def mergeKind (now : Int) (st : AList String Mesh) (e : Mesh) : MergeRes :=
  if e.exp < now then .refused
  else match lookup st e.sil.id with
    | none => .added
    | some p => if p.sil.updated < e.sil.updated then .updated else .refused

/-- `state.merge`. -/
def stMerge (now : Int) (st : AList String Mesh) (e : Mesh) : AList String Mesh :=
  match mergeKind now st e with
  | .refused => st
  | _ => put st e.sil.id e

/-- `indexSilence`. -/
def index (s : Store) (x : Sil) : Store :=
  { s with version := s.version + 1, vi := s.vi ++ [(s.version + 1, x.id)], mi := put s.mi x.id x.sets }

/-- the repair of F1: drop the id's old version-index entry, then `indexSilence`. -/
def reindex (s : Store) (x : Sil) : Store :=
  index { s with vi := s.vi.filter (fun sv => sv.2 ≠ x.id) } x

/-- `Silences.setSilence` (the broadcast is `bcastOf`). -/
def setSilence (now : Int) (s : Store) (m : Mesh) : Store × MergeRes :=
  match mergeKind now s.st m with
  | .refused => (s, .refused)
  | .added => (index { s with st := put s.st m.sil.id m } m.sil, .added)
  | .updated => ({ s with st := put s.st m.sil.id m }, .updated)

def bcastOf (k : MergeRes) (m : Mesh) : List Mesh := if k = .refused then [] else [m]

def toMesh (ret : Int) (x : Sil) : Mesh := { sil := x, exp := x.stop + ret }

inductive Err where
  | notFound | invalid | limit | tooBig
  deriving DecidableEq, Repr, Inhabited

/-- What `expire` writes for a stored silence `p` (none when already expired). -/
def expiredVersion (now : Int) (p : Sil) : Option Sil :=
  match getState p now with
  | .expired => none
  | .active => some { p with stop := now, updated := now }
  | .pending => some { p with start := now, stop := now, updated := now }

def expireCore (ret now : Int) (s : Store) (p : Sil) : Store × List Mesh :=
  match expiredVersion now p with
  | none => (s, [])
  | some x =>
    let r := setSilence now s (toMesh ret x)
    (r.1, bcastOf r.2 (toMesh ret x))

/-- `Silences.Expire`. -/
def expire (ret now : Int) (s : Store) (id : String) : Except Err (Store × List Mesh) :=
  match lookup s.st id with
  | none => .error .notFound
  | some p => .ok (expireCore ret now s p.sil)

/-! ### validation -/

def matcherValid (env : Env) (m : Matcher) : Bool :=
  env.nameOk m.name &&
    match m.op with
    | .eq | .neq => true            -- label values: any valid UTF-8 (every `String` is)
    | .re | .nre => env.reOk m.pattern

def matchesEmpty (env : Env) (m : Matcher) : Bool :=
  match m.op with
  | .eq => decide (m.pattern = "")
  | .re => env.re m.pattern ""
  | _ => false

def setValid (env : Env) (ms : List Matcher) : Bool :=
  !ms.isEmpty && ms.all (matcherValid env) && !ms.all (matchesEmpty env)

/-- `validateSilence` (start already defaulted by `Set`). -/
def validate (env : Env) (sets : MatcherSets) (start : Int) (stop : Option Int) : Bool :=
  !sets.isEmpty && sets.all (setValid env) &&
    match stop with
    | none => false
    | some e => !decide (e < start)

/-- input of `Set` -/
structure SilIn where
  id : String               -- "" = create
  sets : MatcherSets
  start : Option Int        -- none = nil / zero time
  stop : Option Int
  comment : String
  deriving DecidableEq, Repr, Inhabited

def sec (t : Int) : Int := t / 1000000000

/-- `canUpdate`. -/
def canUpdate (a b : Sil) (now : Int) : Bool :=
  decide (a.sets = b.sets) &&
    match getState a now with
    | .active => decide (sec a.start = sec b.start) && !decide (b.stop < now)
    | .pending => !decide (b.start < now)
    | .expired => false

structure SetOk where
  store : Store
  id : String
  bcasts : List Mesh
  inPlace : Bool
  deriving Repr, Inhabited

/-- the in-place branch of `Set` -/
def setUpdate (ret now : Int) (s : Store) (b : Sil) (big : Bool) : Except Err SetOk :=
  if big then .error .tooBig else
  let r := setSilence now s (toMesh ret b)
  .ok { store := r.1, id := b.id, bcasts := bcastOf r.2 (toMesh ret b), inPlace := true }

/-- `Set` expires the silence it replaces (a no-op when that one has already expired) -/
def expirePrev (ret now : Int) (s : Store) : Option Mesh → Store × List Mesh
  | some p => expireCore ret now s p.sil
  | none => (s, [])

/-- the new silence: fresh id, start raised to now -/
def raised (b : Sil) (newId : String) (now : Int) : Sil :=
  { b with id := newId, start := if b.start < now then now else b.start }

/-- the branch of `Set` that draws a new id (after expiring the replaced silence, if any) -/
def setCreate (ret : Int) (maxSil : Nat) (now : Int) (s : Store) (prev : Option Mesh) (b : Sil)
    (newId : String) (big : Bool) : Except Err SetOk :=
  if maxSil > 0 ∧ s.st.length + 1 > maxSil then .error .limit else
  if big then .error .tooBig else
  let r1 := expirePrev ret now s prev
  let r2 := setSilence now r1.1 (toMesh ret (raised b newId now))
  .ok { store := r2.1, id := newId, bcasts := r1.2 ++ bcastOf r2.2 (toMesh ret (raised b newId now)), inPlace := false }

def canUpdatePrev (prev : Option Mesh) (b : Sil) (now : Int) : Bool :=
  match prev with
  | some p => canUpdate p.sil b now
  | none => false

/-- the version `Set` builds from its input (start defaulted to now) -/
def silOfIn (inp : SilIn) (now : Int) : Sil :=
  { id := inp.id, sets := inp.sets, start := inp.start.getD now, stop := inp.stop.getD 0, updated := now, comment := inp.comment }

/-- `Silences.Set`.  `newId` is the uuid drawn, `big` the outcome of `checkSizeLimits`. -/
def set (env : Env) (ret : Int) (maxSil : Nat) (now : Int) (s : Store) (inp : SilIn)
    (newId : String) (big : Bool) : Except Err SetOk :=
  if !validate env inp.sets (inp.start.getD now) inp.stop then .error .invalid else
  if inp.id ≠ "" ∧ lookup s.st inp.id = none then .error .notFound else
  if canUpdatePrev (lookup s.st inp.id) (silOfIn inp now) now then setUpdate ret now s (silOfIn inp now) big
  else setCreate ret maxSil now s (lookup s.st inp.id) (silOfIn inp now) newId big

/-- api/v2 `postSilencesHandler`: 400 for `start ≥ end` and `end < now`, then `Set`
    (404 for `ErrNotFound`, 400 otherwise).  The API always supplies both times. -/
inductive ApiRes where
  | ok (r : SetOk)
  | badRequest
  | notFound
  deriving Repr, Inhabited

def apiPost (env : Env) (ret : Int) (maxSil : Nat) (now : Int) (s : Store) (inp : SilIn)
    (newId : String) (big : Bool) : ApiRes :=
  match inp.start, inp.stop with
  | some a, some e =>
    if a ≥ e then .badRequest
    else if e < now then .badRequest
    else match set env ret maxSil now s inp newId big with
      | .ok r => .ok r
      | .error .notFound => .notFound
      | .error _ => .badRequest
  | _, _ => .badRequest

/-! ### GC -/

def gcDead (now : Int) (s : Store) (id : String) : Bool :=
  s.vi.any (fun sv => sv.2 = id) &&
    match lookup s.st id with
    | some m => decide (m.exp ≤ now)
    | none => false

/-- `Silences.GC`: walks the version index; an indexed silence with
    `!ExpiresAt.After(now)` leaves state, matcher index and version index.
    (Written per id; the Go loop agrees with it whenever no id occurs twice in
    the version index, which `IndexInv` guarantees.) -/
def gc (now : Int) (s : Store) : Store × Nat :=
  let vi' := s.vi.filter fun sv =>
    match lookup s.st sv.2 with
    | some m => decide (m.exp > now)
    | none => false
  ({ s with st := filterVals (fun id _ => !gcDead now s id) s.st,
            mi := filterVals (fun id _ => !gcDead now s id) s.mi,
            vi := vi' },
   (s.vi.filter fun sv => gcDead now s sv.2).length)

/-! ### Query -/

inductive Scan where
  | all
  | ids (l : List String)       -- QIDs
  | since (v : Nat)             -- QSince
  deriving Repr, Inhabited

structure Query where
  scan : Scan := .all
  states : Option (List SState) := none     -- QState
  ls : Option LabelSet := none              -- QMatches
  deriving Repr, Inhabited

def passes (env : Env) (s : Store) (now : Int) (q : Query) (x : Sil) : Bool :=
  (match q.states with
   | none => true
   | some l => l.contains (getState x now)) &&
  (match q.ls with
   | none => true
   | some ls =>
     match lookup s.mi x.id with
     | some ms => matchesSets env.re ms ls
     | none => false)     -- the Go code returns an error here; unreachable under IndexInv

/-- ids visited by `Silences.query`, in visiting order.  `findVersionGreaterThan`
    is a binary search for the first entry with a larger version: on an ascending
    index that is `dropWhile (· ≤ v)`. -/
def scanIds (s : Store) : Scan → List String
  | .all => s.vi.map (·.2)
  | .ids l => l
  | .since v => (s.vi.dropWhile (fun sv => sv.1 ≤ v)).map (·.2)

def query (env : Env) (s : Store) (now : Int) (q : Query) : List Sil :=
  (scanIds s q.scan).filterMap fun id =>
    match lookup s.st id with
    | some m => if passes env s now q m.sil then some m.sil else none
    | none => none

/-! ### Merge, snapshot -/

/-- `decodeState`: a later record for an id replaces an earlier one. -/
def decodeBatch (b : List Mesh) : AList String Mesh :=
  b.foldl (fun st e => put st e.sil.id e) []

/-- one iteration of the loop in `Silences.Merge`. -/
def mergeOne (fix : Bool) (now : Int) (s : Store) (e : Mesh) : Store × MergeRes :=
  match mergeKind now s.st e with
  | .refused => (s, .refused)
  | .added => (index { s with st := put s.st e.sil.id e } e.sil, .added)
  | .updated =>
    let s1 := { s with st := put s.st e.sil.id e }
    let revived := match lookup s.st e.sil.id with
      | some p => decide (getState p.sil now = .expired) && !decide (getState e.sil now = .expired)
      | none => false
    (if fix && revived then reindex s1 e.sil else s1, .updated)

/-- `Silences.Merge` on a decoded message: new store and number of re-broadcasts. -/
def mergeBatch (fix : Bool) (now : Int) (oversized : Bool) (s : Store) (b : List Mesh) : Store × Nat :=
  (decodeBatch b).foldl
    (fun (acc : Store × Nat) kv =>
      let r := mergeOne fix now acc.1 kv.2
      (r.1, if r.2 ≠ .refused ∧ !oversized then acc.2 + 1 else acc.2))
    (s, 0)

/-- `Snapshot` followed by `New` + `loadSnapshot`: every entry is indexed at version 1. -/
def reload (s : Store) : Store :=
  let st := decodeBatch (s.st.map Prod.snd)
  { st := st, mi := st.map (fun kv => (kv.1, kv.2.sil.sets)), vi := st.map (fun kv => (1, kv.1)), version := 1 }

end AM.Silence
