/-
  Model of /repo/inhibit/inhibit.go + inhibit/index.go: per rule a source cache
  (`scache`, a `store.Alerts`) and an index `equal-key ↦ ONE source
  fingerprint` (`sindex`); `processAlert`/`updateIndex`, the cache GC with its
  callback, `Mutes`/`hasEqual`.  Core Lean only.

  Two variants of the lookup and of the GC callback are modelled:
    * `Legacy.*`  — the pinned tree: the single index slot is all `Mutes` looks at,
      and the GC callback deletes the equal-key of every collected alert;
    * the default — the repaired code (fixes/F2.diff): when the indexed source
      cannot inhibit (gone, resolved, or excluded by the both-sides rule) the rule's
      cache is scanned for another source with the same equal-key, and the GC
      callback re-indexes the surviving cache entries.

  Fingerprints (of alerts, of equal-label value sets) are the identity on the
  canonical data (injective, DESIGN §2.2): a source fingerprint is the label
  set, an equal-key is the list of the values of the rule's equal labels.
-/
import AM.Model.Alert

namespace AM.Inhibit
open AM AM.AList

/-! ### matchers (pkg/labels: `Matcher.Matches`, `Matchers.Matches`) -/

inductive MatchOp where
  | eq | ne | re | nre
  deriving DecidableEq, Repr

structure Matcher where
  name  : String
  op    : MatchOp
  value : String
  deriving DecidableEq, Repr

/-- `re pattern value`: the anchored pattern `^(?:pattern)$` matches `value`. -/
def Matcher.matches (re : String → String → Bool) (m : Matcher) (v : String) : Bool :=
  match m.op with
  | .eq => v == m.value
  | .ne => v != m.value
  | .re => re m.value v
  | .nre => !re m.value v

def matchesAll (re : String → String → Bool) (ms : List Matcher) (ls : Labels) : Bool :=
  ms.all fun m => m.matches re (ls.get m.name)

/-! ### rules and their state -/

/-- An inhibition rule; the two sides are arbitrary predicates on label sets
    (for the implementation: `matchesAll re sourceMatchers`, …). -/
structure Rule where
  src   : Labels → Bool
  tgt   : Labels → Bool
  equal : List String

def Rule.ofMatchers (re : String → String → Bool) (s t : List Matcher) (equal : List String) : Rule :=
  { src := matchesAll re s, tgt := matchesAll re t, equal }

/-- `fingerprintEquals`: the values of the equal labels, missing = "". -/
def Rule.eqKey (r : Rule) (ls : Labels) : List String := r.equal.map ls.get

structure RS where
  rule   : Rule
  scache : AList Labels Alert := []
  sindex : AList (List String) Labels := []

abbrev State := List RS

def init (rules : List Rule) : State := rules.map fun r => { rule := r }

/-- `updateIndex` (runs after `scache.Set`). -/
def updateIndex (rs : RS) (a : Alert) : RS :=
  match lookup rs.sindex (rs.rule.eqKey a.labels) with
  | none => { rs with sindex := put rs.sindex (rs.rule.eqKey a.labels) a.labels }
  | some ix =>
    if ix = a.labels then rs
    else match lookup rs.scache ix with
      | none => { rs with sindex := put rs.sindex (rs.rule.eqKey a.labels) a.labels }
      | some ex =>
        if ex.resolvedAt a.endsAt then { rs with sindex := put rs.sindex (rs.rule.eqKey a.labels) a.labels } else rs

/-- `processAlert` for one rule. -/
def procRule (a : Alert) (rs : RS) : RS :=
  if rs.rule.src a.labels then updateIndex { rs with scache := put rs.scache a.labels a } a else rs

def process (st : State) (a : Alert) : State := st.map (procRule a)

/-- `gcAlerts`: the collected and the surviving entries of a cache at `now`. -/
def collected (now : Int) (c : AList Labels Alert) : List Alert :=
  (c.filter fun kv => kv.2.resolvedAt now).map Prod.snd

def survivors (now : Int) (c : AList Labels Alert) : AList Labels Alert :=
  filterVals (fun _ a => !a.resolvedAt now) c

/-- index after the callback deleted the equal-key of every collected alert. -/
def dropKeys (r : Rule) (ix : AList (List String) Labels) (dead : List Alert) : AList (List String) Labels :=
  dead.foldl (fun acc a => erase acc (r.eqKey a.labels)) ix

/-- repaired `scache.GC()` + `gcCallback`: delete the keys of the collected
    alerts, then re-index every surviving cache entry. -/
def gcRule (now : Int) (rs : RS) : RS :=
  let dead := collected now rs.scache
  let rs' : RS := { rs with scache := survivors now rs.scache, sindex := dropKeys rs.rule rs.sindex dead }
  if dead.isEmpty then rs'
  else (rs'.scache.map Prod.snd).foldl updateIndex rs'

/-- the GC tick of rule number `i` (each rule's cache has its own GC loop). -/
def gcAt : Nat → Int → State → State
  | _, _, [] => []
  | 0, now, rs :: rest => gcRule now rs :: rest
  | i + 1, now, rs :: rest => rs :: gcAt i now rest

/-- can cached source `a` inhibit at `now`?  `excl` = the queried label set matches the rule's source side too. -/
def usable (r : Rule) (now : Int) (excl : Bool) (a : Alert) : Bool :=
  !a.resolvedAt now && !(excl && r.tgt a.labels)

/-- repaired `hasEqual`: the indexed source if it can inhibit, else any other
    cached source with the same equal-key that can. -/
def hasEqual (rs : RS) (now : Int) (ls : Labels) : Option Labels :=
  let excl := rs.rule.src ls
  let key := rs.rule.eqKey ls
  match lookup rs.sindex key with
  | none => none
  | some ix =>
    let scan := ((rs.scache.map Prod.snd).find? fun a =>
        a.labels != ix && usable rs.rule now excl a && rs.rule.eqKey a.labels == key).map (·.labels)
    match lookup rs.scache ix with
    | some a => if usable rs.rule now excl a then some a.labels else scan
    | none => scan

/-- `Inhibitor.Mutes`: the first rule (in configuration order) whose target
    side matches and that has an inhibiting source; reports that source. -/
def mutesBy (st : State) (now : Int) (ls : Labels) : Option Labels :=
  st.findSome? fun rs => if rs.rule.tgt ls then hasEqual rs now ls else none

def mutes (st : State) (now : Int) (ls : Labels) : Bool := (mutesBy st now ls).isSome

/-! ### the pinned tree -/
namespace Legacy

/-- `gcCallback` as pinned: only deletes. -/
def gcRule (now : Int) (rs : RS) : RS :=
  { rs with scache := survivors now rs.scache, sindex := dropKeys rs.rule rs.sindex (collected now rs.scache) }

def gcAt : Nat → Int → State → State
  | _, _, [] => []
  | 0, now, rs :: rest => gcRule now rs :: rest
  | i + 1, now, rs :: rest => rs :: gcAt i now rest

/-- `findEqualSourceAlert` + `hasEqual` as pinned: the single slot decides. -/
def hasEqual (rs : RS) (now : Int) (ls : Labels) : Option Labels :=
  match lookup rs.sindex (rs.rule.eqKey ls) with
  | none => none
  | some ix =>
    match lookup rs.scache ix with
    | none => none
    | some a =>
      if a.resolvedAt now then none
      else if rs.rule.src ls && rs.rule.tgt a.labels then none
      else some a.labels

def mutesBy (st : State) (now : Int) (ls : Labels) : Option Labels :=
  st.findSome? fun rs => if rs.rule.tgt ls then hasEqual rs now ls else none

def mutes (st : State) (now : Int) (ls : Labels) : Bool := (mutesBy st now ls).isSome

end Legacy

/-! ### histories -/

/-- What reaches the inhibitor: alert versions in subscription order and the
    GC ticks of the per-rule caches. -/
inductive Ev where
  | proc (a : Alert)
  | gc (rule : Nat) (now : Int)

def step (st : State) : Ev → State
  | .proc a => process st a
  | .gc i now => gcAt i now st

def run (rules : List Rule) (h : List Ev) : State := h.foldl step (init rules)

def Legacy.step (st : State) : Ev → State
  | .proc a => process st a
  | .gc i now => Legacy.gcAt i now st

def Legacy.run (rules : List Rule) (h : List Ev) : State := h.foldl Legacy.step (init rules)

/-- latest delivered version per label set. -/
def latestStep (lat : AList Labels Alert) : Ev → AList Labels Alert
  | .proc a => put lat a.labels a
  | .gc _ _ => lat

def latest (h : List Ev) : AList Labels Alert := h.foldl latestStep []

/-- the alerts firing at `now`. -/
def firing (lat : AList Labels Alert) (now : Int) : List Alert :=
  (lat.map Prod.snd).filter fun a => !a.resolvedAt now

/-! ### the documented rule (declarative) -/

def inhibited (rules : List Rule) (firing : List Alert) (ls : Labels) : Prop :=
  ∃ r ∈ rules, r.tgt ls = true ∧ ∃ a ∈ firing, r.src a.labels = true ∧
    (∀ l ∈ r.equal, a.labels.get l = ls.get l) ∧ ¬ (r.src ls = true ∧ r.tgt a.labels = true)

/-- executable form of the per-rule, per-source clause (driver). -/
def inhibitsB (r : Rule) (a : Alert) (ls : Labels) : Bool :=
  r.tgt ls && r.src a.labels && r.equal.all (fun l => a.labels.get l == ls.get l) &&
    !(r.src ls && r.tgt a.labels)

def inhibitedB (rules : List Rule) (firing : List Alert) (ls : Labels) : Bool :=
  rules.any fun r => firing.any fun a => inhibitsB r a ls

end AM.Inhibit
