/-
  Model of /repo/matcher/compat/parse.go: the three parser modes selected by
  `InitFromFlags` (classic, UTF-8 strict, fallback) for one matcher and for a
  list.  Core only.

  Fallback: both parsers run; UTF-8 error ∧ classic error → error; UTF-8 error ∧
  classic ok → classic result; both ok and different → classic result; else the
  UTF-8 result.  `reflect.DeepEqual` on `*labels.Matcher` is equality of
  (Type, Name, Value): the compiled regexp is a function of Value.
  The single-matcher UTF-8 and fallback parsers first refuse any input that
  starts with '{' or ends with '}'.
-/
import AM.Model.MatcherClassic
import AM.Model.MatcherUTF8

namespace AM.Mt
open AM

def hasBracePrefix : Str → Bool
  | r :: _ => r.cp = 123
  | [] => false

def hasBraceSuffix (s : Str) : Bool :=
  match s.getLast? with
  | some r => r.cp = 125
  | none => false

def ofExcept {α : Type} : Except Err α → Outcome α
  | .ok a => .ok a
  | .error e => .err e

/-- the decision of `FallbackMatcherParser` / `FallbackMatchersParser` after both parsers ran -/
def fallbackChoose {α : Type} [DecidableEq α] (n : Outcome α) (c : Except Err α) : Outcome α :=
  match n with
  | .panic => .panic
  | .fuel => .fuel
  | .err _ =>
    match c with
    | .error e => .err e
    | .ok cm => .ok cm
  | .ok nm =>
    match c with
    | .ok cm => if nm ≠ cm then .ok cm else .ok nm
    | .error _ => .ok nm

/-- `compat.ClassicMatcherParser` -/
def compatClassicMatcher (compiles : Str → Bool) (s : Str) : Outcome Matcher :=
  ofExcept (classicMatcher compiles s)

/-- `compat.UTF8MatcherParser` -/
def compatUTF8Matcher (compiles : Str → Bool) (s : Str) : Outcome Matcher :=
  if hasBracePrefix s || hasBraceSuffix s then .err .brace else utf8Matcher compiles s

/-- `compat.FallbackMatcherParser` -/
def fallbackMatcher (compiles : Str → Bool) (s : Str) : Outcome Matcher :=
  if hasBracePrefix s || hasBraceSuffix s then .err .brace
  else fallbackChoose (utf8Matcher compiles s) (classicMatcher compiles s)

/-- `compat.FallbackMatchersParser` -/
def fallbackMatchers (compiles : Str → Bool) (s : Str) : Outcome (List Matcher) :=
  fallbackChoose (utf8Matchers compiles s) (classicMatchers compiles s)

end AM.Mt
