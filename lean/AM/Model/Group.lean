/-
  Model of one aggregation group (/repo/dispatch/dispatch.go `aggrGroup`,
  /repo/store/store.go): the alert store keyed by fingerprint, `insert`, the
  flush partition (`ResolvedAt(now)` / `EndsAt` zeroed for the rest),
  `DeleteIfNotModified(resolved, destroyIfEmpty = true)`, and the timer
  discipline of `newAggrGroup` / `groupAlert` / `aggrGroup.run`.
  Core Lean only.  Alerts are identified by a `Nat` (fingerprint).
-/
import AM.Base.Map

namespace AM.Group
open AM AM.AList

structure GAlert where
  id     : Nat
  starts : Int
  ends   : Int          -- EndsAt; the API always sets one (explicit or receive time + resolve_timeout)
  upd    : Int          -- UpdatedAt
  deriving DecidableEq, Repr, Inhabited

/-- `Alert.ResolvedAt(ts)`: `!EndsAt.After(ts)` for a non-zero EndsAt. -/
def GAlert.resolvedAt (a : GAlert) (ts : Int) : Bool := decide (a.ends ≤ ts)

structure Group where
  alerts    : AList Nat GAlert := []
  destroyed : Bool := false
  nextTick  : Int := 0     -- fire instant of `ag.next`
  deriving Repr

/-- `groupAlert` for a group that does not exist (or is destroyed): `newAggrGroup`
    arms group_wait; an alert older than group_wait resets the timer to zero. -/
def create (now gw : Int) (a : GAlert) : Group :=
  { alerts := [(a.id, a)], destroyed := false,
    nextTick := if a.starts + gw < now then now else now + gw }

/-- `aggrGroup.insert` → `store.Set`: refused when destroyed. -/
def insert (g : Group) (a : GAlert) : Option Group :=
  if g.destroyed then none else some { g with alerts := put g.alerts a.id a }

/-- What `flush` hands to the pipeline: every stored alert, flagged resolved iff
    its end has passed at the wall instant of the flush. -/
def partition (g : Group) (wall : Int) : List (GAlert × Bool) :=
  g.alerts.map fun kv => (kv.2, kv.2.resolvedAt wall)

def resolvedSlice (g : Group) (wall : Int) : List GAlert :=
  (g.alerts.filter fun kv => kv.2.resolvedAt wall).map (·.2)

/-- `aggrGroup.run`: the timer is re-armed to group_interval from the instant the
    tick is handled, before the flush. -/
def rearm (g : Group) (wall gi : Int) : Group := { g with nextTick := wall + gi }

/-- `DeleteIfNotModified(resolvedSlice, true)` after a successful flush. -/
def deleteIfNotModified (g : Group) (snap : List GAlert) : Group :=
  let kept := snap.foldl (fun (m : AList Nat GAlert) a =>
      match lookup m a.id with
      | some cur => if cur.upd = a.upd then erase m a.id else m
      | none => m) g.alerts
  { g with alerts := kept, destroyed := g.destroyed || kept.isEmpty }

end AM.Group

/-! ### the dispatcher's group map and its counter (`aggrGroupsNum`, group limit) -/
namespace AM.Group

/-- Which group keys are mapped: `live` groups, destroyed groups not yet collected
    by maintenance (`dead`), and the counter the limit is checked against. -/
structure GMap where
  live  : List String := []
  dead  : List String := []
  count : Nat := 0
  deriving Repr

inductive GOp where
  | ingest (k : String)     -- groupAlert for an alert of group k
  | destroy (k : String)    -- a successful flush emptied group k
  | maintain                -- doMaintenance: collect every destroyed group still mapped
  deriving Repr

/-- `groupAlert` / flush-destroy / `doMaintenance` on the map. Returns whether the
    alert found a group (`false` = refused by the group limit). `limit = 0` is no limit. -/
def gstep (limit : Nat) (m : GMap) : GOp → GMap × Bool
  | .ingest k =>
    if m.live.contains k then (m, true)                                    -- insert into the live group
    else if limit > 0 ∧ m.count ≥ limit then (m, false)                    -- limit reached: alert dropped
    else if m.dead.contains k then
      ({ m with live := k :: m.live, dead := m.dead.erase k }, true)       -- CompareAndSwap over the destroyed group
    else ({ m with live := k :: m.live, count := m.count + 1 }, true)      -- LoadOrStore of a new group
  | .destroy k =>
    if m.live.contains k then ({ m with live := m.live.erase k, dead := k :: m.dead }, true) else (m, true)
  | .maintain => ({ m with dead := [], count := m.count - m.dead.length }, true)

def grun (limit : Nat) (ops : List GOp) (m : GMap) : GMap := ops.foldl (fun m o => (gstep limit m o).1) m

end AM.Group
