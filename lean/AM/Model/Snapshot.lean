/-
  Model of the snapshot file format of /repo/nflog/nflog.go and
  /repo/silence/silence.go (C11):

    state.MarshalBinary   = for every entry: protodelim.MarshalTo
                          = varint(len payload) ++ payload
    decodeState           = loop { protodelim.UnmarshalFrom } with three exits:
                              clean EOF (no byte read)      -> the state so far
                              decoded but Entry/Silence nil -> ErrInvalidState
                              anything else                 -> that error

  The framing is modelled at byte level (bytes are `Nat`s; everything the
  encoder emits is < 256, see `encodeVarint_lt`).  The protobuf field codec is
  abstract: a `Codec` is a pair encodeMsg/decodeMsg plus the validity test the
  Go loop applies to a decoded message and the post-processing it does
  (`postprocessUnmarshalledSilence`; identity for the notification log).
  Core Lean only.
-/
namespace AM.Snapshot

abbrev Bytes := List Nat

/-! ### varint (protowire.AppendVarint / protodelim's size reader + protowire.ConsumeVarint) -/

/-- `protowire.AppendVarint`: little-endian base 128, continuation bit 0x80. -/
def encodeVarint (n : Nat) : Bytes :=
  if n < 128 then [n] else (n % 128 + 128) :: encodeVarint (n / 128)
termination_by n
decreasing_by omega

/-- The size reader of `protodelim.UnmarshalFrom` followed by
    `protowire.ConsumeVarint`: at most `k` more bytes (`k = 10` at the start),
    stop at the first byte < 0x80; `none` = error (truncated: the input ended
    inside the varint; overflow: a tenth byte ≥ 2 or an eleventh byte needed).
    The *empty* input is handled by the caller (`readRecord`): that is the
    clean-EOF exit. -/
def readVarint : Nat → Bytes → Option (Nat × Bytes)
  | 0, _ => none
  | _ + 1, [] => none
  | k + 1, b :: rest =>
    if b < 128 then
      (if k = 0 ∧ 2 ≤ b then none else some (b, rest))
    else
      match readVarint k rest with
      | none => none
      | some (v, r) => some (b - 128 + 128 * v, r)

/-- protodelim's default `MaxSize` (4 MiB). -/
def defaultMaxSize : Nat := 4194304

/-! ### one record -/

inductive RecRes where
  | eof                                   -- no byte could be read: io.EOF
  | err                                   -- bad varint, size > MaxSize, short payload
  | record (payload rest : Bytes)
  deriving DecidableEq, Repr

/-- `protodelim.UnmarshalFrom` up to (not including) `proto.Unmarshal`. -/
def readRecord (maxSize : Nat) (bs : Bytes) : RecRes :=
  match bs with
  | [] => .eof
  | _ =>
    match readVarint 10 bs with
    | none => .err
    | some (n, rest) =>
      if maxSize < n then .err
      else if rest.length < n then .err
      else .record (rest.take n) (rest.drop n)

def encodeRecord (payload : Bytes) : Bytes := encodeVarint payload.length ++ payload

/-! ### the message codec (trusted, abstract) -/

structure Codec (M : Type) where
  encodeMsg : M → Bytes
  decodeMsg : Bytes → Option M          -- `proto.Unmarshal`; `none` = error
  valid     : M → Bool                  -- `e.Entry != nil && e.Entry.Receiver != nil` / `s.Silence != nil`
  pre       : M → M                     -- `prepareSilenceForMarshalling` (identity for nflog)
  post      : M → M                     -- `postprocessUnmarshalledSilence` (identity for nflog)

inductive Outcome (M : Type) where
  | ok (recs : List M)                    -- records in file order (the Go map is built from them, last wins)
  | invalid                               -- ErrInvalidState
  | error                                 -- any other error
  deriving DecidableEq, Repr

/-- `decodeState` loop.  Every iteration consumes at least one byte, so
    `fuel = length + 1` never runs out (`decodeLoop_fuel`). -/
def decodeLoop {M} (c : Codec M) (maxSize : Nat) : Nat → Bytes → List M → Outcome M
  | 0, _, _ => .error
  | fuel + 1, bs, acc =>
    match readRecord maxSize bs with
    | .eof => .ok acc.reverse
    | .err => .error
    | .record p rest =>
      match c.decodeMsg p with
      | none => .error
      | some m => if c.valid m then decodeLoop c maxSize fuel rest (c.post m :: acc) else .invalid

def decodeState {M} (c : Codec M) (maxSize : Nat) (bs : Bytes) : Outcome M :=
  decodeLoop c maxSize (bs.length + 1) bs []

/-- `state.MarshalBinary` over the entries in map-iteration order `ms`. -/
def encodeState {M} (c : Codec M) : List M → Bytes
  | [] => []
  | m :: ms => encodeRecord (c.encodeMsg (c.pre m)) ++ encodeState c ms

/-! ### the silence message: legacy matcher list and legacy comments -/

structure Sil (Mt : Type) where
  id          : String
  matchers    : List Mt               -- field 2: pre-matcher-set format
  matcherSets : List (List Mt)        -- field 11
  comments    : List (String × String) -- field 7 (author, comment), deprecated
  createdBy   : String
  comment     : String
  rest        : String                -- everything else (times, annotations, receiver matcher sets), opaque
  deriving DecidableEq, Repr

/-- `prepareSilenceForMarshalling`. -/
def Sil.prepare {Mt} (s : Sil Mt) : Sil Mt :=
  match s.matcherSets with
  | first :: _ => { s with matchers := first }
  | [] => s

/-- `postprocessUnmarshalledSilence`. -/
def Sil.postprocess {Mt} (s : Sil Mt) : Sil Mt :=
  if s.matcherSets.isEmpty ∧ ¬ s.matchers.isEmpty then { s with matcherSets := [s.matchers], matchers := [] }
  else { s with matchers := [] }

/-- the comment upgrade of `loadSnapshot` / `state.merge`. -/
def Sil.upgradeComments {Mt} (s : Sil Mt) : Sil Mt :=
  match s.comments with
  | (a, c) :: _ => { s with comment := c, createdBy := a, comments := [] }
  | [] => s

end AM.Snapshot
