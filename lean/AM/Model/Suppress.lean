/-
  The mute stages of the notification pipeline, in the order `PipelineBuilder.New` chains them
  (/repo/notify/notify.go: GossipSettle → Inhibit → TimeActive → TimeMute → Silence → per-receiver
  fan-out of Wait → Dedup → Retry → SetNotifies):

    * `MuteStage` (inhibitor, silencer) drops the alerts its muter mutes, one by one;
    * `TimeActiveStage` / `TimeMuteStage` drop the WHOLE flush when the route is outside its active
      intervals / inside a mute interval at the flush tick;
    * `MultiStage` stops as soon as no alert is left.

  What the receiver stage gets is `surviving`; `AM.Dedup.flushStep` takes it from there.
  Core Lean only.
-/
import AM.Model.Dedup

namespace AM.Suppress
open AM AM.Dedup

/-- the verdicts of one flush: per alert (by id) for the two muters, one for the route's time gate -/
structure Verdicts where
  inhibited : Nat → Bool
  silenced  : Nat → Bool
  timeMuted : Bool

/-- why an alert is withheld; the order is the order of the stages -/
def reason (v : Verdicts) (id : Nat) : Option String :=
  if v.inhibited id then some "inhibited"
  else if v.timeMuted then some "time-muted"
  else if v.silenced id then some "silenced"
  else none

/-- the alerts (id, resolved?) that reach the receiver stage -/
def surviving (v : Verdicts) (alerts : List (Nat × Bool)) : List (Nat × Bool) :=
  alerts.filter fun a => (reason v a.1).isNone

/-- the `Flush` the per-integration tail sees -/
def toFlush (v : Verdicts) (tick wall : Int) (alerts : List (Nat × Bool)) (accept : Bool) : Flush :=
  { tick, wall, accept,
    firing := ((surviving v alerts).filter (!·.2)).map (·.1),
    resolved := ((surviving v alerts).filter (·.2)).map (·.1) }

end AM.Suppress
