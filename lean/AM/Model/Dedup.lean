/-
  Model of the per-(group, integration) notification pipeline tail:
    DedupStage.needsUpdate  (/repo/notify/dedup_stage.go)
    RetryStage.exec         (/repo/notify/retry_stage.go; only its send_resolved
                             short-cut and the success/failure outcome)
    SetNotifiesStage.Exec   (/repo/notify/set_notifies_stage.go)
  on top of the notification-log model `AM.Nflog` (C10), plus MultiStage's
  "no alerts left → stop" rule.  Core Lean only.

  Alerts are identified by the hash of their label set (`hashAlert`), a `Nat`.
-/
import AM.Model.Nflog

namespace AM.Dedup
open AM AM.AList AM.Nflog

/-- `isSubset(set, subset)`: every element of `sub` is in `sup`. -/
def subset (sub sup : List Nat) : Bool := sub.all (fun x => sup.contains x)

inductive Reason where
  | doNotNotify | first | newAlerts | newResolved | allResolved | repeatElapsed
  deriving DecidableEq, Repr

def Reason.shouldNotify (r : Reason) : Bool := r ≠ .doNotNotify

/-- `DedupStage.needsUpdate`, branch for branch.  `now` is the flush tick. -/
def needsUpdate (entry : Option Entry) (firing resolved : List Nat) (sendResolved : Bool)
    (repeatI now : Int) : Reason :=
  match entry with
  | none => if firing.length > 0 then .first else .doNotNotify
  | some e =>
    if !subset firing e.firing then
      (if e.firing.length = 0 then .first else .newAlerts)
    else if firing.length = 0 then
      (if e.firing.length > 0 then .allResolved else .doNotNotify)
    else if sendResolved && !subset resolved e.resolved then .newResolved
    else if e.ts < now - repeatI then .repeatElapsed
    else .doNotNotify

structure Cfg where
  key          : String       -- state key of (group, integration)
  repeatI      : Int
  retention    : Int
  sendResolved : Bool
  deriving Repr

/-- One flush as seen by one integration's pipeline tail. -/
structure Flush where
  tick     : Int              -- `notify.Now(ctx)`: the fire instant of the group timer
  wall     : Int              -- wall clock when the log is written (after the send)
  firing   : List Nat         -- hashes of firing alerts that survived the mute stages
  resolved : List Nat         -- hashes of resolved alerts that survived the mute stages
  accept   : Bool             -- the integration accepts a delivery within this flush
  deriving Repr

/-- What the receiver gets. -/
structure Notification where
  tick     : Int
  wall     : Int
  firing   : List Nat
  resolved : List Nat         -- empty when send_resolved is off
  deriving DecidableEq, Repr

structure FlushOut where
  st      : State
  sent    : Option Notification
  logged  : Bool              -- SetNotifiesStage ran (with or without a real send)
  ok      : Bool              -- the pipeline tail returned no error
  reason  : Reason
  deriving Repr

/-- Which way one flush goes through the pipeline tail. -/
inductive Path where
  | empty      -- MultiStage: no alerts left, nothing runs
  | quiet      -- DedupStage: nothing to notify
  | shortcut   -- RetryStage: send_resolved off and nothing fires: recorded, not sent
  | send       -- delivered, then recorded
  | fail       -- delivery failed within the flush: nothing recorded
  deriving DecidableEq, Repr

def reasonOf (c : Cfg) (s : State) (f : Flush) : Reason :=
  needsUpdate (query s c.key) f.firing f.resolved c.sendResolved c.repeatI f.tick

def path (c : Cfg) (s : State) (f : Flush) : Path :=
  if f.firing = [] ∧ f.resolved = [] then .empty
  else if (reasonOf c s f).shouldNotify = false then .quiet
  else if c.sendResolved = false ∧ f.firing = [] then .shortcut
  else if f.accept = true then .send
  else .fail

def logged (c : Cfg) (s : State) (f : Flush) : State :=
  (log f.wall c.retention s c.key f.firing f.resolved "-" (2 * c.repeatI)).1

/-- ClusterWait (elapsed, not modelled here) → Dedup → Retry → SetNotifies. -/
def flushStep (c : Cfg) (s : State) (f : Flush) : FlushOut :=
  match path c s f with
  | .empty => { st := s, sent := none, logged := false, ok := true, reason := .doNotNotify }
  | .quiet => { st := s, sent := none, logged := false, ok := true, reason := reasonOf c s f }
  | .shortcut => { st := logged c s f, sent := none, logged := true, ok := true, reason := reasonOf c s f }
  | .send =>
      { st := logged c s f,
        sent := some { tick := f.tick, wall := f.wall, firing := f.firing,
                       resolved := if c.sendResolved then f.resolved else [] },
        logged := true, ok := true, reason := reasonOf c s f }
  | .fail => { st := s, sent := none, logged := false, ok := false, reason := reasonOf c s f }

inductive Ev where
  | flush (f : Flush)
  | gc (now : Int)
  deriving Repr

def Ev.wall : Ev → Int
  | .flush f => f.wall
  | .gc now => now

/-- One (group, integration) history: state and the notifications sent, oldest first. -/
def run (c : Cfg) : List Ev → State → State × List Notification
  | [], s => (s, [])
  | .flush f :: rest, s =>
    let o := flushStep c s f
    let (s', ns) := run c rest o.st
    (s', match o.sent with | some n => n :: ns | none => ns)
  | .gc now :: rest, s => run c rest (gc now s).1

end AM.Dedup
