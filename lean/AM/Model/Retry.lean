/-
  Model of /repo/notify/retry_stage.go `RetryStage.exec`: the retry loop over a
  sequence of attempts and the flush deadline.  Core Lean only.

  The model is a trace ACCEPTOR for timing (DESIGN §1.1): the instants at which
  the backoff ticker fires are inputs (`Att.start`), because the implementation
  draws them at random; what the model decides is which attempts happen, what
  each returns to the loop, and what the stage returns.  `okTimes` states the
  constraints every accepted trace must satisfy (first tick at once, each gap
  inside the randomised exponential window, never before the previous call
  returned).
-/
namespace AM.Retry

/-- what the integration does on one call, as scripted -/
inductive Outcome where
  | ok | recoverable | unrecoverable | hang
  deriving DecidableEq, Repr, Inhabited

structure Att where
  start : Int              -- instant the tick was received = `Notify` call
  out   : Outcome
  dur   : Int              -- how long the call takes when it does not hang
  deriving DecidableEq, Repr, Inhabited

/-- what one call returns to the loop (`retry, err`) and when -/
inductive Ret where
  | ok | recoverable | unrecoverable | ctxErr        -- ctxErr: came back with the context's error (retry = true)
  deriving DecidableEq, Repr

/-- A scripted integration honours the context: a call that would outlast the deadline `D`
    (or hangs) returns at `D` with the context error, flagged recoverable. -/
def ret (D : Int) (a : Att) : Ret × Int :=
  match a.out with
  | .hang => (.ctxErr, D)
  | o => if a.start + a.dur ≥ D then (.ctxErr, D) else
      (match o with | .ok => .ok | .recoverable => .recoverable | .unrecoverable => .unrecoverable | .hang => .ctxErr,
       a.start + a.dur)

inductive Res where
  | success (attempts : Nat)                               -- returns the alerts, nil error
  | unrecoverable (attempts : Nat)                         -- "… unrecoverable error after n attempts"
  | deadline (attempts : Nat) (lastIntegrationErr : Bool)  -- "… canceled after n attempts: <iErr>"
  deriving DecidableEq, Repr

def Res.isSuccess : Res → Bool
  | .success _ => true
  | _ => false

def Res.attempts : Res → Nat
  | .success n => n
  | .unrecoverable n => n
  | .deadline n _ => n

/-- `RetryStage.exec`'s loop.  `i` = attempts so far, `seen` = an integration error was saved in
    `iErr` (only errors that came back while the context was still alive are saved). -/
def exec (D : Int) : List Att → Nat → Bool → Res
  | [], i, seen => .deadline i seen                       -- no further tick before the context ends
  | a :: rest, i, seen =>
    if D ≤ a.start then .deadline i seen                  -- "Always check the context first"
    else match (ret D a).1 with
      | .ok => .success (i + 1)
      | .unrecoverable => .unrecoverable (i + 1)
      | .recoverable => exec D rest (i + 1) true
      | .ctxErr => exec D rest (i + 1) seen

/-- `RetryStage.exec` including the `send_resolved: false` short cut: with nothing firing it
    reports success without calling the integration. -/
def stage (sendResolved : Bool) (nFiring : Nat) (D : Int) (atts : List Att) : Res :=
  if !sendResolved ∧ nFiring = 0 then .success 0 else exec D atts 0 false

/-! ### HTTP integrations (notify/webhook `Notifier.Notify`): what one request does -/

/-- the endpoint answered with a status code, or the integration's own per-request `timeout`
    expired first (the flush context being still alive) -/
inductive Http where
  | status (code : Nat)
  | timeout
  deriving DecidableEq, Repr

/-- `Retrier.Check` without extra retry codes (2xx ok, 5xx recoverable, anything else not), and the
    transport-error branch of `Notify` (`return true, err`): a request cut by the per-request
    timeout is a recoverable failure. -/
def httpOutcome : Http → Outcome
  | .timeout => .recoverable
  | .status c => if c / 100 = 2 then .ok else if c / 100 = 5 then .recoverable else .unrecoverable

/-- the attempt a request made at `start` amounts to: a timed-out request takes `timeout` -/
def httpAtt (timeout start : Int) (h : Http) : Att :=
  { start := start, out := httpOutcome h, dur := match h with | .timeout => timeout | .status _ => 0 }

/-! ### timing acceptor -/

def initialInterval : Int := 500000000
def maxInterval : Int := 60000000000

/-- `currentInterval` before the k-th `NextBackOff` -/
def cur : Nat → Int
  | 0 => initialInterval
  | k + 1 => if cur k * 3 ≥ maxInterval * 2 then maxInterval else cur k * 3 / 2

def lo (k : Nat) : Int := cur k / 2 - 1
def hi (k : Nat) : Int := cur k * 3 / 2 + 2

/-- constraints on consecutive attempts `k`, `k+1` (the first is at `t0`) -/
def okTimes (D : Int) : Nat → List Att → Bool
  | _, [] => true
  | _, [_] => true
  | k, a :: b :: rest =>
    let e := (ret D a).2
    decide (b.start ≥ e) && decide (b.start ≥ a.start + lo k) &&
    decide (b.start ≤ max e (a.start + hi k)) && okTimes D (k + 1) (b :: rest)

/-- the loop did not give up early: after the last attempt the next tick was not due before `D` -/
def noEarlyStop (D : Int) (k : Nat) (last : Att) : Bool :=
  decide (D ≤ max (ret D last).2 (last.start + hi k))

end AM.Retry
