/-
  Model of /repo/pkg/labels/parse.go (the classic parser).  Core only.

  `ParseMatcher`: the regexp
      ^\s*([a-zA-Z_:][a-zA-Z0-9_:]*)\s*(=~|=|!=|!~)\s*((?s).*?)\s*$
  as a functional scanner.  Why no backtracking is needed: name characters,
  `\s` and the operator characters are pairwise disjoint, so the greedy name is
  the only one that can be followed by `\s*(op)`; after the operator everything
  matches, so the leftmost alternative `=~` is taken whenever a `~` follows `=`;
  `\s*` (greedy) followed by the lazy `.*?` and `\s*$` leaves exactly the rest
  with `\s` trimmed on both sides.  `\s` is `[\t\n\f\r ]` (NOT `\v`, not
  Unicode).  An invalid byte is matched by `.` only.
  Then the unescape loop and `NewMatcher`.

  `ParseMatchers`: `TrimPrefix "{"`, `TrimSuffix "}"`, the rune loop that splits
  at commas outside quotes (state `insideQuotes`, `escaped`; it re-encodes every
  rune with `WriteRune`, so a bad byte becomes U+FFFD), `strings.TrimSpace`
  (Unicode) of the last token, `ParseMatcher` on each token.
-/
import AM.Model.MatcherPrint

namespace AM.Mt
open AM

/-- regexp `\s` -/
def isReSpace (n : Nat) : Bool := n == 9 || n == 10 || n == 12 || n == 13 || n == 32

/-- `[a-zA-Z_:]` -/
def isNameStart (n : Nat) : Bool :=
  (65 ≤ n && n ≤ 90) || (97 ≤ n && n ≤ 122) || n == 95 || n == 58

/-- `[a-zA-Z0-9_:]` -/
def isNameChar (n : Nat) : Bool := isNameStart n || (48 ≤ n && n ≤ 57)

/-- a classic label name -/
def classicName (s : Str) : Bool :=
  match s with
  | [] => false
  | r :: rest => isNameStart r.cp && rest.all (fun x => isNameChar x.cp)

def trimRight (p : Rune → Bool) (s : Str) : Str := (s.reverse.dropWhile p).reverse

/-- `(=~|=|!=|!~)` at the head of the input -/
def scanOp : Str → Option (Op × Str)
  | a :: rest =>
    if a.cp = 61 then
      match rest with
      | b :: rest' => if b.cp = 126 then some (.re, rest') else some (.eq, rest)
      | [] => some (.eq, rest)
    else if a.cp = 33 then
      match rest with
      | b :: rest' => if b.cp = 61 then some (.ne, rest') else if b.cp = 126 then some (.nre, rest') else none
      | [] => none
    else none
  | [] => none

/-- `re.FindStringSubmatch`: (name, operator, raw value). -/
def classicScan (s : Str) : Option (Str × Op × Str) :=
  let s1 := s.dropWhile (fun r => isReSpace r.cp)
  let name := s1.takeWhile (fun r => isNameChar r.cp)
  let s2 := s1.dropWhile (fun r => isNameChar r.cp)
  match name with
  | [] => none
  | r :: _ =>
    if !isNameStart r.cp then none else
    let s3 := s2.dropWhile (fun r => isReSpace r.cp)
    match scanOp s3 with
    | none => none
    | some (op, s4) =>
      let s5 := s4.dropWhile (fun r => isReSpace r.cp)
      some (name, op, trimRight (fun r => isReSpace r.cp) s5)

/-- The unescape loop of `ParseMatcher`.  `i < len(rawValue)-1` is `rest ≠ []`
    (the rune at `i` is a single byte in both places it is asked). -/
def unescLoop : (escaped expectTQ : Bool) → Str → Option Str
  | _, etq, [] => if etq then none else some []
  | true, etq, r :: rest =>
    if r.cp = 110 then (unescLoop false etq rest).map (Rune.ch '\n' :: ·)
    else if r.cp = 34 ∨ r.cp = 92 then (unescLoop false etq rest).map (r.norm :: ·)
    else (unescLoop false etq rest).map (fun v => bs :: r.norm :: v)
  | false, etq, r :: rest =>
    if r.cp = 92 then
      if rest ≠ [] then unescLoop true etq rest
      else (unescLoop false etq rest).map (bs :: ·)
    else if r.cp = 34 then
      if !etq || rest ≠ [] then none else unescLoop false false rest
    else (unescLoop false etq rest).map (r.norm :: ·)

/-- `labels.ParseMatcher` -/
def classicMatcher (compiles : Str → Bool) (s : Str) : Except Err Matcher :=
  match classicScan s with
  | none => .error .syntax
  | some (name, op, raw) =>
    let (raw', etq) : Str × Bool := match raw with
      | r :: rest => if r.cp = 34 then (rest, true) else (raw, false)
      | [] => ([], false)
    if !validB raw' then .error .syntax else
    match unescLoop false etq raw' with
    | none => .error .syntax
    | some v => newMatcher compiles op name v

/-- state update of the splitting loop for a rune that is written to the token -/
def splitState (inQ esc : Bool) (n : Nat) : Bool × Bool :=
  if n = 44 then (inQ, esc)            -- ',' inside quotes: nothing is reset
  else if n = 34 then (if !esc then (!inQ, esc) else (inQ, false))
  else if n = 92 then (inQ, !esc)
  else (inQ, false)

/-- The token list of the loop; the last element is the final `token.String()`
    (never empty as a list). -/
def splitLoop : (inQ esc : Bool) → Str → List Str
  | _, _, [] => [[]]
  | inQ, esc, r :: rest =>
    if r.cp = 44 ∧ inQ = false then [] :: splitLoop inQ esc rest
    else
      let st := splitState inQ esc r.cp
      match splitLoop st.1 st.2 rest with
      | t :: ts => (r.norm :: t) :: ts
      | [] => [[r.norm]]

def trimPrefixBrace : Str → Str
  | r :: rest => if r.cp = 123 then rest else r :: rest
  | [] => []

def trimSuffixBrace (s : Str) : Str :=
  match s.getLast? with
  | some r => if r.cp = 125 then s.dropLast else s
  | none => s

/-- `strings.TrimSpace` -/
def trimSpaceU (s : Str) : Str :=
  trimRight (fun r => isSpaceU r.cp) (s.dropWhile (fun r => isSpaceU r.cp))

/-- all tokens but the last verbatim, the last one trimmed and dropped if empty -/
def finishTokens : List Str → List Str
  | [] => []
  | [t] => let t' := trimSpaceU t; if t'.isEmpty then [] else [t']
  | t :: rest => t :: finishTokens rest

def classicTokens (s : Str) : List Str :=
  finishTokens (splitLoop false false (trimSuffixBrace (trimPrefixBrace s)))

def parseAll (compiles : Str → Bool) : List Str → Except Err (List Matcher)
  | [] => .ok []
  | t :: rest =>
    match classicMatcher compiles t with
    | .error e => .error e
    | .ok m =>
      match parseAll compiles rest with
      | .error e => .error e
      | .ok ms => .ok (m :: ms)

/-- `labels.ParseMatchers` -/
def classicMatchers (compiles : Str → Bool) (s : Str) : Except Err (List Matcher) :=
  parseAll compiles (classicTokens s)

end AM.Mt
