/-
  Model of `silence.Silencer` (/repo/silence/silence.go `Silencer.Mutes`,
  `PostGC`; /repo/silence/cache.go): the per-fingerprint cache
  `(version, ids)` over the store model of `AM.Model.Silence`.

  A fingerprint is the (canonical, name-sorted) label set itself: fingerprints
  are taken to be injective (DESIGN §2.2).  One call of `Mutes` is one atomic
  step; both clock reads inside it return the same instant.
-/
import AM.Model.Silence

namespace AM.Silence
open AM AM.AList

structure CacheEntry where
  version : Nat := 0
  ids : List String := []
  deriving DecidableEq, Repr, Inhabited

abbrev Cache := AList LabelSet CacheEntry

/-- `cache.get`: a missing entry reads as `(0, [])`. -/
def cacheGet (c : Cache) (ls : LabelSet) : CacheEntry := (lookup c ls).getD {}

/-- keep the first occurrence of every id (`seen` map in `Mutes`). -/
def dedupSils : List Sil → List String → List Sil
  | [], _ => []
  | x :: rest, seen => if seen.contains x.id then dedupSils rest seen else x :: dedupSils rest (x.id :: seen)

structure MutesOut where
  cache : Cache
  muted : Bool
  silencedBy : List String        -- what `SetSilenced` receives
  deriving Repr, Inhabited

def activeOrPending : Option (List SState) := some [.active, .pending]

/-- re-query of the cached ids: `QIDs(ids…), QState(active, pending)` -/
def oldSils (env : Env) (s : Store) (now : Int) (ce : CacheEntry) : List Sil :=
  if ce.ids.isEmpty then [] else
    query env s now { scan := .ids ce.ids, states := activeOrPending }

/-- scan of what was indexed since the cached version:
    `QSince(version), QState(active, pending), QMatches(lset)` -/
def newSils (env : Env) (s : Store) (now : Int) (ce : CacheEntry) (ls : LabelSet) : List Sil :=
  if ce.version = s.version then [] else
    query env s now { scan := .since ce.version, states := activeOrPending, ls := some ls }

def newVersion (s : Store) (ce : CacheEntry) : Nat :=
  if ce.version = s.version then ce.version else s.version

def activeIdsOf (now : Int) (all : List Sil) : List String :=
  (all.filter fun x => getState x now = .active).map (·.id)

def liveIdsOf (now : Int) (all : List Sil) : List String :=
  (all.filter fun x => getState x now ≠ .expired).map (·.id)

/-- `Silencer.Mutes`. -/
def mutes (env : Env) (s : Store) (c : Cache) (now : Int) (ls : LabelSet) : MutesOut :=
  let ce := cacheGet c ls
  if decide (ce.version = s.version) && ce.ids.isEmpty then ⟨c, false, []⟩ else
  let cand := oldSils env s now ce ++ newSils env s now ce ls
  if cand.isEmpty then ⟨put c ls { version := newVersion s ce, ids := [] }, false, []⟩ else
  let all := dedupSils cand []
  ⟨put c ls { version := newVersion s ce, ids := liveIdsOf now all }, !(activeIdsOf now all).isEmpty, activeIdsOf now all⟩

/-- `Silencer.PostGC`. -/
def postGC (c : Cache) (fps : List LabelSet) : Cache := fps.foldl (fun c ls => erase c ls) c

/-- The specification: direct evaluation of the stored silences (matchers as indexed). -/
def activeMatching (env : Env) (s : Store) (now : Int) (ls : LabelSet) (id : String) : Bool :=
  match lookup s.st id, lookup s.mi id with
  | some m, some ms => decide (getState m.sil now = .active) && matchesSets env.re ms ls
  | _, _ => false

end AM.Silence
