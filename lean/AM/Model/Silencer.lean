/-
  Model of `silence.Silencer` (/repo/silence/silence.go `Silencer.Mutes`,
  `PostGC`; /repo/silence/cache.go): the per-fingerprint cache
  `(version, ids)` over the store model of `AM.Model.Silence`.

  A fingerprint is the (canonical, name-sorted) label set itself: fingerprints
  are taken to be injective (DESIGN §2.2).  `mutes` is one call of `Mutes`
  executed atomically; `mutesI` is the same call as the code really runs it —
  three separately locked accesses to the store (`Silences.Version()`, the
  re-query of the cached ids, the `QSince` scan) and the cache write — with the
  store free to change between them.  All clock reads inside one call return
  the same instant.
-/
import AM.Model.Silence

namespace AM.Silence
open AM AM.AList

structure CacheEntry where
  version : Nat := 0
  ids : List String := []
  deriving DecidableEq, Repr, Inhabited

abbrev Cache := AList LabelSet CacheEntry

/-- `cache.get`: a missing entry reads as `(0, [])`. -/
def cacheGet (c : Cache) (ls : LabelSet) : CacheEntry := (lookup c ls).getD {}

/-- keep the first occurrence of every id (`seen` map in `Mutes`). -/
def dedupSils : List Sil → List String → List Sil
  | [], _ => []
  | x :: rest, seen => if seen.contains x.id then dedupSils rest seen else x :: dedupSils rest (x.id :: seen)

structure MutesOut where
  cache : Cache
  muted : Bool
  silencedBy : List String        -- what `SetSilenced` receives
  deriving Repr, Inhabited

def activeOrPending : Option (List SState) := some [.active, .pending]

/-- re-query of the cached ids: `QIDs(ids…), QState(active, pending)` -/
def oldSils (env : Env) (s : Store) (now : Int) (ce : CacheEntry) : List Sil :=
  if ce.ids.isEmpty then [] else
    query env s now { scan := .ids ce.ids, states := activeOrPending }

/-- scan of what was indexed since the cached version:
    `QSince(version), QState(active, pending), QMatches(lset)` -/
def newSils (env : Env) (s : Store) (now : Int) (ce : CacheEntry) (ls : LabelSet) : List Sil :=
  if ce.version = s.version then [] else
    query env s now { scan := .since ce.version, states := activeOrPending, ls := some ls }

def newVersion (s : Store) (ce : CacheEntry) : Nat :=
  if ce.version = s.version then ce.version else s.version

def activeIdsOf (now : Int) (all : List Sil) : List String :=
  (all.filter fun x => getState x now = .active).map (·.id)

def liveIdsOf (now : Int) (all : List Sil) : List String :=
  (all.filter fun x => getState x now ≠ .expired).map (·.id)

/-- `Silencer.Mutes`. -/
def mutes (env : Env) (s : Store) (c : Cache) (now : Int) (ls : LabelSet) : MutesOut :=
  let ce := cacheGet c ls
  if decide (ce.version = s.version) && ce.ids.isEmpty then ⟨c, false, []⟩ else
  let cand := oldSils env s now ce ++ newSils env s now ce ls
  if cand.isEmpty then ⟨put c ls { version := newVersion s ce, ids := [] }, false, []⟩ else
  let all := dedupSils cand []
  ⟨put c ls { version := newVersion s ce, ids := liveIdsOf now all }, !(activeIdsOf now all).isEmpty, activeIdsOf now all⟩

/-! ### one call as the code runs it: micro-steps

`Mutes` holds no lock across its accesses to `Silences`: `Version()` (read lock), the
`Query(QIDs …)` of the cached ids (read lock), the `Query(QSince …)` scan (read lock, returns
the version it was evaluated at) and finally `cache.set`.  Any store operation may run between
two of them. -/

/-- what a call in flight has gathered so far -/
structure MCall where
  ce : CacheEntry                 -- the entry read from the cache
  upToDate : Bool                 -- `cachedEntry.version == s.silences.Version()` at the start
  old : List Sil := []
  new : List Sil := []
  ver : Nat                       -- `newVersion`
  deriving Repr, Inhabited

/-- step 1: read the cache entry, compare with the store version -/
def mBegin (s : Store) (c : Cache) (ls : LabelSet) : MCall :=
  let ce := cacheGet c ls
  { ce := ce, upToDate := decide (ce.version = s.version), ver := ce.version }

/-- the very fast path: nothing cached, nothing new -/
def MCall.fast (k : MCall) : Bool := k.upToDate && k.ce.ids.isEmpty

/-- step 2: re-query of the cached ids on the store as it is *now*.  The code discards the
    version this query reports; `late = true` is the discipline of a seeded change that keeps
    it (so the cache version can run ahead of what was examined). -/
def mOld (late : Bool) (env : Env) (s : Store) (now : Int) (k : MCall) : MCall :=
  if k.ce.ids.isEmpty then k else
    { k with old := query env s now { scan := .ids k.ce.ids, states := activeOrPending },
             ver := if late then s.version else k.ver }

/-- step 3: only when the cache was not up to date at step 1 — scan of what is indexed after
    the cached version, on the store as it is now; the new version is the one of that store -/
def mNew (env : Env) (s : Store) (now : Int) (ls : LabelSet) (k : MCall) : MCall :=
  if k.upToDate then k else
    { k with new := query env s now { scan := .since k.ce.version, states := activeOrPending, ls := some ls },
             ver := s.version }

/-- step 4: classify, write the cache (the cache as it is at that moment) -/
def mEnd (c : Cache) (now : Int) (ls : LabelSet) (k : MCall) : MutesOut :=
  let cand := k.old ++ k.new
  if cand.isEmpty then ⟨put c ls { version := k.ver, ids := [] }, false, []⟩ else
  let all := dedupSils cand []
  ⟨put c ls { version := k.ver, ids := liveIdsOf now all }, !(activeIdsOf now all).isEmpty, activeIdsOf now all⟩

/-- One call of `Mutes` with the store being `s0` at the version read, `s1` at the re-query of
    the cached ids, `s2` at the since-scan; entry read from `c`, written into `c'`. -/
def mutesI (late : Bool) (env : Env) (now : Int) (ls : LabelSet) (s0 s1 s2 : Store) (c c' : Cache) : MutesOut :=
  let k := mBegin s0 c ls
  if k.fast then ⟨c', false, []⟩ else
  mEnd c' now ls (mNew env s2 now ls (mOld late env s1 now k))

/-- `Silencer.PostGC`. -/
def postGC (c : Cache) (fps : List LabelSet) : Cache := fps.foldl (fun c ls => erase c ls) c

/-- The specification: direct evaluation of the stored silences — the matchers are the ones
    *stored in the silence* (what `Query` and the API show), not the compiled matcher index. -/
def activeMatching (env : Env) (s : Store) (now : Int) (ls : LabelSet) (id : String) : Bool :=
  match lookup s.st id with
  | some m => decide (getState m.sil now = .active) && matchesSets env.re m.sil.sets ls
  | none => false

end AM.Silence
