/-
  Model of the alert value and of the provider's store:
  /repo/alert/alert.go (`Alert`, `Merge`, `Validate`), prometheus/common
  `model.Alert.ResolvedAt`, /repo/provider/mem/mem.go (`Put`, `gc`, `GetPending`),
  /repo/store/store.go (`Set`, `Get`, `GC`).  Core Lean only.

  Time is `Int` nanoseconds.  A label set is a name-sorted association list
  (the driver canonicalises); a fingerprint is the label set itself (injective
  hash, DESIGN §2.2).  Stored alerts always carry a start and an end: the API
  handler sets both before `Put` (a zero `EndsAt` never reaches the store through
  the API; the model does not cover it).
-/
import AM.Base.Map

namespace AM
open AM.AList

abbrev Labels := List (String × String)

/-- `lset[name]` of a Go map: a missing label reads as the empty string. -/
def Labels.get (ls : Labels) (n : String) : String := (lookup ls n).getD ""

structure Alert where
  labels    : Labels
  startsAt  : Int
  endsAt    : Int
  updatedAt : Int
  timeout   : Bool
  payload   : String := ""      -- annotations / generator URL, opaque
  deriving DecidableEq, Repr, Inhabited

/-- `model.Alert.ResolvedAt(ts)` for a set `EndsAt`: `!EndsAt.After(ts)`. -/
def Alert.resolvedAt (a : Alert) (ts : Int) : Bool := decide (a.endsAt ≤ ts)

/-- `Alert.Merge` once `o` is known to be the younger (or equally old) update. -/
def mergeYounger (now : Int) (a o : Alert) : Alert :=
  let start := if a.startsAt < o.startsAt then a.startsAt else o.startsAt
  let end_ :=
    if o.resolvedAt now then
      if a.resolvedAt now ∧ a.endsAt > o.endsAt then a.endsAt else o.endsAt
    else
      if a.endsAt > o.endsAt ∧ a.timeout = false then a.endsAt else o.endsAt
  { o with startsAt := start, endsAt := end_ }

/-- `a.Merge(o)`; `Resolved()` reads the clock, hence `now`. -/
def Alert.merge (now : Int) (a o : Alert) : Alert :=
  if o.updatedAt < a.updatedAt then mergeYounger now o a else mergeYounger now a o

abbrev Store := AList Labels Alert

/-- the overlap test of `mem.Alerts.Put`. -/
def overlaps (old new : Alert) : Bool :=
  (decide (new.endsAt > old.startsAt) && decide (new.endsAt < old.endsAt)) ||
  (decide (new.startsAt > old.startsAt) && decide (new.startsAt < old.endsAt))

/-- what `Put` stores (and broadcasts to subscribers) for one alert. -/
def putValue (now : Int) (s : Store) (a : Alert) : Alert :=
  match lookup s a.labels with
  | some old => if overlaps old a then old.merge now a else a
  | none => a

/-- `mem.Alerts.Put` for one alert (no per-name limit, no-op callback). -/
def Store.putAlert (now : Int) (s : Store) (a : Alert) : Store :=
  put s a.labels (putValue now s a)

/-- `store.Alerts.GC` at `now`: resolved alerts are deleted. -/
def Store.gc (now : Int) (s : Store) : Store :=
  filterVals (fun _ a => !a.resolvedAt now) s

end AM
