/-
  Model of /repo/nflog/nflog.go: `state.merge`, `Log.Log`, `Log.GC`,
  `Log.Query`, `Log.Merge` (with `decodeState`'s last-record-wins batching),
  snapshot + reload.  Core Lean only.

  Time is `Int` nanoseconds.  A state key (group key ++ ":" ++ receiver key) is
  an opaque `String`.  Receiver data is an opaque token.
-/
import AM.Base.Map

namespace AM.Nflog
open AM AM.AList

structure Entry where
  key      : String
  ts       : Int            -- Entry.Timestamp
  exp      : Int            -- MeshEntry.ExpiresAt
  firing   : List Nat
  resolved : List Nat
  data     : String         -- receiver data, opaque
  deriving DecidableEq, Repr, Inhabited

abbrev State := AList String Entry

/-- `state.merge` guard: `!e.ExpiresAt.Before(now) && (!ok || prev.ts.Before(e.ts))`. -/
def accepts (now : Int) (s : State) (e : Entry) : Bool :=
  if e.exp < now then false
  else match lookup s e.key with
    | none => true
    | some p => decide (p.ts < e.ts)

/-- `state.merge`. -/
def merge (now : Int) (s : State) (e : Entry) : State :=
  if accepts now s e then put s e.key e else s

/-- `decodeState`: later records for a key replace earlier ones. -/
def decodeBatch (b : List Entry) : State :=
  b.foldl (fun st e => put st e.key e) []

/-- `Log.Merge` on a decoded batch: returns the new state and the number of
    re-broadcasts (one per newly merged entry unless the message is oversized). -/
def mergeBatch (now : Int) (oversized : Bool) (s : State) (b : List Entry) : State × Nat :=
  (decodeBatch b).foldl
    (fun (acc : State × Nat) kv =>
      if accepts now acc.1 kv.2 then (put acc.1 kv.2.key kv.2, if oversized then acc.2 else acc.2 + 1)
      else acc)
    (s, 0)

/-- expiry chosen by `Log.Log`. -/
def logExpiry (now retention expiry : Int) : Int :=
  if expiry > 0 ∧ retention > expiry then now + expiry else now + retention

inductive LogOut where
  | skipped            -- previous entry has a timestamp after `now`: silently nothing
  | broadcast (e : Entry)
  deriving DecidableEq, Repr

/-- `Log.Log`. -/
def log (now retention : Int) (s : State) (key : String) (firing resolved : List Nat)
    (data : String) (expiry : Int) : State × LogOut :=
  let skip := match lookup s key with
    | some p => decide (p.ts > now)
    | none => false
  if skip then (s, .skipped)
  else
    let e : Entry := { key, ts := now, exp := logExpiry now retention expiry, firing, resolved, data }
    (merge now s e, .broadcast e)

/-- `Log.GC`: delete entries with `!ExpiresAt.After(now)`; returns the count. -/
def gc (now : Int) (s : State) : State × Nat :=
  let kept := filterVals (fun _ e => decide (e.exp > now)) s
  (kept, s.length - kept.length)

/-- `Log.Query` with both parameters. -/
def query (s : State) (key : String) : Option Entry := lookup s key

/-- Snapshot (`MarshalBinary` over the map) followed by `loadSnapshot`. -/
def reload (s : State) : State := decodeBatch (s.map Prod.snd)

end AM.Nflog
