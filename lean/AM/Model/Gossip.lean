/-
  Model of the gossip transport: /repo/cluster/channel.go `Channel.Broadcast`
  (wrap in a `Part{key,data}`, size threshold `MaxGossipPacketSize/2` = 700 bytes
  of the WRAPPED message, oversize path with a bounded queue and a drop counter)
  and /repo/cluster/delegate.go `NotifyMsg`, `LocalState`, `MergeRemoteState`.
  Core Lean only.

  A registered state is abstracted to what the transport needs from it: a
  mergeable map id ↦ version with last-writer-wins (`mergeKV`; silences and the
  notification log are such states — C09, C10) whose `Merge` fails on an
  undecodable payload.  Byte strings presented to the receive path are either
  undecodable (`malformed`) or decode to parts.
-/
import AM.Base.Map

namespace AM.Gossip
open AM AM.AList

abbrev KV := AList String Nat          -- one state's content: id ↦ version
abbrev States := AList String KV       -- Peer.states: key ↦ state

inductive Payload where
  | bad                                   -- `State.Merge` returns an error on it
  | entries (l : List (String × Nat))
  deriving DecidableEq, Repr

structure Part where
  key  : String
  data : Payload
  deriving DecidableEq, Repr

def omax : Option Nat → Option Nat → Option Nat
  | none, b => b
  | a, none => a
  | some a, some b => some (max a b)

/-- merge one entry: newer version wins -/
def upd (s : KV) (e : String × Nat) : KV :=
  match lookup s e.1 with
  | some w => if w < e.2 then put s e.1 e.2 else s
  | none => put s e.1 e.2

def mergeKV (s : KV) (l : List (String × Nat)) : KV := l.foldl upd s

/-- `State.Merge` -/
def mergeState (s : KV) : Payload → Option KV
  | .bad => none
  | .entries l => some (mergeKV s l)

/-- what `proto.Unmarshal(b, &Part)` makes of a received packet -/
inductive Packet where
  | malformed
  | part (p : Part)
  deriving DecidableEq, Repr

/-- `delegate.NotifyMsg` -/
def notifyMsg (st : States) : Packet → States
  | .malformed => st
  | .part p =>
    match lookup st p.key with
    | none => st                                  -- unknown key: dropped
    | some s =>
      match mergeState s p.data with
      | none => st                                -- Merge error: logged, nothing changes
      | some s' => put st p.key s'

inductive Full where
  | malformed
  | parts (ps : List Part)
  deriving DecidableEq, Repr

/-- `delegate.LocalState`: one part per registered state -/
def localState (st : States) : Full := .parts (st.map fun kv => ⟨kv.1, .entries kv.2⟩)

/-- `delegate.MergeRemoteState` with fixes/F5.diff (`continue` after a failed Merge):
    every part is handled on its own, exactly as `NotifyMsg` would. -/
def mergeRemoteState (st : States) : Full → States
  | .malformed => st
  | .parts ps => ps.foldl (fun st p => notifyMsg st (.part p)) st

/-- pinned `MergeRemoteState`: `return` on the first part whose Merge fails (F5). -/
def mergeRemoteStateOld (st : States) : Full → States
  | .malformed => st
  | .parts ps =>
    let rec go (st : States) : List Part → States
      | [] => st
      | p :: rest =>
        match lookup st p.key with
        | none => go st rest
        | some s =>
          match mergeState s p.data with
          | none => st                               -- return: later parts are never looked at
          | some s' => go (put st p.key s') rest
    go st ps

/-! ### send side: `Channel.Broadcast` -/

def threshold : Nat := 700        -- MaxGossipPacketSize / 2
def queueCap : Nat := 200         -- cap(msgc)

structure Chan where
  key      : String
  gossip   : List Part := []        -- handed to `send` (memberlist's TransmitLimitedQueue)
  queue    : List Part := []        -- buffered in msgc for the reliable per-peer send
  inflight : Option Part := none    -- taken from msgc by handleOverSizedMessages, sends not finished
  dropped  : Nat := 0               -- oversize_gossip_message_dropped_total
  deriving Repr

/-- `Channel.Broadcast`; `size` = encoded length of the wrapped Part (oracle). -/
def broadcast (c : Chan) (data : Payload) (size : Nat) : Chan :=
  let p : Part := ⟨c.key, data⟩
  if size > threshold then
    if c.queue.length < queueCap then { c with queue := c.queue ++ [p] }
    else { c with dropped := c.dropped + 1 }
  else { c with gossip := c.gossip ++ [p] }

/-- `handleOverSizedMessages` receives the head of msgc (when it is not busy) and starts one
    reliable send per current peer; returns the sends started. -/
def take (c : Chan) (peers : List String) : Chan × List (String × Part) :=
  match c.inflight, c.queue with
  | none, p :: rest => ({ c with queue := rest, inflight := some p }, peers.map fun n => (n, p))
  | _, _ => (c, [])

/-- all sends of the message in flight have returned (`wg.Wait()`) -/
def finish (c : Chan) : Chan := { c with inflight := none }

end AM.Gossip
