/-
  The meaning of "=~ / !~ test a FULLY ANCHORED regular expression"
  (/repo/pkg/labels/matcher.go: `NewMatcher` compiles `"^(?:" + v + ")$"`,
  `Matcher.Matches` asks `re.MatchString(s)`, an unanchored search).  Core only.

  `Re` is the fragment of Go's regexp syntax that the correspondence engine
  evaluates itself: literals, `.` (any rune but LF), groups, alternation,
  `* + ?`, and the anchors `^` (start of text) and `$` (end of text) anywhere in
  the pattern.  Three readings of a pattern:

  * `Den re pre s post` — declarative: the piece `s` of the text `pre ++ s ++ post`
    is matched by `re` (the context is what the anchors look at);
  * `Search re t` — what `MatchString` answers: some piece of `t` is matched;
  * `matchRe re t` — executable (Brzozowski derivatives with the two position
    flags "at the start" / "at the end"), linked into the driver.

  `AM.Props.C16`: `matchRe_iff` (the executable one decides `Den re [] t []`),
  `wrapped_search_iff_full_match` (searching for `^(?:p)$` is matching the whole
  text with `p`: the wrapping is what makes `fm` in `Matcher.matchesValue` a
  full match), and counterexamples for patterns that only look wrapped.
-/
import AM.Base.UTF8

namespace AM.Mt
open AM

inductive Re where
  | none | eps | chr (n : Nat) | any | bol | eol | seq (a b : Re) | alt (a b : Re) | star (a : Re)
  deriving Inhabited, Repr, DecidableEq

/-- `^(?:p)$` -/
def Re.wrap (p : Re) : Re := .seq .bol (.seq p .eol)

/-- `Den re pre s post`: inside the text `pre ++ s ++ post`, `re` matches the piece `s`.
    (`star`: iterations that match the empty piece add nothing and are left out.) -/
inductive Den : Re → Str → Str → Str → Prop
  | eps {pre s post} : s = [] → Den .eps pre s post
  | chr {n pre s post} (r : Rune) : s = [r] → r.cp = n → Den (.chr n) pre s post
  | any {pre s post} (r : Rune) : s = [r] → r.cp ≠ 10 → Den .any pre s post
  | bol {pre s post} : s = [] → pre = [] → Den .bol pre s post
  | eol {pre s post} : s = [] → post = [] → Den .eol pre s post
  | seq {a b pre s post} (s1 s2 : Str) : s = s1 ++ s2 →
      Den a pre s1 (s2 ++ post) → Den b (pre ++ s1) s2 post → Den (.seq a b) pre s post
  | altL {a b pre s post} : Den a pre s post → Den (.alt a b) pre s post
  | altR {a b pre s post} : Den b pre s post → Den (.alt a b) pre s post
  | star0 {a pre s post} : s = [] → Den (.star a) pre s post
  | starS {a pre s post} (s1 s2 : Str) : s = s1 ++ s2 → s1 ≠ [] →
      Den a pre s1 (s2 ++ post) → Den (.star a) (pre ++ s1) s2 post → Den (.star a) pre s post

/-- `re` matches the whole text. -/
def FullMatch (re : Re) (t : Str) : Prop := Den re [] t []

/-- `regexp.MatchString`: `re` matches some piece of the text. -/
def Search (re : Re) (t : Str) : Prop := ∃ pre s post, t = pre ++ s ++ post ∧ Den re pre s post

/-! ### executable: derivatives -/

def mkSeq : Re → Re → Re
  | .none, _ => .none
  | _, .none => .none
  | .eps, b => b
  | a, .eps => a
  | a, b => .seq a b

def mkAlt : Re → Re → Re
  | .none, b => b
  | a, .none => a
  | a, b => .alt a b

/-- matches the empty piece at a position that is (`st`) the start / (`en`) the end of the text -/
def nullable (st en : Bool) : Re → Bool
  | .none => false | .eps => true | .chr _ => false | .any => false
  | .bol => st | .eol => en
  | .seq a b => nullable st en a && nullable st en b
  | .alt a b => nullable st en a || nullable st en b
  | .star _ => true

/-- derivative by one rune read at a position that is (`st`) the start of the text
    (it is not the end: a rune follows) -/
def deriv (st : Bool) (n : Nat) : Re → Re
  | .none => .none | .eps => .none | .bol => .none | .eol => .none
  | .chr m => if m = n then .eps else .none
  | .any => if n = 10 then .none else .eps
  | .seq a b =>
    if nullable st false a then mkAlt (mkSeq (deriv st n a) b) (deriv st n b) else mkSeq (deriv st n a) b
  | .alt a b => mkAlt (deriv st n a) (deriv st n b)
  | .star a => mkSeq (deriv st n a) (.star a)

def matchFrom (st : Bool) (re : Re) : Str → Bool
  | [] => nullable st true re
  | r :: rest => matchFrom false (deriv st r.cp re) rest

/-- the expression matches the whole text (`^` = start of text, `$` = end of text, `.` ≠ LF) -/
def matchRe (re : Re) (s : Str) : Bool := matchFrom true re s

end AM.Mt
