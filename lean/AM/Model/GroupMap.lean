/-
  Micro-step model of the dispatcher's per-route group map
  (/repo/dispatch/dispatch.go: `groupAlert`, `doMaintenance`, flush-destroy;
  /repo/store/store.go: `Alerts.Set`, `DeleteIfNotModified(…, destroyIfEmpty)`).
  Core Lean only.

  Granularity: one step = one `sync.Map` operation (`Load`, `CompareAndSwap`,
  `LoadOrStore`, `CompareAndDelete`) or one critical section of a group's store
  lock (`insert` = `Alerts.Set`, `destroyed()`, `DeleteIfNotModified`).  Any
  number of ingestion threads (ids are arbitrary `Nat`s), one maintenance sweep,
  flushes of any published group at any time.  A schedule is a list of `Act`s.

  Groups are heap objects: `grps` maps an object id to its record; `map` is the
  route's `sync.Map` from group-label fingerprint to object id.  Pointer
  comparison in `CompareAndSwap`/`CompareAndDelete` is comparison of ids.
-/
import AM.Base.Map

namespace AM.GroupMap
open AM AM.AList

/-- program counter of one `groupAlert` call -/
inductive PC where
  | load          -- `el, loaded := groups.Load(fp)`
  | insLoaded     -- `ag.insert(alert)` on the loaded group
  | create        -- limit check, `newAggrGroup`, first `insert` into the private group
  | loop          -- top of the `for`
  | cas           -- `groups.CompareAndSwap(fp, el, ag)`
  | los           -- `groups.LoadOrStore(fp, ag)`
  | insExisting   -- `agExisting.insert(alert)`
  | retry         -- `retries++; if retries > 100 { give up }`
  | done
  deriving DecidableEq, Repr, Inhabited

inductive Outcome where
  | running | inserted | created | limited | gaveUp
  deriving DecidableEq, Repr, Inhabited

structure Grp where
  fp : Nat                    -- fingerprint of the group labels
  alerts : List Nat
  destroyed : Bool            -- `store.Alerts.destroyed`
  published : Bool            -- has been stored in the map (ghost)
  cancelled : Bool            -- `ag.cancel()` was called
  owner : Nat                 -- creating thread (ghost)
  deriving DecidableEq, Repr, Inhabited

structure Thr where
  pc : PC
  a : Nat                     -- the alert
  fp : Nat                    -- `getGroupLabels(alert, route).Fingerprint()`
  el : Option Nat
  loaded : Bool
  ag : Option Nat
  retries : Nat
  out : Outcome
  deriving DecidableEq, Repr, Inhabited

/-- program counter of `doMaintenance` for the entry `Range` handed it -/
inductive MPC where
  | idle | check | stop | cad
  deriving DecidableEq, Repr, Inhabited

structure State where
  map : AList Nat Nat := []
  grps : AList Nat Grp := []
  next : Nat := 0
  thrs : AList Nat Thr := []
  mpc : MPC := .idle
  mg : Nat := 0
  num : Int := 0              -- `aggrGroupsNum`
  limit : Nat := 0            -- `MaxNumberOfAggregationGroups` (0 = unlimited)
  maxRetries : Nat := 100
  deriving Repr, Inhabited

inductive Act where
  | begin (t a fp : Nat)      -- thread `t` (idle) enters `groupAlert(a)` whose group labels hash to `fp`
  | step (t : Nat)            -- thread `t` performs its next micro-step
  | flush (g : Nat) (del : List Nat)  -- group `g`'s flush: `DeleteIfNotModified(del, destroyIfEmpty = true)`
  | mPick (g : Nat)           -- the maintenance `Range` yields (a possibly stale) entry `g`
  | mStep                     -- maintenance performs its next micro-step
  deriving DecidableEq, Repr, Inhabited

def setThr (s : State) (t : Nat) (T : Thr) : State := { s with thrs := put s.thrs t T }
def setGrp (s : State) (g : Nat) (G : Grp) : State := { s with grps := put s.grps g G }

/-- `Alerts.Set` under the store lock: refused iff destroyed. -/
def insertInto (G : Grp) (a : Nat) : Option Grp :=
  if G.destroyed then none else some { G with alerts := if G.alerts.contains a then G.alerts else a :: G.alerts }

def stepThr (s : State) (t : Nat) (T : Thr) : Option State :=
  match T.pc with
  | .load =>
    match lookup s.map T.fp with
    | some g => some (setThr s t { T with pc := .insLoaded, el := some g, loaded := true })
    | none => some (setThr s t { T with pc := .create, el := none, loaded := false })
  | .insLoaded =>
    match T.el with
    | none => none
    | some g =>
      match lookup s.grps g with
      | none => none
      | some G =>
        match insertInto G T.a with
        | some G' => some (setThr (setGrp s g G') t { T with pc := .done, out := .inserted })
        | none => some (setThr s t { T with pc := .create })
  | .create =>
    if s.limit > 0 ∧ s.num ≥ s.limit then some (setThr s t { T with pc := .done, out := .limited })
    else
      let G : Grp := { fp := T.fp, alerts := [T.a], destroyed := false, published := false, cancelled := false, owner := t }
      some (setThr { setGrp s s.next G with next := s.next + 1 } t { T with pc := .loop, ag := some s.next })
  | .loop => some (setThr s t { T with pc := if T.loaded then .cas else .los })
  | .cas =>
    match T.el, T.ag with
    | some g, some n =>
      match lookup s.grps g, lookup s.grps n with
      | some G, some N =>
        if lookup s.map T.fp = some g then
          -- swapped: publish the new group, cancel the old one
          let s1 := { s with map := put s.map T.fp n }
          let s2 := setGrp (setGrp s1 g { G with cancelled := true }) n { N with published := true }
          some (setThr s2 t { T with pc := .done, out := .created })
        else some (setThr s t { T with pc := .retry, loaded := false })
      | _, _ => none
    | _, _ => none
  | .los =>
    match T.ag with
    | none => none
    | some n =>
      match lookup s.grps n with
      | none => none
      | some N =>
        match lookup s.map T.fp with
        | none =>
          let s1 := { s with map := put s.map T.fp n, num := s.num + 1 }
          some (setThr (setGrp s1 n { N with published := true }) t { T with pc := .done, out := .created })
        | some g => some (setThr s t { T with pc := .insExisting, el := some g, loaded := true })
  | .insExisting =>
    match T.el with
    | none => none
    | some g =>
      match lookup s.grps g with
      | none => none
      | some G =>
        match insertInto G T.a with
        | some G' => some (setThr (setGrp s g G') t { T with pc := .done, out := .inserted })
        | none => some (setThr s t { T with pc := .retry })
  | .retry =>
    if T.retries + 1 > s.maxRetries then some (setThr s t { T with pc := .done, retries := T.retries + 1, out := .gaveUp })
    else some (setThr s t { T with pc := .loop, retries := T.retries + 1 })
  | .done => none

/-- `DeleteIfNotModified(del, true)` under the store lock. -/
def flushGrp (G : Grp) (del : List Nat) : Grp :=
  let rest := G.alerts.filter (fun a => !del.contains a)
  { G with alerts := rest, destroyed := G.destroyed || rest.isEmpty }

def step (s : State) : Act → Option State
  | .begin t a fp =>
    let fresh : Thr := { pc := .load, a, fp, el := none, loaded := false, ag := none, retries := 0, out := .running }
    match lookup s.thrs t with
    | none => some (setThr s t fresh)
    | some T => if T.pc = .done then some (setThr s t fresh) else none
  | .step t =>
    match lookup s.thrs t with
    | none => none
    | some T => stepThr s t T
  | .flush g del =>
    match lookup s.grps g with
    | none => none
    | some G => if G.published then some (setGrp s g (flushGrp G del)) else none
  | .mPick g =>
    match s.mpc, lookup s.grps g with
    | .idle, some G => if G.published then some { s with mpc := .check, mg := g } else none
    | _, _ => none
  | .mStep =>
    match s.mpc, lookup s.grps s.mg with
    | .check, some G => some { s with mpc := if G.destroyed then .stop else .idle }
    | .stop, some G => some { setGrp s s.mg { G with cancelled := true } with mpc := .cad }
    | .cad, some G =>
      if lookup s.map G.fp = some s.mg then some { s with map := erase s.map G.fp, num := s.num - 1, mpc := .idle }
      else some { s with mpc := .idle }
    | _, _ => none

/-- run a schedule; `none` if some action was not enabled -/
def run (s : State) : List Act → Option State
  | [] => some s
  | a :: rest => match step s a with | some s' => run s' rest | none => none

/-- what `Dispatcher.Groups()` shows for this route: the mapped groups with their alerts -/
def view (s : State) : List (Nat × List Nat) :=
  s.map.filterMap fun p => match lookup s.grps p.2 with | some G => some (p.1, G.alerts) | none => none

/-! ### yield-point granularity

  In builds with the tag `verif` the dispatcher calls `VerifYield` at five points
  (/repo/dispatch/verif_yield_on.go): in the ingestion worker before `routeAlert`
  (`pc = load` not yet executed), after `groups.Load` (`pc = insLoaded` or `create`),
  before `CompareAndSwap` (`pc = cas`), before `LoadOrStore` (`pc = los`), and in
  `doMaintenance` before `CompareAndDelete` (`mpc = cad`).  A harness that parks the
  goroutines there can realise exactly the schedules in which a thread's micro-steps
  between two yield points are adjacent; `macroStep` is such a block.  The steps that
  are merged (`create`, `loop`, `retry`: thread-local when no group limit is set;
  `insLoaded`/`insExisting` directly after the preceding map operation) are listed in
  lib/props/C06.py as the part of the interleaving space the replay cannot reach. -/

/-- the thread is parked before the operation of this pc, or has returned -/
def parksAt : PC → Bool
  | .cas | .los | .done => true
  | _ => false

/-- run thread `t` until it is parked again; the micro-steps taken are returned -/
def macroGo (s : State) (t : Nat) : Nat → Option (State × List Act)
  | 0 => some (s, [])
  | fuel + 1 =>
    match lookup s.thrs t with
    | none => none
    | some T =>
      if parksAt T.pc then some (s, []) else
      match stepThr s t T with
      | none => none
      | some s' =>
        match macroGo s' t fuel with
        | none => none
        | some (s'', acts) => some (s'', Act.step t :: acts)

/-- release thread `t` from the yield point it is parked at: `worker:received` → `Load` only;
    otherwise up to the next `cas`/`los`/return -/
def macroStep (s : State) (t : Nat) : Option (State × List Act) :=
  match lookup s.thrs t with
  | none => none
  | some T =>
    match stepThr s t T with
    | none => none
    | some s' =>
      if T.pc = .load then some (s', [Act.step t]) else
      match macroGo s' t 8 with
      | none => none
      | some (s'', acts) => some (s'', Act.step t :: acts)

/-- the maintenance sweep from the `Range` callback for entry `g` up to its yield point -/
def maintToYield (g : Nat) : List Act := [.mPick g, .mStep, .mStep]

end AM.GroupMap
