/-
  The pooled connection of the TLS gossip transport (/repo/cluster/connection_pool.go,
  `borrowConnection`, one cache slot per peer address and timeout; /repo/cluster/tls_connection.go:
  a failed write marks the connection dead) — C19.  Core Lean only.

  A connection is a generation number; the peer accepts writes on generation `g` iff `g` is the
  generation it currently has open (`peerGen`): a peer that restarted has none of the old ones.
-/
namespace AM.ConnPool

structure Conn where
  gen   : Nat
  alive : Bool
  deriving DecidableEq, Repr

structure Pool where
  cache : Option Conn := none
  next  : Nat := 0            -- generation the next dial creates
  deriving Repr

/-- `borrowConnection`: the cached connection if it is alive, otherwise dial and REPLACE the cache entry. -/
def borrow (p : Pool) : Pool × Conn :=
  match p.cache with
  | some c => if c.alive then (p, c) else
      let c' : Conn := ⟨p.next, true⟩
      ({ cache := some c', next := p.next + 1 }, c')
  | none =>
      let c' : Conn := ⟨p.next, true⟩
      ({ cache := some c', next := p.next + 1 }, c')

/-- a write on connection `c` when the peer's live generations are those ≥ `peerFrom`:
    it is delivered iff `c` is one of them; otherwise the write fails and the connection is marked dead. -/
def write (p : Pool) (c : Conn) (peerFrom : Nat) : Pool × Bool :=
  if peerFrom ≤ c.gen then (p, true)
  else
    ({ p with cache := match p.cache with
                        | some d => if d.gen = c.gen then some { d with alive := false } else some d
                        | none => none }, false)

/-- one `WriteTo`: borrow, then write -/
def send (p : Pool) (peerFrom : Nat) : Pool × Bool :=
  let (p1, c) := borrow p
  write p1 c peerFrom

/-- the cached connection was dialled by this pool -/
def Inv (p : Pool) : Prop := ∀ c, p.cache = some c → c.gen < p.next

/-- the change "keep whatever the cache holds" (a dead entry is never replaced): the dead connection is handed out
    again and again -/
def borrowStale (p : Pool) : Pool × Conn :=
  match p.cache with
  | some c => (p, c)
  | none =>
      let c' : Conn := ⟨p.next, true⟩
      ({ cache := some c', next := p.next + 1 }, c')

def sendStale (p : Pool) (peerFrom : Nat) : Pool × Bool :=
  let (p1, c) := borrowStale p
  write p1 c peerFrom

def iter (f : Pool → Pool) : Nat → Pool → Pool
  | 0, p => p
  | n + 1, p => iter f n (f p)

end AM.ConnPool
