/-
  Model of /repo/template/template.go `Template.Data` (receiver, status, alert
  list, common labels / annotations) and `Alerts.Firing/Resolved`.  Core Lean only.
  Label sets are association lists; a missing label reads as "" (Go map lookup),
  which is exactly what the common-label loop compares.
-/
import AM.Base.Map

namespace AM.TemplateData
open AM AM.AList

abbrev KV := AList String String

structure Alert where
  labels : KV
  annotations : KV
  ends : Int            -- EndsAt; 0 = not set (never resolved)
  deriving DecidableEq, Repr

def get (m : KV) (k : String) : String := (lookup m k).getD ""

/-- `Alert.ResolvedAt(now)` -/
def resolved (now : Int) (a : Alert) : Bool := a.ends ≠ 0 ∧ a.ends ≤ now

structure Item where
  status : String
  labels : KV
  annotations : KV
  deriving DecidableEq, Repr

structure Data where
  receiver : String
  status : String
  alerts : List Item
  commonLabels : KV
  commonAnnotations : KV
  deriving Repr

def statusOf (now : Int) (a : Alert) : String := if resolved now a then "resolved" else "firing"

/-- keep the pairs of `first` that every alert agrees on (missing reads as "") -/
def common (first : KV) (others : List KV) : KV :=
  first.filter fun kv => others.all fun o => get o kv.1 = kv.2

/-- `Template.Data` (the receiver name is passed through `regexp.QuoteMeta` by the caller-facing
    code; the driver applies the same oracle to both sides). -/
def data (now : Int) (recv : String) (alerts : List Alert) : Data :=
  { receiver := recv,
    status := if alerts.any (fun a => !resolved now a) then "firing" else "resolved",
    alerts := alerts.map fun a => ⟨statusOf now a, a.labels, a.annotations⟩,
    commonLabels := match alerts with
      | [] => []
      | a :: rest => common a.labels (rest.map (·.labels)),
    commonAnnotations := match alerts with
      | [] => []
      | a :: rest => common a.annotations (rest.map (·.annotations)) }

def firing (d : Data) : List Item := d.alerts.filter (·.status = "firing")
def resolvedItems (d : Data) : List Item := d.alerts.filter (·.status = "resolved")

/-- what `RetryStage` hands to the integration: everything, or only the unresolved alerts
    when `send_resolved` is off -/
def sent (sendResolved : Bool) (now : Int) (alerts : List Alert) : List Alert :=
  if sendResolved then alerts else alerts.filter fun a => !resolved now a

end AM.TemplateData
