/-
  Two small registries whose keys decide who receives what.

  1. The provider's subscriber registry (/repo/provider/mem/mem.go: `listeners map[int]listeningAlerts`,
     `next int`; `Subscribe` / `SlurpAndSubscribe` store under `next` and increment it; `gcListeners`
     deletes the entries whose subscriber is done).  Every stored alert is sent to every registered
     listener: a subscriber that loses its entry is starved (C03: the inhibitor; C01: the dispatcher).

  2. The cluster peer table (/repo/cluster/cluster.go: `peers map[string]peer` keyed by ADDRESS,
     maintained by memberlist's join / leave notifications, which identify a node by NAME).  It feeds
     the reconnect logic only; the targets of an oversized update are `mlist.Members()` minus self (C19).

  Core Lean only.
-/
namespace AM.Registry

/-! ### subscriber registry -/

structure Sub where
  id   : Nat           -- who subscribed (harness-side identity)
  done : Bool
  deriving DecidableEq, Repr

structure Subs where
  entries : List (Nat × Sub) := []     -- key ↦ subscriber
  next    : Nat := 0
  deriving Repr

def Subs.keys (s : Subs) : List Nat := s.entries.map (·.1)

def Subs.lookup (s : Subs) (k : Nat) : Option Sub := (s.entries.find? (·.1 = k)).map (·.2)

/-- `a.listeners[a.next] = …; a.next++` (a map assignment: an existing entry under that key is replaced) -/
def subscribe (s : Subs) (id : Nat) : Subs :=
  { entries := (s.next, ⟨id, false⟩) :: s.entries.filter (·.1 ≠ s.next), next := s.next + 1 }

/-- the subscriber closes its iterator -/
def finish (s : Subs) (id : Nat) : Subs :=
  { s with entries := s.entries.map fun e => if e.2.id = id then (e.1, { e.2 with done := true }) else e }

/-- `gcListeners`: entries whose subscriber is done are deleted -/
def gc (s : Subs) : Subs := { s with entries := s.entries.filter (!·.2.done) }

inductive Op where
  | subscribe (id : Nat)
  | finish (id : Nat)
  | gc
  deriving Repr

def step (s : Subs) : Op → Subs
  | .subscribe id => subscribe s id
  | .finish id => finish s id
  | .gc => gc s

def run (s : Subs) (ops : List Op) : Subs := ops.foldl step s

/-- a subscriber is served iff some entry holds it -/
def served (s : Subs) (id : Nat) : Bool := s.entries.any (·.2.id = id)

/-- the changed registration "key = number of entries" -/
def subscribeByLen (s : Subs) (id : Nat) : Subs :=
  { s with entries := (s.entries.length, ⟨id, false⟩) :: s.entries.filter (·.1 ≠ s.entries.length) }

/-! ### peer table keyed by address -/

inductive Status where
  | alive | failed
  deriving DecidableEq, Repr

structure PeerEntry where
  name   : String
  status : Status
  deriving DecidableEq, Repr

abbrev Peers := List (String × PeerEntry)     -- address ↦ entry

def Peers.get (p : Peers) (addr : String) : Option PeerEntry := (p.find? (·.1 = addr)).map (·.2)
def Peers.put (p : Peers) (addr : String) (e : PeerEntry) : Peers := (addr, e) :: p.filter (·.1 ≠ addr)

/-- `peerJoin(n)`: the entry of n's ADDRESS now names n and is alive -/
def peerJoin (p : Peers) (name addr : String) : Peers := p.put addr ⟨name, .alive⟩

/-- `peerLeave(n)`: the entry of n's ADDRESS — whoever it names — is marked failed -/
def peerLeave (p : Peers) (_name addr : String) : Peers :=
  match p.get addr with
  | some e => p.put addr { e with status := .failed }
  | none => p

/-- memberlist's own view: the alive node names -/
abbrev Members := List (String × String)      -- name ↦ address

inductive Ev where
  | join (name addr : String)
  | leave (name addr : String)
  deriving Repr

def mstep (m : Members) : Ev → Members
  | .join n a => (n, a) :: m.filter (·.1 ≠ n)
  | .leave n _ => m.filter (·.1 ≠ n)

def pstep (p : Peers) : Ev → Peers
  | .join n a => peerJoin p n a
  | .leave n a => peerLeave p n a

/-- the targets of an oversized update: the members other than oneself (`mlist.Members()` minus self) -/
def targets (m : Members) (self : String) : List String := (m.filter (·.1 ≠ self)).map (·.1)

/-- the changed target selection: the alive entries of the address-keyed table -/
def targetsByTable (p : Peers) : List String := (p.filter (·.2.status = .alive)).map (·.2.name)

/-- `Peer.Position`: the number of members — as memberlist lists them — whose name sorts before one's own. -/
def position (m : Members) (self : String) : Nat := (m.filter (fun e => decide (e.1 < self))).length

/-- the changed position: the alive entries of the address-keyed table with a smaller name -/
def positionByTable (p : Peers) (self : String) : Nat :=
  (p.filter (fun e => decide (e.2.status = .alive) && decide (e.2.name < self))).length

end AM.Registry
