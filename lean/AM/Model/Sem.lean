/-
  Model of the GET concurrency limiter `limitHandler` in /repo/api/api.go: a
  buffered channel of capacity `cap` used as a semaphore (`select` with
  `default`), the in-flight gauge and the limit-exceeded counter.  Core Lean only.
-/
namespace AM.Sem

structure St where
  cap      : Nat
  inflight : Nat := 0      -- len(api.inFlightSem) = requestsInFlight gauge
  refused  : Nat := 0      -- concurrencyLimitExceeded counter
  posts    : Nat := 0      -- non-GET requests inside the handler (not limited)
  deriving Repr, DecidableEq

inductive Ev where
  | getArrive            -- a GET reaches limitHandler
  | getDone              -- an admitted GET's handler returns (deferred release)
  | postArrive
  | postDone
  deriving Repr, DecidableEq

/-- HTTP outcome at arrival: `some 503` is refusal; `none` = handed to the inner handler -/
def arrive (s : St) : St × Option Nat :=
  if s.inflight < s.cap then ({ s with inflight := s.inflight + 1 }, none)
  else ({ s with refused := s.refused + 1 }, some 503)

def step (s : St) : Ev → St
  | .getArrive => (arrive s).1
  | .getDone => { s with inflight := s.inflight - 1 }
  | .postArrive => { s with posts := s.posts + 1 }
  | .postDone => { s with posts := s.posts - 1 }

def run (s : St) : List Ev → St
  | [] => s
  | e :: es => run (step s e) es

end AM.Sem
