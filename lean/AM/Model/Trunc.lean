/-
  Model of /repo/notify/util.go `TruncateInRunes` / `TruncateInBytes` on lists of
  runes with UTF-8 lengths, and of the webhook's `truncateAlerts` (max_alerts).
  Core Lean only.  Limits are `Nat` (callers pass non-negative constants; a
  negative limit panics in Go and is outside the domain).
-/
namespace AM.Trunc

/-- a rune = its code point; UTF-8 length as Go encodes it -/
def ulen (c : Nat) : Nat := if c < 0x80 then 1 else if c < 0x800 then 2 else if c < 0x10000 then 3 else 4

def bytes : List Nat → Nat
  | [] => 0
  | c :: cs => ulen c + bytes cs

/-- `truncationMarker` "…" (U+2026: one rune, three bytes) -/
def marker : Nat := 0x2026
def dot : Nat := 0x2E

/-- `TruncateInRunes` -/
def truncRunes (r : List Nat) (n : Nat) : List Nat × Bool :=
  if r.length ≤ n then (r, false)
  else if n ≤ 3 then (r.take n, true)
  else (r.take (n - 1) ++ [marker], true)

/-- the shrinking loop: drop runes from the end until the byte length fits -/
def fit (target : Nat) : List Nat → List Nat
  | [] => []
  | c :: cs => if ulen c ≤ target then c :: fit (target - ulen c) cs else []

/-- `TruncateInBytes` with fixes/F6.diff (the rune slice is cut at `min (n-3) (len r)`). -/
def truncBytes (r : List Nat) (n : Nat) : List Nat × Bool :=
  if bytes r ≤ n then (r, false)
  else if n ≤ 3 then (if n = 3 then [marker] else List.replicate n dot, true)
  else (fit (n - 3) (r.take (min (n - 3) r.length)) ++ [marker], true)

/-- pinned `TruncateInBytes`: `r[:n-3]` panics when `n-3` exceeds the capacity of the rune
    slice (`cap ≥ len`, chosen by the runtime: 32 for short non-escaping conversions). -/
def truncBytesOld (cap : Nat) (r : List Nat) (n : Nat) : Option (List Nat × Bool) :=
  if bytes r ≤ n then some (r, false)
  else if n ≤ 3 then some (if n = 3 then [marker] else List.replicate n dot, true)
  else if n - 3 > max cap r.length then none            -- slice bounds out of range
  else some (fit (n - 3) (r.take (min (n - 3) r.length)) ++ [marker], true)

/-- webhook `truncateAlerts` -/
def truncAlerts {α : Type} (maxAlerts : Nat) (alerts : List α) : List α × Nat :=
  if maxAlerts ≠ 0 ∧ alerts.length > maxAlerts then (alerts.take maxAlerts, alerts.length - maxAlerts)
  else (alerts, 0)

end AM.Trunc
