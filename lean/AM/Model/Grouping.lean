/-
  The dispatcher at rest (ingestion serialised): the aggregation groups as a
  list of records, `routeAlert`/`groupAlert` as insert-or-create, the flush list
  and `Dispatcher.Groups()`.  The interleaved version is AM.Model.GroupMap; here
  group identity is (route index, group labels) — the `sync.Map` key of
  `routeGroupsSlice[route.Idx]` with the fingerprint modelled as the canonical
  label list.  Alerts are identified by their label set (their fingerprint).
-/
import AM.Model.Route

namespace AM.Route
open AM AM.AList AM.Lbl

structure AG where
  route : Route
  labels : LabelSet
  alerts : List LabelSet
  deriving Repr, Inhabited

def AG.is (g : AG) (idx : Nat) (gl : LabelSet) : Bool := g.route.idx = idx && g.labels = gl

/-- `groupAlert` without interleaving: insert into the group of (route, group labels) or create it. -/
def ingestRoute (gs : List AG) (r : Route) (a : LabelSet) : List AG :=
  let gl := getGroupLabels a r.opts
  if gs.any (·.is r.idx gl) then
    gs.map fun g => if g.is r.idx gl then { g with alerts := if g.alerts.contains a then g.alerts else a :: g.alerts } else g
  else gs ++ [{ route := r, labels := gl, alerts := [a] }]

/-- `routeAlert`. -/
def ingest (re : String → String → Bool) (tree : Route) (gs : List AG) (a : LabelSet) : List AG :=
  («match» re tree a).foldl (fun gs r => ingestRoute gs r a) gs

/-- what a flush hands to the pipeline: the whole current content of the group. -/
def flushList (g : AG) : List LabelSet := g.alerts

/-- `Dispatcher.Groups()` with accept-all filters: the non-empty groups. -/
def groupsView (gs : List AG) : List AG := gs.filter fun g => !g.alerts.isEmpty

/-! ### with time: group_wait, group_interval, flush-delete-destroy (`aggrGroup.run`/`flush`)

  Time is `Int` ns.  A destroyed group is dropped from the list at once: between
  its destruction and the maintenance sweep it is still in the `sync.Map`, but
  `insert` refuses it and `Groups()` skips it (no alerts), so it is unobservable
  (AM.Model.GroupMap covers that window). -/

structure TAlert where
  ls : LabelSet
  starts : Int
  ends : Int
  deriving Repr, Inhabited, DecidableEq

structure TG where
  node : String            -- the harness' name of the route node
  route : Route
  labels : LabelSet
  alerts : List TAlert
  next : Int               -- when `ag.next` fires
  deriving Repr, Inhabited

def upsert (l : List TAlert) (a : TAlert) : List TAlert :=
  if l.any (·.ls = a.ls) then l.map (fun x => if x.ls = a.ls then a else x) else l ++ [a]

/-- `groupAlert` at instant `now`: a new group waits `group_wait`, or flushes at once when the alert
    is already older than that (`alert.StartsAt.Add(GroupWait).Before(now)`). -/
def tIngestRoute (now : Int) (gs : List TG) (node : String) (r : Route) (a : TAlert) : List TG :=
  let gl := getGroupLabels a.ls r.opts
  if gs.any (fun g => g.node = node ∧ g.labels = gl) then
    gs.map fun g => if g.node = node ∧ g.labels = gl then { g with alerts := upsert g.alerts a } else g
  else gs ++ [{ node, route := r, labels := gl, alerts := [a],
                next := if a.starts + r.opts.groupWait < now then now else now + r.opts.groupWait }]

/-- one flush of group `g` at its tick `τ`: everything is notified (resolved = `EndsAt ≤ τ`), the
    resolved ones are deleted, an empty group is destroyed; the timer was re-armed to `τ + group_interval`. -/
def tFlush (g : TG) : List (TAlert × Bool) × Option TG :=
  let τ := g.next
  let sent := g.alerts.map fun a => (a, decide (a.ends ≤ τ))
  let rest := g.alerts.filter fun a => a.ends > τ
  (sent, if rest.isEmpty then none else some { g with alerts := rest, next := τ + g.route.opts.groupInterval })

end AM.Route
