/-
  The dispatcher at rest (ingestion serialised): the aggregation groups as a
  list of records, `routeAlert`/`groupAlert` as insert-or-create, the flush list
  and `Dispatcher.Groups()`.  The interleaved version is AM.Model.GroupMap; here
  group identity is (route index, group labels) — the `sync.Map` key of
  `routeGroupsSlice[route.Idx]` with the fingerprint modelled as the canonical
  label list.  Alerts are identified by their label set (their fingerprint).
-/
import AM.Model.Route

namespace AM.Route
open AM AM.AList AM.Lbl

structure AG where
  route : Route
  labels : LabelSet
  alerts : List LabelSet
  deriving Repr, Inhabited

def AG.is (g : AG) (idx : Nat) (gl : LabelSet) : Bool := g.route.idx = idx && g.labels = gl

/-- `groupAlert` without interleaving: insert into the group of (route, group labels) or create it. -/
def ingestRoute (gs : List AG) (r : Route) (a : LabelSet) : List AG :=
  let gl := getGroupLabels a r.opts
  if gs.any (·.is r.idx gl) then
    gs.map fun g => if g.is r.idx gl then { g with alerts := if g.alerts.contains a then g.alerts else a :: g.alerts } else g
  else gs ++ [{ route := r, labels := gl, alerts := [a] }]

/-- `routeAlert`. -/
def ingest (re : String → String → Bool) (tree : Route) (gs : List AG) (a : LabelSet) : List AG :=
  («match» re tree a).foldl (fun gs r => ingestRoute gs r a) gs

/-- what a flush hands to the pipeline: the whole current content of the group. -/
def flushList (g : AG) : List LabelSet := g.alerts

/-- `Dispatcher.Groups()` with accept-all filters: the non-empty groups. -/
def groupsView (gs : List AG) : List AG := gs.filter fun g => !g.alerts.isEmpty

end AM.Route
