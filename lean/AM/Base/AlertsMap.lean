/-
  Extra association-list lemmas used by work area Alerts (membership ↔ lookup).
-/
import AM.Base.Map

namespace AM.AList
variable {κ α : Type} [DecidableEq κ]

theorem mem_of_lookup {m : AList κ α} {k : κ} {v : α} (h : lookup m k = some v) : (k, v) ∈ m := by
  induction m with
  | nil => simp at h
  | cons hd tl ih =>
    obtain ⟨k', v'⟩ := hd
    by_cases hk : k' = k
    · subst hk; simp at h; subst h; simp
    · simp [hk] at h; exact List.mem_cons_of_mem _ (ih h)

theorem lookup_of_mem {m : AList κ α} {k : κ} {v : α} (hnd : NoDupKeys m) (h : (k, v) ∈ m) :
    lookup m k = some v := by
  induction m with
  | nil => simp at h
  | cons hd tl ih =>
    obtain ⟨k', v'⟩ := hd
    obtain ⟨hk, hnd'⟩ := hnd
    rcases List.mem_cons.mp h with heq | hin
    · cases heq; simp
    · by_cases hkk : k' = k
      · subst hkk
        have := ih hnd' hin
        rw [hk] at this; cases this
      · simp [hkk]; exact ih hnd' hin

theorem lookup_isSome_of_mem {m : AList κ α} {k : κ} {v : α} (h : (k, v) ∈ m) :
    (lookup m k).isSome = true := by
  induction m with
  | nil => simp at h
  | cons hd tl ih =>
    obtain ⟨k', v'⟩ := hd
    rcases List.mem_cons.mp h with heq | hin
    · cases heq; simp
    · by_cases hkk : k' = k
      · simp [hkk]
      · simp [hkk]; exact ih hin

/-- values of a map, as a list: membership is lookup. -/
theorem mem_vals_iff {m : AList κ α} (hnd : NoDupKeys m) (v : α) :
    v ∈ m.map Prod.snd ↔ ∃ k, lookup m k = some v := by
  constructor
  · intro h
    obtain ⟨⟨k, v'⟩, hin, rfl⟩ := List.mem_map.mp h
    exact ⟨k, lookup_of_mem hnd hin⟩
  · rintro ⟨k, hk⟩
    exact List.mem_map.mpr ⟨(k, v), mem_of_lookup hk, rfl⟩

theorem noDupKeys_nil : NoDupKeys ([] : AList κ α) := by simp [NoDupKeys]

end AM.AList
