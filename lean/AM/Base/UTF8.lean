/-
  Byte-level strings as Go sees them.  Core Lean only.

  Go iterates a string rune by rune (`for _, r := range s`,
  `utf8.DecodeRuneInString`): a well-formed UTF-8 sequence yields its code
  point, any other byte yields U+FFFD *of width one*.  A `Rune` is therefore a
  `Char` or a bad byte; a Go string is a `Str = List Rune` (the decoding of its
  bytes, `decodeRunes`, is injective, `encodeRunes` is its inverse).

  All character tests of the modelled Go code look at the code point only
  (`Rune.cp`, a `Nat`; U+FFFD for a bad byte, exactly what Go's `r` holds), all
  emissions copy the rune itself (the bytes `input[start:pos]`) or go through
  `Rune.norm` where the Go code re-encodes the code point (`WriteRune`).
-/
namespace AM

inductive Rune where
  | ch (c : Char)
  | bad (b : UInt8)
  deriving DecidableEq, Repr, Inhabited

abbrev Str := List Rune

namespace Rune

/-- code point reported by Go's decoder -/
def cp : Rune → Nat
  | .ch c => c.toNat
  | .bad _ => 0xFFFD

def isValid : Rune → Bool
  | .ch _ => true
  | .bad _ => false

/-- the decoded rune as a character (U+FFFD for a bad byte) -/
def code : Rune → Char
  | .ch c => c
  | .bad _ => Char.ofNat 0xFFFD

/-- what `WriteRune(r)` / `utf8.AppendRune` writes for the decoded rune -/
def norm (r : Rune) : Rune := .ch r.code

@[simp] theorem code_ch (c : Char) : (Rune.ch c).code = c := rfl

@[simp] theorem cp_ch (c : Char) : (Rune.ch c).cp = c.toNat := rfl
@[simp] theorem norm_ch (c : Char) : (Rune.ch c).norm = .ch c := rfl
@[simp] theorem isValid_ch (c : Char) : (Rune.ch c).isValid = true := rfl
@[simp] theorem isValid_bad (b : UInt8) : (Rune.bad b).isValid = false := rfl

end Rune

/-- `utf8.ValidString` -/
def validB (s : Str) : Bool := s.all Rune.isValid

/-- valid UTF-8: no bad byte -/
def Valid (s : Str) : Prop := ∀ r ∈ s, r.isValid = true

theorem validB_iff (s : Str) : validB s = true ↔ Valid s := by
  simp [validB, Valid]

@[simp] theorem valid_nil : Valid ([] : Str) := by simp [Valid]

theorem valid_cons (r : Rune) (s : Str) : Valid (r :: s) ↔ r.isValid = true ∧ Valid s := by
  simp [Valid]

theorem valid_append (a b : Str) : Valid (a ++ b) ↔ Valid a ∧ Valid b := by
  simp only [Valid, List.mem_append]
  constructor
  · intro h; exact ⟨fun r hr => h r (Or.inl hr), fun r hr => h r (Or.inr hr)⟩
  · intro h r hr; cases hr with
    | inl h1 => exact h.1 r h1
    | inr h2 => exact h.2 r h2

def ofChars (cs : List Char) : Str := cs.map Rune.ch
def ofString (s : String) : Str := ofChars s.toList

/-- the characters of a valid string -/
def toChars (s : Str) : List Char := s.map Rune.code

/-! ### UTF-8 decoding with Go's error recovery (`utf8.DecodeRune`) -/

def isCont (b : UInt8) : Bool := 0x80 ≤ b.toNat && b.toNat ≤ 0xBF

/-- Decode the multi-byte sequence starting with lead byte `b0 ≥ 0x80` followed
    by `rest`: the character and the number of continuation bytes used, or
    `none` when Go would report `(RuneError, 1)`. -/
def decodeSeq (b0 : UInt8) (rest : List UInt8) : Option (Char × Nat) :=
  let n0 := b0.toNat
  if 0xC2 ≤ n0 ∧ n0 ≤ 0xDF then
    match rest with
    | b1 :: _ => if isCont b1 then some (Char.ofNat ((n0 % 32) * 64 + b1.toNat % 64), 1) else none
    | _ => none
  else if 0xE0 ≤ n0 ∧ n0 ≤ 0xEF then
    match rest with
    | b1 :: b2 :: _ =>
      let lo := if n0 = 0xE0 then 0xA0 else 0x80
      let hi := if n0 = 0xED then 0x9F else 0xBF
      if lo ≤ b1.toNat ∧ b1.toNat ≤ hi ∧ isCont b2 then
        some (Char.ofNat ((n0 % 16) * 4096 + (b1.toNat % 64) * 64 + b2.toNat % 64), 2)
      else none
    | _ => none
  else if 0xF0 ≤ n0 ∧ n0 ≤ 0xF4 then
    match rest with
    | b1 :: b2 :: b3 :: _ =>
      let lo := if n0 = 0xF0 then 0x90 else 0x80
      let hi := if n0 = 0xF4 then 0x8F else 0xBF
      if lo ≤ b1.toNat ∧ b1.toNat ≤ hi ∧ isCont b2 ∧ isCont b3 then
        some (Char.ofNat ((n0 % 8) * 262144 + (b1.toNat % 64) * 4096 + (b2.toNat % 64) * 64 + b3.toNat % 64), 3)
      else none
    | _ => none
  else none

/-- Go's view of a byte string, with fuel (`bytes.length` always suffices: every
    step consumes at least one byte). -/
def decodeFuel : Nat → List UInt8 → Str
  | 0, _ => []
  | _, [] => []
  | fuel + 1, b0 :: rest =>
    if b0.toNat < 0x80 then .ch (Char.ofNat b0.toNat) :: decodeFuel fuel rest
    else match decodeSeq b0 rest with
      | some (c, k) => .ch c :: decodeFuel fuel (rest.drop k)
      | none => .bad b0 :: decodeFuel fuel rest

def decodeRunes (bs : List UInt8) : Str := decodeFuel bs.length bs

def encodeRune : Rune → List UInt8
  | .ch c => String.utf8EncodeChar c
  | .bad b => [b]

def encodeRunes (s : Str) : List UInt8 := s.flatMap encodeRune

end AM
