/-
  Label sets (`model.LabelSet`) as association lists; a missing label reads as
  "" exactly like indexing a Go map of strings.  Core Lean only.

  Canonical form = strictly key-sorted (`Sorted`); `model.LabelSet.String()` and
  `Fingerprint()` both work on the key-sorted enumeration, so the canonical list
  *is* the fingerprint in this model (DESIGN §2.2: hashes are injective).
-/
import AM.Base.Map

namespace AM.Lbl
open AM AM.AList

abbrev LabelSet := List (String × String)

/-- `string(lset[name])`: missing = "". -/
def get (ls : LabelSet) (n : String) : String := (lookup ls n).getD ""

/-- strictly sorted by label name (hence no duplicate names). -/
def Sorted (ls : LabelSet) : Prop := ls.Pairwise (fun a b => a.1 < b.1)

/-- no label carries the empty value (the API strips them: `removeEmptyLabels`). -/
def NoEmpty (ls : LabelSet) : Prop := ∀ p ∈ ls, p.2 ≠ ""

/-- keep the labels whose name satisfies `keep`. -/
def restrict (keep : String → Bool) (ls : LabelSet) : LabelSet := ls.filter (fun p => keep p.1)

theorem lookup_restrict (keep : String → Bool) (ls : LabelSet) (k : String) :
    lookup (restrict keep ls) k = if keep k then lookup ls k else none := by
  induction ls with
  | nil => simp [restrict]
  | cons hd tl ih =>
    obtain ⟨k', v'⟩ := hd
    unfold restrict at ih ⊢
    by_cases hk : keep k'
    · simp only [List.filter_cons, hk, if_true, lookup_cons, ih]
      by_cases h2 : k' = k
      · subst h2; simp [hk]
      · simp [h2]
    · have hk' : keep k' = false := by simpa using hk
      simp only [List.filter_cons, hk', lookup_cons]
      by_cases h2 : k' = k
      · subst h2; simp [ih, hk']
      · simp [h2, ih]

theorem sorted_restrict (keep : String → Bool) (ls : LabelSet) (h : Sorted ls) :
    Sorted (restrict keep ls) := List.Pairwise.filter _ h

theorem mem_restrict {keep : String → Bool} {ls : LabelSet} {p : String × String} :
    p ∈ restrict keep ls ↔ p ∈ ls ∧ keep p.1 = true := by
  simp [restrict, List.mem_filter]

theorem noEmpty_restrict (keep : String → Bool) (ls : LabelSet) (h : NoEmpty ls) :
    NoEmpty (restrict keep ls) := fun p hp => h p (mem_restrict.mp hp).1

theorem lookup_none_of_lt (l : LabelSet) (k : String) (h : ∀ p ∈ l, k < p.1) :
    lookup l k = none := by
  induction l with
  | nil => rfl
  | cons hd tl ih =>
    obtain ⟨k', v'⟩ := hd
    have h1 : k < k' := h (k', v') (by simp)
    have hne : k' ≠ k := fun e => String.lt_irrefl k (e ▸ h1)
    simp only [lookup_cons, hne, if_false]
    exact ih (fun p hp => h p (by simp [hp]))

theorem lookup_mem {l : LabelSet} {k v : String} (h : lookup l k = some v) : (k, v) ∈ l := by
  induction l with
  | nil => simp at h
  | cons hd tl ih =>
    obtain ⟨k', v'⟩ := hd
    by_cases hk : k' = k
    · subst hk; simp at h; subst h; simp
    · simp [hk] at h; simp [ih h]

/-- Two canonical label sets with the same content are the same list. -/
theorem sorted_ext (a b : LabelSet) (ha : Sorted a) (hb : Sorted b)
    (h : ∀ k, lookup a k = lookup b k) : a = b := by
  induction a generalizing b with
  | nil =>
    cases b with
    | nil => rfl
    | cons hd tl => obtain ⟨k, v⟩ := hd; have := h k; simp at this
  | cons hd tl ih =>
    obtain ⟨k, v⟩ := hd
    cases b with
    | nil => have := h k; simp at this
    | cons hd' tl' =>
      obtain ⟨k', v'⟩ := hd'
      have ha' := List.pairwise_cons.mp ha
      have hb' := List.pairwise_cons.mp hb
      have hkk : k = k' := by
        by_cases h1 : k < k'
        · have hk := h k
          have : lookup ((k', v') :: tl') k = none :=
            lookup_none_of_lt _ k (by
              intro p hp
              rcases List.mem_cons.mp hp with rfl | hp
              · exact h1
              · exact String.lt_trans h1 (hb'.1 p hp))
          rw [this] at hk; simp at hk
        · by_cases h2 : k' < k
          · have hk := h k'
            have : lookup ((k, v) :: tl) k' = none :=
              lookup_none_of_lt _ k' (by
                intro p hp
                rcases List.mem_cons.mp hp with rfl | hp
                · exact h2
                · exact String.lt_trans h2 (ha'.1 p hp))
            rw [this] at hk; simp at hk
          · exact String.le_antisymm (String.not_lt.mp h2) (String.not_lt.mp h1)
      subst hkk
      have hv : v = v' := by have := h k; simpa using this
      subst hv
      have htl : tl = tl' := by
        apply ih tl' ha'.2 hb'.2
        intro q
        by_cases hq : k = q
        · subst hq
          rw [lookup_none_of_lt tl k (fun p hp => ha'.1 p hp),
              lookup_none_of_lt tl' k (fun p hp => hb'.1 p hp)]
        · have := h q; simpa [hq] using this
      rw [htl]

/-- With no empty values, reading through `get` loses nothing. -/
theorem get_eq_iff_lookup_eq (a b : LabelSet) (ha : NoEmpty a) (hb : NoEmpty b) (k : String) :
    get a k = get b k ↔ lookup a k = lookup b k := by
  unfold get
  constructor
  · intro h
    cases h1 : lookup a k with
    | none =>
      cases h2 : lookup b k with
      | none => rfl
      | some v =>
        rw [h1, h2] at h; simp at h
        exact absurd h (hb (k, v) (lookup_mem h2))
    | some v =>
      cases h2 : lookup b k with
      | none =>
        rw [h1, h2] at h; simp at h
        exact absurd h (ha (k, v) (lookup_mem h1))
      | some w => rw [h1, h2] at h; simpa using h
  · intro h; rw [h]

/-! ### printing: `model.LabelSet.String()` -/

def hexDigit (n : Nat) : Char := if n < 10 then Char.ofNat (48 + n) else Char.ofNat (87 + n)

/-- one rune of `strconv.Quote` (ASCII exactly; other runes are assumed printable). -/
def quoteChar (c : Char) : List Char :=
  if c = '"' then ['\\', '"']
  else if c = '\\' then ['\\', '\\']
  else if c.toNat = 7 then ['\\', 'a']
  else if c.toNat = 8 then ['\\', 'b']
  else if c.toNat = 12 then ['\\', 'f']
  else if c = '\n' then ['\\', 'n']
  else if c = '\r' then ['\\', 'r']
  else if c = '\t' then ['\\', 't']
  else if c.toNat = 11 then ['\\', 'v']
  else if c.toNat < 32 ∨ c.toNat = 127 then ['\\', 'x', hexDigit (c.toNat / 16), hexDigit (c.toNat % 16)]
  else [c]

/-- `strconv.Quote`. -/
def quote (s : String) : String :=
  String.ofList ('"' :: (s.toList.flatMap quoteChar ++ ['"']))

/-- `model.LabelSet.String()` of a canonical label set. -/
def lsString (ls : LabelSet) : String :=
  "{" ++ ", ".intercalate (ls.map fun p => p.1 ++ "=" ++ quote p.2) ++ "}"

end AM.Lbl
