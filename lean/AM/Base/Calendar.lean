/-
  Proleptic Gregorian calendar on `Int`: days since 1970-01-01 ↔ civil date,
  weekday, month lengths, leap years.  Core Lean only; total functions.

  `/` and `%` on `Int` are floor division / non-negative remainder for the
  positive literal divisors used here (`Int.ediv`, `Int.emod`), so every
  definition and theorem below is valid for negative day numbers and years too.

  `daysFromCivil` is the closed "count the leap days" formula on March-based
  years; `civilFromDays` decomposes a day number into 400-year eras, centuries,
  4-year cycles and years (each step one division by a literal, so `omega`
  proves the lemmas).  What ties both to the calendar everybody knows is
  `next_day_correct` (the successor of a date, defined by the month-length
  table and the leap-year rule, is one day later) together with the anchor
  `daysFromCivil 1970 1 1 = 0`.
-/
namespace AM.Calendar

structure Civil where
  year  : Int
  month : Int     -- 1 = January … 12 = December
  day   : Int     -- 1 …
  deriving DecidableEq, Repr, Inhabited

/-- Gregorian leap-year rule. -/
def isLeap (y : Int) : Bool :=
  decide ((y % 4 = 0 ∧ y % 100 ≠ 0) ∨ y % 400 = 0)

/-- Month-length table. -/
def daysInMonth (y m : Int) : Int :=
  if m = 2 then (if isLeap y then 29 else 28)
  else if m = 4 ∨ m = 6 ∨ m = 9 ∨ m = 11 then 30
  else 31

def Civil.Valid (c : Civil) : Prop :=
  1 ≤ c.month ∧ c.month ≤ 12 ∧ 1 ≤ c.day ∧ c.day ≤ daysInMonth c.year c.month

instance (c : Civil) : Decidable c.Valid := by unfold Civil.Valid; exact inferInstance

/-- March-based year of a civil (year, month): January and February belong to the previous one. -/
def marchYear (y m : Int) : Int := if m ≤ 2 then y - 1 else y
/-- March-based month index: March = 0 … February = 11. -/
def marchMonth (m : Int) : Int := if m ≤ 2 then m + 9 else m - 3

/-- Number of days from 0000-03-01 to the first day of March-based year `y`. -/
def daysBeforeYear (y : Int) : Int := 365 * y + y / 4 - y / 100 + y / 400

/-- Number of days from 1 March to the first day of March-based month `mp`. -/
def daysBeforeMonth (mp : Int) : Int := (153 * mp + 2) / 5

/-- 1970-01-01 counted from 0000-03-01. -/
def epochShift : Int := 719468

/-- Days since 1970-01-01 of a civil date. -/
def daysFromCivil (y m d : Int) : Int :=
  daysBeforeYear (marchYear y m) + daysBeforeMonth (marchMonth m) + (d - 1) - epochShift

def Civil.toDays (c : Civil) : Int := daysFromCivil c.year c.month c.day

/-- Year of era and day of (March-based) year of a day of era `0 ≤ doe < 146097`:
    centuries of 36524 days (the fourth has one more), 4-year cycles of 1461
    days, years of 365 days (the fourth has one more). -/
def yearOfEra (doe : Int) : Int × Int :=
  let c := if doe / 36524 ≥ 4 then 3 else doe / 36524      -- century of era, 0 … 3
  let doc := doe - c * 36524                               -- day of century
  let q := doc / 1461                                      -- 4-year cycle of century, 0 … 24
  let doq := doc - q * 1461                                -- day of cycle, 0 … 1460
  let yq := if doq / 365 ≥ 4 then 3 else doq / 365         -- year of cycle, 0 … 3
  (c * 100 + q * 4 + yq, doq - yq * 365)

/-- March-based month index and day of month of a day of year `0 ≤ doy ≤ 365`. -/
def monthOfYear (doy : Int) : Int × Int :=
  let mp := (5 * doy + 2) / 153
  (mp, doy - daysBeforeMonth mp + 1)

/-- Civil month number of a March-based month index. -/
def civilMonth (mp : Int) : Int := if mp < 10 then mp + 3 else mp - 9

/-- Civil date of a day number (days since 1970-01-01). -/
def civilFromDays (z : Int) : Civil :=
  let n := z + epochShift
  let era := n / 146097
  let yd := yearOfEra (n % 146097)
  let md := monthOfYear yd.2
  let y' := era * 400 + yd.1
  let m := civilMonth md.1
  { year := if m ≤ 2 then y' + 1 else y', month := m, day := md.2 }

/-- Day of week, 0 = Sunday … 6 = Saturday (1970-01-01 was a Thursday). -/
def weekday (z : Int) : Int := (z + 4) % 7

/-- The calendar successor of a date. -/
def nextDay (c : Civil) : Civil :=
  if c.day < daysInMonth c.year c.month then { c with day := c.day + 1 }
  else if c.month < 12 then { c with month := c.month + 1, day := 1 }
  else { year := c.year + 1, month := 1, day := 1 }

/-! ## Theorems -/


/-! ### year decomposition -/

/-- Is the March-based year of era `yoe` the long one (it ends with 29 February)? -/
def longYearOfEra (yoe : Int) : Prop := yoe % 4 = 3 ∧ (yoe % 100 ≠ 99 ∨ yoe = 399)

theorem yoe_div (c q yq : Int) (_hc : 0 ≤ c) (hq0 : 0 ≤ q) (hq : q ≤ 24) (hy0 : 0 ≤ yq) (hy : yq ≤ 3) :
    (c * 100 + q * 4 + yq) / 4 = 25 * c + q ∧ (c * 100 + q * 4 + yq) / 100 = c := by
  omega

theorem yearOfEra_spec (doe : Int) (h0 : 0 ≤ doe) (h1 : doe < 146097) :
    0 ≤ (yearOfEra doe).1 ∧ (yearOfEra doe).1 < 400 ∧ 0 ≤ (yearOfEra doe).2 ∧ (yearOfEra doe).2 ≤ 365 ∧
    ((yearOfEra doe).2 = 365 → longYearOfEra (yearOfEra doe).1) ∧
    365 * (yearOfEra doe).1 + (yearOfEra doe).1 / 4 - (yearOfEra doe).1 / 100 + (yearOfEra doe).2 = doe := by
  simp only [yearOfEra, longYearOfEra]
  generalize hc : (if doe / 36524 ≥ 4 then (3:Int) else doe / 36524) = c
  have hc0 : 0 ≤ c ∧ c ≤ 3 := by omega
  have hdoc : 0 ≤ doe - c * 36524 ∧ doe - c * 36524 ≤ 36524 ∧ (c < 3 → doe - c * 36524 < 36524) := by omega
  generalize hq : (doe - c * 36524) / 1461 = q
  have hq0 : 0 ≤ q ∧ q ≤ 24 := by omega
  generalize hyq : (if (doe - c * 36524 - q * 1461) / 365 ≥ 4 then (3:Int) else (doe - c * 36524 - q * 1461) / 365) = yq
  have hy0 : 0 ≤ yq ∧ yq ≤ 3 := by omega
  have hd := yoe_div c q yq hc0.1 hq0.1 hq0.2 hy0.1 hy0.2
  rw [hd.1, hd.2]
  omega

theorem monthOfYear_spec (doy : Int) (h0 : 0 ≤ doy) (h1 : doy ≤ 365) :
    0 ≤ (monthOfYear doy).1 ∧ (monthOfYear doy).1 ≤ 11 ∧ 1 ≤ (monthOfYear doy).2 ∧ (monthOfYear doy).2 ≤ 31 ∧
    daysBeforeMonth (monthOfYear doy).1 + ((monthOfYear doy).2 - 1) = doy := by
  simp only [monthOfYear, daysBeforeMonth]
  omega

/-- era split of the leap-day count -/
theorem daysBeforeYear_era (era yoe : Int) (h0 : 0 ≤ yoe) (h1 : yoe < 400) :
    daysBeforeYear (era * 400 + yoe) = era * 146097 + (365 * yoe + yoe / 4 - yoe / 100) := by
  unfold daysBeforeYear
  omega

theorem march_of_civil (y' mp : Int) (h0 : 0 ≤ mp) (h1 : mp ≤ 11) :
    marchYear (if civilMonth mp ≤ 2 then y' + 1 else y') (civilMonth mp) = y' ∧
    marchMonth (civilMonth mp) = mp ∧ 1 ≤ civilMonth mp ∧ civilMonth mp ≤ 12 := by
  unfold marchYear marchMonth civilMonth
  by_cases h : mp < 10 <;> simp [h] <;> omega

theorem civil_roundtrip (z : Int) : (civilFromDays z).toDays = z := by
  have hd0 : 0 ≤ (z + epochShift) % 146097 := Int.emod_nonneg _ (by decide)
  have hd1 : (z + epochShift) % 146097 < 146097 := Int.emod_lt_of_pos _ (by decide)
  have hy := yearOfEra_spec _ hd0 hd1
  have hm := monthOfYear_spec _ hy.2.2.1 hy.2.2.2.1
  have hc := march_of_civil ((z + epochShift) / 146097 * 400 + (yearOfEra ((z + epochShift) % 146097)).1) _ hm.1 hm.2.1
  simp only [civilFromDays, Civil.toDays, daysFromCivil]
  rw [hc.1, hc.2.1, daysBeforeYear_era _ _ hy.1 hy.2.1]
  omega





theorem isLeap_iff (y : Int) : isLeap y = true ↔ ((y % 4 = 0 ∧ y % 100 ≠ 0) ∨ y % 400 = 0) := by
  simp [isLeap]

theorem longYear_isLeap (era yoe : Int) (h0 : 0 ≤ yoe) (h1 : yoe < 400) :
    longYearOfEra yoe ↔ isLeap (era * 400 + yoe + 1) = true := by
  rw [isLeap_iff]; unfold longYearOfEra; omega

theorem day_le_aux (y' doy mp : Int) (h0 : 0 ≤ doy) (h1 : doy ≤ 365)
    (hmp : mp = (5 * doy + 2) / 153)
    (hl : doy = 365 → isLeap (y' + 1) = true) :
    doy - (153 * mp + 2) / 5 + 1 ≤ daysInMonth (if civilMonth mp ≤ 2 then y' + 1 else y') (civilMonth mp) := by
  have : mp = 0 ∨ mp = 1 ∨ mp = 2 ∨ mp = 3 ∨ mp = 4 ∨ mp = 5 ∨ mp = 6 ∨ mp = 7 ∨ mp = 8 ∨ mp = 9 ∨ mp = 10 ∨ mp = 11 := by omega
  rcases this with h | h | h | h | h | h | h | h | h | h | h | h <;> subst h <;>
    simp [civilMonth, daysInMonth] <;> try omega
  -- February
  by_cases hleap : isLeap (y' + 1) = true
  · simp [hleap]; omega
  · simp [hleap]
    have : doy ≠ 365 := fun h => hleap (hl h)
    omega

/-- The day of month produced by `monthOfYear` fits the month-length table. -/
theorem monthOfYear_day_le (y' doy : Int) (h0 : 0 ≤ doy) (h1 : doy ≤ 365)
    (hl : doy = 365 → isLeap (y' + 1) = true) :
    (monthOfYear doy).2 ≤
      daysInMonth (if civilMonth (monthOfYear doy).1 ≤ 2 then y' + 1 else y') (civilMonth (monthOfYear doy).1) :=
  day_le_aux y' doy _ h0 h1 rfl hl



theorem div_step4 (y : Int) : y / 4 - (y - 1) / 4 = if y % 4 = 0 then 1 else 0 := by split <;> omega
theorem div_step100 (y : Int) : y / 100 - (y - 1) / 100 = if y % 100 = 0 then 1 else 0 := by split <;> omega
theorem div_step400 (y : Int) : y / 400 - (y - 1) / 400 = if y % 400 = 0 then 1 else 0 := by split <;> omega

/-- A March-based year that ends in February of civil year `y` has 366 days iff `y` is a leap year. -/
theorem daysBeforeYear_step (y : Int) :
    daysBeforeYear y - daysBeforeYear (y - 1) = if isLeap y then 366 else 365 := by
  have h4 := div_step4 y
  have h100 := div_step100 y
  have h400 := div_step400 y
  have e : daysBeforeYear y - daysBeforeYear (y - 1) =
      365 + (y / 4 - (y - 1) / 4) - (y / 100 - (y - 1) / 100) + (y / 400 - (y - 1) / 400) := by
    unfold daysBeforeYear; omega
  rw [e, h4, h100, h400]
  have a : y % 400 = 0 → y % 100 = 0 := by omega
  have b : y % 100 = 0 → y % 4 = 0 := by omega
  by_cases c4 : y % 4 = 0 <;> by_cases c100 : y % 100 = 0 <;> by_cases c400 : y % 400 = 0 <;>
    simp_all [isLeap]

/-- First day of the month after (y, m). -/
def nextMonthStart (y m : Int) : Int := if m < 12 then daysFromCivil y (m + 1) 1 else daysFromCivil (y + 1) 1 1

theorem days_in_month_correct (y m : Int) (h1 : 1 ≤ m) (h12 : m ≤ 12) :
    nextMonthStart y m - daysFromCivil y m 1 = daysInMonth y m := by
  have hs := daysBeforeYear_step y
  have : m = 1 ∨ m = 2 ∨ m = 3 ∨ m = 4 ∨ m = 5 ∨ m = 6 ∨ m = 7 ∨ m = 8 ∨ m = 9 ∨ m = 10 ∨ m = 11 ∨ m = 12 := by omega
  rcases this with h | h | h | h | h | h | h | h | h | h | h | h <;> subst h <;>
    simp [nextMonthStart, daysFromCivil, marchYear, marchMonth, daysBeforeMonth, daysInMonth] <;> try omega
  -- February → March crosses the March-based year boundary
  by_cases hl : isLeap y = true <;> simp [hl] at hs ⊢ <;> omega

theorem days_in_month_leap_rule (y : Int) :
    daysInMonth y 2 = if (y % 4 = 0 ∧ y % 100 ≠ 0) ∨ y % 400 = 0 then 29 else 28 := by
  simp [daysInMonth, isLeap]

theorem next_day_correct (c : Civil) (hv : c.Valid) :
    (nextDay c).toDays = c.toDays + 1 ∧ (nextDay c).Valid := by
  obtain ⟨hm1, hm12, hd1, hd⟩ := hv
  have hdim := days_in_month_correct c.year c.month hm1 hm12
  have hdimpos : 28 ≤ daysInMonth c.year c.month := by
    unfold daysInMonth; split <;> split <;> omega
  unfold nextDay
  by_cases h : c.day < daysInMonth c.year c.month
  · simp only [h, if_true, Civil.toDays, daysFromCivil, Civil.Valid]
    refine ⟨by omega, hm1, hm12, by omega, by omega⟩
  · have hde : c.day = daysInMonth c.year c.month := by omega
    by_cases hm : c.month < 12
    · simp only [h, hm, if_true, if_false, Civil.toDays, Civil.Valid]
      simp only [nextMonthStart, hm, if_true] at hdim
      refine ⟨?_, by omega, by omega, by omega, ?_⟩
      · simp only [daysFromCivil] at hdim ⊢; omega
      · have : 28 ≤ daysInMonth c.year (c.month + 1) := by
          unfold daysInMonth; split <;> split <;> omega
        omega
    · simp only [h, hm, if_false, Civil.toDays, Civil.Valid]
      simp only [nextMonthStart, hm, if_false] at hdim
      refine ⟨?_, by omega, by omega, by omega, ?_⟩
      · simp only [daysFromCivil] at hdim ⊢; omega
      · simp [daysInMonth]

theorem weekday_range (z : Int) : 0 ≤ weekday z ∧ weekday z < 7 := by unfold weekday; omega
theorem weekday_correct (z : Int) : weekday (z + 1) = (weekday z + 1) % 7 := by unfold weekday; omega
theorem weekday_epoch : weekday (daysFromCivil 1970 1 1) = 4 := by decide
theorem epoch_anchor : daysFromCivil 1970 1 1 = 0 := by decide
example : daysFromCivil 2024 2 29 = 19782 ∧ weekday 19782 = 4 ∧ civilFromDays 19782 = ⟨2024, 2, 29⟩ := by decide



theorem yearOfEra_build (c q r doy : Int) (hc0 : 0 ≤ c) (hc : c ≤ 3) (hq0 : 0 ≤ q) (hq : q ≤ 24)
    (hr0 : 0 ≤ r) (hr : r ≤ 3) (hd0 : 0 ≤ doy) (hd : doy ≤ 365)
    (hl : doy = 365 → r = 3 ∧ (q ≠ 24 ∨ c = 3)) :
    yearOfEra (36524 * c + 1461 * q + 365 * r + doy) = (c * 100 + q * 4 + r, doy) := by
  have e1 : (if (36524 * c + 1461 * q + 365 * r + doy) / 36524 ≥ 4 then (3:Int)
             else (36524 * c + 1461 * q + 365 * r + doy) / 36524) = c := by
    split <;> omega
  have e2 : (36524 * c + 1461 * q + 365 * r + doy - c * 36524) / 1461 = q := by omega
  have e3 : (if (36524 * c + 1461 * q + 365 * r + doy - c * 36524 - q * 1461) / 365 ≥ 4 then (3:Int)
             else (36524 * c + 1461 * q + 365 * r + doy - c * 36524 - q * 1461) / 365) = r := by
    split <;> omega
  simp only [yearOfEra, e1, e2, e3]
  congr 1
  omega

theorem monthOfYear_build (mp d : Int) (_h0 : 0 ≤ mp) (_h1 : mp ≤ 11) (hd1 : 1 ≤ d)
    (hd : d ≤ daysBeforeMonth (mp + 1) - daysBeforeMonth mp) :
    monthOfYear (daysBeforeMonth mp + (d - 1)) = (mp, d) := by
  unfold daysBeforeMonth at *
  have e : (5 * ((153 * mp + 2) / 5 + (d - 1)) + 2) / 153 = mp := by omega
  simp only [monthOfYear, daysBeforeMonth, e]
  congr 1
  omega

/-- table vs. closed formula for month starts -/
theorem daysInMonth_le_gap (y m : Int) (h1 : 1 ≤ m) (h12 : m ≤ 12) :
    daysInMonth y m ≤ daysBeforeMonth (marchMonth m + 1) - daysBeforeMonth (marchMonth m) ∧
    (m ≠ 2 → daysBeforeMonth (marchMonth m) + daysInMonth y m ≤ 337) ∧
    0 ≤ marchMonth m ∧ marchMonth m ≤ 11 ∧ civilMonth (marchMonth m) = m ∧
    0 ≤ daysBeforeMonth (marchMonth m) ∧ (m = 2 → daysBeforeMonth (marchMonth m) = 337) := by
  have : m = 1 ∨ m = 2 ∨ m = 3 ∨ m = 4 ∨ m = 5 ∨ m = 6 ∨ m = 7 ∨ m = 8 ∨ m = 9 ∨ m = 10 ∨ m = 11 ∨ m = 12 := by omega
  rcases this with h | h | h | h | h | h | h | h | h | h | h | h <;> subst h <;>
    simp [marchMonth, civilMonth, daysBeforeMonth, daysInMonth]
  split <;> omega

theorem civil_roundtrip_inv (c : Civil) (hv : c.Valid) : civilFromDays c.toDays = c := by
  obtain ⟨hm1, hm12, hd1, hd⟩ := hv
  obtain ⟨hgap, hnf, hmp0, hmp11, hcm, hdbm0, hfeb⟩ := daysInMonth_le_gap c.year c.month hm1 hm12
  -- notation
  generalize hy' : marchYear c.year c.month = y' at *
  generalize hmp : marchMonth c.month = mp at *
  have hyear : (if c.month ≤ 2 then y' + 1 else y') = c.year := by
    rw [← hy']; unfold marchYear; split <;> omega
  generalize hera : y' / 400 = era
  generalize hyoe : y' % 400 = yoe
  have hyoe0 : 0 ≤ yoe ∧ yoe < 400 := by omega
  have hy'e : y' = era * 400 + yoe := by omega
  generalize hcc : yoe / 100 = cc
  generalize hqq : yoe % 100 / 4 = qq
  generalize hrr : yoe % 4 = rr
  have hb : 0 ≤ cc ∧ cc ≤ 3 ∧ 0 ≤ qq ∧ qq ≤ 24 ∧ 0 ≤ rr ∧ rr ≤ 3 ∧ yoe = cc * 100 + qq * 4 + rr := by omega
  have hf : 365 * yoe + yoe / 4 - yoe / 100 = 36524 * cc + 1461 * qq + 365 * rr := by omega
  -- day of year
  generalize hdoy : daysBeforeMonth mp + (c.day - 1) = doy
  have hdoy0 : 0 ≤ doy ∧ doy ≤ 365 := by
    by_cases h2 : c.month = 2
    · have := hfeb h2
      have : daysInMonth c.year c.month ≤ 29 := by rw [h2]; unfold daysInMonth; simp; split <;> omega
      omega
    · have := hnf h2; omega
  have hleap : doy = 365 → rr = 3 ∧ (qq ≠ 24 ∨ cc = 3) := by
    intro h365
    have h2 : c.month = 2 := by
      refine Decidable.byContradiction fun h2 => ?_
      have := hnf h2; omega
    have hdim : daysInMonth c.year c.month = 29 := by
      have := hfeb h2
      have : daysInMonth c.year c.month ≤ 29 := by rw [h2]; unfold daysInMonth; simp; split <;> omega
      omega
    have hl : isLeap c.year = true := by
      rw [h2] at hdim; unfold daysInMonth at hdim; simp at hdim
      by_cases hl : isLeap c.year = true
      · exact hl
      · simp [hl] at hdim
    have hcy : c.year = era * 400 + yoe + 1 := by rw [← hyear, h2]; simp; omega
    rw [hcy, ← longYear_isLeap era yoe hyoe0.1 hyoe0.2] at hl
    unfold longYearOfEra at hl
    omega
  have hyb := yearOfEra_build cc qq rr doy hb.1 hb.2.1 hb.2.2.1 hb.2.2.2.1 hb.2.2.2.2.1 hb.2.2.2.2.2.1 hdoy0.1 hdoy0.2 hleap
  have hmb := monthOfYear_build mp c.day hmp0 hmp11 hd1 (by omega)
  have hn : c.toDays + epochShift = era * 146097 + (36524 * cc + 1461 * qq + 365 * rr + doy) := by
    simp only [Civil.toDays, daysFromCivil, hy', hmp]
    rw [hy'e, daysBeforeYear_era era yoe hyoe0.1 hyoe0.2, hf]
    omega
  have hdoe : 0 ≤ 36524 * cc + 1461 * qq + 365 * rr + doy ∧ 36524 * cc + 1461 * qq + 365 * rr + doy < 146097 := by omega
  have hdiv : (c.toDays + epochShift) / 146097 = era := by rw [hn]; omega
  have hmod : (c.toDays + epochShift) % 146097 = 36524 * cc + 1461 * qq + 365 * rr + doy := by rw [hn]; omega
  simp only [civilFromDays, hdiv, hmod, hyb]
  rw [← hdoy, hmb]
  simp only [hcm]
  rw [← hb.2.2.2.2.2.2, ← hy'e, hyear]

/-- Every day number is a valid calendar date. -/
theorem civil_valid (z : Int) : (civilFromDays z).Valid := by
  have hd0 : 0 ≤ (z + epochShift) % 146097 := Int.emod_nonneg _ (by decide)
  have hd1 : (z + epochShift) % 146097 < 146097 := Int.emod_lt_of_pos _ (by decide)
  have hy := yearOfEra_spec _ hd0 hd1
  have hm := monthOfYear_spec _ hy.2.2.1 hy.2.2.2.1
  have hc := march_of_civil ((z + epochShift) / 146097 * 400 + (yearOfEra ((z + epochShift) % 146097)).1) _ hm.1 hm.2.1
  have hl : (yearOfEra ((z + epochShift) % 146097)).2 = 365 →
      isLeap ((z + epochShift) / 146097 * 400 + (yearOfEra ((z + epochShift) % 146097)).1 + 1) = true :=
    fun h => (longYear_isLeap _ _ hy.1 hy.2.1).mp (hy.2.2.2.2.1 h)
  have hle := monthOfYear_day_le _ _ hy.2.2.1 hy.2.2.2.1 hl
  exact ⟨hc.2.2.1, hc.2.2.2, hm.2.2.1, hle⟩

/-- Distinct valid dates have distinct day numbers. -/
theorem toDays_injective (a b : Civil) (ha : a.Valid) (hb : b.Valid) (h : a.toDays = b.toDays) : a = b := by
  rw [← civil_roundtrip_inv a ha, ← civil_roundtrip_inv b hb, h]

/-- `civilFromDays` is the unique valid date with a given day number. -/
theorem civil_unique (z : Int) (c : Civil) (hc : c.Valid) (h : c.toDays = z) : c = civilFromDays z := by
  rw [← h, civil_roundtrip_inv c hc]

/-! ### order -/


/-- Calendar order on dates. -/
def Civil.lt (a b : Civil) : Prop :=
  a.year < b.year ∨ (a.year = b.year ∧ (a.month < b.month ∨ (a.month = b.month ∧ a.day < b.day)))

/-- Days from 1 January to the first of month `m` in year `y`. -/
def daysBeforeCivilMonth (y m : Int) : Int :=
  if m ≤ 1 then 0 else if m = 2 then 31 else 59 + (if isLeap y then 1 else 0) + daysBeforeMonth (m - 3)

theorem daysFromCivil_jan1 (y m d : Int) (h1 : 1 ≤ m) (h12 : m ≤ 12) :
    daysFromCivil y m d = daysFromCivil y 1 1 + daysBeforeCivilMonth y m + (d - 1) := by
  have hs := daysBeforeYear_step y
  unfold daysFromCivil daysBeforeCivilMonth marchYear marchMonth daysBeforeMonth at *
  by_cases hl : isLeap y = true <;> simp only [hl, if_true, if_false, Bool.false_eq_true] at hs ⊢ <;>
    (by_cases hm1 : m ≤ 1
     · have : m = 1 := by omega
       subst this; simp; omega
     · by_cases hm2 : m = 2
       · subst hm2; simp; omega
       · have h3 : ¬ m ≤ 2 := by omega
         simp only [hm1, hm2, h3, if_false]; simp; omega)

/-- day of year stays inside the year -/
theorem dayOfYear_bounds (c : Civil) (hv : c.Valid) :
    0 ≤ daysBeforeCivilMonth c.year c.month + (c.day - 1) ∧
    daysBeforeCivilMonth c.year c.month + (c.day - 1) < 365 + (if isLeap c.year then 1 else 0) := by
  obtain ⟨h1, h12, hd1, hd⟩ := hv
  unfold daysBeforeCivilMonth daysBeforeMonth
  unfold daysInMonth at hd
  by_cases hl : isLeap c.year = true <;> simp only [hl, if_true, if_false, Bool.false_eq_true] at hd ⊢ <;>
    (have : c.month = 1 ∨ c.month = 2 ∨ c.month = 3 ∨ c.month = 4 ∨ c.month = 5 ∨ c.month = 6 ∨ c.month = 7 ∨
        c.month = 8 ∨ c.month = 9 ∨ c.month = 10 ∨ c.month = 11 ∨ c.month = 12 := by omega
     rcases this with h | h | h | h | h | h | h | h | h | h | h | h <;> rw [h] at hd ⊢ <;> simp at hd ⊢ <;> omega)

/-- within a year, (month, day) order is day-of-year order -/
theorem dayOfYear_lt (y : Int) (m1 d1 m2 d2 : Int) (h1 : (⟨y, m1, d1⟩ : Civil).Valid) (h2 : (⟨y, m2, d2⟩ : Civil).Valid)
    (hlt : m1 < m2) :
    daysBeforeCivilMonth y m1 + (d1 - 1) < daysBeforeCivilMonth y m2 + (d2 - 1) := by
  obtain ⟨a1, a12, ad1, ad⟩ := h1
  obtain ⟨b1, b12, bd1, _⟩ := h2
  simp only at a1 a12 ad1 ad b1 b12 bd1
  unfold daysInMonth at ad
  unfold daysBeforeCivilMonth daysBeforeMonth
  by_cases hl : isLeap y = true <;> simp only [hl, if_true, if_false, Bool.false_eq_true] at ad ⊢ <;>
    (have : m1 = 1 ∨ m1 = 2 ∨ m1 = 3 ∨ m1 = 4 ∨ m1 = 5 ∨ m1 = 6 ∨ m1 = 7 ∨
        m1 = 8 ∨ m1 = 9 ∨ m1 = 10 ∨ m1 = 11 := by omega
     rcases this with h | h | h | h | h | h | h | h | h | h | h <;> subst h <;> simp at ad ⊢ <;> omega)

theorem daysBeforeYear_mono (a b : Int) (h : a ≤ b) : daysBeforeYear a ≤ daysBeforeYear b := by
  unfold daysBeforeYear
  omega

theorem jan1_next (y : Int) :
    daysFromCivil (y + 1) 1 1 = daysFromCivil y 1 1 + 365 + (if isLeap y then 1 else 0) := by
  have hs := daysBeforeYear_step y
  unfold daysFromCivil marchYear marchMonth at *
  simp
  by_cases hl : isLeap y = true <;> simp [hl] at hs ⊢ <;> omega

theorem jan1_mono (a b : Int) (h : a ≤ b) : daysFromCivil a 1 1 ≤ daysFromCivil b 1 1 := by
  have := daysBeforeYear_mono (a - 1) (b - 1) (by omega)
  unfold daysFromCivil marchYear marchMonth
  simp; omega

/-- Later in the calendar means a larger day number. -/
theorem toDays_strictMono (a b : Civil) (ha : a.Valid) (hb : b.Valid) (h : a.lt b) : a.toDays < b.toDays := by
  have ea := daysFromCivil_jan1 a.year a.month a.day ha.1 ha.2.1
  have eb := daysFromCivil_jan1 b.year b.month b.day hb.1 hb.2.1
  have ba := dayOfYear_bounds a ha
  have bb := dayOfYear_bounds b hb
  unfold Civil.toDays
  rw [ea, eb]
  rcases h with hy | ⟨hy, hm | ⟨hm, hd⟩⟩
  · have h1 := jan1_next a.year
    have h2 := jan1_mono (a.year + 1) b.year (by omega)
    omega
  · have := dayOfYear_lt a.year a.month a.day b.month b.day ha (by rw [hy]; exact hb) hm
    rw [← hy]; omega
  · rw [← hy, ← hm]; omega

theorem Civil.lt_trichotomy (a b : Civil) : a.lt b ∨ a = b ∨ b.lt a := by
  unfold Civil.lt
  by_cases h1 : a.year < b.year
  · exact Or.inl (Or.inl h1)
  · by_cases h2 : b.year < a.year
    · exact Or.inr (Or.inr (Or.inl h2))
    · have hy : a.year = b.year := by omega
      by_cases h3 : a.month < b.month
      · exact Or.inl (Or.inr ⟨hy, Or.inl h3⟩)
      · by_cases h4 : b.month < a.month
        · exact Or.inr (Or.inr (Or.inr ⟨hy.symm, Or.inl h4⟩))
        · have hm : a.month = b.month := by omega
          by_cases h5 : a.day < b.day
          · exact Or.inl (Or.inr ⟨hy, Or.inr ⟨hm, h5⟩⟩)
          · by_cases h6 : b.day < a.day
            · exact Or.inr (Or.inr (Or.inr ⟨hy.symm, Or.inr ⟨hm.symm, h6⟩⟩))
            · have hd : a.day = b.day := by omega
              refine Or.inr (Or.inl ?_)
              cases a; cases b; simp_all

/-- Day numbers order dates exactly as the calendar does. -/
theorem toDays_lt_iff (a b : Civil) (ha : a.Valid) (hb : b.Valid) : a.toDays < b.toDays ↔ a.lt b := by
  constructor
  · intro h
    rcases Civil.lt_trichotomy a b with h1 | h1 | h1
    · exact h1
    · subst h1; omega
    · have := toDays_strictMono b a hb ha h1; omega
  · exact toDays_strictMono a b ha hb

/-- `civilFromDays` is strictly monotone. -/
theorem civilFromDays_strictMono (z1 z2 : Int) (h : z1 < z2) : (civilFromDays z1).lt (civilFromDays z2) := by
  rw [← toDays_lt_iff _ _ (civil_valid z1) (civil_valid z2), civil_roundtrip, civil_roundtrip]
  exact h


end AM.Calendar
