/-
  Association-list maps with pointwise characterisation lemmas.
  Core Lean only (this file is linked into the driver executable).

  Convention (DESIGN §2.2): every model operation on a map gets one
  `lookup (op m …) k = …` lemma, and property theorems are stated through
  `lookup`, hence independent of the representation.
-/
namespace AM

abbrev AList (κ : Type) (α : Type) := List (κ × α)

namespace AList
variable {κ α : Type} [DecidableEq κ]

def lookup : AList κ α → κ → Option α
  | [], _ => none
  | (k', v) :: rest, k => if k' = k then some v else lookup rest k

def erase : AList κ α → κ → AList κ α
  | [], _ => []
  | (k', v) :: rest, k => if k' = k then erase rest k else (k', v) :: erase rest k

/-- Replace in place if present (first occurrence), append otherwise.  Keeps
    insertion order, which the drivers use for deterministic dumps. -/
def put : AList κ α → κ → α → AList κ α
  | [], k, v => [(k, v)]
  | (k', v') :: rest, k, v => if k' = k then (k, v) :: rest else (k', v') :: put rest k v

def keys (m : AList κ α) : List κ := m.map Prod.fst

def filterVals (p : κ → α → Bool) : AList κ α → AList κ α
  | [] => []
  | (k, v) :: rest => if p k v then (k, v) :: filterVals p rest else filterVals p rest

/-- No key occurs twice. -/
def NoDupKeys : AList κ α → Prop
  | [] => True
  | (k, _) :: rest => lookup rest k = none ∧ NoDupKeys rest

@[simp] theorem lookup_nil (k : κ) : lookup ([] : AList κ α) k = none := rfl

@[simp] theorem lookup_cons (k' k : κ) (v : α) (rest : AList κ α) :
    lookup ((k', v) :: rest) k = if k' = k then some v else lookup rest k := rfl

theorem lookup_put (m : AList κ α) (k : κ) (v : α) (q : κ) :
    lookup (put m k v) q = if k = q then some v else lookup m q := by
  induction m with
  | nil => simp [put]
  | cons hd tl ih =>
    obtain ⟨k', v'⟩ := hd
    unfold put
    by_cases h : k' = k
    · subst h
      by_cases h2 : k' = q <;> simp [h2]
    · simp only [h, if_false, lookup_cons, ih]
      by_cases h2 : k' = q
      · subst h2; simp [Ne.symm h]
      · simp [h2]

@[simp] theorem lookup_put_same (m : AList κ α) (k : κ) (v : α) :
    lookup (put m k v) k = some v := by simp [lookup_put]

theorem lookup_put_ne (m : AList κ α) {k q : κ} (v : α) (h : k ≠ q) :
    lookup (put m k v) q = lookup m q := by simp [lookup_put, h]

theorem lookup_erase (m : AList κ α) (k q : κ) :
    lookup (erase m k) q = if k = q then none else lookup m q := by
  induction m with
  | nil => simp [erase]
  | cons hd tl ih =>
    obtain ⟨k', v'⟩ := hd
    unfold erase
    by_cases h : k' = k
    · subst h
      simp only [if_true, ih, lookup_cons]
      by_cases h2 : k' = q <;> simp [h2]
    · simp only [h, if_false, lookup_cons, ih]
      by_cases h2 : k' = q
      · subst h2; simp [Ne.symm h]
      · simp [h2]

theorem lookup_filterVals (p : κ → α → Bool) (m : AList κ α) (hnd : NoDupKeys m) (q : κ) :
    lookup (filterVals p m) q =
      match lookup m q with
      | some v => if p q v then some v else none
      | none => none := by
  induction m with
  | nil => simp [filterVals]
  | cons hd tl ih =>
    obtain ⟨k', v'⟩ := hd
    obtain ⟨hk, hnd'⟩ := hnd
    unfold filterVals
    by_cases h2 : k' = q
    · subst h2
      by_cases hp : p k' v'
      · simp [hp]
      · simp [hp, ih hnd', hk]
    · by_cases hp : p k' v'
      · simp [hp, h2, ih hnd']
      · simp [hp, h2, ih hnd']

theorem lookup_none_of_put_none {m : AList κ α} {k q : κ} {v : α}
    (h : lookup (put m k v) q = none) : lookup m q = none := by
  rw [lookup_put] at h
  by_cases hk : k = q <;> simp_all

theorem noDupKeys_put (m : AList κ α) (k : κ) (v : α) (h : NoDupKeys m) :
    NoDupKeys (put m k v) := by
  induction m with
  | nil => simp [put, NoDupKeys]
  | cons hd tl ih =>
    obtain ⟨k', v'⟩ := hd
    obtain ⟨hk, hnd⟩ := h
    unfold put
    by_cases hkk : k' = k
    · subst hkk; simp [NoDupKeys, hk, hnd]
    · simp only [hkk, if_false, NoDupKeys]
      refine ⟨?_, ih hnd⟩
      rw [lookup_put]; simp [Ne.symm hkk, hk]

theorem lookup_filterVals_none (p : κ → α → Bool) (m : AList κ α) (q : κ)
    (h : lookup m q = none) : lookup (filterVals p m) q = none := by
  induction m with
  | nil => simp [filterVals]
  | cons hd tl ih =>
    obtain ⟨k', v'⟩ := hd
    unfold filterVals
    by_cases h2 : k' = q
    · subst h2; simp at h
    · simp [h2] at h
      by_cases hp : p k' v' <;> simp [hp, h2, ih h]

theorem noDupKeys_filterVals (p : κ → α → Bool) (m : AList κ α) (h : NoDupKeys m) :
    NoDupKeys (filterVals p m) := by
  induction m with
  | nil => simp [filterVals, NoDupKeys]
  | cons hd tl ih =>
    obtain ⟨k', v'⟩ := hd
    obtain ⟨hk, hnd⟩ := h
    unfold filterVals
    by_cases hp : p k' v'
    · simp only [hp, if_true, NoDupKeys]
      exact ⟨lookup_filterVals_none p tl k' hk, ih hnd⟩
    · simp only [hp]; exact ih hnd

theorem noDupKeys_erase (m : AList κ α) (k : κ) (h : NoDupKeys m) :
    NoDupKeys (erase m k) := by
  induction m with
  | nil => simp [erase, NoDupKeys]
  | cons hd tl ih =>
    obtain ⟨k', v'⟩ := hd
    obtain ⟨hk, hnd⟩ := h
    unfold erase
    by_cases hkk : k' = k
    · simp only [hkk, if_true]; exact ih hnd
    · simp only [hkk, if_false, NoDupKeys]
      refine ⟨?_, ih hnd⟩
      rw [lookup_erase]; simp [hk]

/-- Pointwise equality: the notion of "same state" used by convergence theorems. -/
def Equiv (a b : AList κ α) : Prop := ∀ k, lookup a k = lookup b k

theorem Equiv.refl (a : AList κ α) : Equiv a a := fun _ => rfl
theorem Equiv.symm {a b : AList κ α} (h : Equiv a b) : Equiv b a := fun k => (h k).symm
theorem Equiv.trans {a b c : AList κ α} (h₁ : Equiv a b) (h₂ : Equiv b c) : Equiv a c :=
  fun k => (h₁ k).trans (h₂ k)

end AList
end AM
