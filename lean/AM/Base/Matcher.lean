/-
  Matcher *semantics* only (`pkg/labels/matcher.go`: `Matcher.Matches`,
  `Matchers.Matches`, `Matchers.Less`, `Matcher.String` for plain names).
  Parsing/printing round trips are C16 (another work area); nothing here
  depends on it.  Core Lean only.

  Regular expressions are a parameter `re : String → String → Bool`
  ("the pattern, anchored as `NewMatcher` does, matches the value").
-/
import AM.Base.Labels

namespace AM.Lbl

inductive MatchOp where
  | eq | ne | re | nre
  deriving DecidableEq, Repr, Inhabited

def MatchOp.toNat : MatchOp → Nat
  | .eq => 0 | .ne => 1 | .re => 2 | .nre => 3

def MatchOp.str : MatchOp → String
  | .eq => "=" | .ne => "!=" | .re => "=~" | .nre => "!~"

structure Matcher where
  op : MatchOp
  name : String
  value : String
  deriving DecidableEq, Repr, Inhabited

/-- `Matcher.Matches`. -/
def Matcher.matches (re : String → String → Bool) (m : Matcher) (v : String) : Bool :=
  match m.op with
  | .eq => v == m.value
  | .ne => v != m.value
  | .re => re m.value v
  | .nre => !re m.value v

/-- `Matchers.Matches`: every matcher holds on the value of its label (missing = ""). -/
def matchesAll (re : String → String → Bool) (ms : List Matcher) (ls : LabelSet) : Bool :=
  ms.all fun m => m.matches re (get ls m.name)

/-- `Matchers.Less`. -/
def Matcher.less (a b : Matcher) : Bool :=
  if b.name < a.name then false
  else if a.name < b.name then true
  else if b.value < a.value then false
  else if a.value < b.value then true
  else a.op.toNat < b.op.toNat

def insertMatcher (m : Matcher) : List Matcher → List Matcher
  | [] => [m]
  | x :: xs => if m.less x then m :: x :: xs else x :: insertMatcher m xs

/-- `sort.Sort(matchers)` (elements that tie under `Less` are equal, so the result is unique). -/
def sortMatchers (ms : List Matcher) : List Matcher := ms.foldr insertMatcher []

theorem all_insertMatcher (p : Matcher → Bool) (m : Matcher) (l : List Matcher) :
    (insertMatcher m l).all p = (p m && l.all p) := by
  induction l with
  | nil => simp [insertMatcher]
  | cons x xs ih =>
    unfold insertMatcher
    by_cases h : m.less x
    · simp [h]
    · have h' : m.less x = false := by simpa using h
      rw [h']
      simp only [Bool.false_eq_true, if_false, List.all_cons]
      rw [ih]
      cases p m <;> cases p x <;> simp

theorem all_sortMatchers (p : Matcher → Bool) (l : List Matcher) :
    (sortMatchers l).all p = l.all p := by
  induction l with
  | nil => rfl
  | cons x xs ih =>
    have : sortMatchers (x :: xs) = insertMatcher x (sortMatchers xs) := rfl
    rw [this, all_insertMatcher, ih]; rfl

/-- Sorting does not change what a matcher list accepts. -/
theorem matchesAll_sort (re : String → String → Bool) (ms : List Matcher) (ls : LabelSet) :
    matchesAll re (sortMatchers ms) ls = matchesAll re ms ls := all_sortMatchers _ ms

/-- `openMetricsEscape`. -/
def omEscape (s : String) : String :=
  String.ofList (s.toList.flatMap fun c =>
    if c = '\\' then ['\\', '\\'] else if c = '\n' then ['\\', 'n'] else if c = '"' then ['\\', '"'] else [c])

/-- `Matcher.String` for a name without reserved runes (the only names the routing engines generate). -/
def Matcher.str (m : Matcher) : String := m.name ++ m.op.str ++ "\"" ++ omEscape m.value ++ "\""

/-- `Matchers.String`. -/
def matchersString (ms : List Matcher) : String := "{" ++ ",".intercalate (ms.map Matcher.str) ++ "}"

end AM.Lbl
