/-
  Theorems about AM.Registry: a live subscriber is never displaced (C03 / C01 across reloads),
  the targets of an oversized update are the live members whatever the address-keyed table says (C19).
-/
import AM.Model.Registry

namespace AM.Registry

/-! ### subscriber registry -/

/-- every key in use is below `next` -/
def KeysFresh (s : Subs) : Prop := ∀ k ∈ s.keys, k < s.next

theorem keysFresh_init : KeysFresh {} := by intro k hk; simp [Subs.keys] at hk

theorem keysFresh_step (s : Subs) (op : Op) (h : KeysFresh s) : KeysFresh (step s op) := by
  intro k hk
  cases op with
  | subscribe id =>
    simp only [step, subscribe, Subs.keys, List.map_cons, List.mem_cons, List.mem_map, List.mem_filter] at hk ⊢
    rcases hk with rfl | ⟨e, ⟨he, _⟩, rfl⟩
    · omega
    · have := h e.1 (List.mem_map_of_mem (f := fun x => x.1) he); omega
  | finish id =>
    simp only [step, finish, Subs.keys, List.map_map, List.mem_map] at hk ⊢
    obtain ⟨e, he, rfl⟩ := hk
    have : e.1 ∈ s.keys := List.mem_map_of_mem (f := fun x => x.1) he
    have hk' := h e.1 this
    simp only [Function.comp]
    split <;> exact hk'
  | gc =>
    simp only [step, gc, Subs.keys, List.mem_map, List.mem_filter] at hk ⊢
    obtain ⟨e, ⟨he, _⟩, rfl⟩ := hk
    exact h e.1 (List.mem_map_of_mem (f := fun x => x.1) he)

theorem keysFresh_run (ops : List Op) (s : Subs) (h : KeysFresh s) : KeysFresh (run s ops) := by
  induction ops generalizing s with
  | nil => exact h
  | cons op rest ih => exact ih (step s op) (keysFresh_step s op h)

/-- **A new subscription never displaces a registered subscriber**: whoever was served before `subscribe`
    is served after it, in every reachable registry (any history of subscriptions, closed iterators, GC runs). -/
theorem subscribe_keeps_served (ops : List Op) (id other : Nat)
    (hs : served (run {} ops) other = true) : served (subscribe (run {} ops) id) other = true := by
  have hf := keysFresh_run ops {} keysFresh_init
  simp only [served, subscribe, List.any_cons, List.any_eq_true, Bool.or_eq_true, decide_eq_true_eq] at hs ⊢
  obtain ⟨e, he, hid⟩ := hs
  right
  refine ⟨e, ?_, hid⟩
  rw [List.mem_filter]
  refine ⟨he, ?_⟩
  have : e.1 < (run {} ops).next := hf e.1 (List.mem_map_of_mem (f := fun x => x.1) he)
  simp; omega

/-- only its own `finish` followed by a GC run removes a subscriber -/
theorem gc_keeps_live (s : Subs) (id : Nat) (h : s.entries.any (fun e => e.2.id = id ∧ e.2.done = false) = true) :
    served (gc s) id = true := by
  simp only [served, gc, List.any_eq_true, List.mem_filter, decide_eq_true_eq] at h ⊢
  obtain ⟨e, he, hid, hd⟩ := h
  exact ⟨e, ⟨he, by simp [hd]⟩, hid⟩

/-- the changed registration (key = number of entries) displaces a live subscriber after a reload, a GC run and
    another reload: subscribers 0 (old inhibitor) and 1 (new inhibitor); 0 stops and is collected; the next
    subscriber (2) takes key 1 — the live subscriber 1 is no longer served. -/
theorem len_keyed_displaces_live_subscriber :
    let s0 : Subs := subscribeByLen (subscribeByLen {} 0) 1
    let s1 := gc (finish s0 0)
    served s1 1 = true ∧ served (subscribeByLen s1 2) 1 = false ∧ served (subscribe s1 2) 1 = true := by
  decide

/-! ### peer table vs. members -/

/-- **The targets of an oversized update are exactly the live members other than oneself**, whatever order the
    join / leave notifications arrived in: `targets` is a function of memberlist's view alone. -/
theorem targets_are_live_members (m : Members) (self n : String) :
    n ∈ targets m self ↔ (∃ a, (n, a) ∈ m) ∧ n ≠ self := by
  simp only [targets, List.mem_map, List.mem_filter, decide_eq_true_eq]
  constructor
  · rintro ⟨e, ⟨he, hne⟩, rfl⟩
    exact ⟨⟨e.2, he⟩, by simpa using hne⟩
  · rintro ⟨⟨a, ha⟩, hne⟩
    exact ⟨(n, a), ⟨ha, by simpa using hne⟩, rfl⟩

theorem join_makes_member (m : Members) (n a : String) : (n, a) ∈ mstep m (.join n a) := by
  simp [mstep]

theorem leave_of_other_keeps_member (m : Members) (n a n' a' : String) (h : (n, a) ∈ m) (hne : n ≠ n') :
    (n, a) ∈ mstep m (.leave n' a') := by
  simp only [mstep, List.mem_filter, decide_eq_true_eq]
  exact ⟨h, by simpa using hne⟩

/-- A peer that crashed and came back on its address under a new name: the new name joins, then the old name is
    declared dead.  memberlist lists the new name; the address-keyed table marks the entry — which by now names the
    NEW node — failed.  Taking the targets from the table drops a live member. -/
theorem address_keyed_table_marks_live_peer_failed :
    let evs := [Ev.join "old" "10.0.0.2:9094", Ev.join "new" "10.0.0.2:9094", Ev.leave "old" "10.0.0.2:9094"]
    let m := evs.foldl mstep []
    let p := evs.foldl pstep []
    targets m "self" = ["new"] ∧ targetsByTable p = [] ∧ p.get "10.0.0.2:9094" = some ⟨"new", .failed⟩ := by
  decide

/-! ### position in the cluster -/

theorem position_cons (e : String × String) (m : Members) (s : String) :
    position (e :: m) s = position m s + (if e.1 < s then 1 else 0) := by
  unfold position
  by_cases h : e.1 < s <;> simp [h]

theorem position_mono (m : Members) (a b : String) (hab : a < b) : position m a ≤ position m b := by
  induction m with
  | nil => simp [position]
  | cons e rest ih =>
    rw [position_cons, position_cons]
    by_cases h : e.1 < a
    · have : e.1 < b := String.lt_trans h hab
      simp [h, this]; exact ih
    · simp [h]; omega

theorem position_lt_of_lt (m : Members) (a b addr : String) (ha : (a, addr) ∈ m) (hab : a < b) :
    position m a < position m b := by
  induction m with
  | nil => cases ha
  | cons e rest ih =>
    rw [position_cons, position_cons]
    rcases List.mem_cons.mp ha with h | h
    · subst h
      have h1 : ¬ a < a := String.lt_irrefl a
      have := position_mono rest a b hab
      simp [h1, hab]; omega
    · have := ih h
      by_cases h1 : e.1 < a
      · have : e.1 < b := String.lt_trans h1 hab
        simp [h1, this]; omega
      · simp [h1]; omega

/-- **Members that agree on the member list hold pairwise distinct positions** (the staggering of
    `AM.Cluster.healthy_no_duplicate` rests on it): position is a function of memberlist's view alone. -/
theorem positions_distinct (m : Members) (a b addra addrb : String) (ha : (a, addra) ∈ m) (hb : (b, addrb) ∈ m)
    (hne : a ≠ b) : position m a ≠ position m b := by
  by_cases h1 : a < b
  · have := position_lt_of_lt m a b addra ha h1; omega
  · by_cases h2 : b < a
    · have := position_lt_of_lt m b a addrb hb h2; omega
    · exact absurd (String.le_antisymm (String.not_lt.mp h2) (String.not_lt.mp h1)) hne

/-- A peer that crashed and came back on its address under a new name that sorts first ("a"): at the survivor "m"
    the new name joins, then the old name ("z") is declared dead.  memberlist lists {a, m}: positions 0 and 1.  The
    address-keyed table marks the entry that by now names "a" failed: counted from the table, "m" is at position 0
    as well — two live instances notify without waiting. -/
theorem table_position_collides :
    let evs := [Ev.join "m" "10.0.0.1:9094", Ev.join "z" "10.0.0.2:9094", Ev.join "a" "10.0.0.2:9094", Ev.leave "z" "10.0.0.2:9094"]
    let m := evs.foldl mstep []
    let p := evs.foldl pstep []
    position m "a" = 0 ∧ position m "m" = 1 ∧ positionByTable p "m" = 0 := by
  decide

end AM.Registry
