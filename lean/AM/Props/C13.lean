/-
  C13 — Alert ingestion: defaults, merge and visibility follow the API contract.
  All theorems are unbounded (any store, any batch, any instants).
-/
import AM.Model.Ingest
import AM.Base.AlertsMap

namespace AM.Ingest
open AM AM.AList

/-! ### POST defaulting -/

/-- **post_defaults.**  A missing `startsAt` becomes the receive time, or `endsAt`
    when that is given; a missing `endsAt` becomes receive time + `resolve_timeout`
    and marks the alert as timing out; given timestamps are kept; `UpdatedAt` is
    the receive time. -/
theorem post_defaults (now rt : Int) (p : PostAlert) :
    let a := defaults now rt p
    a.updatedAt = now ∧ a.labels = p.labels ∧ a.payload = p.payload ∧
    (match p.startsAt, p.endsAt with
     | none,   none   => a.startsAt = now ∧ a.endsAt = now + rt ∧ a.timeout = true
     | none,   some e => a.startsAt = e   ∧ a.endsAt = e        ∧ a.timeout = false
     | some s, none   => a.startsAt = s   ∧ a.endsAt = now + rt ∧ a.timeout = true
     | some s, some e => a.startsAt = s   ∧ a.endsAt = e        ∧ a.timeout = false) := by
  cases hs : p.startsAt <;> cases he : p.endsAt <;> simp [defaults, hs, he]

theorem prepare_spec (now rt : Int) (p : PostAlert) :
    (prepare now rt p).labels = removeEmpty p.labels ∧
    (prepare now rt p).startsAt = (defaults now rt p).startsAt ∧
    (prepare now rt p).endsAt = (defaults now rt p).endsAt ∧
    (prepare now rt p).updatedAt = now ∧
    (prepare now rt p).timeout = (defaults now rt p).timeout := by
  have := post_defaults now rt p
  simp only at this
  simp [prepare, this.1]

/-- empty-valued labels do not take part in an alert's identity. -/
theorem removeEmpty_spec (ls : Labels) (n v : String) :
    (n, v) ∈ removeEmpty ls ↔ (n, v) ∈ ls ∧ v ≠ "" := by
  simp [removeEmpty, List.mem_filter]

/-! ### best-effort batches -/

theorem accepted_append (nameOK : String → Bool) (now rt : Int) (b₁ b₂ : List PostAlert) :
    accepted nameOK now rt (b₁ ++ b₂) = accepted nameOK now rt b₁ ++ accepted nameOK now rt b₂ := by
  simp [accepted, List.filterMap_append]

theorem accepted_invalid (nameOK : String → Bool) (now rt : Int) (p : PostAlert)
    (h : valid nameOK p (prepare now rt p) = false) : accepted nameOK now rt [p] = [] := by
  simp [accepted, h]

theorem accepted_valid (nameOK : String → Bool) (now rt : Int) (p : PostAlert)
    (h : valid nameOK p (prepare now rt p) = true) : accepted nameOK now rt [p] = [prepare now rt p] := by
  simp [accepted, h]

theorem accepted_length_le (nameOK : String → Bool) (now rt : Int) (b : List PostAlert) :
    (accepted nameOK now rt b).length ≤ b.length := by
  unfold accepted; exact List.length_filterMap_le _ _

/-- **batch_best_effort** (1): an invalid alert anywhere in a batch changes
    nothing about what is stored for the rest of the batch. -/
theorem batch_best_effort (nameOK : String → Bool) (now rt : Int) (s : Store) (b₁ b₂ : List PostAlert)
    (bad : PostAlert) (hbad : valid nameOK bad (prepare now rt bad) = false) :
    (post nameOK now rt s (b₁ ++ bad :: b₂)).1 = (post nameOK now rt s (b₁ ++ b₂)).1 ∧
    (post nameOK now rt s (b₁ ++ bad :: b₂)).2 = .badRequest := by
  have e : b₁ ++ bad :: b₂ = b₁ ++ ([bad] ++ b₂) := by simp
  constructor
  · simp only [post]
    rw [e, accepted_append, accepted_append, accepted_invalid _ _ _ _ hbad, accepted_append]
    simp
  · simp only [post]
    have h1 := accepted_length_le nameOK now rt b₁
    have h2 := accepted_length_le nameOK now rt b₂
    have : (accepted nameOK now rt (b₁ ++ bad :: b₂)).length ≠ (b₁ ++ bad :: b₂).length := by
      rw [e, accepted_append, accepted_append, accepted_invalid _ _ _ _ hbad]
      simp only [List.length_append, List.length_cons, List.length_nil, List.nil_append]
      omega
    exact if_neg this

theorem lookup_putAlert (now : Int) (s : Store) (a : Alert) (k : Labels) :
    lookup (s.putAlert now a) k = if a.labels = k then some (putValue now s a) else lookup s k := by
  unfold Store.putAlert; rw [lookup_put]

theorem putAll_isSome (now : Int) (as : List Alert) (s : Store) (k : Labels)
    (h : (lookup s k).isSome = true ∨ ∃ a ∈ as, a.labels = k) : (lookup (putAll now s as) k).isSome = true := by
  induction as generalizing s with
  | nil =>
    rcases h with h | ⟨a, ha, _⟩
    · simpa [putAll] using h
    · simp at ha
  | cons x as ih =>
    simp only [putAll, List.foldl_cons]
    apply ih
    by_cases hx : x.labels = k
    · left; rw [lookup_putAlert]; simp [hx]
    · rcases h with h | ⟨a, ha, hak⟩
      · left; rw [lookup_putAlert]; simp [hx, h]
      · rcases List.mem_cons.mp ha with rfl | ha'
        · exact absurd hak hx
        · right; exact ⟨a, ha', hak⟩

/-- **batch_best_effort** (2): every valid alert of a batch is stored, whatever
    else the batch holds; the answer is 200 exactly when all were valid. -/
theorem valid_alerts_are_stored (nameOK : String → Bool) (now rt : Int) (s : Store) (b : List PostAlert)
    (p : PostAlert) (hp : p ∈ b) (hv : valid nameOK p (prepare now rt p) = true) :
    (lookup (post nameOK now rt s b).1 (removeEmpty p.labels)).isSome = true := by
  simp only [post]
  apply putAll_isSome
  right
  refine ⟨prepare now rt p, ?_, (prepare_spec now rt p).1⟩
  unfold accepted
  exact List.mem_filterMap.mpr ⟨p, hp, by simp [hv]⟩

theorem post_ok_iff_all_valid (nameOK : String → Bool) (now rt : Int) (s : Store) (b : List PostAlert) :
    (post nameOK now rt s b).2 = .ok ↔ ∀ p ∈ b, valid nameOK p (prepare now rt p) = true := by
  simp only [post]
  induction b with
  | nil => simp [accepted]
  | cons p b ih =>
    have hle := accepted_length_le nameOK now rt b
    have e : p :: b = [p] ++ b := rfl
    rw [e, accepted_append]
    by_cases hv : valid nameOK p (prepare now rt p) = true
    · rw [accepted_valid _ _ _ _ hv]
      simp only [List.cons_append, List.nil_append, List.length_cons, List.mem_cons, forall_eq_or_imp, hv, true_and]
      rw [← ih]
      by_cases hl : (accepted nameOK now rt b).length = b.length <;> simp [hl]
    · have hv' : valid nameOK p (prepare now rt p) = false := by simpa using hv
      rw [accepted_invalid _ _ _ _ hv']
      simp only [List.nil_append, List.cons_append, List.length_cons, List.mem_cons, forall_eq_or_imp, hv']
      have : (accepted nameOK now rt b).length ≠ b.length + 1 := by omega
      simp [this]

/-! ### `Put`: merge and replace -/

theorem mergeYounger_start (now : Int) (a o : Alert) :
    (mergeYounger now a o).startsAt = min a.startsAt o.startsAt := by
  unfold mergeYounger
  by_cases h : a.startsAt < o.startsAt
  · simp [h]; omega
  · simp [h]; omega

theorem merge_start (now : Int) (a o : Alert) : (a.merge now o).startsAt = min a.startsAt o.startsAt := by
  unfold Alert.merge
  split
  · rw [mergeYounger_start]; omega
  · rw [mergeYounger_start]

theorem putValue_some (now : Int) (s : Store) (a old : Alert) (h : lookup s a.labels = some old) :
    putValue now s a = if overlaps old a = true then old.merge now a else a := by
  unfold putValue; rw [h]

theorem putValue_none (now : Int) (s : Store) (a : Alert) (h : lookup s a.labels = none) :
    putValue now s a = a := by
  unfold putValue; rw [h]

/-- **overlap_keeps_earliest_start.**  When the activity ranges of the stored and
    the submitted version overlap (`new.start < old.end ∧ old.start < new.end`), the
    stored start is the earlier of the two — in the merge branch of `Put` and in
    its replace branch alike.  Only the first half of the overlap condition is
    needed, so the statement proved is slightly stronger than DESIGN's. -/
theorem overlap_keeps_earliest_start (now : Int) (s : Store) (old new : Alert)
    (hold : lookup s new.labels = some old)
    (h1 : new.startsAt < old.endsAt) :
    (putValue now s new).startsAt = min old.startsAt new.startsAt := by
  rw [putValue_some now s new old hold]
  by_cases hov : overlaps old new = true
  · rw [if_pos hov]; exact merge_start now old new
  · rw [if_neg hov]
    unfold overlaps at hov
    simp only [Bool.or_eq_true, Bool.and_eq_true, decide_eq_true_eq, not_or, not_and] at hov
    omega

/-- **refire_after_end_starts_anew.**  A submission that starts at (or after) the
    very instant the stored alert ended does not overlap it: it is stored as it is,
    with its own start — the boundary instant belongs to the new episode (a group
    re-created for it gets a fresh `group_wait`). -/
theorem refire_after_end_starts_anew (now : Int) (s : Store) (old new : Alert)
    (hold : lookup s new.labels = some old)
    (h1 : old.endsAt ≤ new.startsAt) (h2 : new.startsAt ≤ new.endsAt) :
    putValue now s new = new := by
  rw [putValue_some now s new old hold]
  have hov : overlaps old new = false := by
    unfold overlaps
    simp only [Bool.or_eq_false_iff, Bool.and_eq_false_iff, decide_eq_false_iff_not]
    constructor
    · right; omega
    · right; omega
  simp [hov]

/-- **timeout_end_pushed_forward.**  A re-send without `endsAt` of an alert that
    was itself timing out moves the end to receive time + `resolve_timeout`; over
    an alert with an explicit end it never ends earlier than that. -/
theorem timeout_end_pushed_forward (now rt : Int) (s : Store) (old new : Alert)
    (hold : lookup s new.labels = some old) (hrt : 0 < rt)
    (hnew : new.timeout = true ∧ new.endsAt = now + rt ∧ new.updatedAt = now) (hupd : old.updatedAt ≤ now) :
    (old.timeout = true → (putValue now s new).endsAt = now + rt) ∧ now + rt ≤ (putValue now s new).endsAt := by
  obtain ⟨_, he, hu⟩ := hnew
  have hnr : new.resolvedAt now = false := by simp [Alert.resolvedAt, he]; omega
  rw [putValue_some now s new old hold]
  by_cases hov : overlaps old new = true
  · rw [if_pos hov]
    have hm : old.merge now new = mergeYounger now old new := by
      unfold Alert.merge
      have : ¬ new.updatedAt < old.updatedAt := by omega
      simp [this]
    rw [hm]
    unfold mergeYounger
    simp only [hnr]
    constructor
    · intro hto; simp [hto, he]
    · by_cases hc : old.endsAt > new.endsAt ∧ old.timeout = false
      · rw [if_pos hc]; have := hc.1; omega
      · rw [if_neg hc]; omega
  · rw [if_neg hov]; simp [he]

/-- **explicit_past_end_resolves.**  A submission whose explicit end is not
    after the receive time leaves the alert resolved at once, merged or not. -/
theorem explicit_past_end_resolves (now : Int) (s : Store) (new : Alert)
    (hend : new.endsAt ≤ now) (hupd : ∀ old, lookup s new.labels = some old → old.updatedAt ≤ new.updatedAt) :
    (putValue now s new).resolvedAt now = true := by
  have hnr : new.resolvedAt now = true := by simp [Alert.resolvedAt, hend]
  cases hold : lookup s new.labels with
  | none => rw [putValue_none now s new hold]; exact hnr
  | some old =>
    rw [putValue_some now s new old hold]
    by_cases hov : overlaps old new = true
    · rw [if_pos hov]
      have hm : old.merge now new = mergeYounger now old new := by
        unfold Alert.merge
        have := hupd old hold
        have : ¬ new.updatedAt < old.updatedAt := by omega
        simp [this]
      rw [hm]
      unfold mergeYounger
      simp only [hnr, if_true]
      by_cases hc : old.resolvedAt now = true ∧ old.endsAt > new.endsAt
      · simp only [hc, and_self, if_true]
        have := hc.1
        simp [Alert.resolvedAt] at this ⊢
        exact this
      · simp only [hc, if_false]
        simpa [Alert.resolvedAt] using hend
    · rw [if_neg hov]; exact hnr

/-- what `Put` stores carries the submitted label set, `UpdatedAt` and payload when
    the submission is the younger one. -/
theorem putValue_identity (now : Int) (s : Store) (new : Alert)
    (hupd : ∀ old, lookup s new.labels = some old → old.updatedAt ≤ new.updatedAt) :
    (putValue now s new).labels = new.labels ∧ (putValue now s new).updatedAt = new.updatedAt ∧
    (putValue now s new).payload = new.payload := by
  cases hold : lookup s new.labels with
  | none => rw [putValue_none now s new hold]; simp
  | some old =>
    rw [putValue_some now s new old hold]
    by_cases hov : overlaps old new = true
    · rw [if_pos hov]
      have : ¬ new.updatedAt < old.updatedAt := by have := hupd old hold; omega
      simp [Alert.merge, this, mergeYounger]
    · rw [if_neg hov]; simp

/-! ### reads and GC -/

/-- **get_returns_unexpired.**  GET lists exactly the stored alerts whose end has
    not passed (`EndsAt ≥ now`), each with the stored (merged) times. -/
theorem get_returns_unexpired (now : Int) (s : Store) (hnd : NoDupKeys s) (a : Alert) :
    a ∈ getAlerts now s ↔ (∃ k, lookup s k = some a) ∧ now ≤ a.endsAt := by
  unfold getAlerts visible
  rw [List.mem_filter, mem_vals_iff hnd]
  simp only [Bool.not_eq_true', decide_eq_false_iff_not, Int.not_lt]

/-- **get_filter_flags.**  The query flags of GET are three independent exclusions: an alert is listed iff
    it is not an excluded active one, AND not silenced while `silenced=false`, AND not inhibited while
    `inhibited=false` — an alert that is both silenced and inhibited is hidden by either flag. -/
theorem get_filter_flags (f : Flags) (nSil nInh : Nat) :
    passesFlags f nSil nInh = true ↔
      (f.active = true ∨ nSil ≠ 0 ∨ nInh ≠ 0) ∧ (f.silenced = true ∨ nSil = 0) ∧ (f.inhibited = true ∨ nInh = 0) := by
  obtain ⟨a, s, i⟩ := f
  by_cases h1 : nSil = 0 <;> by_cases h2 : nInh = 0 <;> cases a <;> cases s <;> cases i <;> simp [passesFlags, h1, h2]

theorem get_filter_flags_hides_inhibited (f : Flags) (nSil nInh : Nat) (hf : f.inhibited = false) (hi : nInh ≠ 0) :
    passesFlags f nSil nInh = false := by
  have := get_filter_flags f nSil nInh
  cases h : passesFlags f nSil nInh
  · rfl
  · have h' := this.mp h
    rcases h'.2.2 with h3 | h3
    · simp [hf] at h3
    · exact absurd h3 hi

theorem lookup_gc (now : Int) (s : Store) (hnd : NoDupKeys s) (k : Labels) :
    lookup (s.gc now) k =
      match lookup s k with
      | some a => if a.resolvedAt now then none else some a
      | none => none := by
  unfold Store.gc
  rw [lookup_filterVals _ _ hnd]
  cases lookup s k with
  | none => rfl
  | some a => by_cases h : a.resolvedAt now = true <;> simp [h]

/-- **gc_only_resolved.**  The garbage collection deletes an alert only if it is
    resolved at that instant, keeps every other alert unchanged, … -/
theorem gc_only_resolved (now : Int) (s : Store) (hnd : NoDupKeys s) (k : Labels) (a : Alert)
    (h : lookup s k = some a) :
    (a.endsAt ≤ now → lookup (s.gc now) k = none) ∧ (now < a.endsAt → lookup (s.gc now) k = some a) := by
  rw [lookup_gc now s hnd, h]
  constructor
  · intro hr; simp [Alert.resolvedAt, hr]
  · intro hr
    have : ¬ a.endsAt ≤ now := by omega
    simp [Alert.resolvedAt, this]

/-- … and a submission never removes or alters an alert with another label set. -/
theorem put_leaves_others (now : Int) (s : Store) (a : Alert) (k : Labels) (hk : a.labels ≠ k) :
    lookup (s.putAlert now a) k = lookup s k := by
  rw [lookup_putAlert]; simp [hk]

theorem noDupKeys_putAlert (now : Int) (s : Store) (a : Alert) (h : NoDupKeys s) : NoDupKeys (s.putAlert now a) :=
  noDupKeys_put _ _ _ h

theorem noDupKeys_gc (now : Int) (s : Store) (h : NoDupKeys s) : NoDupKeys (s.gc now) :=
  noDupKeys_filterVals _ _ h

/-! ### non-vacuity -/

example : valid (fun _ => true) { labels := [("a", "1")], startsAt := none, endsAt := none }
    (prepare 10 5 { labels := [("a", "1")], startsAt := none, endsAt := none }) = true := by decide

example : overlaps { labels := [], startsAt := 0, endsAt := 10, updatedAt := 0, timeout := false }
    { labels := [], startsAt := 5, endsAt := 20, updatedAt := 1, timeout := false } = true := by decide

end AM.Ingest
