/-
  C11 — Snapshots are atomic and lossless.

  Part 1 (format): varint framing round-trips; a whole state round-trips through
  `MarshalBinary`/`decodeState` for any number of records; every proper prefix
  of a snapshot is rejected or is itself a whole number of records.
  Part 2 (crash): for EVERY crash point of the snapshot's operation sequence,
  every number of persisted directory operations and every amount of unsynced
  data kept, the target path holds a complete earlier snapshot or the complete
  new one; under "rename durable on return" it is the last completed or the one
  in progress.
  Part 3: the loader therefore never refuses a file the process wrote itself —
  with the exception found on the pinned tree (`oversize_record_refused`): a
  record larger than protodelim's 4 MiB default is written but not read back.
-/
import AM.Lemmas.Decode
import AM.Lemmas.CrashRead
import AM.Lemmas.CrashHist

namespace AM.Snapshot

/-! ## Part 1 — the format -/

/-- **decode_encode.** Writing a state and loading it back yields exactly the
    stored messages, in order, for any number of records (hypothesis `Good`:
    the trusted field codec round-trips each message, each record fits
    protodelim's size limit). -/
theorem decode_encode {M} (c : Codec M) (maxSize : Nat) (ms : List M)
    (hg : ∀ m ∈ ms, Good c maxSize m) :
    decodeState c maxSize (encodeState c ms) = .ok ms := by
  unfold decodeState
  rw [decodeLoop_encode c maxSize ms hg [] _ (Nat.lt_succ_self _)]
  simp

/-- **decode_truncated.** A proper prefix of a valid snapshot is rejected, or it
    is itself the encoding of the first `k` records and loads as exactly those. -/
theorem decode_truncated {M} (c : Codec M) (maxSize : Nat) (ms : List M)
    (hg : ∀ m ∈ ms, Good c maxSize m) (p s : Bytes) (h : encodeState c ms = p ++ s) (hs : s ≠ []) :
    decodeState c maxSize p = .error ∨
    ∃ k, k < ms.length ∧ p = encodeState c (ms.take k) ∧ decodeState c maxSize p = .ok (ms.take k) := by
  unfold decodeState
  rcases decodeLoop_prefix c maxSize ms hg [] (p.length + 1) p s h (Nat.lt_succ_self _) with he | ⟨k, hk, hp, hr⟩
  · left; exact he
  · right
    refine ⟨k, ?_, hp, by simpa using hr⟩
    rcases Nat.lt_or_ge k ms.length with hlt | hge
    · exact hlt
    · exfalso
      rw [List.take_of_length_le hge] at hp
      rw [← hp] at h
      have : s = [] := by simpa using h
      exact hs this

/-- never `ErrInvalidState`, never a mix: a prefix that loads, loads as a prefix of the records -/
theorem decode_prefix_never_invalid {M} (c : Codec M) (maxSize : Nat) (ms : List M)
    (hg : ∀ m ∈ ms, Good c maxSize m) (p s : Bytes) (h : encodeState c ms = p ++ s) :
    decodeState c maxSize p ≠ .invalid := by
  unfold decodeState
  rcases decodeLoop_prefix c maxSize ms hg [] (p.length + 1) p s h (Nat.lt_succ_self _) with he | ⟨k, _, _, hr⟩
  · rw [he]; intro h; cases h
  · rw [hr]; intro h; cases h

/-! ### the silence message: marshalling preparation and legacy upgrade -/

/-- in-memory silences never carry the legacy fields -/
def Sil.Modern {Mt} (s : Sil Mt) : Prop := s.matchers = [] ∧ s.comments = []

/-- `postprocessUnmarshalledSilence ∘ prepareSilenceForMarshalling = id` on stored silences
    (any number of matcher sets, including none). -/
theorem sil_post_prepare {Mt} (s : Sil Mt) (h : s.Modern) : s.prepare.postprocess = s := by
  obtain ⟨hm, _⟩ := h
  cases s with
  | mk id matchers sets comments cb cm rest =>
    simp only at hm
    subst hm
    cases sets with
    | nil => simp [Sil.prepare, Sil.postprocess]
    | cons a l => simp [Sil.prepare, Sil.postprocess]

/-- the legacy single-matcher-list format is upgraded to one matcher set -/
theorem sil_legacy_upgrade {Mt} (s : Sil Mt) (h : s.matcherSets = []) (hm : s.matchers ≠ []) :
    s.postprocess = { s with matcherSets := [s.matchers], matchers := [] } := by
  unfold Sil.postprocess
  have : ¬ s.matchers.isEmpty := by simpa using hm
  simp [h, this]

/-- the upgrade keeps every matcher and loses nothing else -/
theorem sil_postprocess_fields {Mt} (s : Sil Mt) :
    s.postprocess.id = s.id ∧ s.postprocess.comment = s.comment ∧ s.postprocess.createdBy = s.createdBy ∧
    s.postprocess.rest = s.rest ∧ s.postprocess.comments = s.comments ∧ s.postprocess.matchers = [] ∧
    (s.matcherSets ≠ [] → s.postprocess.matcherSets = s.matcherSets) := by
  unfold Sil.postprocess
  split
  · rename_i h
    refine ⟨rfl, rfl, rfl, rfl, rfl, rfl, ?_⟩
    intro h2; have := h.1; simp at this; exact absurd this h2
  · exact ⟨rfl, rfl, rfl, rfl, rfl, rfl, fun _ => rfl⟩

/-- The codec instance of the silence store. -/
def silCodec {Mt} (enc : Sil Mt → Bytes) (dec : Bytes → Option (Sil Mt)) : Codec (Sil Mt) where
  encodeMsg := enc
  decodeMsg := dec
  valid := fun _ => true
  pre := Sil.prepare
  post := Sil.postprocess

/-- `decode_encode` for silences with multiple matcher sets: stated for the
    concrete pre/post-processing of silence.go. -/
theorem sil_decode_encode {Mt} (enc : Sil Mt → Bytes) (dec : Bytes → Option (Sil Mt)) (maxSize : Nat)
    (ms : List (Sil Mt))
    (hcodec : ∀ s, dec (enc s) = some s)
    (hmod : ∀ s ∈ ms, s.Modern)
    (hsize : ∀ s ∈ ms, (enc s.prepare).length ≤ maxSize ∧ (enc s.prepare).length < 2 ^ 64) :
    decodeState (silCodec enc dec) maxSize (encodeState (silCodec enc dec) ms) = .ok ms := by
  apply decode_encode
  intro s hs
  exact { codec := hcodec _, valid := rfl, post := sil_post_prepare s (hmod s hs),
          size := (hsize s hs).1, u64 := (hsize s hs).2 }

end AM.Snapshot

namespace AM.CrashFS
open AM.Snapshot

/-! ## Part 2 — crashes -/

/-- What is known about the target before a snapshot starts:
    `weak`: in every crash state the target reads something in `Q` (the complete
    snapshots so far, or "absent" before the first one);
    `strong`: with all directory operations persisted it reads `last`. -/
structure Inv (fs : FS) (target : String) (Q : Option Bytes → Prop) (last : Option Bytes) : Prop where
  wf : TargetWF fs target
  weak : ∀ j m, Q (crashRead fs j m target)
  strong : ∀ j m, fs.log.length ≤ j → crashRead fs j m target = last

/-- **crash_any_point_loads_old_or_new.**  For EVERY crash point `i` of the
    operation sequence of a snapshot, every number `j` of persisted directory
    operations (the ordered-metadata model; `j ≥ log.length` is "rename durable
    on return") and every number `m` of unsynced bytes kept, the target path
    holds a complete earlier snapshot (`Q`) or the complete new one — never a
    torn or mixed file; and when all executed directory operations are
    persisted it is the last completed snapshot or the new one. -/
theorem crash_any_point_loads_old_or_new (fs0 : FS) (tmp target : String) (trunc : Bool) (chunks : List Bytes)
    (Q : Option Bytes → Prop) (last : Option Bytes)
    (hne : tmp ≠ target) (hfresh : fs0.dirNow.get tmp = none) (hinv : Inv fs0 target Q last)
    (i j m : Nat) :
    let fs := run fs0 ((snapshotOps tmp trunc target chunks).take i)
    let r := crashRead fs j m target
    (Q r ∨ r = some chunks.flatten) ∧ (fs.log.length ≤ j → r = last ∨ r = some chunks.flatten) := by
  intro fs r
  rcases crash_point_cases fs0 tmp target trunc chunks hne hfresh hinv.wf i j m with ⟨j', hj', hr⟩ | hr
  · refine ⟨Or.inl ?_, fun hj => Or.inl ?_⟩
    · show Q (crashRead fs j m target)
      rw [hr]; exact hinv.weak j' m
    · show crashRead fs j m target = last
      rw [hr]; exact hinv.strong j' m (hj' hj)
  · exact ⟨Or.inr hr, fun _ => Or.inr hr⟩

/-- a completed snapshot re-establishes the invariant with the new content as `last` -/
theorem snapshot_preserves (fs0 : FS) (tmp target : String) (trunc : Bool) (chunks : List Bytes)
    (Q : Option Bytes → Prop) (last : Option Bytes)
    (hne : tmp ≠ target) (hfresh : fs0.dirNow.get tmp = none) (hinv : Inv fs0 target Q last) :
    Inv (run fs0 (snapshotOps tmp trunc target chunks)) target (fun r => Q r ∨ r = some chunks.flatten)
      (some chunks.flatten) := by
  obtain ⟨hwf, hstrong, _⟩ := after_snapshot fs0 tmp target trunc chunks hne hfresh hinv.wf
  refine ⟨hwf, ?_, hstrong⟩
  intro j m
  have := (crash_any_point_loads_old_or_new fs0 tmp target trunc chunks Q last hne hfresh hinv
            (snapshotOps tmp trunc target chunks).length j m).1
  simpa using this

/-- a whole history of completed maintenance / shutdown snapshots (open flag `trunc`, whatever it is) -/
def runAll (trunc : Bool) (fs : FS) (target : String) : List (String × List Bytes) → FS
  | [] => fs
  | (tmp, chunks) :: rest => runAll trunc (run fs (snapshotOps tmp trunc target chunks)) target rest

def lastOf (last : Option Bytes) : List (String × List Bytes) → Option Bytes
  | [] => last
  | (_, chunks) :: rest => lastOf (some chunks.flatten) rest

theorem history_inv (trunc : Bool) (target : String) (snaps : List (String × List Bytes)) :
    ∀ (fs0 : FS) (Q : Option Bytes → Prop) (last : Option Bytes),
    (∀ s ∈ snaps, s.1 ≠ target ∧ fs0.dirNow.get s.1 = none) → Inv fs0 target Q last →
    Inv (runAll trunc fs0 target snaps) target (fun r => Q r ∨ ∃ s ∈ snaps, r = some s.2.flatten) (lastOf last snaps) ∧
    (∀ q, q ≠ target → fs0.dirNow.get q = none → (runAll trunc fs0 target snaps).dirNow.get q = none) := by
  induction snaps with
  | nil =>
    intro fs0 Q last _ hinv
    refine ⟨⟨hinv.wf, fun j m => Or.inl (hinv.weak j m), hinv.strong⟩, fun q _ h => h⟩
  | cons s snaps ih =>
    intro fs0 Q last hfresh hinv
    obtain ⟨tmp, chunks⟩ := s
    have h1 := hfresh (tmp, chunks) (by simp)
    have hpres := snapshot_preserves fs0 tmp target trunc chunks Q last h1.1 h1.2 hinv
    obtain ⟨_, _, hkeep⟩ := after_snapshot fs0 tmp target trunc chunks h1.1 h1.2 hinv.wf
    have hfresh' : ∀ s ∈ snaps, s.1 ≠ target ∧
        (run fs0 (snapshotOps tmp trunc target chunks)).dirNow.get s.1 = none := by
      intro s hs
      have := hfresh s (by simp [hs])
      exact ⟨this.1, hkeep s.1 this.1 this.2⟩
    obtain ⟨hI, hK⟩ := ih _ _ _ hfresh' hpres
    refine ⟨⟨hI.wf, ?_, hI.strong⟩, ?_⟩
    · intro j m
      rcases hI.weak j m with (h | h) | ⟨s, hs, h⟩
      · exact Or.inl h
      · exact Or.inr ⟨(tmp, chunks), by simp, h⟩
      · exact Or.inr ⟨s, by simp [hs], h⟩
    · intro q hq h0
      exact hK q hq (hkeep q hq h0)

/-- **crash_history.**  After any number of completed snapshots, a crash at any
    point of the next one leaves — ordered-metadata model — the complete content
    of *some* completed snapshot (or what was there before the first) or of the
    one in progress; under "rename durable on return" exactly the last completed
    one or the one in progress. -/
theorem crash_history (trunc : Bool) (fs0 : FS) (target : String) (done : List (String × List Bytes))
    (tmp : String) (chunks : List Bytes) (Q : Option Bytes → Prop) (last : Option Bytes)
    (hinv : Inv fs0 target Q last)
    (hfresh : ∀ s ∈ (tmp, chunks) :: done, s.1 ≠ target ∧ fs0.dirNow.get s.1 = none)
    (i j m : Nat) :
    let fs := run (runAll trunc fs0 target done) ((snapshotOps tmp trunc target chunks).take i)
    let r := crashRead fs j m target
    (Q r ∨ (∃ s ∈ done, r = some s.2.flatten) ∨ r = some chunks.flatten) ∧
    (fs.log.length ≤ j → r = lastOf last done ∨ r = some chunks.flatten) := by
  intro fs r
  obtain ⟨hI, hK⟩ := history_inv trunc target done fs0 Q last (fun s hs => hfresh s (by simp [hs])) hinv
  have h1 := hfresh (tmp, chunks) (by simp)
  have := crash_any_point_loads_old_or_new (runAll trunc fs0 target done) tmp target trunc chunks _ _
    h1.1 (hK tmp h1.1 h1.2) hI i j m
  obtain ⟨ha, hb⟩ := this
  refine ⟨?_, hb⟩
  rcases ha with (h | h) | h
  · exact Or.inl h
  · exact Or.inr (Or.inl h)
  · exact Or.inr (Or.inr h)

/-- a freshly booted disk: the target holds `old` durably, or does not exist -/
def initial (target : String) (old : Option Bytes) : FS :=
  match old with
  | some o => { inodes := [⟨o, o.length⟩], dir0 := [(target, 0)] }
  | none => {}

theorem initial_inv (target : String) (old : Option Bytes) :
    Inv (initial target old) target (fun r => r = old) old := by
  cases old with
  | none =>
    refine ⟨?_, ?_, ?_⟩
    · intro j id h; simp [initial, FS.dirAt, Dir.get] at h
    · intro j m; simp [initial, crashRead, FS.dirAt, Dir.get]
    · intro j m _; simp [initial, crashRead, FS.dirAt, Dir.get]
  | some o =>
    refine ⟨?_, ?_, ?_⟩
    · intro j id h
      simp [initial, FS.dirAt, Dir.get] at h
      simp [initial]; omega
    · intro j m; simp [initial, crashRead, FS.dirAt, Dir.get, List.take_of_length_le]
    · intro j m _; simp [initial, crashRead, FS.dirAt, Dir.get, List.take_of_length_le]

/-- the statement in its plainest form: one snapshot over a settled disk -/
theorem crash_old_or_new (target tmp : String) (trunc : Bool) (old : Option Bytes) (chunks : List Bytes)
    (hne : tmp ≠ target) (i j m : Nat) :
    crashRead (run (initial target old) ((snapshotOps tmp trunc target chunks).take i)) j m target = old ∨
    crashRead (run (initial target old) ((snapshotOps tmp trunc target chunks).take i)) j m target = some chunks.flatten := by
  have hfresh : (initial target old).dirNow.get tmp = none := by
    cases old <;> simp [initial, FS.dirNow, Dir.get, Ne.symm hne]
  exact (crash_any_point_loads_old_or_new _ tmp target trunc chunks _ _ hne hfresh (initial_inv target old) i j m).1

/-! ### histories in which attempts CRASH: their temp files stay on the disk -/

/-- The discipline the argument needs of every attempt of a history, evaluated
    in the state the attempt starts in: the temp name is not the target, and the
    temp file is empty when written — the open truncates (`O_TRUNC`, what
    `os.Create` does) OR the name does not exist at that moment. -/
def HistOK (F : String) : FS → List Attempt → Prop
  | _, [] => True
  | fs, a :: rest =>
    a.tmp ≠ F ∧ (a.trunc = true ∨ fs.dirNow.get a.tmp = none) ∧ HistOK F (runAttempt F fs a) rest

/-- the driver evaluates the discipline with `histOKb` -/
theorem histOKb_iff (F : String) (as : List Attempt) : ∀ fs, histOKb F fs as = true ↔ HistOK F fs as := by
  induction as with
  | nil => intro fs; simp [histOKb, HistOK]
  | cons a as ih =>
    intro fs
    simp only [histOKb, HistOK, Bool.and_eq_true, Bool.or_eq_true, bne_iff_ne, ne_eq, ih, Option.isNone_iff_eq_none]
    constructor
    · rintro ⟨⟨h1, h2⟩, h3⟩; exact ⟨h1, h2, h3⟩
    · rintro ⟨h1, h2, h3⟩; exact ⟨⟨h1, h2⟩, h3⟩

theorem runAttempt_inv {fs : FS} {F : String} {Q : Option Bytes → Prop} (h : HInv fs F Q) (a : Attempt)
    (hne : a.tmp ≠ F) (hopen : a.trunc = true ∨ fs.dirNow.get a.tmp = none) :
    HInv (runAttempt F fs a) F (fun r => Q r ∨ r = some a.chunks.flatten) := by
  unfold runAttempt
  cases hc : a.crash with
  | none =>
    have := HInv_attempt_point h a.tmp hne a.trunc hopen a.chunks (snapshotOps a.tmp a.trunc F a.chunks).length
    simpa using this
  | some c =>
    obtain ⟨i, j, ms⟩ := c
    exact (HInv_attempt_point h a.tmp hne a.trunc hopen a.chunks i).crashFS j ms

theorem runHist_inv (F : String) (as : List Attempt) :
    ∀ (fs : FS) (Q : Option Bytes → Prop), HInv fs F Q → HistOK F fs as →
      HInv (runHist F fs as) F (fun r => Q r ∨ ∃ a ∈ as, r = some a.chunks.flatten) := by
  induction as with
  | nil =>
    intro fs Q h _
    exact h.mono fun r hr => Or.inl hr
  | cons a as ih =>
    intro fs Q h hok
    obtain ⟨hne, hopen, hrest⟩ := hok
    have h1 := runAttempt_inv h a hne hopen
    have h2 := ih _ _ h1 hrest
    simp only [runHist, List.foldl_cons] at h2 ⊢
    refine h2.mono ?_
    intro r hr
    rcases hr with (hq | hq) | ⟨b, hb, hq⟩
    · exact Or.inl hq
    · exact Or.inr ⟨a, by simp, hq⟩
    · exact Or.inr ⟨b, by simp [hb], hq⟩

theorem initial_HInv (F : String) (old : Option Bytes) : HInv (initial F old) F (fun r => r = old) := by
  cases old with
  | none =>
    refine ⟨?_, ?_, ?_, ?_⟩
    · intro j p id h; simp [initial, FS.dirAt, Dir.get] at h
    · intro j p q id h; simp [initial, FS.dirAt, Dir.get] at h
    · intro j id p h; simp [initial, FS.dirAt, Dir.get] at h
    · intro j m; simp [initial, crashRead, FS.dirAt, Dir.get]
  | some o =>
    refine ⟨?_, ?_, ?_, ?_⟩
    · intro j p id h
      simp [initial, FS.dirAt, Dir.get] at h
      simp [initial]; omega
    · intro j p q id hp hq
      simp [initial, FS.dirAt, Dir.get] at hp hq
      rw [← hp.1, ← hq.1]
    · intro j id p hF hne hp
      simp [initial, FS.dirNow, Dir.get] at hp
      exact hne hp.1.symm
    · intro j m; simp [initial, crashRead, FS.dirAt, Dir.get, List.take_of_length_le]

/-- **crashed_attempts_history.**  Over a data directory that starts with a
    complete snapshot (or none), run ANY history of snapshot attempts, each of
    which may complete or crash at any point `(i, j, ms)` — the machine then
    restarts on what reached the disk, temp file of the interrupted attempt
    included.  If every attempt keeps the discipline `HistOK` (temp name ≠
    target; truncating open or a name that does not exist), then in every crash
    state of the end of the history the target holds what was there at the start
    or the COMPLETE content of ONE attempt: never a torn file, never a mix of two
    states.  (A crash during the last attempt is a history whose last attempt
    has `crash = some …`.) -/
theorem crashed_attempts_history (F : String) (old : Option Bytes) (as : List Attempt)
    (hok : HistOK F (initial F old) as) (j m : Nat) :
    crashRead (runHist F (initial F old) as) j m F = old ∨
    ∃ a ∈ as, crashRead (runHist F (initial F old) as) j m F = some a.chunks.flatten :=
  (runHist_inv F as _ _ (initial_HInv F old) hok).weak j m

/-- the code as it is opens the temp file with `os.Create` = `O_TRUNC`: the
    discipline holds whatever names the attempts use (even one fixed name) -/
theorem histOK_of_trunc (F : String) (as : List Attempt) (h : ∀ a ∈ as, a.tmp ≠ F ∧ a.trunc = true) :
    ∀ fs, HistOK F fs as := by
  induction as with
  | nil => intro fs; trivial
  | cons a as ih =>
    intro fs
    exact ⟨(h a (by simp)).1, Or.inl (h a (by simp)).2, ih (fun b hb => h b (by simp [hb])) _⟩

theorem crashed_attempts_history_trunc (F : String) (old : Option Bytes) (as : List Attempt)
    (h : ∀ a ∈ as, a.tmp ≠ F ∧ a.trunc = true) (j m : Nat) :
    crashRead (runHist F (initial F old) as) j m F = old ∨
    ∃ a ∈ as, crashRead (runHist F (initial F old) as) j m F = some a.chunks.flatten :=
  crashed_attempts_history F old as (histOK_of_trunc F as h _) j m

/-- **Without the discipline the statement is false.**  One fixed temp name
    opened WITHOUT `O_TRUNC`: an attempt writing `[2,3,4,5]` crashes after its
    write (the link and the four bytes reached the disk); the next attempt
    writes the shorter `[9]` over the stale file, syncs, renames — and the
    completed snapshot reads `[9,3,4,5]`: a mix of two states. -/
theorem stale_temp_without_trunc_mixed :
    crashRead (runHist "f" (initial "f" (some [1, 1]))
      [{ tmp := "t", trunc := false, chunks := [[2, 3, 4, 5]], crash := some (2, 1, fun _ => 4) },
       { tmp := "t", trunc := false, chunks := [[9]] }]) 1 0 "f" = some [9, 3, 4, 5] := by decide

/-- … with `O_TRUNC` on the same fixed name the same history is clean -/
theorem stale_temp_with_trunc_clean :
    crashRead (runHist "f" (initial "f" (some [1, 1]))
      [{ tmp := "t", trunc := true, chunks := [[2, 3, 4, 5]], crash := some (2, 1, fun _ => 4) },
       { tmp := "t", trunc := true, chunks := [[9]] }]) 1 0 "f" = some [9] := by decide

/-- … and so is a fresh name per attempt without `O_TRUNC` -/
theorem stale_temp_fresh_name_clean :
    crashRead (runHist "f" (initial "f" (some [1, 1]))
      [{ tmp := "t1", trunc := false, chunks := [[2, 3, 4, 5]], crash := some (2, 1, fun _ => 4) },
       { tmp := "t2", trunc := false, chunks := [[9]] }]) 2 0 "f" = some [9] := by decide

/-! ### the order matters: the same model condemns the obvious wrong orders -/

/-- rename before fsync: a crash after the rename keeps an arbitrary prefix of the new file -/
theorem rename_before_fsync_torn :
    crashRead (run (initial "f" (some [1, 1])) [.create "t" true, .write [2, 3, 4], .rename "t" "f"]) 2 1 "f"
      = some [2] := by decide

/-- fsync dropped: the same, even after the run has finished -/
theorem no_fsync_torn :
    crashRead (run (initial "f" (some [1, 1])) [.create "t" true, .write [2, 3, 4], .close, .rename "t" "f"]) 2 0 "f"
      = some [] := by decide

/-- writing the target in place: a crash right after the open has lost the old snapshot -/
theorem in_place_torn :
    crashRead (run (initial "f" (some [1, 1])) [.create "f" true]) 0 0 "f" = some [] := by decide

/-! ## Part 3 — the loader and its own files -/

/-- **never_refuses_own_file (partial).**  Whatever the crash point, the file at
    the target path — if there is one — decodes without error to the complete old
    or the complete new state.  Hypothesis `Good` contains the restriction that
    makes this partial: every record fits protodelim's `MaxSize`. -/
theorem never_refuses_own_file_partial {M} (c : Codec M) (maxSize : Nat)
    (target tmp : String) (trunc : Bool) (oldS newS : List M) (chunks : List Bytes)
    (hold : ∀ m ∈ oldS, Good c maxSize m) (hnew : ∀ m ∈ newS, Good c maxSize m)
    (hchunks : chunks.flatten = encodeState c newS)
    (hne : tmp ≠ target) (i j m : Nat) :
    match crashRead (run (initial target (some (encodeState c oldS)))
            ((snapshotOps tmp trunc target chunks).take i)) j m target with
    | none => False
    | some bytes => decodeState c maxSize bytes = .ok oldS ∨ decodeState c maxSize bytes = .ok newS := by
  rcases crash_old_or_new target tmp trunc (some (encodeState c oldS)) chunks hne i j m with h | h
  · rw [h]; left; exact decode_encode c maxSize oldS hold
  · rw [h, hchunks]; right; exact decode_encode c maxSize newS hnew

/-- the same with the bound of the code as it is spelled out: `decodeState` reads with
    protodelim's default `MaxSize` = 4 MiB = 4194304 bytes, so the hypothesis is "every
    record of the old and of the new state is at most 4194304 bytes long" — exactly the
    complement of finding F9 (class `oversize-record-over-4MiB`). -/
theorem never_refuses_own_file_partial_4MiB {M} (c : Codec M)
    (target tmp : String) (trunc : Bool) (oldS newS : List M) (chunks : List Bytes)
    (hcodec : ∀ m ∈ oldS ++ newS, c.decodeMsg (c.encodeMsg (c.pre m)) = some (c.pre m) ∧ c.valid (c.pre m) = true ∧
      c.post (c.pre m) = m)
    (hsize : ∀ m ∈ oldS ++ newS, (c.encodeMsg (c.pre m)).length ≤ 4194304)
    (hchunks : chunks.flatten = encodeState c newS)
    (hne : tmp ≠ target) (i j m : Nat) :
    match crashRead (run (initial target (some (encodeState c oldS)))
            ((snapshotOps tmp trunc target chunks).take i)) j m target with
    | none => False
    | some bytes => decodeState c 4194304 bytes = .ok oldS ∨ decodeState c 4194304 bytes = .ok newS := by
  have good : ∀ m ∈ oldS ++ newS, Good c 4194304 m := fun m hm =>
    { codec := (hcodec m hm).1, valid := (hcodec m hm).2.1, post := (hcodec m hm).2.2, size := hsize m hm,
      u64 := Nat.lt_of_le_of_lt (hsize m hm) (by decide) }
  exact never_refuses_own_file_partial c 4194304 target tmp trunc oldS newS chunks
    (fun m hm => good m (by simp [hm])) (fun m hm => good m (by simp [hm])) hchunks hne i j m

/-- first start: no file, or the complete new state -/
theorem never_refuses_first_snapshot {M} (c : Codec M) (maxSize : Nat)
    (target tmp : String) (trunc : Bool) (newS : List M) (chunks : List Bytes)
    (hnew : ∀ m ∈ newS, Good c maxSize m)
    (hchunks : chunks.flatten = encodeState c newS)
    (hne : tmp ≠ target) (i j m : Nat) :
    match crashRead (run (initial target none) ((snapshotOps tmp trunc target chunks).take i)) j m target with
    | none => True
    | some bytes => decodeState c maxSize bytes = .ok newS := by
  rcases crash_old_or_new target tmp trunc none chunks hne i j m with h | h
  · rw [h]; trivial
  · rw [h, hchunks]; exact decode_encode c maxSize newS hnew

/-- a toy codec for the counterexample: a message is its own payload -/
def rawCodec : Codec Bytes where
  encodeMsg := id
  decodeMsg := some
  valid := fun _ => true
  pre := id
  post := id

/-- **The full-strength statement is false of the code as it is (finding F9).**
    `state.MarshalBinary` writes a record whatever its size, `decodeState` reads
    with protodelim's default `MaxSize`: a record one byte over the limit is
    refused by the loader that wrote it.  (Limit 2 here; 4 MiB in the code.) -/
theorem oversize_record_refused :
    decodeState rawCodec 2 (encodeState rawCodec [[7, 7, 7]]) = .error := by
  have : encodeState rawCodec [[7, 7, 7]] = [3, 7, 7, 7] := by
    simp [encodeState, encodeRecord, rawCodec, encodeVarint_small]
  rw [this]; decide

/-- The bound is tight at every limit: ANY record whose payload is longer than
    the reader's `MaxSize` is refused by the loader, although the writer emitted
    it (4 MiB = protodelim's default in the code as it is, finding F9; a smaller
    read-side limit refuses correspondingly more of what the store writes). -/
theorem oversize_record_refused_any (maxSize : Nat) (p : Bytes) (h : maxSize < p.length) (hu : p.length < 2 ^ 64) :
    decodeState rawCodec maxSize (encodeState rawCodec [p]) = .error := by
  have henc : encodeState rawCodec [p] = encodeRecord p := by simp [encodeState, rawCodec]
  rw [henc]
  unfold decodeState
  rw [decodeLoop]
  have hr : readRecord maxSize (encodeRecord p) = .err := by
    rw [readRecord_ne_nil _ _ (encodeRecord_ne_nil p)]
    unfold encodeRecord
    rw [varint_roundtrip _ _ hu]
    simp [h]
  rw [hr]

/-- … while the same record within the limit loads -/
example : decodeState rawCodec 3 (encodeState rawCodec [[7, 7, 7]]) = .ok [[7, 7, 7]] := by
  have : encodeState rawCodec [[7, 7, 7]] = [3, 7, 7, 7] := by
    simp [encodeState, encodeRecord, rawCodec, encodeVarint_small]
  rw [this]; decide

/-- Whatever is computed from the loaded state (muting verdicts, the dedup
    decision) equals what is computed from the state that was written. -/
theorem restart_keeps_muting_and_dedup {M β} (c : Codec M) (maxSize : Nat) (ms : List M)
    (hg : ∀ m ∈ ms, Good c maxSize m) (observe : List M → β) :
    (match decodeState c maxSize (encodeState c ms) with
     | .ok loaded => some (observe loaded)
     | _ => none) = some (observe ms) := by
  rw [decode_encode c maxSize ms hg]

/-! ### the content of a snapshot is ONE state of the store -/

/-- `Silences.Snapshot` / `Log.Snapshot` serialise under the store's lock, from the first entry to the
    last: the bytes are the encoding of the state at one index `i` of the history of states the store
    went through while the snapshot ran.  What a restart loads is then that very state — a state the
    store was in, never a mixture of two (an edit that expires a silence and creates its replacement
    is in the file with both halves or with neither). -/
theorem snapshot_loads_one_state {M} (c : Codec M) (maxSize : Nat) (hist : List (List M)) (i : Nat)
    (h : i < hist.length) (hg : ∀ m ∈ hist[i], Good c maxSize m) :
    ∃ s ∈ hist, decodeState c maxSize (encodeState c hist[i]) = .ok s :=
  ⟨hist[i], List.getElem_mem h, decode_encode c maxSize _ hg⟩

/-- negative model: a "streaming" snapshot that reads the list of ids at one instant and every entry
    at a later one (the lock is released in between) -/
def streamSnapshot {K M} [DecidableEq K] (ids : List K) (later : List (K × M)) : List (K × M) :=
  ids.filterMap fun k => later.find? (·.1 = k)

/-- … writes a state the store never was in: silence 1 is active (`true`), then an edit replaces it
    (1 expired, 2 active); the streamed snapshot holds 1 expired and no 2. -/
theorem streaming_snapshot_mixed :
    streamSnapshot ([(1, true)].map (·.1)) [(1, false), (2, true)] ∉ [[(1, true)], [(1, false), (2, true)]] := by
  decide

/-- **never_refuses_own_file (partial), over histories with crashed attempts
    and with the bound spelled out**: every record of every state that was ever
    serialised is at most 4 MiB = 4194304 bytes long (`Good … defaultMaxSize`,
    the limit `decodeState` reads with).  Then whatever the crash points of the
    history, the file at the target path decodes to the complete state the
    directory started with or to the complete state of ONE attempt. -/
theorem history_never_refuses_own_file_partial {M} (c : Codec M) (F : String) (oldS : List M)
    (as : List Attempt) (st : Attempt → List M)
    (hold : ∀ m ∈ oldS, Good c defaultMaxSize m)
    (hst : ∀ a ∈ as, a.chunks.flatten = encodeState c (st a) ∧ ∀ m ∈ st a, Good c defaultMaxSize m)
    (hok : HistOK F (initial F (some (encodeState c oldS))) as) (j m : Nat) :
    match crashRead (runHist F (initial F (some (encodeState c oldS))) as) j m F with
    | none => False
    | some bytes =>
      decodeState c defaultMaxSize bytes = .ok oldS ∨ ∃ a ∈ as, decodeState c defaultMaxSize bytes = .ok (st a) := by
  rcases crashed_attempts_history F (some (encodeState c oldS)) as hok j m with h | ⟨a, ha, h⟩
  · rw [h]; left; exact decode_encode c defaultMaxSize oldS hold
  · rw [h, (hst a ha).1]; right
    exact ⟨a, ha, decode_encode c defaultMaxSize (st a) (hst a ha).2⟩

/-- the bound of the partial theorems, in figures -/
theorem good_size_is_4MiB {M} (c : Codec M) (m : M) (g : Good c defaultMaxSize m) :
    (c.encodeMsg (c.pre m)).length ≤ 4194304 := g.size

/-! ### non-vacuity -/

example : Good rawCodec defaultMaxSize [1, 2, 3] :=
  { codec := rfl, valid := rfl, post := rfl, size := by decide, u64 := by decide }

example : Inv (initial "nflog" (some [3, 1, 2, 3])) "nflog" (fun r => r = some [3, 1, 2, 3]) (some [3, 1, 2, 3]) :=
  initial_inv _ _

example : (crashPoints true (initial "f" (some [1])) (snapshotOps "t" true "f" [[2, 3]])).length = 16 := by decide

end AM.CrashFS
