/-
  C04 — Notify only on change or after repeat_interval; repeats arrive on time.

  Theorems about `AM.Dedup` (needsUpdate + retry short-cut + set-notifies on top
  of the C10 log model), for ALL histories of flushes and log GCs of one
  (group, integration).
-/
import AM.Model.Dedup
import AM.Props.C10

namespace AM.Dedup
open AM AM.AList AM.Nflog

/-! ### the decision function against the property's disjuncts -/

theorem subset_false_iff (a b : List Nat) : subset a b = false ↔ ∃ x ∈ a, x ∉ b := by
  unfold subset
  induction a with
  | nil => simp
  | cons x xs ih =>
    simp only [List.all_cons, Bool.and_eq_false_iff, ih, List.mem_cons, exists_eq_or_imp]
    simp

theorem subset_true_iff (a b : List Nat) : subset a b = true ↔ ∀ x ∈ a, x ∈ b := by
  unfold subset; simp

/-- What the property allows as a cause, relative to the log entry consulted. -/
def Cause (entry : Option Entry) (firing resolved : List Nat) (sr : Bool) (rep now : Int) : Prop :=
  match entry with
  | none => firing ≠ []
  | some e =>
      (∃ x ∈ firing, x ∉ e.firing) ∨              -- an alert fires that was not listed as firing
      (firing = [] ∧ e.firing ≠ []) ∨             -- the group has no firing alert any more (closes the cycle)
      (sr = true ∧ firing ≠ [] ∧ ∃ x ∈ resolved, x ∉ e.resolved) ∨  -- a newly resolved alert, with send_resolved
      (firing ≠ [] ∧ e.ts + rep < now)            -- more than repeat_interval has passed

/-- `needsUpdate` says "notify" exactly for the causes the property allows. -/
theorem needsUpdate_iff (entry : Option Entry) (firing resolved : List Nat) (sr : Bool) (rep now : Int) :
    (needsUpdate entry firing resolved sr rep now).shouldNotify = true ↔ Cause entry firing resolved sr rep now := by
  unfold needsUpdate Cause Reason.shouldNotify
  cases entry with
  | none =>
    cases firing <;> simp
  | some e =>
    simp only
    by_cases h1 : subset firing e.firing = false
    · have h1' := (subset_false_iff _ _).mp h1
      simp only [h1, Bool.not_false, if_true]
      constructor
      · intro _; exact Or.inl h1'
      · intro _; split <;> simp
    · have h1t : subset firing e.firing = true := by simpa using h1
      have hsub := (subset_true_iff _ _).mp h1t
      have hno : ¬ ∃ x ∈ firing, x ∉ e.firing := by
        intro ⟨x, hx, hn⟩; exact hn (hsub x hx)
      simp only [h1t, Bool.not_true, Bool.false_eq_true, if_false]
      by_cases h2 : firing.length = 0
      · have hf : firing = [] := List.eq_nil_of_length_eq_zero h2
        subst hf
        by_cases h3 : e.firing.length > 0
        · have : e.firing ≠ [] := by intro h; simp [h] at h3
          simp [h3, this]
        · have : e.firing = [] := by
            cases hh : e.firing with
            | nil => rfl
            | cons a b => simp [hh] at h3
          simp [this]
      · have hf : firing ≠ [] := by intro h; simp [h] at h2
        simp only [h2, if_false]
        by_cases h4 : (sr && !subset resolved e.resolved) = true
        · simp only [h4, if_true]
          simp only [Bool.and_eq_true, Bool.not_eq_true'] at h4
          have := (subset_false_iff _ _).mp h4.2
          constructor
          · intro _; exact Or.inr (Or.inr (Or.inl ⟨h4.1, hf, this⟩))
          · intro _; simp
        · simp only [h4, Bool.false_eq_true, if_false]
          have hnr : ¬ (sr = true ∧ firing ≠ [] ∧ ∃ x ∈ resolved, x ∉ e.resolved) := by
            intro ⟨hs, _, hx⟩
            apply h4
            simp [hs, (subset_false_iff _ _).mpr hx]
          by_cases h5 : e.ts < now - rep
          · simp only [h5, if_true]
            constructor
            · intro _; exact Or.inr (Or.inr (Or.inr ⟨hf, by omega⟩))
            · intro _; simp
          · simp only [h5, if_false]
            constructor
            · intro h; simp at h
            · intro h
              rcases h with h | h | h | h
              · exact absurd h hno
              · exact absurd h.1 hf
              · exact absurd h hnr
              · omega

/-! ### one flush -/

theorem path_send_iff (c : Cfg) (s : State) (f : Flush) :
    path c s f = .send ↔
      (f.firing ≠ [] ∨ f.resolved ≠ []) ∧
      Cause (query s c.key) f.firing f.resolved c.sendResolved c.repeatI f.tick ∧
      ¬ (c.sendResolved = false ∧ f.firing = []) ∧ f.accept = true := by
  rw [← needsUpdate_iff]
  unfold path reasonOf
  by_cases h0 : f.firing = [] ∧ f.resolved = []
  · simp [h0]
  · have h0' : f.firing ≠ [] ∨ f.resolved ≠ [] := by
      by_cases hf : f.firing = []
      · right; intro hr; exact h0 ⟨hf, hr⟩
      · left; exact hf
    simp only [h0, if_false]
    by_cases h1 : (needsUpdate (query s c.key) f.firing f.resolved c.sendResolved c.repeatI f.tick).shouldNotify = true
    · simp only [h1, Bool.true_eq_false, if_false]
      by_cases h2 : c.sendResolved = false ∧ f.firing = []
      · simp [h2]
      · simp only [h2, if_false]
        by_cases h3 : f.accept = true
        · simp [h3, h0']
        · simp [h3]
    · have h1' : (needsUpdate (query s c.key) f.firing f.resolved c.sendResolved c.repeatI f.tick).shouldNotify = false := by
        simpa using h1
      simp [h1']

theorem sent_iff_path (c : Cfg) (s : State) (f : Flush) :
    (flushStep c s f).sent.isSome = true ↔ path c s f = .send := by
  unfold flushStep; cases path c s f <;> simp

theorem flush_sent_iff (c : Cfg) (s : State) (f : Flush) :
    (flushStep c s f).sent.isSome = true ↔
      (f.firing ≠ [] ∨ f.resolved ≠ []) ∧
      Cause (query s c.key) f.firing f.resolved c.sendResolved c.repeatI f.tick ∧
      ¬ (c.sendResolved = false ∧ f.firing = []) ∧ f.accept = true := by
  rw [sent_iff_path, path_send_iff]

theorem sent_firing (c : Cfg) (s : State) (f : Flush) (n : Notification)
    (h : (flushStep c s f).sent = some n) : n.firing = f.firing ∧ n.wall = f.wall ∧ n.tick = f.tick := by
  unfold flushStep at h
  cases hp : path c s f <;> simp [hp] at h
  subst h; simp

/-- A notification that lists no firing alert is only ever the "all resolved"
    message: the consulted entry lists firing alerts. -/
theorem flush_no_firing_only_after_firing (c : Cfg) (s : State) (f : Flush) (n : Notification)
    (h : (flushStep c s f).sent = some n) (hf : n.firing = []) :
    ∃ e, query s c.key = some e ∧ e.firing ≠ [] := by
  have hs : (flushStep c s f).sent.isSome = true := by simp [h]
  have hc := ((flush_sent_iff c s f).mp hs).2.1
  rw [(sent_firing c s f n h).1] at hf
  unfold Cause at hc
  cases hq : query s c.key with
  | none => simp [hq, hf] at hc
  | some e =>
    simp only [hq, hf] at hc
    refine ⟨e, rfl, ?_⟩
    rcases hc with ⟨x, hx, _⟩ | h | h | h
    · simp at hx
    · exact h.2
    · exact absurd rfl h.2.1
    · exact absurd rfl h.1

/-- A recorded delivery that lists firing alerts was a real send (the silent
    record of RetryStage's short-cut only happens with no firing alert). -/
theorem logged_with_firing_was_sent (c : Cfg) (s : State) (f : Flush)
    (hl : (flushStep c s f).logged = true) (hf : f.firing ≠ []) :
    (flushStep c s f).sent.isSome = true := by
  rw [sent_iff_path]
  unfold flushStep at hl
  cases hp : path c s f <;> simp [hp] at hl
  · -- shortcut requires firing = []
    unfold path at hp
    split at hp
    · simp at hp
    · split at hp
      · simp at hp
      · split at hp
        · rename_i h; exact absurd h.2 hf
        · split at hp <;> simp at hp
  · rfl

/-! ### histories: the log entry is the last recorded delivery -/

/-- Ghost state: the last flush whose pipeline reached SetNotifies, and the GC
    instant that removed its entry, if any. -/
structure Ghost where
  last   : Option Flush := none
  goneAt : Option Int := none
  sent   : Bool := false        -- `last` was a real send (not RetryStage's silent record)

structure Rec where
  g : Ghost          -- ghost state just before the flush
  s : State          -- log state just before the flush
  f : Flush
  o : FlushOut

def entryOf (c : Cfg) (f : Flush) : Entry :=
  { key := c.key, ts := f.wall, exp := logExpiry f.wall c.retention (2 * c.repeatI),
    firing := f.firing, resolved := f.resolved, data := "-" }

/-- `run` annotated with the ghost state. -/
def runG (c : Cfg) : List Ev → State → Ghost → List Rec
  | [], _, _ => []
  | .flush f :: rest, s, g =>
    let o := flushStep c s f
    ⟨g, s, f, o⟩ :: runG c rest o.st (if o.logged then { last := some f, goneAt := none, sent := o.sent.isSome } else g)
  | .gc now :: rest, s, g =>
    let s' := (gc now s).1
    runG c rest s' (if (query s c.key).isSome && (query s' c.key).isNone then { g with goneAt := some now } else g)

theorem run_eq_runG (c : Cfg) (evs : List Ev) (s : State) (g : Ghost) :
    (run c evs s).2 = (runG c evs s g).filterMap (fun r => r.o.sent) := by
  induction evs generalizing s g with
  | nil => simp [run, runG]
  | cons e rest ih =>
    cases e with
    | flush f =>
      simp only [run, runG, List.filterMap_cons]
      rw [ih _ (if (flushStep c s f).logged then { last := some f, goneAt := none, sent := (flushStep c s f).sent.isSome } else g)]
      cases (flushStep c s f).sent <;> simp
    | gc now =>
      simp only [run, runG]
      exact ih _ _

/-- Wall clocks only move forward; two flushes of one group never share a wall
    instant; a tick is handled at or after its fire instant. -/
def Chain : Int → Int → List Ev → Prop
  | _, _, [] => True
  | tf, t, .flush f :: rest => tf < f.wall ∧ t ≤ f.wall ∧ f.tick ≤ f.wall ∧ Chain f.wall f.wall rest
  | tf, t, .gc now :: rest => t ≤ now ∧ Chain tf now rest

instance : (tf t : Int) → (evs : List Ev) → Decidable (Chain tf t evs)
  | _, _, [] => isTrue trivial
  | tf, t, .flush f :: rest =>
    have := instDecidableChain f.wall f.wall rest
    inferInstanceAs (Decidable (tf < f.wall ∧ t ≤ f.wall ∧ f.tick ≤ f.wall ∧ Chain f.wall f.wall rest))
  | tf, t, .gc now :: rest =>
    have := instDecidableChain tf now rest
    inferInstanceAs (Decidable (t ≤ now ∧ Chain tf now rest))

def Inv (c : Cfg) (s : State) (g : Ghost) (tf t : Int) : Prop :=
  NoDupKeys s ∧ tf ≤ t ∧
  match g.last with
  | none => query s c.key = none ∧ g.goneAt = none
  | some L => L.wall ≤ tf ∧ (L.firing ≠ [] → g.sent = true) ∧
      match g.goneAt with
      | none => query s c.key = some (entryOf c L)
      | some x => query s c.key = none ∧ (entryOf c L).exp ≤ x ∧ x ≤ t

theorem noDup_merge (now : Int) (s : State) (e : Entry) (h : NoDupKeys s) : NoDupKeys (merge now s e) := by
  unfold merge; split
  · exact noDupKeys_put _ _ _ h
  · exact h

theorem noDup_log (now ret : Int) (s : State) (k : String) (f r : List Nat) (d : String) (x : Int)
    (h : NoDupKeys s) : NoDupKeys (log now ret s k f r d x).1 := by
  unfold log
  cases hq : lookup s k with
  | none => simp only; exact noDup_merge _ _ _ h
  | some p =>
    simp only
    by_cases hp : p.ts > now
    · simp [hp, h]
    · simp only [hp, decide_false, Bool.false_eq_true, if_false]; exact noDup_merge _ _ _ h

theorem noDup_gc (now : Int) (s : State) (h : NoDupKeys s) : NoDupKeys (gc now s).1 := by
  unfold gc; exact noDupKeys_filterVals _ _ h

theorem flushStep_st (c : Cfg) (s : State) (f : Flush) :
    (flushStep c s f).st =
      if (flushStep c s f).logged then (log f.wall c.retention s c.key f.firing f.resolved "-" (2 * c.repeatI)).1 else s := by
  unfold flushStep logged
  cases path c s f <;> simp

theorem inv_flush (c : Cfg) (hret : 0 ≤ c.retention) (hrep : 0 ≤ c.repeatI)
    (s : State) (g : Ghost) (tf t : Int) (f : Flush)
    (hi : Inv c s g tf t) (h1 : tf < f.wall) (h2 : t ≤ f.wall) :
    Inv c (flushStep c s f).st (if (flushStep c s f).logged then { last := some f, goneAt := none, sent := (flushStep c s f).sent.isSome } else g) f.wall f.wall := by
  obtain ⟨hnd, htf, hg⟩ := hi
  rw [flushStep_st]
  by_cases hl : (flushStep c s f).logged = true
  · simp only [hl, if_true]
    refine ⟨noDup_log _ _ _ _ _ _ _ _ hnd, Int.le_refl _, ?_⟩
    simp only
    refine ⟨Int.le_refl _, fun hf => logged_with_firing_was_sent c s f hl hf, ?_⟩
    have hspec := log_spec f.wall c.retention s c.key f.firing f.resolved "-" (2 * c.repeatI) hret (by omega)
    simp only at hspec
    obtain ⟨_, hmid, _⟩ := hspec
    unfold query
    cases hq : lookup s c.key with
    | none =>
      rw [hq] at hmid; simp only at hmid
      exact hmid.1
    | some p =>
      rw [hq] at hmid; simp only at hmid
      -- the stored entry is older than this flush's wall instant
      have hp : p.ts < f.wall := by
        cases hgl : g.last with
        | none => rw [hgl] at hg; simp only at hg; unfold query at hg; rw [hq] at hg; simp at hg
        | some L =>
          rw [hgl] at hg; simp only at hg
          obtain ⟨hL, _, hg⟩ := hg
          cases hga : g.goneAt with
          | none =>
            rw [hga] at hg; simp only at hg; unfold query at hg; rw [hq] at hg
            have : p = entryOf c L := by simpa using hg
            subst this; simp [entryOf]; omega
          | some x => rw [hga] at hg; simp only at hg; unfold query at hg; rw [hq] at hg; simp at hg
      have hn1 : ¬ p.ts > f.wall := by omega
      have hn2 : ¬ p.ts = f.wall := by omega
      simp only [hn1, hn2, if_false] at hmid
      exact hmid.1
  · simp only [hl, Bool.false_eq_true, if_false]
    refine ⟨hnd, Int.le_refl _, ?_⟩
    cases hgl : g.last with
    | none => rw [hgl] at hg; simpa using hg
    | some L =>
      rw [hgl] at hg; simp only at hg ⊢
      obtain ⟨hL, hS, hg⟩ := hg
      refine ⟨by omega, hS, ?_⟩
      cases hga : g.goneAt with
      | none => rw [hga] at hg; simpa using hg
      | some x => rw [hga] at hg; simp only at hg ⊢; exact ⟨hg.1, hg.2.1, by omega⟩

theorem inv_gc (c : Cfg) (s : State) (g : Ghost) (tf t now : Int)
    (hi : Inv c s g tf t) (h2 : t ≤ now) :
    Inv c (gc now s).1
      (if (query s c.key).isSome && (query (gc now s).1 c.key).isNone then { g with goneAt := some now } else g) tf now := by
  obtain ⟨hnd, htf, hg⟩ := hi
  refine ⟨noDup_gc _ _ hnd, by omega, ?_⟩
  have hspec := gc_spec now s hnd c.key
  unfold query at *
  cases hgl : g.last with
  | none =>
    rw [hgl] at hg; simp only at hg
    rw [hg.1] at hspec; simp only at hspec
    simp [hg.1, hspec, hgl, hg.2]
  | some L =>
    rw [hgl] at hg; simp only at hg
    obtain ⟨hL, hS, hg⟩ := hg
    cases hga : g.goneAt with
    | none =>
      rw [hga] at hg; simp only at hg
      rw [hg] at hspec; simp only at hspec
      by_cases hx : (entryOf c L).exp > now
      · simp only [hx, if_true] at hspec
        simp only [hg, hspec, Option.isSome_some, Option.isNone_some, Bool.and_false, Bool.false_eq_true, if_false, hgl, hga]
        exact ⟨hL, hS, trivial⟩
      · simp only [hx, if_false] at hspec
        simp only [hg, hspec, Option.isSome_some, Option.isNone_none, Bool.and_self, if_true, hgl]
        exact ⟨hL, hS, trivial, by omega, Int.le_refl _⟩
    | some x =>
      rw [hga] at hg; simp only at hg
      rw [hg.1] at hspec; simp only at hspec
      simp only [hg.1, hspec, Option.isSome_none, Bool.false_and, Bool.false_eq_true, if_false, hgl, hga]
      exact ⟨hL, hS, trivial, hg.2.1, by omega⟩

/-- Invariant at every flush of every history: the log state seen by the flush
    is described by the ghost state (`entry_is_last_delivered`). -/
theorem inv_everywhere (c : Cfg) (hret : 0 ≤ c.retention) (hrep : 0 ≤ c.repeatI)
    (evs : List Ev) (s : State) (g : Ghost) (tf t : Int)
    (hi : Inv c s g tf t) (hc : Chain tf t evs) :
    ∀ r ∈ runG c evs s g, ∃ tf' t', Inv c r.s r.g tf' t' ∧ tf' < r.f.wall ∧ t' ≤ r.f.wall ∧ r.f.tick ≤ r.f.wall
        ∧ r.o = flushStep c r.s r.f := by
  induction evs generalizing s g tf t with
  | nil => intro r hr; simp [runG] at hr
  | cons e rest ih =>
    cases e with
    | flush f =>
      obtain ⟨h1, h2, h3, hrest⟩ := hc
      intro r hr
      simp only [runG, List.mem_cons] at hr
      rcases hr with hr | hr
      · subst hr; exact ⟨tf, t, hi, h1, h2, h3, rfl⟩
      · exact ih _ _ _ _ (inv_flush c hret hrep s g tf t f hi h1 h2) hrest r hr
    | gc now =>
      obtain ⟨h2, hrest⟩ := hc
      intro r hr
      simp only [runG] at hr
      exact ih _ _ _ _ (inv_gc c s g tf t now hi h2) hrest r hr

/-- **Sentence 1 of C04**, for all histories.  A notification is sent only if,
    compared with the last recorded delivery `L` for this group and integration:
    there was none; or an alert fires that `L` did not list as firing (this
    includes `L` having closed the cycle with no firing alert); or the group has
    no firing alert left while `L` had some; or (send_resolved) an alert resolved
    that `L` did not list as resolved; or more than repeat_interval passed since
    `L` was recorded; or `L`'s entry was garbage-collected, which happens no
    earlier than `min(retention, 2·repeat_interval)` after `L`. -/
theorem notify_only_if_changed_or_repeat (c : Cfg) (hret : 0 ≤ c.retention) (hrep : 0 ≤ c.repeatI)
    (evs : List Ev) (hc : Chain 0 0 evs) :
    ∀ r ∈ runG c evs [] {}, ∀ n, r.o.sent = some n →
      match r.g.last with
      | none => r.f.firing ≠ []
      | some L =>
          (∃ x ∈ r.f.firing, x ∉ L.firing) ∨
          (r.f.firing = [] ∧ L.firing ≠ []) ∨
          (c.sendResolved = true ∧ ∃ x ∈ r.f.resolved, x ∉ L.resolved) ∨
          (L.wall + c.repeatI < r.f.wall) ∨
          (∃ x, r.g.goneAt = some x ∧ logExpiry L.wall c.retention (2 * c.repeatI) ≤ x ∧ x ≤ r.f.wall) := by
  intro r hr n hn
  have hinv0 : Inv c [] {} 0 0 := by simp [Inv, NoDupKeys, query]
  obtain ⟨tf', t', hi, h1, h2, h3, ho⟩ := inv_everywhere c hret hrep evs [] {} 0 0 hinv0 hc r hr
  have hs : (flushStep c r.s r.f).sent.isSome = true := by rw [← ho, hn]; rfl
  have hcause := ((flush_sent_iff c r.s r.f).mp hs).2.1
  obtain ⟨_, _, hg⟩ := hi
  cases hgl : r.g.last with
  | none =>
    rw [hgl] at hg; simp only at hg ⊢
    rw [hg.1] at hcause; exact hcause
  | some L =>
    rw [hgl] at hg; simp only at hg ⊢
    obtain ⟨hL, _, hg⟩ := hg
    cases hga : r.g.goneAt with
    | none =>
      rw [hga] at hg; simp only at hg
      rw [hg] at hcause
      simp only [Cause, entryOf] at hcause
      rcases hcause with h | h | h | h
      · exact Or.inl h
      · exact Or.inr (Or.inl h)
      · exact Or.inr (Or.inr (Or.inl ⟨h.1, h.2.2⟩))
      · exact Or.inr (Or.inr (Or.inr (Or.inl (by omega))))
    | some x =>
      rw [hga] at hg; simp only at hg
      refine Or.inr (Or.inr (Or.inr (Or.inr ⟨x, rfl, ?_, by omega⟩)))
      simpa [entryOf] using hg.2.1

/-- With `repeat_interval ≤ retention` (the configuration the property requires
    for its timing clause) a garbage-collected entry is at least repeat_interval old. -/
theorem gone_implies_repeat_elapsed (c : Cfg) (_hrep : 0 ≤ c.repeatI) (hle : c.repeatI ≤ c.retention)
    (w x : Int) (h : logExpiry w c.retention (2 * c.repeatI) ≤ x) : w + c.repeatI ≤ x := by
  unfold logExpiry at h
  split at h <;> omega

/-- The early re-notification when retention is shorter than repeat_interval —
    the configuration the property excludes — is real: witness. -/
theorem early_repeat_when_retention_short :
    ∃ (c : Cfg) (evs : List Ev), c.retention < c.repeatI ∧ Chain 0 0 evs ∧
      (run c evs []).2.length = 2 ∧
      ∀ n ∈ (run c evs []).2, n.firing = [1] ∧ n.wall < c.repeatI :=
  ⟨{ key := "k", repeatI := 100, retention := 10, sendResolved := true },
   [.flush { tick := 1, wall := 1, firing := [1], resolved := [], accept := true },
    .gc 20,
    .flush { tick := 30, wall := 30, firing := [1], resolved := [], accept := true }],
   by decide, by decide, by decide, by decide⟩

/-! ### repeats arrive on time -/

/-- An unchanged firing group is re-notified at the first flush whose tick lies
    more than repeat_interval after the last recorded delivery (the pipeline
    attempts delivery; it succeeds iff the integration accepts). -/
theorem repeat_on_time (c : Cfg) (s : State) (f : Flush) (e : Entry)
    (hq : query s c.key = some e) (hf : f.firing ≠ []) (hlate : e.ts + c.repeatI < f.tick)
    (hacc : f.accept = true) : (flushStep c s f).sent.isSome = true := by
  rw [flush_sent_iff]
  refine ⟨Or.inl hf, ?_, fun h => hf h.2, hacc⟩
  rw [hq]
  exact Or.inr (Or.inr (Or.inr ⟨hf, hlate⟩))

/-- … and not before: nothing changed and repeat_interval has not passed ⇒ silent. -/
theorem no_repeat_before (c : Cfg) (s : State) (f : Flush) (e : Entry)
    (hq : query s c.key = some e) (hsub : ∀ x ∈ f.firing, x ∈ e.firing)
    (hres : c.sendResolved = true → ∀ x ∈ f.resolved, x ∈ e.resolved)
    (hf : f.firing ≠ []) (hearly : f.tick ≤ e.ts + c.repeatI) :
    (flushStep c s f).sent = none := by
  have : ¬ (flushStep c s f).sent.isSome = true := by
    rw [flush_sent_iff, hq]
    intro ⟨_, hc, _, _⟩
    rcases hc with ⟨x, hx, hn⟩ | h | h | h
    · exact hn (hsub x hx)
    · exact hf h.1
    · obtain ⟨hs, _, x, hx, hn⟩ := h; exact hn (hres hs x hx)
    · omega
  cases h : (flushStep c s f).sent with
  | none => rfl
  | some n => simp [h] at this

/-- If the entry is gone (expired and collected) a firing group notifies at once:
    the upper bound of the repeat window does not depend on the entry surviving. -/
theorem repeat_when_entry_gone (c : Cfg) (s : State) (f : Flush)
    (hq : query s c.key = none) (hf : f.firing ≠ []) (hacc : f.accept = true) :
    (flushStep c s f).sent.isSome = true := by
  rw [flush_sent_iff, hq]
  exact ⟨Or.inl hf, hf, fun h => hf h.2, hacc⟩

/-- **Sentence 2 of C04 (timing).**  A live group whose flushes are quiet ticks
    every group_interval (`AM.Group.flush_gap_le`: the tick after a flush handled
    at `w` is `w + gi`, and a quiet flush is handled at its tick).  Among the
    ticks `t, t+gi, t+2·gi, …` following a recorded delivery at `ts`, the first
    one later than `ts + repeat` — the one at which `repeat_on_time` re-notifies
    and before which `no_repeat_before` keeps silent — lies in
    `(ts + repeat, ts + repeat + gi]`. -/
theorem repeat_window (ts rep gi t : Int) (hgi : 0 < gi) (ht : t ≤ ts + rep + gi) :
    ∃ k : Nat, ts + rep < t + k * gi ∧ t + k * gi ≤ ts + rep + gi ∧
      ∀ j : Nat, j < k → t + j * gi ≤ ts + rep := by
  by_cases hd : ts + rep < t
  · exact ⟨0, by simpa using hd, by simpa using ht, fun j hj => by omega⟩
  · have hd' : 0 ≤ ts + rep - t := by omega
    let d := ts + rep - t
    have h1 := Int.emod_add_mul_ediv d gi
    have h2 := Int.emod_nonneg d (by omega : gi ≠ 0)
    have h3 := Int.emod_lt_of_pos d hgi
    have hq : 0 ≤ d / gi := Int.ediv_nonneg hd' (by omega)
    refine ⟨(d / gi).toNat + 1, ?_, ?_, ?_⟩
    · have : ((d / gi).toNat : Int) = d / gi := Int.toNat_of_nonneg hq
      push_cast
      rw [this]
      have : (d / gi + 1) * gi = gi * (d / gi) + gi := by
        rw [Int.add_mul, Int.mul_comm]; simp
      rw [this]; omega
    · have : ((d / gi).toNat : Int) = d / gi := Int.toNat_of_nonneg hq
      push_cast
      rw [this]
      have : (d / gi + 1) * gi = gi * (d / gi) + gi := by
        rw [Int.add_mul, Int.mul_comm]; simp
      rw [this]; omega
    · intro j hj
      have hjq : (j : Int) ≤ d / gi := by
        have : ((d / gi).toNat : Int) = d / gi := Int.toNat_of_nonneg hq
        omega
      have : (j : Int) * gi ≤ (d / gi) * gi := Int.mul_le_mul_of_nonneg_right hjq (by omega)
      have h4 : (d / gi) * gi = gi * (d / gi) := Int.mul_comm _ _
      omega

/-! ### resolved-only groups never notify -/

/-- **Sentence 3 of C04**, for all histories: a notification listing no firing
    alert directly follows a recorded delivery (same group and integration) that
    listed firing alerts — and that one was a real send. -/
theorem no_resolved_only_first (c : Cfg) (hret : 0 ≤ c.retention) (hrep : 0 ≤ c.repeatI)
    (evs : List Ev) (hc : Chain 0 0 evs) :
    ∀ r ∈ runG c evs [] {}, ∀ n, r.o.sent = some n → n.firing = [] →
      ∃ L, r.g.last = some L ∧ L.firing ≠ [] ∧ r.g.goneAt = none := by
  intro r hr n hn hnf
  have hinv0 : Inv c [] {} 0 0 := by simp [Inv, NoDupKeys, query]
  obtain ⟨tf', t', hi, _, _, _, ho⟩ := inv_everywhere c hret hrep evs [] {} 0 0 hinv0 hc r hr
  rw [ho] at hn
  obtain ⟨e, he, hef⟩ := flush_no_firing_only_after_firing c r.s r.f n hn hnf
  obtain ⟨_, _, hg⟩ := hi
  cases hgl : r.g.last with
  | none => rw [hgl] at hg; simp only at hg; rw [hg.1] at he; simp at he
  | some L =>
    rw [hgl] at hg; simp only at hg
    obtain ⟨_, _, hg⟩ := hg
    cases hga : r.g.goneAt with
    | none =>
      rw [hga] at hg; simp only at hg
      rw [hg] at he
      have : e = entryOf c L := by simpa using he.symm
      subst this
      exact ⟨L, rfl, by simpa [entryOf] using hef, rfl⟩
    | some x =>
      rw [hga] at hg; simp only at hg
      rw [hg.1] at he; simp at he

/-! ### non-vacuity -/

example : Chain 0 0 [.flush { tick := 1, wall := 2, firing := [1], resolved := [], accept := true },
                      .gc 5,
                      .flush { tick := 7, wall := 7, firing := [1, 2], resolved := [], accept := true }] := by
  decide

example : (run { key := "k", repeatI := 100, retention := 1000, sendResolved := true }
            [.flush { tick := 1, wall := 2, firing := [1], resolved := [], accept := true },
             .flush { tick := 7, wall := 7, firing := [1], resolved := [], accept := true },
             .flush { tick := 9, wall := 9, firing := [], resolved := [1], accept := true }] []).2.length = 2 := by
  decide

end AM.Dedup
