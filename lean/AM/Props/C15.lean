/-
  C15 — time intervals match the calendar exactly; mute/active gating follows them.

  All theorems are unbounded: any instant (`Int` seconds, before 1970 too), any
  offset, any interval (validated or not).  The calendar theorems live in
  `AM.Base.Calendar` (`civil_roundtrip`, `civil_roundtrip_inv`, `civil_valid`,
  `days_in_month_correct`, `days_in_month_leap_rule`, `next_day_correct`,
  `weekday_correct`, `weekday_epoch`, `epoch_anchor`).
-/
import AM.Model.TimeInterval

namespace AM.TimeInterval
open AM AM.AList AM.Calendar

/-! ### the declarative specification -/

/-- An absent field admits everything; a present one needs a matching range. -/
def FieldOK (f : Option (List Range)) (p : Range → Prop) : Prop :=
  ∀ l, f = some l → ∃ r, r ∈ l ∧ p r

/-- Day-of-month rule: negative indices count from the month's end
    (`-1` = last day), the range is intersected with the month `[1, dim]`. -/
def DomSpec (dim day : Int) (r : Range) : Prop :=
  resolveDay dim r.lo ≤ day ∧ day ≤ resolveDay dim r.hi ∧ 1 ≤ day ∧ day ≤ dim

/-- The statement of C15, sentence 1, in calendar terms: `c` is the civil date,
    `wd` its weekday, `mod` the minute of the day. -/
structure Spec (iv : TimeInterval) (c : Civil) (wd mod : Int) : Prop where
  times    : FieldOK iv.times (fun r => r.lo ≤ mod ∧ mod < r.hi)
  days     : FieldOK iv.daysOfMonth (DomSpec (daysInMonth c.year c.month) c.day)
  months   : FieldOK iv.months (fun r => r.lo ≤ c.month ∧ c.month ≤ r.hi)
  weekdays : FieldOK iv.weekdays (fun r => r.lo ≤ wd ∧ wd ≤ r.hi)
  years    : FieldOK iv.years (fun r => r.lo ≤ c.year ∧ c.year ≤ r.hi)

/-! ### `clamp` -/

theorem clamp_spec (n lo hi : Int) (h : lo ≤ hi) : clamp n lo hi = max lo (min n hi) := by
  unfold clamp
  by_cases h1 : n ≤ lo
  · simp [h1]; omega
  · by_cases h2 : n ≥ hi
    · simp [h1, h2]; omega
    · simp [h1, h2]; omega

/-- The clamping in `ContainsTime` (to `[-dim, dim]`, with the "begin after the
    end of the month" skip) is exactly the intersection of the resolved range
    with the month: for a day that exists in the month, the loop body accepts
    iff the day lies between the resolved bounds. -/
theorem clamp_is_intersection (dim day : Int) (r : Range) (h1 : 1 ≤ day) (hd : day ≤ dim) :
    domMatch dim day r = true ↔ DomSpec dim day r := by
  unfold domMatch DomSpec clamp
  generalize resolveDay dim r.lo = b
  generalize resolveDay dim r.hi = e
  by_cases hb : b > dim
  · simp [hb]; omega
  · simp only [hb, if_false, decide_eq_true_eq]
    split <;> split <;> (try split) <;> (try split) <;> omega

/-- Without the skip of ranges that begin after the month's end the clamp would
    pull such a range back onto the last day (what the guard is for). -/
theorem clamp_alone_is_wrong :
    ∃ dim day b e, 1 ≤ day ∧ day ≤ dim ∧ b ≤ e ∧
      (clamp b (-dim) dim ≤ day ∧ day ≤ clamp e (-dim) dim) ∧ ¬ (b ≤ day ∧ day ≤ e) :=
  ⟨28, 28, 30, 31, by decide⟩

/-! ### `ContainsTime` -/

theorem inField_iff (f : Option (List Range)) (p : Range → Bool) (q : Range → Prop)
    (h : ∀ r, p r = true ↔ q r) : inField f p = true ↔ FieldOK f q := by
  unfold inField FieldOK
  cases f with
  | none => simp
  | some l =>
    simp only [List.any_eq_true, Option.some.injEq]
    constructor
    · rintro ⟨r, hr, hp⟩ l' rfl; exact ⟨r, hr, (h r).mp hp⟩
    · intro hq
      obtain ⟨r, hr, hq⟩ := hq l rfl
      exact ⟨r, hr, (h r).mpr hq⟩

theorem timeMatch_iff (m : Int) (r : Range) : timeMatch m r = true ↔ (r.lo ≤ m ∧ m < r.hi) := by
  simp [timeMatch]
theorem incMatch_iff (v : Int) (r : Range) : incMatch v r = true ↔ (r.lo ≤ v ∧ v ≤ r.hi) := by
  simp [incMatch]

/-- `ContainsTime` on a clock reading whose day exists in its month is the specification. -/
theorem containsClock_iff (iv : TimeInterval) (k : Clock)
    (h1 : 1 ≤ k.day) (hd : k.day ≤ daysInMonth k.year k.month) :
    containsClock iv k = true ↔
      Spec iv ⟨k.year, k.month, k.day⟩ k.weekday (k.hour * 60 + k.minute) := by
  unfold containsClock containsClockWith
  simp only [Bool.and_eq_true]
  rw [inField_iff _ _ _ (timeMatch_iff _), inField_iff _ _ _ (incMatch_iff k.month),
    inField_iff _ _ _ (incMatch_iff k.weekday), inField_iff _ _ _ (incMatch_iff k.year),
    inField_iff _ _ _ (fun r => clamp_is_intersection _ _ r h1 hd)]
  constructor
  · rintro ⟨⟨⟨⟨a, b⟩, c⟩, d⟩, e⟩; exact ⟨a, b, c, d, e⟩
  · rintro ⟨a, b, c, d, e⟩; exact ⟨⟨⟨⟨a, b⟩, c⟩, d⟩, e⟩

/-- The computable form of the specification used by the driver is the declarative one. -/
theorem specB_iff (iv : TimeInterval) (c : Civil) (wd mod : Int) :
    specB iv c wd mod = true ↔ Spec iv c wd mod := by
  unfold specB
  simp only [Bool.and_eq_true]
  rw [inField_iff _ _ (fun r => r.lo ≤ mod ∧ mod < r.hi) (fun r => by simp),
    inField_iff _ _ (DomSpec (daysInMonth c.year c.month) c.day) (fun r => by simp [domSpecB, DomSpec]),
    inField_iff _ _ (fun r => r.lo ≤ c.month ∧ c.month ≤ r.hi) (fun r => by simp),
    inField_iff _ _ (fun r => r.lo ≤ wd ∧ wd ≤ r.hi) (fun r => by simp),
    inField_iff _ _ (fun r => r.lo ≤ c.year ∧ c.year ≤ r.hi) (fun r => by simp)]
  constructor
  · rintro ⟨⟨⟨⟨a, b⟩, c⟩, d⟩, e⟩; exact ⟨a, b, c, d, e⟩
  · rintro ⟨a, b, c, d, e⟩; exact ⟨⟨⟨⟨a, b⟩, c⟩, d⟩, e⟩

/-- Decomposition of local seconds into day number, minute of day, second. -/
theorem local_split (ls : Int) :
    ls = ls / 86400 * 86400 + (ls % 86400 / 3600 * 60 + ls % 86400 % 3600 / 60) * 60 + ls % 60 ∧
    0 ≤ ls % 86400 / 3600 * 60 + ls % 86400 % 3600 / 60 ∧
    ls % 86400 / 3600 * 60 + ls % 86400 % 3600 / 60 < 1440 := by
  omega

/-- **C15, sentence 1.**  An instant read at `ls = unix + offset` local seconds
    lies in the interval exactly when there is a calendar date `c`, a minute of
    day `mod` and a second `s` with `ls = days(c)·86400 + mod·60 + s` such that
    minute, day of month, month, weekday and year satisfy the field rules. -/
theorem contains_iff_spec (iv : TimeInterval) (ls : Int) :
    containsClock iv (clockOf ls) = true ↔
      ∃ c : Civil, c.Valid ∧ ∃ mod s : Int, 0 ≤ mod ∧ mod < 1440 ∧ 0 ≤ s ∧ s < 60 ∧
        ls = c.toDays * 86400 + mod * 60 + s ∧ Spec iv c (weekday c.toDays) mod := by
  have hv := civil_valid (ls / 86400)
  have hr := civil_roundtrip (ls / 86400)
  have hsp := local_split ls
  have hk := containsClock_iff iv (clockOf ls) hv.2.2.1 hv.2.2.2
  constructor
  · intro h
    refine ⟨civilFromDays (ls / 86400), hv, ls % 86400 / 3600 * 60 + ls % 86400 % 3600 / 60, ls % 60,
      hsp.2.1, hsp.2.2, by omega, by omega, ?_, ?_⟩
    · rw [hr]; exact hsp.1
    · rw [hr]; exact hk.mp h
  · rintro ⟨c, hc, mod, s, hm0, hm1, hs0, hs1, hls, hspec⟩
    have hdays : ls / 86400 = c.toDays := by omega
    have hmod : ls % 86400 / 3600 * 60 + ls % 86400 % 3600 / 60 = mod := by omega
    apply hk.mpr
    simp only [clockOf, hmod, hdays, civil_roundtrip_inv c hc]
    exact hspec

/-- The same for `ContainsTime` itself: the instant is read in the interval's
    location if it has one, otherwise in the caller's (UTC for `Intervener.Mutes`). -/
theorem containsTime_iff_spec (iv : TimeInterval) (unix : Int) (tz : String → Int) (callerOff : Int) :
    containsTime iv unix tz callerOff = true ↔
      ∃ c : Civil, c.Valid ∧ ∃ mod s : Int, 0 ≤ mod ∧ mod < 1440 ∧ 0 ≤ s ∧ s < 60 ∧
        unix + effOffset iv tz callerOff = c.toDays * 86400 + mod * 60 + s ∧
        Spec iv c (weekday c.toDays) mod :=
  contains_iff_spec iv _

/-- The model's clock reading is a calendar date and a time of day. -/
theorem clockOf_valid (ls : Int) :
    let k := clockOf ls
    (⟨k.year, k.month, k.day⟩ : Civil).Valid ∧ 0 ≤ k.weekday ∧ k.weekday ≤ 6 ∧
    0 ≤ k.hour ∧ k.hour ≤ 23 ∧ 0 ≤ k.minute ∧ k.minute ≤ 59 := by
  have hv := civil_valid (ls / 86400)
  have hw := weekday_range (ls / 86400)
  simp only [clockOf]
  exact ⟨hv, hw.1, by omega, by omega, by omega, by omega, by omega⟩

/-- A field that is absent constrains nothing; one that is present but empty rejects every instant. -/
theorem empty_field_rejects (iv : TimeInterval) (k : Clock)
    (h : iv.times = some [] ∨ iv.daysOfMonth = some [] ∨ iv.months = some [] ∨
         iv.weekdays = some [] ∨ iv.years = some []) :
    containsClock iv k = false := by
  unfold containsClock containsClockWith
  rcases h with h | h | h | h | h <;> simp [h, inField]

theorem absent_fields_accept (k : Clock) (loc : Option String) :
    containsClock { location := loc } k = true := by
  simp [containsClock, containsClockWith, inField]

/-! ### the pinned `daysInMonth` (finding F12)

The pinned code obtains the month length from Go's date normalisation *in the
interval's location*: `time.Date(y, m+1, 0, 12, 0, 0, 0, t.Location()).Day()`.
Whatever it returns is `dim` below.  C15 holds for that code exactly as far as
`dim` is the calendar's month length; where a location's local calendar has no
last day of the month (Pacific/Kiritimati and Pacific/Kanton, 1994-12-31) the
normalised date is 1995-01-01 and `dim = 1`. -/

/-- `contains_iff_spec` for the code as pinned, under the hypothesis that its
    month length is right. -/
theorem containsClock_iff_partial (dim : Int) (iv : TimeInterval) (k : Clock)
    (hdim : dim = daysInMonth k.year k.month)
    (h1 : 1 ≤ k.day) (hd : k.day ≤ daysInMonth k.year k.month) :
    containsClockWith dim iv k = true ↔
      Spec iv ⟨k.year, k.month, k.day⟩ k.weekday (k.hour * 60 + k.minute) := by
  subst hdim; exact containsClock_iff iv k h1 hd

/-- Without that hypothesis the statement is false: 1994-12-15 10:00 in
    Pacific/Kiritimati (a Thursday) with the month length 1 the pinned code
    computes there — `days_of_month: ['15']` rejects the 15th, `['-17']` too,
    and `['1:31']` is cut down to the 1st. -/
theorem pinned_month_length_counterexample :
    let k : Clock := ⟨1994, 12, 15, 4, 10, 0⟩
    containsClockWith 1 { daysOfMonth := some [⟨15, 15⟩] } k = false ∧
    specB { daysOfMonth := some [⟨15, 15⟩] } ⟨1994, 12, 15⟩ 4 600 = true ∧
    containsClockWith 1 { daysOfMonth := some [⟨-17, -17⟩] } k = false ∧
    specB { daysOfMonth := some [⟨-17, -17⟩] } ⟨1994, 12, 15⟩ 4 600 = true ∧
    containsClockWith 1 { daysOfMonth := some [⟨1, 31⟩] } k = false ∧
    containsClock { daysOfMonth := some [⟨15, 15⟩] } k = true := by
  decide

/-! ### `Intervener.Mutes` -/

/-- Some interval of the named set contains the instant. -/
def InSet (cfg : Named) (unix : Int) (tz : String → Int) (n : String) : Prop :=
  ∃ ivs, lookup cfg n = some ivs ∧ ∃ iv, iv ∈ ivs ∧ containsTime iv unix tz 0 = true

theorem mutesNames_none_iff (cfg : Named) (unix : Int) (tz : String → Int) (co : Int) (names : List String) :
    mutesNames cfg unix tz co names = none ↔ ∃ n, n ∈ names ∧ lookup cfg n = none := by
  induction names with
  | nil => simp [mutesNames]
  | cons n rest ih =>
    unfold mutesNames
    cases hl : lookup cfg n with
    | none => simp; exact Or.inl hl
    | some ivs =>
      cases hr : mutesNames cfg unix tz co rest with
      | none =>
        have := ih.mp hr
        simp only [List.mem_cons, true_iff]
        obtain ⟨m, hm, hmn⟩ := this
        exact ⟨m, Or.inr hm, hmn⟩
      | some more =>
        simp only [List.mem_cons, false_iff, reduceCtorEq]
        rintro ⟨m, hm | hm, hmn⟩
        · subst hm; rw [hl] at hmn; cases hmn
        · have : mutesNames cfg unix tz co rest = none := ih.mpr ⟨m, hm, hmn⟩
          rw [hr] at this; cases this

theorem mutesNames_mem (cfg : Named) (unix : Int) (tz : String → Int) (co : Int) (names l : List String)
    (h : mutesNames cfg unix tz co names = some l) (x : String) :
    x ∈ l ↔ x ∈ names ∧ InSet cfg unix tz x := by
  induction names generalizing l with
  | nil =>
    simp [mutesNames] at h; subst h; simp
  | cons n rest ih =>
    unfold mutesNames at h
    cases hl : lookup cfg n with
    | none => simp [hl] at h
    | some ivs =>
      cases hr : mutesNames cfg unix tz co rest with
      | none => simp [hl, hr] at h
      | some more =>
        simp only [hl, hr, Option.some.injEq] at h
        subst h
        have ih' := ih more hr
        simp only [List.mem_append, List.mem_map, List.mem_filter, List.mem_cons, ih']
        constructor
        · rintro (⟨iv, ⟨hiv, hc⟩, rfl⟩ | ⟨hx, hs⟩)
          · exact ⟨Or.inl rfl, ivs, hl, iv, hiv, hc⟩
          · exact ⟨Or.inr hx, hs⟩
        · rintro ⟨hx | hx, hs⟩
          · subst hx
            obtain ⟨ivs', hl', iv, hiv, hc⟩ := hs
            rw [hl] at hl'; cases hl'
            exact Or.inl ⟨iv, ⟨hiv, hc⟩, rfl⟩
          · exact Or.inr ⟨hx, hs⟩

/-- `Intervener.Mutes`: an error iff some name is not configured; otherwise it
    reports "muted" iff some listed set contains the instant, and the names it
    returns are exactly the listed sets that do. -/
theorem mutes_spec (cfg : Named) (names : List String) (unix : Int) (tz : String → Int) (co : Int) :
    (mutes cfg names unix tz co = none ↔ ∃ n, n ∈ names ∧ lookup cfg n = none) ∧
    ∀ b l, mutes cfg names unix tz co = some (b, l) →
      (b = true ↔ ∃ n, n ∈ names ∧ InSet cfg unix tz n) ∧
      (∀ x, x ∈ l ↔ x ∈ names ∧ InSet cfg unix tz x) := by
  unfold mutes
  constructor
  · rw [Option.map_eq_none_iff]; exact mutesNames_none_iff cfg unix tz co names
  · intro b l h
    cases hm : mutesNames cfg unix tz co names with
    | none => simp [hm] at h
    | some l' =>
      simp only [hm, Option.map_some, Option.some.injEq, Prod.mk.injEq] at h
      obtain ⟨hb, hl⟩ := h
      subst hl
      have hmem := mutesNames_mem cfg unix tz co names l' hm
      refine ⟨?_, hmem⟩
      rw [← hb]
      cases l' with
      | nil =>
        simp only [List.isEmpty_nil, Bool.not_true, false_iff, reduceCtorEq]
        rintro ⟨n, hn, hs⟩
        exact absurd ((hmem n).mpr ⟨hn, hs⟩) (by simp)
      | cons x xs =>
        simp only [List.isEmpty_cons, Bool.not_false, true_iff]
        exact ⟨x, (hmem x).mp (by simp)⟩

/-! ### gating -/

/-- All names of the list are configured (guaranteed by `config.Load`: `checkTimeInterval`). -/
def Configured (cfg : Named) (names : List String) : Prop := ∀ n, n ∈ names → lookup cfg n ≠ none

theorem mutes_some_of_configured (cfg : Named) (names : List String) (unix : Int) (tz : String → Int) (co : Int)
    (h : Configured cfg names) : ∃ b l, mutes cfg names unix tz co = some (b, l) := by
  cases hm : mutes cfg names unix tz co with
  | none =>
    obtain ⟨n, hn, hl⟩ := ((mutes_spec cfg names unix tz co).1).mp hm
    exact absurd hl (h n hn)
  | some p => exact ⟨p.1, p.2, rfl⟩

/-- **Mute stage.**  With mute intervals set on the route, the stage hands the
    alerts on iff no mute interval contains the flush instant; otherwise it
    drops all of them; the group marker then reports the group as muted, by
    exactly the mute sets that contain the instant. -/
theorem mute_gate (cfg : Named) (names : List String) (t : Int) (tz : String → Int) (co : Int)
    (hne : names ≠ []) (hc : Configured cfg names) :
    let o := muteStage cfg (some names) (some t) tz co
    o.err = false ∧
    (o.passed = true ↔ ¬ ∃ n, n ∈ names ∧ InSet cfg t tz n) ∧
    ∃ l, o.marker = some l ∧ (markerMuted l = true ↔ o.passed = false) ∧
      ∀ x, x ∈ l ↔ x ∈ names ∧ InSet cfg t tz x := by
  obtain ⟨b, l, hm⟩ := mutes_some_of_configured cfg names t tz co hc
  obtain ⟨hb, hl⟩ := (mutes_spec cfg names t tz co).2 b l hm
  have hemp : names.isEmpty = false := by cases names <;> simp_all
  simp only [muteStage, hemp, hm]
  refine ⟨by simp, ?_, l, rfl, ?_, hl⟩
  · rw [← hb]; cases b <;> simp
  · -- marker muted ⇔ l non-empty ⇔ b
    have hbl : b = !l.isEmpty := by
      unfold mutes at hm
      cases hx : mutesNames cfg t tz co names with
      | none => simp [hx] at hm
      | some l' =>
        simp [hx] at hm
        obtain ⟨h1, h2⟩ := hm
        subst h2
        cases b <;> simp_all
    unfold markerMuted
    rw [hbl]; cases l.isEmpty <;> simp

/-- **Active stage.**  With active intervals set on the route, the stage hands
    the alerts on iff at least one active interval contains the flush instant;
    otherwise it drops all of them and marks the group muted by all the
    route's active-interval names. -/
theorem active_gate (cfg : Named) (names : List String) (t : Int) (tz : String → Int) (co : Int)
    (hne : names ≠ []) (hc : Configured cfg names) :
    let o := activeStage cfg (some names) (some t) tz co
    o.err = false ∧
    (o.passed = true ↔ ∃ n, n ∈ names ∧ InSet cfg t tz n) ∧
    o.marker = some (if o.passed then [] else names) ∧
    (markerMuted (if o.passed then [] else names) = true ↔ o.passed = false) := by
  obtain ⟨b, l, hm⟩ := mutes_some_of_configured cfg names t tz co hc
  obtain ⟨hb, _⟩ := (mutes_spec cfg names t tz co).2 b l hm
  have hemp : names.isEmpty = false := by cases names <;> simp_all
  simp only [activeStage, hemp, hm]
  refine ⟨by simp, ?_, by simp, ?_⟩
  · simpa using hb
  · cases b <;> simp [markerMuted, hemp]

/-- Without the respective setting a stage is transparent and clears the marker. -/
theorem stages_transparent (cfg : Named) (now : Option Int) (tz : String → Int) (co : Int) :
    muteStage cfg none now tz co = ⟨true, false, some []⟩ ∧
    activeStage cfg none now tz co = ⟨true, false, some []⟩ ∧
    activeStage cfg (some []) now tz co = ⟨true, false, some []⟩ ∧
    (∀ t, muteStage cfg (some []) (some t) tz co = ⟨true, false, some []⟩) := by
  simp [muteStage, activeStage]

theorem bool_iff_not {a p : Bool} (h : a = true ↔ p = false) : a = !p := by
  cases a <;> cases p <;> simp_all

/-- **C15, sentence 2.**  A route notifies at a flush iff no mute interval
    contains the flush instant and, when active intervals are set, at least one
    of them contains it; a muted flush hands on nothing and the group is
    reported as muted (with names: all active names when outside the active
    times, else the muting mute sets). -/
theorem route_gate (cfg : Named) (muteNames activeNames : List String) (t : Int) (tz : String → Int) (co : Int)
    (hcm : Configured cfg muteNames) (hca : Configured cfg activeNames) :
    let o := pipeline cfg (some muteNames) (some activeNames) (some t) tz co
    o.err = false ∧
    (o.passed = true ↔
      (activeNames = [] ∨ ∃ n, n ∈ activeNames ∧ InSet cfg t tz n) ∧
      ¬ ∃ n, n ∈ muteNames ∧ InSet cfg t tz n) ∧
    ∃ l, o.marker = some l ∧ (markerMuted l = true ↔ o.passed = false) ∧
      (o.passed = false →
        (¬ (activeNames = [] ∨ ∃ n, n ∈ activeNames ∧ InSet cfg t tz n) → l = activeNames) ∧
        ((activeNames = [] ∨ ∃ n, n ∈ activeNames ∧ InSet cfg t tz n) →
          ∀ x, x ∈ l ↔ x ∈ muteNames ∧ InSet cfg t tz x)) := by
  -- the mute stage, whichever way the active stage goes
  have hmute : ∀ (_ : True),
      let m := muteStage cfg (some muteNames) (some t) tz co
      m.err = false ∧ (m.passed = true ↔ ¬ ∃ n, n ∈ muteNames ∧ InSet cfg t tz n) ∧
      ∃ l, m.marker = some l ∧ (markerMuted l = true ↔ m.passed = false) ∧
        ∀ x, x ∈ l ↔ x ∈ muteNames ∧ InSet cfg t tz x := by
    intro _
    by_cases hmn : muteNames = []
    · subst hmn
      simp [muteStage, markerMuted]
    · exact mute_gate cfg muteNames t tz co hmn hcm
  obtain ⟨hme, hmp, lm, hlm, hlmm, hlmx⟩ := hmute trivial
  by_cases han : activeNames = []
  · subst han
    simp only [pipeline, activeStage, List.isEmpty_nil, if_true, Bool.false_eq_true, if_false,
      Bool.not_true, true_or, true_and, not_true_eq_false, false_implies, true_implies]
    refine ⟨hme, ?_, lm, ?_, ?_, fun _ => hlmx⟩
    · simp [hme, hmp]
    · simp [hlm]
    · simp [hme]; exact bool_iff_not hlmm
  · obtain ⟨hae, hap, ham, hamm⟩ := active_gate cfg activeNames t tz co han hca
    simp only [han, false_or]
    by_cases hp : (activeStage cfg (some activeNames) (some t) tz co).passed = true
    · have hex := hap.mp hp
      simp only [pipeline, hae, hp, Bool.false_eq_true, if_false, Bool.not_true]
      refine ⟨hme, ?_, lm, ?_, ?_, fun _ => ⟨fun h => absurd hex h, fun _ => hlmx⟩⟩
      · simp [hme, hmp, hex]
      · simp [hlm]
      · simp [hme]; exact bool_iff_not hlmm
    · have hp' : (activeStage cfg (some activeNames) (some t) tz co).passed = false := by
        simpa using hp
      have hnex : ¬ ∃ n, n ∈ activeNames ∧ InSet cfg t tz n := fun h => hp (hap.mpr h)
      simp only [pipeline, hae, hp', Bool.false_eq_true, if_false, Bool.not_false, if_true]
      refine ⟨by simp, ?_, activeNames, ?_, ?_, fun _ => ⟨fun _ => rfl, fun h => absurd h hnex⟩⟩
      · simp [hnex]
      · rw [ham]; simp [hp']
      · simpa [hp'] using hamm

/-! ### the caller's zone is irrelevant

A Go `time.Time` is an absolute instant *and* a location.  C15 speaks about the
instant only: the calendar fields are taken in the interval's location, UTC by
default.  `ContainsTime` alone does not do that for an interval without a
location (it reads the fields in whatever location its argument carries);
`Intervener.Mutes` does, by normalising with `now.UTC()`, and the two stages and
the pipeline inherit it.  `callerOff` is the offset of the location carried by
the caller's `time.Time`. -/

/-- An interval with a location of its own is read there, whatever the argument carries. -/
theorem containsTime_caller_zone_irrelevant (iv : TimeInterval) (unix : Int) (tz : String → Int)
    (c1 c2 : Int) (h : iv.location ≠ none) :
    containsTime iv unix tz c1 = containsTime iv unix tz c2 := by
  unfold containsTime effOffset
  cases hl : iv.location with
  | none => exact absurd hl h
  | some l => rfl

/-- Without a location `ContainsTime` reads the instant in the argument's location … -/
theorem containsTime_no_location (iv : TimeInterval) (unix : Int) (tz : String → Int) (c : Int)
    (h : iv.location = none) :
    containsTime iv unix tz c = containsClock iv (clockOf (unix + c)) := by
  simp [containsTime, effOffset, h]

/-- … so the verdict of the bare method does depend on it: Saturday 2024-03-02 23:30 UTC
    is Sunday 13:30 at UTC+14 and Saturday 11:30 at UTC−12. -/
theorem containsTime_alone_depends_on_caller_zone :
    let sat : TimeInterval := { weekdays := some [⟨6, 6⟩] }
    let u : Int := 19784 * 86400 + 23 * 3600 + 30 * 60
    containsTime sat u (fun _ => 0) 0 = true ∧
    containsTime sat u (fun _ => 0) 50400 = false ∧
    containsTime sat u (fun _ => 0) (-43200) = true ∧
    containsTime { times := some [⟨0, 720⟩] } u (fun _ => 0) 0 = false ∧
    containsTime { times := some [⟨0, 720⟩] } u (fun _ => 0) (-43200) = true := by
  decide

theorem mutesNames_caller_zone_irrelevant (cfg : Named) (unix : Int) (tz : String → Int) (c1 c2 : Int)
    (names : List String) : mutesNames cfg unix tz c1 names = mutesNames cfg unix tz c2 names := by
  induction names with
  | nil => rfl
  | cons n rest ih => simp only [mutesNames, ih, utcOff]

/-- **`Intervener.Mutes` does not depend on the location its `now` carries.** -/
theorem mutes_caller_zone_irrelevant (cfg : Named) (names : List String) (unix : Int) (tz : String → Int)
    (c1 c2 : Int) : mutes cfg names unix tz c1 = mutes cfg names unix tz c2 := by
  unfold mutes; rw [mutesNames_caller_zone_irrelevant cfg unix tz c1 c2]

/-- … in particular it is what a caller handing over a UTC `time.Time` gets: every
    interval is read in its own location, one without a location in UTC. -/
theorem mutes_reads_utc_by_default (cfg : Named) (names : List String) (unix : Int) (tz : String → Int)
    (c : Int) : mutes cfg names unix tz c = mutes cfg names unix tz 0 :=
  mutes_caller_zone_irrelevant cfg names unix tz c 0

theorem mute_stage_caller_zone_irrelevant (cfg : Named) (names : Option (List String)) (now : Option Int)
    (tz : String → Int) (c1 c2 : Int) :
    muteStage cfg names now tz c1 = muteStage cfg names now tz c2 := by
  unfold muteStage
  cases names with
  | none => rfl
  | some ns =>
    cases now with
    | none => rfl
    | some t => simp only [mutes_caller_zone_irrelevant cfg ns t tz c1 c2]

theorem active_stage_caller_zone_irrelevant (cfg : Named) (names : Option (List String)) (now : Option Int)
    (tz : String → Int) (c1 c2 : Int) :
    activeStage cfg names now tz c1 = activeStage cfg names now tz c2 := by
  unfold activeStage
  cases names with
  | none => rfl
  | some ns =>
    cases now with
    | none => rfl
    | some t => simp only [mutes_caller_zone_irrelevant cfg ns t tz c1 c2]

/-- The route's gate (`route_gate`) is a function of the instant alone. -/
theorem pipeline_caller_zone_irrelevant (cfg : Named) (muteNames activeNames : Option (List String))
    (now : Option Int) (tz : String → Int) (c1 c2 : Int) :
    pipeline cfg muteNames activeNames now tz c1 = pipeline cfg muteNames activeNames now tz c2 := by
  unfold pipeline
  rw [active_stage_caller_zone_irrelevant cfg activeNames now tz c1 c2,
    mute_stage_caller_zone_irrelevant cfg muteNames now tz c1 c2]

/-! ### the unmarshallers' validation -/

/-- Accepted weekday, month-free ranges are ordered and inside their domain; an
    accepted day-of-month range never mixes a negative begin with a positive end. -/
theorem rangeValid_weekday (r : Range) (h : rangeValid .weekday r = true) :
    0 ≤ r.lo ∧ r.lo ≤ r.hi ∧ r.hi ≤ 6 := by
  simp [rangeValid] at h; omega

theorem rangeValid_dom (r : Range) (h : rangeValid .dayOfMonth r = true) :
    r.lo ≠ 0 ∧ r.hi ≠ 0 ∧ -31 ≤ r.lo ∧ r.lo ≤ 31 ∧ -31 ≤ r.hi ∧ r.hi ≤ 31 ∧
    ¬ (r.lo < 0 ∧ r.hi > 0) ∧ ((r.lo < 0 ↔ r.hi < 0) → r.lo ≤ r.hi) := by
  simp [rangeValid] at h
  obtain ⟨⟨⟨⟨h1, h2, h3⟩, h4, h5, h6⟩, h7⟩, h8⟩ := h
  refine ⟨h1, h4, h2, h3, h5, h6, by omega, ?_⟩
  intro hs
  split at h8 <;> split at h8 <;> omega

/-- An accepted time range is non-empty and inside the day. -/
theorem parseTime_range (s : String) (v : Int) (h : parseTime s = some v) : 0 ≤ v ∧ v ≤ 1440 := by
  unfold parseTime at h
  split at h
  · split at h
    · simp only at h
      split at h
      · cases h; omega
      · cases h
    · cases h
  · cases h

theorem parseTimeRange_valid (a b : String) (r : Range) (h : parseTimeRange a b = some r) :
    0 ≤ r.lo ∧ r.lo < r.hi ∧ r.hi ≤ 1440 := by
  unfold parseTimeRange at h
  split at h
  · cases h
  · split at h
    · rename_i x y hx hy
      have := parseTime_range a x hx
      have := parseTime_range b y hy
      split at h
      · cases h
      · cases h; simp; omega
    · cases h

/-! ### non-vacuity -/

/-- 2024-02-29 12:30 UTC (a Thursday, last day of a leap February). -/
def leapDay : Int := 19782 * 86400 + 12 * 3600 + 30 * 60

example : clockOf leapDay = ⟨2024, 2, 29, 4, 12, 30⟩ := by decide

/-- "last day of the month, working hours, Mon–Fri" contains it; "days 30:31" does not
    (the range starts after the month's end and is skipped, not clamped onto the 29th). -/
example :
    containsTime { times := some [⟨540, 1020⟩], weekdays := some [⟨1, 5⟩], daysOfMonth := some [⟨-1, -1⟩] }
      leapDay (fun _ => 0) 0 = true ∧
    containsTime { daysOfMonth := some [⟨30, 31⟩] } leapDay (fun _ => 0) 0 = false ∧
    containsTime { daysOfMonth := some [⟨-31, -29⟩] } leapDay (fun _ => 0) 0 = false ∧
    containsTime { daysOfMonth := some [⟨-31, -28⟩] } (leapDay - 28 * 86400) (fun _ => 0) 0 = true := by
  decide

/-- DST edge, Europe/Berlin, 2024-03-31: 00:59:59 UTC is 01:59:59 CET (+3600),
    one second later it is 03:00:00 CEST (+7200): a 02:00–03:00 range contains neither,
    03:00–04:00 only the second. -/
def berlinEdge : Int := 1711846800

example :
    let iv : TimeInterval := { times := some [⟨120, 180⟩], location := some "Europe/Berlin" }
    let iv' : TimeInterval := { times := some [⟨180, 240⟩], location := some "Europe/Berlin" }
    containsTime iv (berlinEdge - 1) (fun _ => 3600) 0 = false ∧
    containsTime iv berlinEdge (fun _ => 7200) 0 = false ∧
    containsTime iv' (berlinEdge - 1) (fun _ => 3600) 0 = false ∧
    containsTime iv' berlinEdge (fun _ => 7200) 0 = true ∧
    (clockOf (berlinEdge + 7200)).hour = 3 := by
  decide

/-- The hypotheses of the gate theorems are satisfiable, and both outcomes occur. -/
example :
    let cfg : Named := [("weekend", [{ weekdays := some [⟨6, 6⟩] }, { weekdays := some [⟨0, 0⟩] }]),
                        ("office", [{ times := some [⟨540, 1020⟩], weekdays := some [⟨1, 5⟩] }])]
    (pipeline cfg (some ["weekend"]) (some ["office"]) (some leapDay) (fun _ => 0) 0) = ⟨true, false, some []⟩ ∧
    (pipeline cfg (some ["weekend"]) (some ["office"]) (some (leapDay + 2 * 86400)) (fun _ => 0) 50400)
      = ⟨false, false, some ["office"]⟩ ∧
    (pipeline cfg (some ["weekend"]) (some []) (some (leapDay + 2 * 86400)) (fun _ => 0) (-43200))
      = ⟨false, false, some ["weekend"]⟩ := by
  decide

end AM.TimeInterval
