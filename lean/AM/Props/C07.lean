/-
  C07 — Routing: depth-first, first match unless `continue`, option inheritance.

  `Selects` is the declarative reading of docs/configuration.md §<route>:
  "Every alert enters the routing tree at the top-level route … It then
  traverses the child nodes.  If continue is set to false, it stops after the
  first matching child.  If continue is true on a matching node, the alert will
  continue matching against subsequent siblings.  If an alert does not match any
  children of a node (no matching child nodes, or none exist), the alert is
  handled based on the configuration parameters of the current node."

  All theorems are for every tree and every label set; `p` is the node
  predicate ("this node's matchers accept the alert"), instantiated with the
  real matcher semantics in the `…_real` versions.
-/
import AM.Model.Route

namespace AM.Route
open AM AM.AList AM.Lbl

mutual
/-- `Selects p r l`: for an alert whose accepted nodes are `p`, node `r` yields the routes `l`. -/
inductive Selects (p : Route → Bool) : Route → List Route → Prop
  /-- a node whose matchers fail selects nothing -/
  | reject {r : Route} : p r = false → Selects p r []
  /-- no child selected anything: the node itself handles the alert -/
  | self {r : Route} : p r = true → SelectsKids p r.routes [] → Selects p r [r]
  /-- otherwise what the children selected -/
  | kids {r : Route} {l : List Route} : p r = true → SelectsKids p r.routes l → l ≠ [] → Selects p r l
/-- children are consulted in order, up to and including the first one that selects
    something and does not have `continue`. -/
inductive SelectsKids (p : Route → Bool) : List Route → List Route → Prop
  | nil : SelectsKids p [] []
  | skip {c : Route} {cs : List Route} {l : List Route} :
      Selects p c [] → SelectsKids p cs l → SelectsKids p (c :: cs) l
  | stop {c : Route} {cs : List Route} {m : List Route} :
      Selects p c m → m ≠ [] → c.cont = false → SelectsKids p (c :: cs) m
  | cont {c : Route} {cs : List Route} {m l : List Route} :
      Selects p c m → m ≠ [] → c.cont = true → SelectsKids p cs l → SelectsKids p (c :: cs) (m ++ l)
end

/-! ### unfolding lemmas -/

theorem matchP_mk (p : Route → Bool) (o m c i k d kids) :
    matchP p (.mk o m c i k d kids) =
      if p (.mk o m c i k d kids) then
        (if (matchKids p kids).isEmpty then [.mk o m c i k d kids] else matchKids p kids)
      else [] := by
  rw [matchP]

theorem matchP_eq (p : Route → Bool) (r : Route) :
    matchP p r = if p r then (if (matchKids p r.routes).isEmpty then [r] else matchKids p r.routes) else [] := by
  cases r with
  | mk o m c i k d kids => rw [matchP_mk]; rfl

theorem matchKids_nil (p : Route → Bool) : matchKids p [] = [] := by rw [matchKids]

theorem matchKids_cons (p : Route → Bool) (c : Route) (cs : List Route) :
    matchKids p (c :: cs) =
      if !(matchP p c).isEmpty && !c.cont then matchP p c else matchP p c ++ matchKids p cs := by
  rw [matchKids]

/-- **child_selects_iff_child_matches** (function form): a node yields something iff its own matchers accept. -/
theorem matchP_nil_iff (p : Route → Bool) (r : Route) : matchP p r = [] ↔ p r = false := by
  rw [matchP_eq]
  by_cases h : p r = true
  · simp only [h, if_true]
    by_cases he : (matchKids p r.routes).isEmpty = true
    · simp [he]
    · have he' : (matchKids p r.routes).isEmpty = false := by simpa using he
      simp only [he', Bool.false_eq_true, if_false]
      constructor
      · intro h'; rw [h'] at he'; simp at he'
      · intro h'; simp at h'
  · simp [h]

theorem matchP_ne_nil (p : Route → Bool) (r : Route) (h : p r = true) : matchP p r ≠ [] := by
  intro hn; rw [matchP_nil_iff] at hn; rw [h] at hn; cases hn

/-! ### the implementation computes exactly what the documentation describes -/

mutual
theorem selects_complete (p : Route → Bool) : ∀ r : Route, Selects p r (matchP p r)
  | .mk o m c i k d kids => by
    have ih := selectsKids_complete p kids
    rw [matchP_mk]
    by_cases h : p (.mk o m c i k d kids) = true
    · simp only [h, if_true]
      by_cases he : (matchKids p kids).isEmpty = true
      · simp only [he, if_true]
        have : matchKids p kids = [] := by simpa using he
        rw [this] at ih
        exact Selects.self h ih
      · have he' : (matchKids p kids).isEmpty = false := by simpa using he
        simp only [he', Bool.false_eq_true, if_false]
        refine Selects.kids h ih ?_
        intro hn; rw [hn] at he'; simp at he'
    · have h' : p (.mk o m c i k d kids) = false := by simpa using h
      simp only [h']
      exact Selects.reject h'
theorem selectsKids_complete (p : Route → Bool) : ∀ cs : List Route, SelectsKids p cs (matchKids p cs)
  | [] => by rw [matchKids_nil]; exact SelectsKids.nil
  | c :: cs => by
    have ih1 := selects_complete p c
    have ih2 := selectsKids_complete p cs
    rw [matchKids_cons]
    by_cases hm : matchP p c = []
    · rw [hm] at ih1 ⊢
      simp only [List.isEmpty_nil, Bool.not_true, Bool.false_and, List.nil_append]
      exact SelectsKids.skip ih1 ih2
    · have hne : (matchP p c).isEmpty = false := by
        cases hx : matchP p c with
        | nil => exact absurd hx hm
        | cons _ _ => rfl
      by_cases hc : c.cont = true
      · simp only [hne, hc, Bool.not_true, Bool.and_false]
        exact SelectsKids.cont ih1 hm hc ih2
      · have hc' : c.cont = false := by simpa using hc
        simp only [hne, hc', Bool.not_false, Bool.and_self, if_true]
        exact SelectsKids.stop ih1 hm hc'
end

mutual
theorem selects_unique (p : Route → Bool) : ∀ (r : Route) (l : List Route), Selects p r l → matchP p r = l
  | .mk o m c i k d kids, l, h => by
    rw [matchP_mk]
    cases h with
    | reject hp => simp [hp]
    | self hp hk =>
      have := selectsKids_unique p kids [] hk
      simp [hp, this]
    | kids hp hk hne =>
      have := selectsKids_unique p kids l hk
      rw [this]
      have he : l.isEmpty = false := by
        cases l with
        | nil => exact absurd rfl hne
        | cons _ _ => rfl
      simp [hp, he]
theorem selectsKids_unique (p : Route → Bool) :
    ∀ (cs : List Route) (l : List Route), SelectsKids p cs l → matchKids p cs = l
  | [], l, h => by
    cases h with
    | nil => rw [matchKids_nil]
  | c :: cs, l, h => by
    rw [matchKids_cons]
    cases h with
    | skip h1 h2 =>
      have e1 := selects_unique p c [] h1
      have e2 := selectsKids_unique p cs l h2
      rw [e1, e2]; simp
    | stop h1 hne hc =>
      have e1 := selects_unique p c l h1
      rw [e1]
      have he : l.isEmpty = false := by
        cases l with
        | nil => exact absurd rfl hne
        | cons _ _ => rfl
      simp [he, hc]
    | cont h1 hne hc h2 =>
      rename_i m l'
      have e1 := selects_unique p c m h1
      have e2 := selectsKids_unique p cs l' h2
      rw [e1, e2]
      simp [hc]
end

/-- **match_iff_selects**: `Route.Match` returns `l` iff the documentation's rule selects `l`. -/
theorem match_iff_selects (p : Route → Bool) (r : Route) (l : List Route) :
    matchP p r = l ↔ Selects p r l :=
  ⟨fun h => h ▸ selects_complete p r, selects_unique p r l⟩

theorem match_iff_selects_real (re : String → String → Bool) (r : Route) (ls : LabelSet) (l : List Route) :
    «match» re r ls = l ↔ Selects (accepts re ls) r l := match_iff_selects _ r l

/-- **child_selects_iff_child_matches**: whatever a node selects is non-empty iff the node's matchers hold. -/
theorem child_selects_iff_child_matches (p : Route → Bool) (c : Route) (m : List Route)
    (h : Selects p c m) : m ≠ [] ↔ p c = true := by
  have e := selects_unique p c m h
  rw [← e]
  constructor
  · intro hne
    cases hp : p c with
    | true => rfl
    | false => exact absurd ((matchP_nil_iff p c).mpr hp) hne
  · exact matchP_ne_nil p c

/-- a route without matchers accepts every label set -/
theorem accepts_of_no_matchers (re : String → String → Bool) (ls : LabelSet) (r : Route)
    (h : r.matchers = []) : accepts re ls r = true := by
  simp [accepts, matchesAll, h]

/-- **match_nonempty**: the root has no matchers, so every alert is routed somewhere. -/
theorem match_nonempty (re : String → String → Bool) (r : Route) (ls : LabelSet)
    (hroot : r.matchers = []) : «match» re r ls ≠ [] :=
  matchP_ne_nil _ r (accepts_of_no_matchers re ls r hroot)

/-- the tree built from a configuration whose root has no matchers has a root without matchers -/
theorem mkTree_root_matchers (n : CNode) (kids : List CRoute) (h : n.matchers = []) :
    (mkTree (.mk n kids)).matchers = [] := by
  simp [mkTree, newRoute, Route.matchers, h, sortMatchers]

/-- sorting the matchers (as `newRoute` does) does not change which alerts a node accepts -/
theorem accepts_newRoute (re : String → String → Bool) (ls : LabelSet) (base : Opts) (p : Option PCtx)
    (counter : Nat) (n : CNode) (kids : List CRoute) :
    accepts re ls (newRoute base p counter (.mk n kids)).1 = matchesAll re n.matchers ls := by
  simp [newRoute, accepts, Route.matchers, matchesAll_sort]

/-! ### inheritance -/

theorem lookup_mergeLabels (parent child : LabelSet) (k : String) :
    lookup (mergeLabels parent child) k =
      match lookup child k with
      | some v => some v
      | none => lookup parent k := by
  induction child with
  | nil => simp [mergeLabels]
  | cons hd tl ih =>
    obtain ⟨k', v'⟩ := hd
    have : mergeLabels parent ((k', v') :: tl) = put (mergeLabels parent tl) k' v' := rfl
    rw [this, lookup_put]
    by_cases h : k' = k
    · simp [h]
    · simp [h, ih]

/-- **inherit_spec**: each option is the child's setting when present, else the parent's. -/
theorem inherit_spec (base : Opts) (n : CNode) :
    let o := applyOpts base n
    (o.receiver = if n.receiver = "" then base.receiver else n.receiver) ∧
    (o.groupWait = match n.groupWait with | some d => d | none => base.groupWait) ∧
    (o.groupInterval = match n.groupInterval with | some d => d | none => base.groupInterval) ∧
    (o.repeatInterval = match n.repeatInterval with | some d => d | none => base.repeatInterval) ∧
    -- an explicit list (also the empty one) replaces the parent's grouping and switches `...` off
    (∀ l, n.groupBy = some l → o.groupBy = l ∧ o.groupByAll = false) ∧
    -- `...` switches grouping by all labels on
    (n.groupBy = none → n.groupByAll = true → o.groupByAll = true) ∧
    -- nothing said: inherited
    (n.groupBy = none → n.groupByAll = false → o.groupBy = base.groupBy ∧ o.groupByAll = base.groupByAll) ∧
    -- route labels are merged, the child's value winning; the parent's set is untouched (fresh value)
    (∀ k, lookup o.labels k = match lookup n.labels k with | some v => some v | none => lookup base.labels k) ∧
    -- time intervals are *not* inherited
    (o.muteTI = n.muteTI ∧ o.activeTI = n.activeTI) := by
  refine ⟨?_, ?_, ?_, ?_, ?_, ?_, ?_, ?_, ?_⟩
  · by_cases h : n.receiver = "" <;> simp [applyOpts, h]
  · cases h : n.groupWait <;> simp [applyOpts, h]
  · cases h : n.groupInterval <;> simp [applyOpts, h]
  · cases h : n.repeatInterval <;> simp [applyOpts, h]
  · intro l h; simp [applyOpts, h]
  · intro h1 h2; simp [applyOpts, h1, h2]
  · intro h1 h2; simp [applyOpts, h1, h2]
  · intro k
    by_cases he : n.labels.isEmpty = true
    · have : n.labels = [] := by simpa using he
      simp [applyOpts, this]
    · simp only [applyOpts, he]
      exact lookup_mergeLabels _ _ k
  · simp [applyOpts]

/-- every child is built from its parent's *resolved* options (so inheritance is transitive) -/
theorem newRoute_opts (base : Opts) (p : Option PCtx) (counter : Nat) (n : CNode) (kids : List CRoute) :
    (newRoute base p counter (.mk n kids)).1.opts = applyOpts base n ∧
    (newRoute base p counter (.mk n kids)).1.routes =
      (newRoutes (applyOpts base n) (routeKey p (sortMatchers n.matchers)) (routeID p (sortMatchers n.matchers))
        0 counter kids).1 := by
  simp [newRoute, Route.opts, Route.routes]

theorem newRoutes_cons (base : Opts) (pk pid : String) (pos counter : Nat) (c : CRoute) (cs : List CRoute) :
    (newRoutes base pk pid pos counter (c :: cs)).1 =
      (newRoute base (some { key := pk, id := pid, pos := pos }) counter c).1 ::
      (newRoutes base pk pid (pos + 1) (newRoute base (some { key := pk, id := pid, pos := pos }) counter c).2 cs).1 := by
  simp [newRoutes]

/-! ### every selected route has a (defined) receiver -/

mutual
/-- `checkReceiver`: every receiver named in the tree is defined. -/
def receiversDefined (names : List String) : CRoute → Bool
  | .mk n kids => (n.receiver = "" || names.contains n.receiver) && receiversDefinedL names kids
def receiversDefinedL (names : List String) : List CRoute → Bool
  | [] => true
  | c :: cs => receiversDefined names c && receiversDefinedL names cs
end

/-- `Config.UnmarshalYAML` checks on the route tree that matter for routing. -/
def WellFormed (names : List String) : CRoute → Prop
  | .mk n kids => n.receiver ≠ "" ∧ n.matchers = [] ∧ receiversDefined names (.mk n kids) = true

theorem applyOpts_receiver_mem (names : List String) (base : Opts) (n : CNode)
    (hb : base.receiver ∈ names ∨ n.receiver ≠ "")
    (hn : (n.receiver = "" || names.contains n.receiver) = true) :
    (applyOpts base n).receiver ∈ names := by
  by_cases h : n.receiver = ""
  · simp only [applyOpts, h]
    rcases hb with hb | hb
    · simpa using hb
    · exact absurd h hb
  · simp only [applyOpts]
    simp [h] at hn
    simpa [h] using hn

mutual
theorem nodes_receiver_mem (names : List String) :
    ∀ (cr : CRoute) (base : Opts) (p : Option PCtx) (counter : Nat),
      receiversDefined names cr = true →
      (base.receiver ∈ names ∨ (match cr with | .mk n _ => n.receiver ≠ "")) →
      ∀ x ∈ nodes (newRoute base p counter cr).1, x.opts.receiver ∈ names
  | .mk n kids, base, p, counter, hd, hb, x, hx => by
    rw [receiversDefined] at hd
    have hd' := Bool.and_eq_true_iff.mp hd
    have hrecv := applyOpts_receiver_mem names base n hb hd'.1
    rw [newRoute] at hx
    simp only [nodes, List.mem_cons] at hx
    rcases hx with rfl | hx
    · exact hrecv
    · exact nodesL_receiver_mem names kids (applyOpts base n) _ _ 0 counter hd'.2 hrecv x hx
theorem nodesL_receiver_mem (names : List String) :
    ∀ (cs : List CRoute) (base : Opts) (pk pid : String) (pos counter : Nat),
      receiversDefinedL names cs = true → base.receiver ∈ names →
      ∀ x ∈ nodesL (newRoutes base pk pid pos counter cs).1, x.opts.receiver ∈ names
  | [], _, _, _, _, _, _, _, x, hx => by
    rw [newRoutes] at hx; simp [nodesL] at hx
  | c :: cs, base, pk, pid, pos, counter, hd, hb, x, hx => by
    rw [receiversDefinedL] at hd
    have hd' := Bool.and_eq_true_iff.mp hd
    rw [newRoutes] at hx
    simp only [nodesL, List.mem_append] at hx
    rcases hx with hx | hx
    · exact nodes_receiver_mem names c base _ counter hd'.1 (Or.inl hb) x hx
    · exact nodesL_receiver_mem names cs base pk pid (pos + 1) _ hd'.2 hb x hx
end

mutual
theorem matchP_subset_nodes (p : Route → Bool) : ∀ (r : Route) (x : Route), x ∈ matchP p r → x ∈ nodes r
  | .mk o m c i k d kids, x, hx => by
    rw [matchP_mk] at hx
    simp only [nodes, List.mem_cons]
    by_cases hp : p (.mk o m c i k d kids) = true
    · simp only [hp, if_true] at hx
      by_cases he : (matchKids p kids).isEmpty = true
      · simp only [he, if_true, List.mem_singleton] at hx
        exact Or.inl hx
      · simp only [he] at hx
        exact Or.inr (matchKids_subset_nodes p kids x hx)
    · simp [hp] at hx
theorem matchKids_subset_nodes (p : Route → Bool) :
    ∀ (cs : List Route) (x : Route), x ∈ matchKids p cs → x ∈ nodesL cs
  | [], x, hx => by rw [matchKids_nil] at hx; simp at hx
  | c :: cs, x, hx => by
    rw [matchKids_cons] at hx
    simp only [nodesL, List.mem_append]
    by_cases hc : (!(matchP p c).isEmpty && !c.cont) = true
    · simp only [hc, if_true] at hx
      exact Or.inl (matchP_subset_nodes p c x hx)
    · simp only [hc] at hx
      rcases List.mem_append.mp hx with hx | hx
      · exact Or.inl (matchP_subset_nodes p c x hx)
      · exact Or.inr (matchKids_subset_nodes p cs x hx)
end

/-- **every_selected_route_has_receiver**: for a configuration accepted by `Config.UnmarshalYAML`
    (root receiver set, root without matchers, all named receivers defined, receiver names
    non-empty), every alert is matched by at least one route and every matched route resolves to a
    defined receiver. -/
theorem every_selected_route_has_receiver (re : String → String → Bool) (names : List String)
    (hnames : "" ∉ names) (cr : CRoute) (hwf : WellFormed names cr) (ls : LabelSet) :
    «match» re (mkTree cr) ls ≠ [] ∧
    ∀ x ∈ «match» re (mkTree cr) ls, x.opts.receiver ∈ names ∧ x.opts.receiver ≠ "" := by
  cases cr with
  | mk n kids =>
    obtain ⟨hr, hm, hd⟩ := hwf
    refine ⟨match_nonempty re _ ls (mkTree_root_matchers n kids hm), ?_⟩
    intro x hx
    have hn := matchP_subset_nodes _ _ x hx
    have hmem := nodes_receiver_mem names (.mk n kids) defaultOpts none 0 hd (Or.inr hr) x hn
    exact ⟨hmem, fun he => hnames (he ▸ hmem)⟩

/-! ### the three consumers

  `api/v2/api.go` (`Update` + `getAlertsHandler`), `cli/test_routing.go`
  (`routingTestAction` + `resolveAlertReceivers`) and the dispatcher
  (`app/reloader.go` + `Dispatcher.routeAlert`/`Groups`) each build the tree with
  `dispatch.NewRoute(cfg.Route, nil)` and ask it `Match(labels)`, reading the
  receiver from `RouteOpts.Receiver`.  The Go engine pins those call sites (go/ast);
  here they are therefore one and the same function. -/

def apiReceivers (re : String → String → Bool) (cr : CRoute) (ls : LabelSet) : List String :=
  («match» re (mkTree cr) ls).map (·.opts.receiver)
def amtoolReceivers (re : String → String → Bool) (cr : CRoute) (ls : LabelSet) : List String :=
  («match» re (mkTree cr) ls).map (·.opts.receiver)
def dispatcherRoutes (re : String → String → Bool) (cr : CRoute) (ls : LabelSet) : List Route :=
  «match» re (mkTree cr) ls

/-- **three_consumers_agree** (modulo the pinned call sites). -/
theorem three_consumers_agree (re : String → String → Bool) (cr : CRoute) (ls : LabelSet) :
    apiReceivers re cr ls = amtoolReceivers re cr ls ∧
    apiReceivers re cr ls = (dispatcherRoutes re cr ls).map (·.opts.receiver) := ⟨rfl, rfl⟩

/-! ### non-vacuity -/

/-- a two-level tree: the child groups by `[]` explicitly, has `continue`, and a sibling follows -/
def exTree : CRoute :=
  .mk { receiver := "root", groupBy := some ["a"] }
    [ .mk { receiver := "r1", matchers := [⟨.eq, "a", "x"⟩], cont := true, groupBy := some [] } [],
      .mk { matchers := [⟨.ne, "b", ""⟩] } [] ]

example : WellFormed ["root", "r1"] exTree := by
  refine ⟨by decide, rfl, ?_⟩
  simp [receiversDefined, receiversDefinedL]

end AM.Route
