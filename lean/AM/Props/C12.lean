/-
  C12 — Silence lifecycle: ids are stable, history is immutable, retention is
  honoured.  Theorems about `AM.Silence.set / expire / gc / apiPost`, unbounded.

  Corners the code really has, kept visible in the hypotheses:
  * `Set`/`Expire` write through `state.merge`, which drops a version whose
    `UpdatedAt` (= now) is not after the stored one: an edit or expiry issued at
    the very instant of the previous update of that silence is silently lost
    (`p.sil.updated < now` below);
  * with retention 0 a silence is collected at the instant `now = end`, where
    `getState` still says active (`gc_never_removes_pending_or_active` needs
    `0 < ret` for the strict form);
  * `getState` calls a silence with `start > end` pending although its end has
    passed; such silences only arise from `Silences.Set` called directly with an
    end in the past (the API rejects that), so "expired" below is `getState = expired`.
-/
import AM.Model.Silence
import AM.Lemmas.SilenceStore
import AM.Props.C09

namespace AM.Silence
open AM AM.AList

/-! ### helpers -/

theorem setSilence_lookup (now : Int) (s : Store) (m : Mesh) (k : String) :
    lookup (setSilence now s m).1.st k = if m.sil.id = k then upd now (lookup s.st k) m else lookup s.st k := by
  rw [(setSilence_st now s m).1, lookup_stMerge]

theorem expiredVersion_id (now : Int) (p x : Sil) (h : expiredVersion now p = some x) : x.id = p.id := by
  unfold expiredVersion at h
  cases hs : getState p now <;> simp [hs] at h <;> rw [← h]

theorem expireCore_lookup_ne (ret now : Int) (s : Store) (p : Sil) (k : String) (hk : p.id ≠ k) :
    lookup (expireCore ret now s p).1.st k = lookup s.st k := by
  unfold expireCore
  cases hx : expiredVersion now p with
  | none => rfl
  | some x =>
    simp only
    rw [setSilence_lookup]
    have : (toMesh ret x).sil.id = p.id := expiredVersion_id now p x hx
    simp [this, hk]

theorem expirePrev_lookup_ne (ret now : Int) (s : Store) (prev : Option Mesh) (k : String)
    (hk : ∀ p, prev = some p → p.sil.id ≠ k) :
    lookup (expirePrev ret now s prev).1.st k = lookup s.st k := by
  cases prev with
  | none => rfl
  | some p => exact expireCore_lookup_ne ret now s p.sil k (hk p rfl)

theorem setSilence_refused (now : Int) (s : Store) (m : Mesh) (h : mergeKind now s.st m = .refused) :
    setSilence now s m = (s, .refused) := by
  unfold setSilence; rw [h]

theorem expired_mono (x : Sil) (now now' : Int) (h : getState x now = .expired) (hle : now ≤ now') :
    getState x now' = .expired := by
  unfold getState at *
  by_cases h1 : now < x.start
  · simp [h1] at h
  · by_cases h2 : now > x.stop
    · have h1' : ¬ now' < x.start := by omega
      have h2' : now' > x.stop := by omega
      simp [h1', h2']
    · simp [h1, h2] at h

/-- what `expire` does to a stored silence that is not yet expired, absent an update-time tie -/
theorem expireCore_effect (ret now : Int) (s : Store) (p : Mesh) (hl : lookup s.st p.sil.id = some p)
    (hu : p.sil.updated < now) (hr : 0 ≤ ret) (hne : getState p.sil now ≠ .expired) :
    ∃ x, expiredVersion now p.sil = some x ∧ x.stop = now ∧ x.start ≤ now ∧ x.id = p.sil.id ∧
      lookup (expireCore ret now s p.sil).1.st p.sil.id = some (toMesh ret x) := by
  unfold expireCore
  cases hx : expiredVersion now p.sil with
  | none =>
    unfold expiredVersion at hx
    cases hs : getState p.sil now <;> simp [hs] at hx
    exact absurd hs hne
  | some x =>
    have hid := expiredVersion_id now p.sil x hx
    have hst : x.stop = now ∧ x.start ≤ now ∧ x.updated = now := by
      unfold expiredVersion at hx
      cases hs : getState p.sil now with
      | expired => exact absurd hs hne
      | active =>
        simp [hs] at hx; rw [← hx]; simp
        unfold getState at hs
        by_cases h1 : now < p.sil.start
        · simp [h1] at hs
        · omega
      | pending => simp [hs] at hx; rw [← hx]; simp
    refine ⟨x, rfl, hst.1, hst.2.1, hid, ?_⟩
    simp only
    rw [setSilence_lookup]
    have hk : (toMesh ret x).sil.id = p.sil.id := hid
    simp only [hk, if_true, hl, upd]
    have h1 : ¬ (toMesh ret x).exp < now := by simp [toMesh, hst.1]; omega
    have h2 : p.sil.updated < (toMesh ret x).sil.updated := by simp [toMesh, hst.2.2]; exact hu
    simp [h1, h2]

/-! ### creation -/

/-- `Set` either updates in place under the submitted id or answers with the id drawn. -/
theorem create_fresh_id (env : Env) (ret : Int) (maxSil : Nat) (now : Int) (s : Store) (inp : SilIn)
    (newId : String) (big : Bool) (r : SetOk) (h : set env ret maxSil now s inp newId big = .ok r) :
    (r.inPlace = true ∧ r.id = inp.id ∧ (lookup s.st inp.id).isSome = true) ∨ (r.inPlace = false ∧ r.id = newId) := by
  unfold set at h
  by_cases hv : (!validate env inp.sets (inp.start.getD now) inp.stop) = true
  · simp [hv] at h
  · by_cases hn : inp.id ≠ "" ∧ lookup s.st inp.id = none
    · simp [hv, hn] at h
    · simp only [hv, hn, if_false] at h
      by_cases hu : canUpdatePrev (lookup s.st inp.id) (silOfIn inp now) now = true
      · left
        simp only [hu, if_true] at h
        unfold setUpdate at h
        by_cases hb : big = true
        · simp [hb] at h
        · simp only [hb] at h
          injection h with h; subst h
          refine ⟨rfl, rfl, ?_⟩
          unfold canUpdatePrev at hu
          cases hl : lookup s.st inp.id with
          | none => simp [hl] at hu
          | some p => simp
      · right
        simp only [hu] at h
        unfold setCreate at h
        by_cases hl : maxSil > 0 ∧ s.st.length + 1 > maxSil
        · simp [hl] at h
        · by_cases hb : big = true
          · simp [hl, hb] at h
          · simp only [hl, hb, if_false] at h
            injection h with h; subst h
            exact ⟨rfl, rfl⟩

/-- A created silence never starts in the past: whatever is stored under a freshly drawn
    id after `Set` starts at `now` or later. -/
theorem create_start_not_past (env : Env) (ret : Int) (maxSil : Nat) (now : Int) (s : Store) (inp : SilIn)
    (newId : String) (big : Bool) (r : SetOk) (h : set env ret maxSil now s inp newId big = .ok r)
    (hin : r.inPlace = false) (hfresh : lookup s.st newId = none) (hne : newId ≠ inp.id)
    (hkey : ∀ id m, lookup s.st id = some m → m.sil.id = id) (m : Mesh)
    (hm : lookup r.store.st newId = some m) : now ≤ m.sil.start ∧ m.sil.updated = now ∧ m.exp = m.sil.stop + ret := by
  unfold set at h
  by_cases hv : (!validate env inp.sets (inp.start.getD now) inp.stop) = true
  · simp [hv] at h
  · by_cases hn : inp.id ≠ "" ∧ lookup s.st inp.id = none
    · simp [hv, hn] at h
    · simp only [hv, hn, if_false] at h
      by_cases hu : canUpdatePrev (lookup s.st inp.id) (silOfIn inp now) now = true
      · simp only [hu, if_true] at h
        unfold setUpdate at h
        by_cases hb : big = true
        · simp [hb] at h
        · simp only [hb] at h
          injection h with h; subst h
          simp at hin
      · simp only [hu] at h
        unfold setCreate at h
        by_cases hl : maxSil > 0 ∧ s.st.length + 1 > maxSil
        · simp [hl] at h
        · by_cases hb : big = true
          · simp [hl, hb] at h
          · simp only [hl, hb, if_false] at h
            injection h with h; subst h
            simp only at hm
            rw [setSilence_lookup] at hm
            have hid : (toMesh ret (raised (silOfIn inp now) newId now)).sil.id = newId := rfl
            simp only [hid, if_true] at hm
            rw [expirePrev_lookup_ne ret now s _ newId
              (fun p hp => by rw [hkey _ _ hp]; exact Ne.symm hne), hfresh] at hm
            unfold upd at hm
            simp only at hm
            split at hm
            · cases hm
            · injection hm with hm
              rw [← hm]
              refine ⟨?_, rfl, rfl⟩
              show now ≤ (raised (silOfIn inp now) newId now).start
              unfold raised
              simp only
              split <;> omega

/-! ### edits -/

/-- An edit that leaves history intact (same matchers; for an active silence the same start
    to the second and an end not in the past; for a pending one a start not in the past)
    keeps the id and replaces the stored version. -/
theorem edit_compatible_keeps_id (env : Env) (ret : Int) (maxSil : Nat) (now : Int) (s : Store) (inp : SilIn)
    (newId : String) (p : Mesh)
    (hl : lookup s.st inp.id = some p)
    (hv : validate env inp.sets (inp.start.getD now) inp.stop = true)
    (hc : canUpdate p.sil (silOfIn inp now) now = true)
    (hu : p.sil.updated < now) (hr : 0 ≤ ret) :
    ∃ r, set env ret maxSil now s inp newId false = .ok r ∧ r.id = inp.id ∧ r.inPlace = true ∧
      lookup r.store.st inp.id = some (toMesh ret (silOfIn inp now)) ∧
      r.bcasts = [toMesh ret (silOfIn inp now)] := by
  have hcu : canUpdatePrev (lookup s.st inp.id) (silOfIn inp now) now = true := by simp [canUpdatePrev, hl, hc]
  have hnf : ¬ (inp.id ≠ "" ∧ lookup s.st inp.id = none) := by simp [hl]
  -- the new version is not past retention
  have hexp : now ≤ (silOfIn inp now).stop := by
    unfold validate at hv
    cases hs : inp.stop with
    | none => simp [hs] at hv
    | some e =>
      simp [hs] at hv
      have hse : inp.start.getD now ≤ e := hv.2
      unfold canUpdate at hc
      cases hg : getState p.sil now with
      | expired => simp [hg] at hc
      | active =>
        simp [hg, silOfIn, hs] at hc
        obtain ⟨_, _, h3⟩ := hc
        simp [silOfIn, hs]; omega
      | pending =>
        simp [hg, silOfIn] at hc
        obtain ⟨_, h3⟩ := hc
        have h3' := of_decide_eq_false h3
        simp [silOfIn, hs]; omega
  have hk : mergeKind now s.st (toMesh ret (silOfIn inp now)) = .updated := by
    unfold mergeKind
    have h1 : ¬ (toMesh ret (silOfIn inp now)).exp < now := by simp [toMesh]; omega
    have h2 : (toMesh ret (silOfIn inp now)).sil.id = inp.id := rfl
    simp only [h1, if_false, h2, hl]
    have h3 : p.sil.updated < (toMesh ret (silOfIn inp now)).sil.updated := by simp [toMesh, silOfIn]; exact hu
    simp [h3]
  refine ⟨{ store := (setSilence now s (toMesh ret (silOfIn inp now))).1, id := inp.id,
            bcasts := bcastOf (setSilence now s (toMesh ret (silOfIn inp now))).2 (toMesh ret (silOfIn inp now)),
            inPlace := true }, ?_, rfl, rfl, ?_, ?_⟩
  · unfold set
    simp only [hv, hnf, hcu, Bool.not_true, if_false, if_true]
    unfold setUpdate
    simp [silOfIn]
  · simp only
    rw [(setSilence_st now s _).1]
    unfold stMerge
    rw [hk]
    have h2 : (toMesh ret (silOfIn inp now)).sil.id = inp.id := rfl
    simp [h2]
  · simp only
    rw [(setSilence_st now s _).2, hk]
    rfl

/-- An edit that would rewrite history (different matchers, moved start of an active
    silence, end in the past, or any edit of an expired silence) creates a new id; the old
    silence stays, unchanged if it had expired, else expired as of now. -/
theorem edit_incompatible_expires_old_creates_new (env : Env) (ret : Int) (maxSil : Nat) (now : Int) (s : Store)
    (inp : SilIn) (newId : String) (big : Bool) (p : Mesh) (r : SetOk)
    (hl : lookup s.st inp.id = some p) (hkey : p.sil.id = inp.id)
    (hc : canUpdate p.sil (silOfIn inp now) now = false)
    (hne : newId ≠ inp.id) (hu : p.sil.updated < now) (hr : 0 ≤ ret)
    (h : set env ret maxSil now s inp newId big = .ok r) :
    r.id = newId ∧ r.inPlace = false ∧
      (if getState p.sil now = .expired then lookup r.store.st inp.id = some p
       else ∃ x, lookup r.store.st inp.id = some (toMesh ret x) ∧ x.stop = now ∧ x.start ≤ now ∧
              ∀ t, now < t → getState x t = .expired) := by
  have hcu : ¬ canUpdatePrev (lookup s.st inp.id) (silOfIn inp now) now = true := by simp [canUpdatePrev, hl, hc]
  unfold set at h
  by_cases hv : (!validate env inp.sets (inp.start.getD now) inp.stop) = true
  · simp [hv] at h
  · by_cases hn : inp.id ≠ "" ∧ lookup s.st inp.id = none
    · simp [hv, hn] at h
    · simp only [hv, hn, if_false, hcu] at h
      unfold setCreate at h
      by_cases hlim : maxSil > 0 ∧ s.st.length + 1 > maxSil
      · simp [hlim] at h
      · by_cases hb : big = true
        · simp [hlim, hb] at h
        · simp only [hlim, hb, if_false, hl] at h
          injection h with h; subst h
          refine ⟨rfl, rfl, ?_⟩
          simp only
          rw [setSilence_lookup]
          have hk : ¬ (toMesh ret (raised (silOfIn inp now) newId now)).sil.id = inp.id := by
            simp [toMesh, raised]; exact hne
          simp only [hk, if_false, expirePrev]
          by_cases hs : getState p.sil now = .expired
          · simp only [hs, if_true]
            unfold expireCore expiredVersion
            simp [hs, hl]
          · simp only [hs, if_false]
            have hl' : lookup s.st p.sil.id = some p := by rw [hkey]; exact hl
            obtain ⟨x, _, hx1, hx2, _, hx4⟩ := expireCore_effect ret now s p hl' hu hr hs
            rw [hkey] at hx4
            refine ⟨x, hx4, hx1, hx2, ?_⟩
            intro t ht
            unfold getState
            have h1 : ¬ t < x.start := by omega
            have h2 : t > x.stop := by omega
            simp [h1, h2]

/-! ### rejections -/

/-- A submitted id the store does not know is rejected (HTTP 404), for `Set` and `Expire`. -/
theorem unknown_id_rejected (env : Env) (ret : Int) (maxSil : Nat) (now : Int) (s : Store) (inp : SilIn)
    (newId : String) (big : Bool) (hid : inp.id ≠ "") (hl : lookup s.st inp.id = none) :
    (set env ret maxSil now s inp newId big = .error .notFound ∨ set env ret maxSil now s inp newId big = .error .invalid) ∧
    expire ret now s inp.id = .error .notFound := by
  constructor
  · unfold set
    by_cases hv : (!validate env inp.sets (inp.start.getD now) inp.stop) = true
    · right; simp [hv]
    · left; simp [hv, hid, hl]
  · unfold expire; simp [hl]

/-- The API refuses a silence ending in the past and an empty or inverted interval,
    whatever else the request says, and then leaves the store alone. -/
theorem api_rejects_past_end (env : Env) (ret : Int) (maxSil : Nat) (now : Int) (s : Store) (inp : SilIn)
    (newId : String) (big : Bool) (a e : Int) (ha : inp.start = some a) (he : inp.stop = some e)
    (h : e < now ∨ a ≥ e) :
    (match apiPost env ret maxSil now s inp newId big with | .badRequest => True | _ => False) := by
  unfold apiPost
  simp only [ha, he]
  by_cases h1 : a ≥ e
  · simp [h1]
  · have h2 : e < now := by rcases h with h | h <;> omega
    simp [h1, h2]

/-- What the API answers with when it accepts: the outcome of `Set`; every refusal
    (`badRequest`, `notFound`) carries no new store. -/
theorem rejected_op_changes_nothing (env : Env) (ret : Int) (maxSil : Nat) (now : Int) (s : Store) (inp : SilIn)
    (newId : String) (big : Bool) (r : SetOk)
    (h : (match apiPost env ret maxSil now s inp newId big with | .ok x => x = r | _ => False)) :
    set env ret maxSil now s inp newId big = .ok r := by
  unfold apiPost at h
  cases ha : inp.start with
  | none => simp [ha] at h
  | some a =>
    cases he : inp.stop with
    | none => simp [ha, he] at h
    | some e =>
      simp only [ha, he] at h
      by_cases h1 : a ≥ e
      · simp [h1] at h
      · by_cases h2 : e < now
        · simp [h1, h2] at h
        · simp only [h1, h2, if_false] at h
          cases hs : set env ret maxSil now s inp newId big with
          | ok x => simp [hs] at h; rw [h]
          | error er => cases er <;> simp [hs] at h

/-- One bad matcher set anywhere in the list - first or later - (empty, a malformed matcher, or only matchers
    that match the empty string) makes the whole request invalid: the verdict on a set does not depend on
    the sets before it. -/
theorem validate_false_of_bad_set (env : Env) (sets : MatcherSets) (start : Int) (stop : Option Int)
    (ms : List Matcher) (hm : ms ∈ sets) (hb : setValid env ms = false) :
    validate env sets start stop = false := by
  unfold validate
  have : sets.all (setValid env) = false := by
    rw [List.all_eq_false]
    exact ⟨ms, hm, by simp [hb]⟩
  simp [this]

/-- A request that is invalid on its own terms is refused by `Set` and by the API, whatever the store
    holds (and so leaves it alone: a refusal carries no store). -/
theorem invalid_input_rejected (env : Env) (ret : Int) (maxSil : Nat) (now : Int) (s : Store) (inp : SilIn)
    (newId : String) (big : Bool) (h : validate env inp.sets (inp.start.getD now) inp.stop = false) :
    set env ret maxSil now s inp newId big = .error .invalid ∧
    (match apiPost env ret maxSil now s inp newId big with | .ok _ => False | _ => True) := by
  have hs : set env ret maxSil now s inp newId big = .error .invalid := by
    unfold set; simp [h]
  refine ⟨hs, ?_⟩
  unfold apiPost
  cases ha : inp.start with
  | none => simp
  | some a =>
    cases he : inp.stop with
    | none => simp
    | some e =>
      simp only []
      by_cases h1 : a ≥ e
      · simp [h1]
      · by_cases h2 : e < now
        · simp [h1, h2]
        · simp [h1, h2, hs]

/-! ### expiry -/

/-- Expiring takes effect immediately: from the next instant on the silence is expired. -/
theorem expire_effective (ret now : Int) (s : Store) (id : String) (p : Mesh) (r : Store × List Mesh)
    (hl : lookup s.st id = some p) (hkey : p.sil.id = id) (hu : p.sil.updated < now) (hr : 0 ≤ ret)
    (h : expire ret now s id = .ok r) :
    ∃ m, lookup r.1.st id = some m ∧ ∀ t, now < t → getState m.sil t = .expired := by
  unfold expire at h
  simp [hl] at h
  subst h
  by_cases hs : getState p.sil now = .expired
  · refine ⟨p, ?_, fun t ht => expired_mono p.sil now t hs (by omega)⟩
    unfold expireCore expiredVersion
    simp [hs, hl]
  · have hl' : lookup s.st p.sil.id = some p := by rw [hkey]; exact hl
    obtain ⟨x, _, hx1, hx2, _, hx4⟩ := expireCore_effect ret now s p hl' hu hr hs
    rw [hkey] at hx4
    refine ⟨toMesh ret x, hx4, ?_⟩
    intro t ht
    unfold getState
    have h1 : ¬ t < x.start := by simp [toMesh]; omega
    have h2 : t > x.stop := by simp [toMesh]; omega
    simp [toMesh] at h1 h2 ⊢
    simp [h1, h2]

theorem expire_after_expire (ret now now' : Int) (s1 : Store) (id : String) (x : Sil)
    (hl : lookup s1.st id = some (toMesh ret x)) (hid : x.id = id)
    (hx : x.stop = now ∧ x.start ≤ now ∧ x.updated = now) (hle : now ≤ now') :
    expire ret now' s1 id = .ok (s1, []) := by
  unfold expire
  simp only [hl]
  congr 1
  unfold expireCore
  cases hx' : expiredVersion now' (toMesh ret x).sil with
  | none => rfl
  | some y =>
    -- only possible at now' = now, and then the write ties with the stored version
    have hsx : (toMesh ret x).sil = x := rfl
    rw [hsx] at hx'
    have hnow : now' = now := by
      unfold expiredVersion at hx'
      cases hg : getState x now' with
      | expired => simp [hg] at hx'
      | active =>
        unfold getState at hg
        by_cases h1 : now' < x.start
        · simp [h1] at hg
        · by_cases h2 : now' > x.stop
          · simp [h1, h2] at hg
          · omega
      | pending =>
        unfold getState at hg
        by_cases h1 : now' < x.start
        · omega
        · by_cases h2 : now' > x.stop <;> simp [h1, h2] at hg
    have hy : y.updated = now' ∧ y.id = x.id := by
      unfold expiredVersion at hx'
      cases hg : getState x now' <;> simp [hg] at hx' <;> rw [← hx'] <;> simp
    have hk : mergeKind now' s1.st (toMesh ret y) = .refused := by
      unfold mergeKind
      have hid' : (toMesh ret y).sil.id = id := by simp [toMesh, hy.2, hid]
      by_cases he : (toMesh ret y).exp < now'
      · simp [he]
      · have : ¬ (toMesh ret x).sil.updated < (toMesh ret y).sil.updated := by
          simp [toMesh, hy.1, hx.2.2, hnow]
        simp [he, hid', hl, this]
    simp only
    rw [setSilence_refused now' s1 _ hk]
    simp [bcastOf]

/-- Expiring is idempotent: a second `Expire`, at the same or any later instant, changes
    nothing and broadcasts nothing. -/
theorem expire_idempotent (ret now now' : Int) (s : Store) (id : String) (p : Mesh) (r : Store × List Mesh)
    (hl : lookup s.st id = some p) (hkey : p.sil.id = id) (hu : p.sil.updated < now) (hr : 0 ≤ ret)
    (hle : now ≤ now') (h : expire ret now s id = .ok r) :
    expire ret now' r.1 id = .ok (r.1, []) := by
  unfold expire at h
  simp [hl] at h
  subst h
  by_cases hs : getState p.sil now = .expired
  · have hst : (expireCore ret now s p.sil).1 = s := by unfold expireCore expiredVersion; simp [hs]
    rw [hst]
    unfold expire
    simp only [hl]
    unfold expireCore expiredVersion
    simp [expired_mono p.sil now now' hs hle]
  · have hl' : lookup s.st p.sil.id = some p := by rw [hkey]; exact hl
    obtain ⟨x, hxv, hx1, hx2, hx3, hx4⟩ := expireCore_effect ret now s p hl' hu hr hs
    rw [hkey] at hx4
    have hxu : x.updated = now := by
      unfold expiredVersion at hxv
      cases hg : getState p.sil now <;> simp [hg] at hxv <;> rw [← hxv]
    exact expire_after_expire ret now now' _ id x hx4 (by rw [hx3, hkey]) ⟨hx1, hx2, hxu⟩ hle

/-! ### retention and GC -/

/-- Every silence stays queryable until its end plus the retention: no operation but GC
    removes an id, and GC keeps everything whose `ExpiresAt` is still ahead. -/
theorem queryable_until_retention (now : Int) (s : Store) (hi : IndexInv s) (id : String) (m : Mesh)
    (hl : lookup s.st id = some m) :
    (now < m.exp → lookup (gc now s).1.st id = some m) ∧
    (∀ t e, (lookup (stMerge t s.st e) id).isSome = true) := by
  constructor
  · intro hx
    rw [lookup_gc now s hi, hl]
    have : ¬ m.exp ≤ now := by omega
    simp [this]
  · intro t e
    obtain ⟨q, hq, _⟩ := merge_monotone t s.st e id m hl
    simp [hq]

/-- … and is removed by the first garbage collection at or after that instant. -/
theorem gc_removes_after_retention (now : Int) (s : Store) (hi : IndexInv s) (id : String) (m : Mesh)
    (hl : lookup s.st id = some m) (hx : m.exp ≤ now) : lookup (gc now s).1.st id = none := by
  rw [lookup_gc now s hi, hl]; simp [hx]

/-- GC never removes a silence that has not ended; with a positive retention it never
    removes a pending or active one.  (With retention 0 a silence is collected at the
    instant `now = end`, where `getState` still reports it active.) -/
theorem gc_never_removes_pending_or_active (ret now : Int) (s : Store) (hi : IndexInv s) (id : String) (m : Mesh)
    (hl : lookup s.st id = some m) (hexp : m.exp = m.sil.stop + ret) (hr : 0 ≤ ret)
    (hgone : lookup (gc now s).1.st id = none) :
    m.sil.stop ≤ now ∧ (0 < ret → m.sil.start ≤ m.sil.stop → getState m.sil now = .expired) := by
  rw [lookup_gc now s hi, hl] at hgone
  by_cases hx : m.exp ≤ now
  · refine ⟨by omega, ?_⟩
    intro hpos hwf
    unfold getState
    have h1 : ¬ now < m.sil.start := by omega
    have h2 : now > m.sil.stop := by omega
    simp [h1, h2]
  · simp [hx] at hgone

/-! ### an expired silence never becomes active again (API histories: no merges) -/

inductive ApiOp where
  | set (now : Int) (inp : SilIn) (newId : String) (big : Bool)
  | expire (now : Int) (id : String)
  | gc (now : Int)
  | reload

def ApiOp.time : ApiOp → Option Int
  | .set t _ _ _ => some t
  | .expire t _ => some t
  | .gc t => some t
  | .reload => none

/-- one API-level step; a refused operation leaves the store as it is -/
def apiStep (env : Env) (ret : Int) (maxSil : Nat) (s : Store) : ApiOp → Store
  | .set now inp newId big =>
    match set env ret maxSil now s inp newId big with
    | .ok r => r.store
    | .error _ => s
  | .expire now id =>
    match expire ret now s id with
    | .ok r => r.1
    | .error _ => s
  | .gc now => (gc now s).1
  | .reload => reload s

theorem indexInv_apiStep (env : Env) (ret : Int) (maxSil : Nat) (s : Store) (op : ApiOp) (hi : IndexInv s) :
    IndexInv (apiStep env ret maxSil s op) := by
  cases op with
  | set now inp newId big =>
    simp only [apiStep]
    cases h : set env ret maxSil now s inp newId big with
    | ok r => exact indexInv_set env ret maxSil now s inp newId big r hi h
    | error _ => exact hi
  | expire now id =>
    simp only [apiStep]
    cases h : expire ret now s id with
    | ok r => exact indexInv_expire ret now s id r hi h
    | error _ => exact hi
  | gc now => exact indexInv_gc now s hi
  | reload => exact indexInv_reload s

theorem lookup_reload (s : Store) (hi : IndexInv s) (id : String) :
    lookup (reload s).st id = lookup s.st id := by
  unfold reload
  simp only
  rw [decodeBatch_last_wins]
  -- the last record with this id in `s.st.map snd` is the stored one (keys are unique, key = id)
  have key := hi.keyId
  have nd := hi.nodupSt
  generalize s.st = l at key nd
  induction l with
  | nil => simp
  | cons hd tl ih =>
    obtain ⟨k, v⟩ := hd
    obtain ⟨hk, hnd⟩ := nd
    have hkv : v.sil.id = k := key k v (by simp)
    have keytl : ∀ id m, lookup tl id = some m → m.sil.id = id := by
      intro id m hm
      apply key id m
      by_cases h : k = id
      · subst h; rw [hk] at hm; cases hm
      · simp [h, hm]
    simp only [List.map_cons, List.reverse_cons, List.find?_append]
    rw [ih keytl hnd]
    by_cases h : k = id
    · subst h
      have : lookup tl k = none := hk
      simp [this, hkv]
    · have hne : ¬ v.sil.id = id := by rw [hkv]; exact h
      simp [h, hne]

/-- Snapshot + restart loses nothing: the reloaded store holds exactly the same versions. -/
theorem reload_lossless (s : Store) (hi : IndexInv s) (id : String) :
    lookup (reload s).st id = lookup s.st id := lookup_reload s hi id

/-- One step: a silence that `getState` calls expired is still stored unchanged, or gone
    (collected), after any API operation at the same or a later instant — provided the
    uuid drawn is not its id. -/
theorem expired_stays_step (env : Env) (ret : Int) (maxSil : Nat) (s : Store) (hi : IndexInv s) (op : ApiOp)
    (id : String) (m : Mesh) (now : Int)
    (hl : lookup s.st id = some m) (hs : getState m.sil now = .expired)
    (ht : ∀ t, op.time = some t → now ≤ t)
    (hfresh : ∀ t inp nid big, op = .set t inp nid big → nid ≠ id) :
    lookup (apiStep env ret maxSil s op).st id = some m ∨ lookup (apiStep env ret maxSil s op).st id = none := by
  cases op with
  | reload => left; simp only [apiStep]; rw [lookup_reload s hi]; exact hl
  | gc t =>
    simp only [apiStep]
    rw [lookup_gc t s hi, hl]
    by_cases hx : m.exp ≤ t <;> simp [hx]
  | expire t id' =>
    left
    simp only [apiStep]
    unfold expire
    cases hp : lookup s.st id' with
    | none => simp [hl]
    | some p =>
      simp only
      by_cases hid : id' = id
      · subst hid
        rw [hl] at hp; cases hp
        unfold expireCore expiredVersion
        simp [expired_mono m.sil now t hs (ht t rfl), hl]
      · rw [expireCore_lookup_ne ret t s p.sil id (by rw [hi.keyId id' p hp]; exact hid)]
        exact hl
  | set t inp nid big =>
    left
    have hnid : nid ≠ id := hfresh t inp nid big rfl
    have hst : getState m.sil t = .expired := expired_mono m.sil now t hs (ht t rfl)
    simp only [apiStep]
    cases h : set env ret maxSil t s inp nid big with
    | error _ => exact hl
    | ok r =>
      simp only
      unfold set at h
      by_cases hv : (!validate env inp.sets (inp.start.getD t) inp.stop) = true
      · simp [hv] at h
      · by_cases hn : inp.id ≠ "" ∧ lookup s.st inp.id = none
        · simp [hv, hn] at h
        · simp only [hv, hn, if_false] at h
          by_cases hu : canUpdatePrev (lookup s.st inp.id) (silOfIn inp t) t = true
          · -- in place: impossible for `id` itself (it is expired), harmless for another id
            simp only [hu, if_true] at h
            unfold setUpdate at h
            by_cases hb : big = true
            · simp [hb] at h
            · simp only [hb] at h
              injection h with h; subst h
              simp only
              rw [setSilence_lookup]
              have hne : ¬ (toMesh ret (silOfIn inp t)).sil.id = id := by
                intro he
                have he' : inp.id = id := he
                rw [he'] at hu
                simp [canUpdatePrev, hl, canUpdate, hst] at hu
              simp [hne, hl]
          · simp only [hu] at h
            unfold setCreate at h
            by_cases hlim : maxSil > 0 ∧ s.st.length + 1 > maxSil
            · simp [hlim] at h
            · by_cases hb : big = true
              · simp [hlim, hb] at h
              · simp only [hlim, hb, if_false] at h
                injection h with h; subst h
                simp only
                rw [setSilence_lookup]
                have hne : ¬ (toMesh ret (raised (silOfIn inp t) nid t)).sil.id = id := by
                  simp [toMesh, raised]; exact hnid
                simp only [hne, if_false]
                cases hp : lookup s.st inp.id with
                | none => exact hl
                | some p =>
                  simp only [expirePrev]
                  by_cases hid : inp.id = id
                  · rw [hid, hl] at hp; cases hp
                    unfold expireCore expiredVersion
                    simp [hst, hl]
                  · rw [expireCore_lookup_ne ret t s p.sil id (by rw [hi.keyId inp.id p hp]; exact hid)]
                    exact hl

/-- the operations of a history happen at or after `now`, in order -/
def Ordered : Int → List ApiOp → Prop
  | _, [] => True
  | now, op :: rest =>
    (∀ t, op.time = some t → now ≤ t) ∧ Ordered ((op.time).getD now) rest

def FreshFor (id : String) (ops : List ApiOp) : Prop :=
  ∀ op ∈ ops, ∀ t inp nid big, op = .set t inp nid big → nid ≠ id

/-- **An expired silence never becomes active again under its id**: over every later
    history of API operations (create, edit, expire, GC, restart; time moving forward;
    uuids not reused) it is stored unchanged — hence expired at every later instant — or
    has been collected. -/
theorem expired_never_active_again (env : Env) (ret : Int) (maxSil : Nat) (ops : List ApiOp) (s : Store)
    (hi : IndexInv s) (id : String) (m : Mesh) (now : Int)
    (hl : lookup s.st id = some m) (hs : getState m.sil now = .expired)
    (ho : Ordered now ops) (hf : FreshFor id ops) :
    lookup (ops.foldl (apiStep env ret maxSil) s).st id = some m ∨
    (∃ k, lookup ((ops.take k).foldl (apiStep env ret maxSil) s).st id = none) := by
  induction ops generalizing s now with
  | nil => left; exact hl
  | cons op rest ih =>
    obtain ⟨ht, hrest⟩ := ho
    have hstep := expired_stays_step env ret maxSil s hi op id m now hl hs ht
      (fun t inp nid big h => hf op (by simp) t inp nid big h)
    rcases hstep with hkeep | hgone
    · have hnow' : getState m.sil ((op.time).getD now) = .expired := by
        cases hto : op.time with
        | none => simpa using hs
        | some t => simp; exact expired_mono m.sil now t hs (ht t hto)
      rcases ih (apiStep env ret maxSil s op) (indexInv_apiStep env ret maxSil s op hi) _ hkeep hnow' hrest
          (fun o ho => hf o (List.mem_cons_of_mem _ ho)) with h | ⟨k, h⟩
      · left; exact h
      · right; exact ⟨k + 1, by simpa using h⟩
    · right; exact ⟨1, by simpa using hgone⟩

/-! ### non-vacuity -/

private def env0 : Env := { re := fun _ _ => false, reOk := fun _ => true, nameOk := fun n => n ≠ "" }
private def in0 : SilIn := { id := "", sets := [[⟨.eq, "a", "1"⟩]], start := some 5, stop := some 20, comment := "c" }

example : (match set env0 10 0 7 {} in0 "u1" false with
    | .ok r => decide (r.id = "u1") && !r.inPlace && (lookup r.store.st "u1").isSome
    | .error _ => false) = true := by decide

end AM.Silence
