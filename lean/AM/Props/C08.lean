/-
  C08 — Cluster: at least one notification under any fault, no duplicates when
  healthy.  Theorems over `AM.Cluster` (N instances, lossy gossip, GC, crashes).
-/
import AM.Model.Cluster
import AM.Props.C01

namespace AM.Cluster
open AM AM.AList AM.Nflog AM.Dedup

/-! ### every log entry anywhere stems from a real send -/

/-- Soundness of the replicated log, whatever the faults. -/
structure Sound (c : Cfg) (cs : CState) : Prop where
  nodup  : ∀ i, NoDupKeys (cs.logs i)
  stored : ∀ i e, lookup (cs.logs i) c.key = some e → e ∈ cs.bcast
  origin : ∀ e ∈ cs.bcast, e.firing ≠ [] →
             ∃ p ∈ cs.sends, p.2.firing = e.firing ∧ p.2.wall = e.ts ∧
                             (c.sendResolved = true → p.2.resolved = e.resolved)

theorem lookup_log_cases (now ret : Int) (s : State) (k : String) (f r : List Nat) (d : String) (x : Int) (q : String) :
    lookup (log now ret s k f r d x).1 q = lookup s q ∨
    lookup (log now ret s k f r d x).1 q =
      some { key := k, ts := now, exp := logExpiry now ret x, firing := f, resolved := r, data := d } := by
  have hm := merge_result now s { key := k, ts := now, exp := logExpiry now ret x, firing := f, resolved := r, data := d } q
  unfold log
  cases hq : lookup s k with
  | none =>
    simp only
    rcases hm with h | h
    · left; simpa using h
    · right; simpa using h.1
  | some p =>
    simp only
    by_cases hp : p.ts > now
    · left; simp [hp]
    · simp only [hp, decide_false, Bool.false_eq_true, if_false]
      rcases hm with h | h
      · left; exact h
      · right; exact h.1

theorem sound_init (c : Cfg) : Sound c init :=
  ⟨fun _ => by simp [init, NoDupKeys], fun i e h => by simp [init] at h, fun e h => by simp [init] at h⟩

theorem flush_logged_st (c : Cfg) (s : State) (f : Flush) :
    (flushStep c s f).st = if (flushStep c s f).logged then Dedup.logged c s f else s := by
  unfold flushStep
  cases path c s f <;> simp

theorem sent_of_logged_firing (c : Cfg) (s : State) (f : Flush)
    (hl : (flushStep c s f).logged = true) (hf : f.firing ≠ []) :
    ∃ n, (flushStep c s f).sent = some n ∧ n.firing = f.firing ∧ n.wall = f.wall ∧
         (c.sendResolved = true → n.resolved = f.resolved) := by
  have hs := logged_with_firing_was_sent c s f hl hf
  cases hn : (flushStep c s f).sent with
  | none => simp [hn] at hs
  | some n =>
    refine ⟨n, rfl, (sent_firing c s f n hn).1, (sent_firing c s f n hn).2.1, ?_⟩
    intro hsr
    unfold flushStep at hn
    cases hp : path c s f <;> simp [hp] at hn
    subst hn; simp [hsr]

theorem sound_step (c : Cfg) (cs : CState) (ev : Ev) (h : Sound c cs) : Sound c (step c cs ev) := by
  obtain ⟨hnd, hst, hor⟩ := h
  cases ev with
  | flush i f =>
    have hstEq := flush_logged_st c (cs.logs i) f
    by_cases hl : (flushStep c (cs.logs i) f).logged = true
    · -- recorded: the new entry joins the broadcast history
      refine ⟨?_, ?_, ?_⟩
      · intro j
        simp only [step, getLog, setLog]
        by_cases hj : j = i
        · simp only [hj, if_true, hstEq, hl]
          exact noDup_log _ _ _ _ _ _ _ _ (hnd i)
        · simp only [hj, if_false]; exact hnd j
      · intro j e he
        simp only [step, getLog, setLog, hl, if_true] at he ⊢
        by_cases hj : j = i
        · simp only [hj, if_true, hstEq, hl] at he
          unfold Dedup.logged at he
          rcases lookup_log_cases f.wall c.retention (cs.logs i) c.key f.firing f.resolved "-" (2 * c.repeatI) c.key with h1 | h1
          · rw [h1] at he; exact List.mem_cons_of_mem _ (hst i e he)
          · rw [h1] at he
            have : e = entryOfFlush c f := by simpa [entryOfFlush] using he.symm
            subst this; exact List.mem_cons_self
        · simp only [hj, if_false] at he; exact List.mem_cons_of_mem _ (hst j e he)
      · intro e he hef
        simp only [step, getLog, setLog, hl, if_true, List.mem_cons] at he ⊢
        rcases he with he | he
        · subst he
          have hf : f.firing ≠ [] := by simpa [entryOfFlush] using hef
          obtain ⟨n, hn, h1, h2, h3⟩ := sent_of_logged_firing c (cs.logs i) f hl hf
          refine ⟨(i, n), ?_, by simpa [entryOfFlush] using h1, by simpa [entryOfFlush] using h2, by simpa [entryOfFlush] using h3⟩
          simp [hn]
        · obtain ⟨p, hp, hh⟩ := hor e he hef
          refine ⟨p, ?_, hh⟩
          cases (flushStep c (cs.logs i) f).sent with
          | none => exact hp
          | some n => exact List.mem_cons_of_mem _ hp
    · -- nothing recorded: logs unchanged, sends unchanged
      have hl' : (flushStep c (cs.logs i) f).logged = false := by simpa using hl
      have hsent : (flushStep c (cs.logs i) f).sent = none := by
        unfold flushStep at hl' ⊢
        cases hp : path c (cs.logs i) f <;> simp [hp] at hl' ⊢
      refine ⟨?_, ?_, ?_⟩
      · intro j
        simp only [step, getLog, setLog]
        by_cases hj : j = i
        · simp only [hj, if_true, hstEq, hl', Bool.false_eq_true, if_false]; exact hnd i
        · simp only [hj, if_false]; exact hnd j
      · intro j e he
        simp only [step, getLog, setLog, hl', Bool.false_eq_true, if_false] at he ⊢
        by_cases hj : j = i
        · simp only [hj, if_true, hstEq, hl', Bool.false_eq_true, if_false] at he; exact hst i e he
        · simp only [hj, if_false] at he; exact hst j e he
      · intro e he hef
        simp only [step, getLog, setLog, hl', Bool.false_eq_true, if_false, hsent] at he ⊢
        exact hor e he hef
  | deliver e j now =>
    by_cases hb : cs.bcast.contains e = true
    · have hmem : e ∈ cs.bcast := by simpa using hb
      refine ⟨?_, ?_, ?_⟩
      · intro k
        simp only [step, hb, if_true, getLog, setLog]
        by_cases hk : k = j
        · simp only [hk, if_true]; exact noDup_merge _ _ _ (hnd j)
        · simp only [hk, if_false]; exact hnd k
      · intro k x hx
        simp only [step, hb, if_true, getLog, setLog] at hx ⊢
        by_cases hk : k = j
        · simp only [hk, if_true] at hx
          rcases merge_result now (cs.logs j) e c.key with h1 | h1
          · rw [h1] at hx; exact hst j x hx
          · rw [h1.1] at hx
            have : x = e := by simpa using hx.symm
            subst this; exact hmem
        · simp only [hk, if_false] at hx; exact hst k x hx
      · intro x hx hxf
        simp only [step, hb, if_true, setLog] at hx ⊢
        exact hor x hx hxf
    · simp only [step, hb, Bool.false_eq_true, if_false]
      exact ⟨hnd, hst, hor⟩
  | gc i now =>
    refine ⟨?_, ?_, ?_⟩
    · intro k
      simp only [step, getLog, setLog]
      by_cases hk : k = i
      · simp only [hk, if_true]; exact noDup_gc _ _ (hnd i)
      · simp only [hk, if_false]; exact hnd k
    · intro k x hx
      simp only [step, getLog, setLog] at hx ⊢
      by_cases hk : k = i
      · simp only [hk, if_true] at hx
        rw [gc_spec now (cs.logs i) (hnd i)] at hx
        cases hq : lookup (cs.logs i) c.key with
        | none => rw [hq] at hx; simp at hx
        | some y =>
          rw [hq] at hx; simp only at hx
          by_cases hy : y.exp > now
          · simp only [hy, if_true] at hx
            have : x = y := by simpa using hx.symm
            subst this; exact hst i x hq
          · simp [hy] at hx
      · simp only [hk, if_false] at hx; exact hst k x hx
    · intro x hx hxf
      simp only [step, setLog] at hx ⊢
      exact hor x hx hxf
  | crash i keep =>
    by_cases hk : keep = true
    · simp only [step, hk, if_true]; exact ⟨hnd, hst, hor⟩
    · simp only [step, hk, Bool.false_eq_true, if_false]
      refine ⟨?_, ?_, ?_⟩
      · intro k
        simp only [setLog]
        by_cases hki : k = i
        · simp [hki, NoDupKeys]
        · simp only [hki, if_false]; exact hnd k
      · intro k x hx
        simp only [setLog] at hx ⊢
        by_cases hki : k = i
        · simp [hki] at hx
        · simp only [hki, if_false] at hx; exact hst k x hx
      · intro x hx hxf
        simp only [setLog] at hx ⊢
        exact hor x hx hxf

theorem sound_run (c : Cfg) (evs : List Ev) (cs : CState) (h : Sound c cs) : Sound c (run c evs cs) := by
  unfold run
  induction evs generalizing cs with
  | nil => exact h
  | cons e rest ih => exact ih _ (sound_step c cs e h)

/-- **Every log entry with firing alerts, on any instance, at any time, under any
    schedule of gossip loss / delay / duplication / reordering, GC and crashes,
    equals the sets of a successful notification by some instance at the entry's
    timestamp.** -/
theorem entry_implies_sent (c : Cfg) (evs : List Ev) (i : Nat) (e : Entry)
    (he : lookup ((run c evs init).logs i) c.key = some e) (hf : e.firing ≠ []) :
    ∃ p ∈ (run c evs init).sends, p.2.firing = e.firing ∧ p.2.wall = e.ts := by
  have hs := sound_run c evs init (sound_init c)
  obtain ⟨p, hp, h1, h2, _⟩ := hs.origin e (hs.stored i e he) hf
  exact ⟨p, hp, h1, h2⟩

theorem sends_mono (c : Cfg) (cs : CState) (ev : Ev) (p : Nat × Notification) (h : p ∈ cs.sends) :
    p ∈ (step c cs ev).sends := by
  cases ev with
  | flush i f =>
    simp only [step]
    cases (flushStep c (getLog cs i) f).sent with
    | none => exact h
    | some n => exact List.mem_cons_of_mem _ h
  | deliver e j now => simp only [step]; split <;> simpa [setLog] using h
  | gc i now => simpa [step, setLog] using h
  | crash i keep => simp only [step]; split <;> simpa [setLog] using h

/-- **At least once.**  In any reachable cluster state, when an instance that is
    up flushes a batch in which `x` fires and its integration accepts, then either
    this instance's notification lists `x` as firing, or some instance (possibly
    another one) has already delivered a notification listing `x` as firing less
    than repeat_interval before this flush's tick. -/
theorem at_least_once (c : Cfg) (evs : List Ev) (i : Nat) (f : Flush) (x : Nat)
    (hx : x ∈ f.firing) (hacc : f.accept = true) :
    let cs := run c evs init
    (∃ n, (i, n) ∈ (step c cs (.flush i f)).sends ∧ x ∈ n.firing ∧ n.wall = f.wall) ∨
    (∃ p ∈ cs.sends, x ∈ p.2.firing ∧ f.tick ≤ p.2.wall + c.repeatI) := by
  intro cs
  rcases eligible_listed_or_recorded c (cs.logs i) f x hx hacc with ⟨n, hn, hxn⟩ | ⟨e, he, hxe, hts⟩
  · left
    refine ⟨n, ?_, hxn, (sent_firing c _ f n hn).2.1⟩
    simp [step, getLog, hn]
  · right
    have hs := sound_run c evs init (sound_init c)
    have hne : e.firing ≠ [] := by intro h; rw [h] at hxe; simp at hxe
    obtain ⟨p, hp, h1, h2, _⟩ := hs.origin e (hs.stored i e he) hne
    exact ⟨p, hp, by rw [h1]; exact hxe, by rw [h2]; exact hts⟩

/-! ### healthy cluster: no duplicates -/

/-- In a healthy cluster (gossip delivers every entry before the next-positioned
    instance's wait ends) all instances consult the same log content, so one
    round of the N staggered flushes of the same batch is a sequence of flushes
    on ONE log.  `Round` states the hypotheses: same batch, ticks within `skew` of
    each other, decisions in increasing wall order, each after its own tick. -/
structure Round (tmin skew : Int) (F R : List Nat) (w0 : Int) (fs : List Flush) : Prop where
  same  : ∀ f ∈ fs, f.firing = F ∧ f.resolved = R
  ticks : ∀ f ∈ fs, tmin ≤ f.tick ∧ f.tick ≤ tmin + skew ∧ f.tick ≤ f.wall
  walls : List.Pairwise (fun a b => a.wall < b.wall) fs
  after : ∀ f ∈ fs, w0 < f.wall

theorem Round.tail {tmin skew : Int} {F R : List Nat} {w0 : Int} {f : Flush} {fs : List Flush}
    (h : Round tmin skew F R w0 (f :: fs)) : Round tmin skew F R f.wall fs :=
  ⟨fun g hg => h.same g (List.mem_cons_of_mem _ hg),
   fun g hg => h.ticks g (List.mem_cons_of_mem _ hg),
   (List.pairwise_cons.mp h.walls).2,
   fun g hg => (List.pairwise_cons.mp h.walls).1 g hg⟩

theorem Round.weaken {tmin skew : Int} {F R : List Nat} {w0 w1 : Int} {fs : List Flush}
    (h : Round tmin skew F R w0 fs) (hw : w1 ≤ w0) : Round tmin skew F R w1 fs :=
  ⟨h.same, h.ticks, h.walls, fun g hg => by have := h.after g hg; omega⟩

def flushes (fs : List Flush) : List Dedup.Ev := fs.map Dedup.Ev.flush

/-- Once the batch has been recorded in this round, every later-positioned
    instance stays silent and the log does not change. -/
theorem quiet_after_record (c : Cfg) (hskew : skew ≤ c.repeatI) (tmin : Int) (F R : List Nat)
    (fs : List Flush) (s : State) (e : Entry) (w0 : Int)
    (hr : Round tmin skew F R w0 fs)
    (hq : query s c.key = some e) (heF : e.firing = F) (heR : e.resolved = R) (hets : tmin ≤ e.ts) :
    (Dedup.run c (flushes fs) s).2 = [] := by
  induction fs generalizing w0 with
  | nil => simp [flushes, Dedup.run]
  | cons f rest ih =>
    obtain ⟨hF, hR⟩ := hr.same f List.mem_cons_self
    obtain ⟨_, ht2, _⟩ := hr.ticks f List.mem_cons_self
    -- no cause: same sets as the entry, and the entry is at most `skew ≤ repeat` older than the tick
    have hnc : ¬ Cause (query s c.key) f.firing f.resolved c.sendResolved c.repeatI f.tick := by
      rw [hq, hF, hR]
      unfold Cause
      simp only [not_or]
      refine ⟨?_, ?_, ?_, ?_⟩
      · intro ⟨x, hx, hn⟩; rw [heF] at hn; exact hn hx
      · intro ⟨h1, h2⟩; rw [heF] at h2; exact h2 h1
      · intro ⟨_, _, x, hx, hn⟩; rw [heR] at hn; exact hn hx
      · intro ⟨_, h⟩; omega
    have hp : path c s f = .empty ∨ path c s f = .quiet := by
      unfold path reasonOf
      by_cases h0 : f.firing = [] ∧ f.resolved = []
      · left; simp [h0]
      · right
        have : (needsUpdate (query s c.key) f.firing f.resolved c.sendResolved c.repeatI f.tick).shouldNotify = false := by
          cases hh : (needsUpdate (query s c.key) f.firing f.resolved c.sendResolved c.repeatI f.tick).shouldNotify with
          | false => rfl
          | true => exact absurd ((needsUpdate_iff _ _ _ _ _ _).mp hh) hnc
        simp [h0, this]
    have hst : (flushStep c s f).st = s ∧ (flushStep c s f).sent = none := by
      unfold flushStep; rcases hp with hp | hp <;> simp [hp]
    simp only [flushes, List.map_cons, Dedup.run, hst.1, hst.2]
    exact ih _ hr.tail

/-- **Healthy cluster: the same batch is delivered at most once per round**, by
    whichever instance first finds cause to send — when tick skew does not exceed
    repeat_interval and no stored entry is newer than the round. -/
theorem healthy_no_duplicate (c : Cfg) (hret : 0 ≤ c.retention) (hrep : 0 ≤ c.repeatI)
    (skew : Int) (hskew : skew ≤ c.repeatI) (tmin : Int) (F R : List Nat)
    (fs : List Flush) (s : State) (w0 : Int)
    (hr : Round tmin skew F R w0 fs)
    (hold : ∀ e, query s c.key = some e → e.ts ≤ w0) :
    (Dedup.run c (flushes fs) s).2.length ≤ 1 := by
  induction fs generalizing s w0 with
  | nil => simp [flushes, Dedup.run]
  | cons f rest ih =>
    obtain ⟨hF, hR⟩ := hr.same f List.mem_cons_self
    obtain ⟨ht1, _, ht3⟩ := hr.ticks f List.mem_cons_self
    have hw := hr.after f List.mem_cons_self
    simp only [flushes, List.map_cons, Dedup.run]
    by_cases hl : (flushStep c s f).logged = true
    · -- recorded (sent, or the silent short-cut): the rest of the round is quiet
      have hstEq := flushStep_st c s f
      rw [hl] at hstEq; simp only [if_true] at hstEq
      have hspec := log_spec f.wall c.retention s c.key f.firing f.resolved "-" (2 * c.repeatI) hret (by omega)
      simp only at hspec
      obtain ⟨_, hmid, _⟩ := hspec
      have hq' : query (flushStep c s f).st c.key = some (entryOf c f) := by
        rw [hstEq]; unfold query
        cases hq : lookup s c.key with
        | none => rw [hq] at hmid; exact hmid.1
        | some p =>
          rw [hq] at hmid; simp only at hmid
          have hp := hold p hq
          have hn1 : ¬ p.ts > f.wall := by omega
          have hn2 : ¬ p.ts = f.wall := by omega
          simp only [hn1, hn2, if_false] at hmid
          exact hmid.1
      have hrest := quiet_after_record c hskew tmin F R rest (flushStep c s f).st (entryOf c f) f.wall
        hr.tail hq' (by simpa [entryOf] using hF) (by simpa [entryOf] using hR) (by simp [entryOf]; omega)
      simp only [flushes] at hrest
      rw [hrest]
      cases (flushStep c s f).sent <;> simp
    · -- nothing recorded: the log is unchanged, nothing was sent, recurse
      have hl' : (flushStep c s f).logged = false := by simpa using hl
      have hstEq := flushStep_st c s f
      rw [hl'] at hstEq; simp only [Bool.false_eq_true, if_false] at hstEq
      have hsent : (flushStep c s f).sent = none := by
        unfold flushStep at hl' ⊢
        cases hp : path c s f <;> simp [hp] at hl' ⊢
      rw [hsent, hstEq]
      exact ih s f.wall hr.tail (fun e he => by have := hold e he; omega)

/-- The hypothesis is needed: without gossip between them two instances both
    deliver the same batch. -/
theorem duplicate_without_gossip :
    ∃ (c : Cfg) (evs : List Ev), (run c evs init).sends.length = 2 ∧
      ∀ p ∈ (run c evs init).sends, p.2.firing = [1] :=
  ⟨{ key := "k", repeatI := 100, retention := 1000, sendResolved := true },
   [.flush 0 { tick := 10, wall := 10, firing := [1], resolved := [], accept := true },
    .flush 1 { tick := 10, wall := 25, firing := [1], resolved := [], accept := true }],
   by decide, by decide⟩

/-- … and with the entry delivered before the second instance's wait ends, it stays silent. -/
example :
    (run { key := "k", repeatI := 100, retention := 1000, sendResolved := true }
      [.flush 0 { tick := 10, wall := 10, firing := [1], resolved := [], accept := true },
       .deliver { key := "k", ts := 10, exp := 210, firing := [1], resolved := [], data := "-" } 1 12,
       .flush 1 { tick := 10, wall := 25, firing := [1], resolved := [], accept := true }] init).sends.length = 1 := by
  decide

example : Round 10 2 [1] [] 0
    [{ tick := 10, wall := 10, firing := [1], resolved := [], accept := true },
     { tick := 11, wall := 25, firing := [1], resolved := [], accept := true }] :=
  ⟨by simp, by simp, by simp, by simp⟩

end AM.Cluster

/-! ### the healthy cluster refines the shared log

`healthy_no_duplicate` is stated over ONE log consulted by the staggered flushes of
a round.  Here the per-instance logs of `AM.Cluster` are related to that shared
log: the pipeline tail only ever reads and writes the slot of its own key, and a
gossip delivery that arrives before the next-positioned instance decides brings
that instance's slot to what the shared log holds. -/
namespace AM.Cluster
open AM AM.AList AM.Nflog AM.Dedup

/-- The decision of one flush as a function of the slot of the key alone. -/
theorem path_congr (c : Cfg) (s s' : State) (f : Flush) (h : query s c.key = query s' c.key) :
    path c s f = path c s' f := by
  unfold path reasonOf; rw [h]

theorem sent_congr (c : Cfg) (s s' : State) (f : Flush) (h : query s c.key = query s' c.key) :
    (flushStep c s f).sent = (flushStep c s' f).sent := by
  unfold flushStep; rw [path_congr c s s' f h]
  cases path c s' f <;> rfl

theorem lookup_log_key (now ret : Int) (s s' : State) (k : String) (f r : List Nat) (d : String) (x : Int)
    (h : lookup s k = lookup s' k) :
    lookup (log now ret s k f r d x).1 k = lookup (log now ret s' k f r d x).1 k := by
  have hm : ∀ e : Entry, e.key = k → lookup (merge now s e) k = lookup (merge now s' e) k := by
    intro e he
    rw [lookup_merge_upd, lookup_merge_upd, h]
  unfold log
  rw [h]
  cases hq : lookup s' k with
  | none => simp only [Bool.false_eq_true, if_false]; exact hm _ rfl
  | some p =>
    simp only
    by_cases hp : p.ts > now
    · simp [hp, h, hq]
    · simp only [hp, decide_false, Bool.false_eq_true, if_false]; exact hm _ rfl

/-- … and the slot it leaves behind too. -/
theorem slot_congr (c : Cfg) (s s' : State) (f : Flush) (h : query s c.key = query s' c.key) :
    query (flushStep c s f).st c.key = query (flushStep c s' f).st c.key := by
  unfold flushStep; rw [path_congr c s s' f h]
  cases path c s' f <;> simp only [Dedup.logged, query] <;> first
    | exact h
    | exact lookup_log_key _ _ _ _ _ _ _ _ _ h

/-- A delivered entry that is newer than the receiver's slot and not yet expired becomes the receiver's slot. -/
theorem deliver_sets_slot (now : Int) (s : State) (e : Entry)
    (hexp : now ≤ e.exp) (hnew : ∀ p, lookup s e.key = some p → p.ts < e.ts) :
    lookup (merge now s e) e.key = some e := by
  rw [lookup_merge_upd]; simp only [if_true]
  unfold upd
  have : ¬ e.exp < now := by omega
  simp only [this, if_false]
  cases hq : lookup s e.key with
  | none => rfl
  | some p => simp [hnew p hq]

/-- One position of a healthy round: the instance's slot equals the shared slot, it flushes, and — if it
    recorded — its entry reaches another instance (whose slot also equalled the shared slot) before that one
    decides.  Then that instance's slot again equals the shared slot after the flush. -/
theorem healthy_step_refines (c : Cfg) (hret : 0 ≤ c.retention) (hrep : 0 ≤ c.repeatI)
    (shared si sj : State) (f : Flush) (now : Int)
    (hi : query si c.key = query shared c.key) (hj : query sj c.key = query shared c.key)
    (hold : ∀ p, query shared c.key = some p → p.ts < f.wall)
    (hlive : now ≤ logExpiry f.wall c.retention (2 * c.repeatI)) :
    -- the flushing instance behaves exactly as the shared log does …
    (flushStep c si f).sent = (flushStep c shared f).sent ∧
    query (flushStep c si f).st c.key = query (flushStep c shared f).st c.key ∧
    -- … and after the delivery (or without one, when nothing was recorded) the peer agrees with it again
    (if (flushStep c si f).logged then
       query (merge now sj (entryOfFlush c f)) c.key = query (flushStep c shared f).st c.key
     else query sj c.key = query (flushStep c shared f).st c.key) := by
  refine ⟨sent_congr c si shared f hi, slot_congr c si shared f hi, ?_⟩
  have hpath := path_congr c si shared f hi
  have hlog : (flushStep c si f).logged = (flushStep c shared f).logged := by
    unfold flushStep; rw [hpath]; cases path c shared f <;> rfl
  by_cases hl : (flushStep c shared f).logged = true
  · rw [hlog, hl]; simp only [if_true]
    -- the shared log now holds the flush's entry
    have hst := flushStep_st c shared f
    rw [hl] at hst; simp only [if_true] at hst
    have hspec := log_spec f.wall c.retention shared c.key f.firing f.resolved "-" (2 * c.repeatI) hret (by omega)
    simp only at hspec
    obtain ⟨_, hmid, _⟩ := hspec
    have hshared : query (flushStep c shared f).st c.key = some (entryOfFlush c f) := by
      rw [hst]; unfold query
      cases hq : lookup shared c.key with
      | none => rw [hq] at hmid; exact hmid.1
      | some p =>
        rw [hq] at hmid; simp only at hmid
        have hp := hold p (by unfold query; exact hq)
        have hn1 : ¬ p.ts > f.wall := by omega
        have hn2 : ¬ p.ts = f.wall := by omega
        simp only [hn1, hn2, if_false] at hmid
        exact hmid.1
    rw [hshared]
    have hk : (entryOfFlush c f).key = c.key := rfl
    unfold query
    rw [← hk]
    apply deliver_sets_slot
    · simpa [entryOfFlush] using hlive
    · intro p hp
      have : query sj c.key = some p := by unfold query; rw [← hk]; exact hp
      rw [hj] at this
      simpa [entryOfFlush] using hold p this
  · have hl' : (flushStep c shared f).logged = false := by simpa using hl
    rw [hlog, hl']; simp only [Bool.false_eq_true, if_false]
    have hst := flushStep_st c shared f
    rw [hl'] at hst; simp only [Bool.false_eq_true, if_false] at hst
    rw [hst]; exact hj

end AM.Cluster
