/-
  C19 — the gossip transport delivers every state update to every live peer; unknown keys,
  malformed payloads and duplicates neither corrupt nor block the states that are understood.
  Theorems describe the code WITH fixes/F5.diff; the pinned `MergeRemoteState` is refuted at the end.
-/
import AM.Model.Gossip
import AM.Model.Frame
import AM.Model.ConnPool

namespace AM.Gossip
open AM AM.AList

/-! ### last-writer-wins merge, pointwise -/

def best : List (String × Nat) → String → Option Nat
  | [], _ => none
  | (k, v) :: r, q => if k = q then omax (some v) (best r q) else best r q

theorem omax_none_right (a : Option Nat) : omax a none = a := by cases a <;> rfl
theorem omax_assoc (a b c : Option Nat) : omax (omax a b) c = omax a (omax b c) := by
  cases a <;> cases b <;> cases c <;> simp [omax] <;> omega
theorem omax_idem_right (a b : Option Nat) : omax (omax a b) b = omax a b := by
  cases a <;> cases b <;> simp [omax]

theorem lookup_upd (s : KV) (e : String × Nat) (q : String) :
    lookup (upd s e) q = if e.1 = q then omax (lookup s q) (some e.2) else lookup s q := by
  unfold upd
  by_cases h : e.1 = q
  · subst h
    cases hs : lookup s e.1 with
    | none => simp [omax]
    | some w =>
      by_cases hw : w < e.2
      · simp [hw, omax]; omega
      · simp [hw, hs, omax]; omega
  · cases hs : lookup s e.1 with
    | none => simp [h, lookup_put]
    | some w =>
      by_cases hw : w < e.2
      · simp [hw, h, lookup_put]
      · simp [hw, h]

theorem lookup_mergeKV (s : KV) (l : List (String × Nat)) (q : String) :
    lookup (mergeKV s l) q = omax (lookup s q) (best l q) := by
  induction l generalizing s with
  | nil => simp [mergeKV, best, omax_none_right]
  | cons e r ih =>
    obtain ⟨k, v⟩ := e
    have : mergeKV s ((k, v) :: r) = mergeKV (upd s (k, v)) r := rfl
    rw [this, ih, lookup_upd]
    by_cases h : k = q
    · simp [h, best, omax_assoc]
    · simp [h, best]

/-- `a` is at least `b` wherever `b` is defined -/
def Dom (a b : Option Nat) : Prop := ∀ v, b = some v → ∃ w, a = some w ∧ v ≤ w

theorem dom_omax_left (a b : Option Nat) : Dom (omax a b) a := by
  intro v hv; subst hv
  cases b with
  | none => exact ⟨v, rfl, Nat.le_refl _⟩
  | some c => exact ⟨max v c, rfl, by omega⟩

theorem dom_omax_right (a b : Option Nat) : Dom (omax a b) b := by
  intro v hv; subst hv
  cases a with
  | none => exact ⟨v, rfl, Nat.le_refl _⟩
  | some c => exact ⟨max c v, rfl, by omega⟩

theorem dom_trans {a b c : Option Nat} (h1 : Dom a b) (h2 : Dom b c) : Dom a c := by
  intro v hv
  obtain ⟨w, hw, hle⟩ := h2 v hv
  obtain ⟨x, hx, hle2⟩ := h1 w hw
  exact ⟨x, hx, by omega⟩

theorem best_ge_lookup (l : List (String × Nat)) (q : String) : Dom (best l q) (lookup l q) := by
  induction l with
  | nil => intro v hv; simp at hv
  | cons e r ih =>
    obtain ⟨k, v⟩ := e
    by_cases h : k = q
    · simp only [best, h, if_true, lookup_cons]
      intro x hx
      have hvx : v = x := by simpa using hx
      subst hvx
      exact dom_omax_left (some v) (best r q) v rfl
    · simp only [best, h, if_false, lookup_cons]; exact ih

/-! ### the receive path, pointwise -/

theorem lookup_notify_part (st : States) (p : Part) (k : String) :
    lookup (notifyMsg st (.part p)) k =
      if p.key = k then
        (match lookup st k with
         | none => none
         | some s => match mergeState s p.data with | none => some s | some s' => some s')
      else lookup st k := by
  by_cases h : p.key = k
  · subst h
    cases hs : lookup st p.key with
    | none => simp [notifyMsg, hs]
    | some s =>
      cases hm : mergeState s p.data with
      | none => simp [notifyMsg, hs, hm]
      | some s' => simp [notifyMsg, hs, hm]
  · cases hs : lookup st p.key with
    | none => simp [notifyMsg, hs, h]
    | some s =>
      cases hm : mergeState s p.data with
      | none => simp [notifyMsg, hs, hm, h]
      | some s' => simp [notifyMsg, hs, hm, h, lookup_put]

/-- **broadcast_routed_once** (receive side): a well-formed update for a registered key is merged
    into exactly that state — once — and every other state is left as it was. -/
theorem broadcast_routed_once (st : States) (key : String) (l : List (String × Nat)) (s : KV)
    (hk : lookup st key = some s) :
    lookup (notifyMsg st (.part ⟨key, .entries l⟩)) key = some (mergeKV s l) ∧
    ∀ k, k ≠ key → lookup (notifyMsg st (.part ⟨key, .entries l⟩)) k = lookup st k := by
  refine ⟨?_, ?_⟩
  · rw [lookup_notify_part]; simp [hk, mergeState]
  · intro k hne; rw [lookup_notify_part]; simp [Ne.symm hne]

/-- **unknown_key_inert**: an update for a key nobody registered changes nothing. -/
theorem unknown_key_inert (st : States) (p : Part) (h : lookup st p.key = none) :
    notifyMsg st (.part p) = st := by
  simp [notifyMsg, h]

/-- **malformed_inert**: undecodable bytes — as a packet, as a full state, or as the payload of a
    known key — change nothing. -/
theorem malformed_inert (st : States) (key : String) :
    notifyMsg st .malformed = st ∧ mergeRemoteState st .malformed = st ∧
    notifyMsg st (.part ⟨key, .bad⟩) = st := by
  refine ⟨rfl, rfl, ?_⟩
  cases hs : lookup st key <;> simp [notifyMsg, hs, mergeState]

/-- `MergeRemoteState` treats every part on its own, as `NotifyMsg` would -/
theorem mergeRemoteState_cons (st : States) (p : Part) (ps : List Part) :
    mergeRemoteState st (.parts (p :: ps)) = mergeRemoteState (notifyMsg st (.part p)) (.parts ps) := rfl

theorem mergeRemoteState_append (st : States) (a b : List Part) :
    mergeRemoteState st (.parts (a ++ b)) = mergeRemoteState (mergeRemoteState st (.parts a)) (.parts b) := by
  simp [mergeRemoteState, List.foldl_append]

/-- **bad_part_does_not_block_others** (repaired code): a part that cannot be merged (payload the
    state rejects, or unknown key) is skipped; the parts before AND after it are merged as if it
    were not there. -/
theorem bad_part_does_not_block_others (st : States) (pre post : List Part) (b : Part)
    (hb : b.data = .bad ∨ lookup (mergeRemoteState st (.parts pre)) b.key = none) :
    mergeRemoteState st (.parts (pre ++ b :: post)) = mergeRemoteState st (.parts (pre ++ post)) := by
  rw [mergeRemoteState_append, mergeRemoteState_append, mergeRemoteState_cons]
  congr 1
  cases hb with
  | inl h =>
    obtain ⟨k, d⟩ := b
    simp only at h; subst h
    exact (malformed_inert _ k).2.2
  | inr h => exact unknown_key_inert _ b h

/-- keys are never added or removed by the receive path -/
theorem notify_keys (st : States) (m : Packet) (k : String) :
    (lookup (notifyMsg st m) k).isSome = (lookup st k).isSome := by
  cases m with
  | malformed => rfl
  | part p =>
    rw [lookup_notify_part]
    by_cases h : p.key = k
    · subst h
      cases lookup st p.key with
      | none => simp
      | some s => cases hm : mergeState s p.data <;> simp [hm]
    · simp [h]

/-- nothing a state holds ever gets older through the receive path -/
theorem notify_monotone (st : States) (m : Packet) (k : String) (s : KV) (hs : lookup st k = some s) :
    ∃ s', lookup (notifyMsg st m) k = some s' ∧ ∀ id, Dom (lookup s' id) (lookup s id) := by
  cases m with
  | malformed => exact ⟨s, hs, fun id v hv => ⟨v, hv, Nat.le_refl _⟩⟩
  | part p =>
    rw [lookup_notify_part]
    by_cases h : p.key = k
    · subst h
      simp only [if_true, hs]
      cases hp : p.data with
      | bad => exact ⟨s, by simp [mergeState], fun id v hv => ⟨v, hv, Nat.le_refl _⟩⟩
      | entries l =>
        refine ⟨mergeKV s l, by simp [mergeState], fun id => ?_⟩
        rw [lookup_mergeKV]; exact dom_omax_left _ _
    · exact ⟨s, by simp [h, hs], fun id v hv => ⟨v, hv, Nat.le_refl _⟩⟩

theorem mergeRemote_monotone (st : States) (ps : List Part) (k : String) (s : KV) (hs : lookup st k = some s) :
    ∃ s', lookup (mergeRemoteState st (.parts ps)) k = some s' ∧ ∀ id, Dom (lookup s' id) (lookup s id) := by
  induction ps generalizing st s with
  | nil => exact ⟨s, hs, fun id v hv => ⟨v, hv, Nat.le_refl _⟩⟩
  | cons p rest ih =>
    rw [mergeRemoteState_cons]
    obtain ⟨s1, h1, d1⟩ := notify_monotone st (.part p) k s hs
    obtain ⟨s2, h2, d2⟩ := ih _ s1 h1
    exact ⟨s2, h2, fun id => dom_trans (d2 id) (d1 id)⟩

/-- every well-formed part for a registered key ends up merged, wherever it stands in the message -/
theorem mergeRemote_covers (st : States) (ps : List Part) (key : String) (l : List (String × Nat))
    (hmem : (⟨key, .entries l⟩ : Part) ∈ ps) (s : KV) (hs : lookup st key = some s) :
    ∃ s', lookup (mergeRemoteState st (.parts ps)) key = some s' ∧ ∀ id, Dom (lookup s' id) (best l id) := by
  induction ps generalizing st s with
  | nil => simp at hmem
  | cons p rest ih =>
    rw [mergeRemoteState_cons]
    cases List.mem_cons.mp hmem with
    | inl h =>
      subst h
      have h1 := (broadcast_routed_once st key l s hs).1
      obtain ⟨s2, h2, d2⟩ := mergeRemote_monotone _ rest key _ h1
      refine ⟨s2, h2, fun id => dom_trans (d2 id) ?_⟩
      rw [lookup_mergeKV]; exact dom_omax_right _ _
    | inr h =>
      obtain ⟨s1, h1, _⟩ := notify_monotone st (.part p) key s hs
      exact ih _ h s1 h1

theorem lookup_some_mem {α : Type} (m : AList String α) (k : String) (v : α) (h : lookup m k = some v) :
    (k, v) ∈ m := by
  induction m with
  | nil => simp at h
  | cons hd tl ih =>
    obtain ⟨k', v'⟩ := hd
    by_cases hk : k' = k
    · simp [hk] at h; subst h; subst hk; simp
    · simp [hk] at h; exact List.mem_cons_of_mem _ (ih h)

/-- **full_state_superset**: after B merges A's `LocalState`, every state B has registered holds,
    for every id A's state of the same key holds, a version at least as new — whatever else the
    message carries (states B does not know are skipped). -/
theorem full_state_superset (A B : States) (key : String) (sA sB : KV)
    (hA : lookup A key = some sA) (hB : lookup B key = some sB) :
    ∃ sB', lookup (mergeRemoteState B (localState A)) key = some sB' ∧
      ∀ id, Dom (lookup sB' id) (lookup sA id) := by
  have hmem : (⟨key, .entries sA⟩ : Part) ∈ A.map (fun kv => (⟨kv.1, .entries kv.2⟩ : Part)) :=
    List.mem_map.mpr ⟨(key, sA), lookup_some_mem A key sA hA, rfl⟩
  obtain ⟨s', h1, d1⟩ := mergeRemote_covers B _ key sA hmem sB hB
  exact ⟨s', h1, fun id => dom_trans (d1 id) (best_ge_lookup sA id)⟩

/-- **duplicate_inert**: delivering the same packet again changes nothing (pointwise on every id
    of every state). -/
theorem duplicate_inert (st : States) (m : Packet) (k id : String) :
    ((lookup (notifyMsg (notifyMsg st m) m) k).bind (lookup · id)) =
    ((lookup (notifyMsg st m) k).bind (lookup · id)) := by
  cases m with
  | malformed => rfl
  | part p =>
    rw [lookup_notify_part (notifyMsg st (.part p)), lookup_notify_part st]
    by_cases h : p.key = k
    · subst h
      simp only [if_true]
      cases hs : lookup st p.key with
      | none => simp
      | some s =>
        cases hp : p.data with
        | bad => simp [mergeState]
        | entries l =>
          simp only [mergeState, Option.bind_some, lookup_mergeKV]
          exact omax_idem_right _ _
    · simp [h]

/-! ### send side -/

/-- **broadcast_routed_once** (send side): each `Broadcast` call puts its (wrapped) payload on
    exactly one of the two paths exactly once, or — oversize path full — counts it as dropped;
    nothing already queued is touched. -/
theorem broadcast_conservation (c : Chan) (d : Payload) (size : Nat) :
    let c' := broadcast c d size
    c'.gossip.length + c'.queue.length + c'.dropped = c.gossip.length + c.queue.length + c.dropped + 1 ∧
    (size ≤ threshold → c'.gossip = c.gossip ++ [⟨c.key, d⟩] ∧ c'.queue = c.queue ∧ c'.dropped = c.dropped) ∧
    (size > threshold → c.queue.length < queueCap → c'.queue = c.queue ++ [⟨c.key, d⟩] ∧ c'.gossip = c.gossip ∧ c'.dropped = c.dropped) ∧
    (size > threshold → ¬ c.queue.length < queueCap → c'.dropped = c.dropped + 1 ∧ c'.queue = c.queue ∧ c'.gossip = c.gossip) ∧
    c'.queue.length ≤ max c.queue.length queueCap := by
  simp only [broadcast]
  by_cases h1 : size > threshold
  · by_cases h2 : c.queue.length < queueCap
    · simp [h1, h2]; omega
    · simp [h1, h2]; omega
  · simp [h1]; omega

/-- **oversize_reaches_every_peer_or_counts**: when the sender goroutine is free, the head of the
    oversize queue is sent to every current peer exactly once (one reliable send per peer), in
    queue order; while it is busy nothing is taken. -/
theorem oversize_reaches_every_peer (c : Chan) (p : Part) (rest : List Part) (peers : List String)
    (h : c.queue = p :: rest) (hfree : c.inflight = none) :
    (take c peers).2 = peers.map (fun n => (n, p)) ∧ (take c peers).1.queue = rest ∧
    (take c peers).1.inflight = some p := by
  simp [take, h, hfree]

theorem busy_takes_nothing (c : Chan) (q : Part) (peers : List String) (h : c.inflight = some q) :
    take c peers = (c, []) := by
  simp [take, h]

/-! ### F5: the pinned `MergeRemoteState` returns at the first failing part -/

def f5States : States := [("sil", []), ("nfl", [])]
def f5Full : Full := .parts [⟨"sil", .bad⟩, ⟨"nfl", .entries [("e", 1)]⟩]

/-- `bad_part_does_not_block_others` is FALSE for the pinned code: the `nfl` part after an
    undecodable `sil` part is never merged … -/
theorem bad_part_blocks_others_old : lookup (mergeRemoteStateOld f5States f5Full) "nfl" = some [] := by decide

/-- … while the repaired code merges it. -/
theorem f5_repaired : lookup (mergeRemoteState f5States f5Full) "nfl" = some [("e", 1)] := by decide

/-- where no part fails, the pinned and the repaired code agree -/
theorem old_agrees_without_failure (st : States) (ps : List Part) (h : ∀ p ∈ ps, p.data ≠ .bad) :
    mergeRemoteStateOld st (.parts ps) = mergeRemoteState st (.parts ps) := by
  simp only [mergeRemoteStateOld]
  induction ps generalizing st with
  | nil => rfl
  | cons p rest ih =>
    rw [mergeRemoteState_cons]
    have hp := h p (by simp)
    have ih' := fun st => ih st (fun q hq => h q (by simp [hq]))
    cases hs : lookup st p.key with
    | none =>
      have h1 : notifyMsg st (.part p) = st := unknown_key_inert st p hs
      rw [h1]
      simp only [mergeRemoteStateOld.go, hs]
      exact ih' st
    | some s =>
      cases hd : p.data with
      | bad => exact absurd hd hp
      | entries l =>
        have h1 : notifyMsg st (.part p) = put st p.key (mergeKV s l) := by
          simp [notifyMsg, hs, hd, mergeState]
        rw [h1]
        simp only [mergeRemoteStateOld.go, hs, hd, mergeState]
        exact ih' _

example : (notifyMsg [("sil", [("a", 1)])] (.part ⟨"sil", .entries [("a", 3), ("b", 2)]⟩)) = [("sil", [("a", 3), ("b", 2)])] := by decide

end AM.Gossip

namespace AM.Frame

theorem le32_decode (n : Nat) (h : n < 4294967296) :
    n % 256 + 256 * (n / 256 % 256) + 65536 * (n / 65536 % 256) + 16777216 * (n / 16777216 % 256) = n := by
  omega

/-- **Atomic frames parse back.**  Whatever the number, sizes and order of the packets written to a shared
    connection, if every frame is written in one piece the receiver reads exactly the packets that were sent. -/
theorem decode_stream (frames : List (List Nat)) (hlen : ∀ p ∈ frames, p.length < 4294967296)
    (fuel : Nat) (hf : frames.length ≤ fuel) :
    decodeFrames fuel (streamOf frames) = some frames := by
  induction frames generalizing fuel with
  | nil => cases fuel <;> simp [streamOf, decodeFrames]
  | cons p rest ih =>
    cases fuel with
    | zero => simp at hf
    | succ fuel =>
      have hp := hlen p (by simp)
      have hrest : ∀ q ∈ rest, q.length < 4294967296 := fun q hq => hlen q (by simp [hq])
      have ih' := ih hrest fuel (by simp at hf; omega)
      simp only [streamOf, List.flatMap_cons, encodeFrame, le32, List.cons_append, List.nil_append, decodeFrames]
      rw [le32_decode p.length hp]
      have hnl : ¬ (p ++ List.flatMap encodeFrame rest).length < p.length := by
        simp only [List.length_append]; omega
      simp only [hnl, if_false, List.drop_left, List.take_left]
      have : List.flatMap encodeFrame rest = streamOf rest := rfl
      rw [this, ih']
      rfl

/-- Writing the length and the message in two separate writes lets two senders interleave: the receiver then
    reads garbage (here: it takes the second length field for message bytes and loses the framing). -/
theorem split_frames_interleave_breaks :
    ∃ s : List Nat, s = le32 2 ++ le32 1 ++ [7, 8] ++ [9] ∧ decodeFrames 10 s ≠ some [[7, 8], [9]] :=
  ⟨_, rfl, by decide⟩

example : decodeFrames 5 (streamOf [[1, 2, 3], [], [4]]) = some [[1, 2, 3], [], [4]] := by decide

end AM.Frame

/-! ### the pooled connection of the TLS transport (AM.Model.ConnPool) -/

namespace AM.ConnPool

theorem borrow_alive (p : Pool) : (borrow p).2.alive = true := by
  rcases p with ⟨cache, next⟩
  cases cache with
  | none => simp [borrow]
  | some c =>
    by_cases h : c.alive = true
    · simp [borrow, h]
    · simp [borrow, h]

theorem inv_send (p : Pool) (peerFrom : Nat) (h : Inv p) : Inv (send p peerFrom).1 := by
  rcases p with ⟨cache, next⟩
  cases cache with
  | none =>
    intro d hd
    by_cases hp : peerFrom ≤ next
    · simp [send, borrow, write, hp] at hd ⊢; subst hd; simp
    · simp [send, borrow, write, hp] at hd ⊢; subst hd; simp
  | some c =>
    have hc : c.gen < next := h c rfl
    intro d hd
    by_cases ha : c.alive = true
    · by_cases hp : peerFrom ≤ c.gen
      · simp [send, borrow, write, ha, hp] at hd ⊢; subst hd; exact hc
      · simp [send, borrow, write, ha, hp] at hd ⊢; subst hd; exact hc
    · by_cases hp : peerFrom ≤ next
      · simp [send, borrow, write, ha, hp] at hd ⊢; subst hd; simp
      · simp [send, borrow, write, ha, hp] at hd ⊢; subst hd; simp

/-- **Recovery**: once the peer is back (it accepts every connection dialled from now on: `peerFrom ≤ p.next`),
    at most ONE further send fails: a failed write marks the connection dead, the next borrow replaces it. -/
theorem recovers_after_one_failure (p : Pool) (peerFrom : Nat) (h : Inv p) (hback : peerFrom ≤ p.next) :
    (send p peerFrom).2 = true ∨ (send (send p peerFrom).1 peerFrom).2 = true := by
  rcases p with ⟨cache, next⟩
  simp only at hback
  cases cache with
  | none => left; simp [send, borrow, write, hback]
  | some c =>
    by_cases ha : c.alive = true
    · by_cases hp : peerFrom ≤ c.gen
      · left; simp [send, borrow, write, ha, hp]
      · right; simp [send, borrow, write, ha, hp, hback]
    · left; simp [send, borrow, write, ha, hback]

/-- a delivered send leaves a connection that keeps delivering while the peer stays up -/
theorem delivered_stays_delivered (p : Pool) (peerFrom : Nat)
    (hok : (send p peerFrom).2 = true) : (send (send p peerFrom).1 peerFrom).2 = true := by
  rcases p with ⟨cache, next⟩
  cases cache with
  | none =>
    by_cases hp : peerFrom ≤ next
    · simp [send, borrow, write, hp]
    · simp [send, borrow, write, hp] at hok
  | some c =>
    by_cases ha : c.alive = true
    · by_cases hp : peerFrom ≤ c.gen
      · simp [send, borrow, write, ha, hp]
      · simp [send, borrow, write, ha, hp] at hok
    · by_cases hp : peerFrom ≤ next
      · simp [send, borrow, write, ha, hp]
      · simp [send, borrow, write, ha, hp] at hok

/-- the changed pool (a dead cache entry is never replaced) never recovers: every later send fails -/
theorem stale_entry_never_recovers (n : Nat) :
    (sendStale (iter (fun q => (sendStale q 1).1) n { cache := some ⟨0, false⟩, next := 1 }) 1).2 = false ∧
    (iter (fun q => (sendStale q 1).1) n { cache := some ⟨0, false⟩, next := 1 }).cache = some ⟨0, false⟩ := by
  induction n with
  | zero => simp [iter, sendStale, borrowStale, write]
  | succ k ih =>
    have hstep : (sendStale { cache := some ⟨0, false⟩, next := 1 } 1).1 = ({ cache := some ⟨0, false⟩, next := 1 } : Pool) := by
      simp [sendStale, borrowStale, write]
    simp only [iter, hstep]
    exact ih

example : Inv ({} : Pool) := fun c h => by simp at h
example : (send { cache := some ⟨0, true⟩, next := 1 } 1).2 = false ∧
          (send (send { cache := some ⟨0, true⟩, next := 1 } 1).1 1).2 = true := by decide

end AM.ConnPool
