/-
  C06 — schedule replay (engine `groupsched`).

  1. The blocks the harness can realise through the five yield points of the tagged
     build (`macroStep`, `maintToYield`) are runs of micro-steps of `AM.Model.GroupMap`:
     every state the replay reaches is `Reachable`, so the invariants of C06Conc
     (`no_orphan_live_group`, `insert_lands`, `cas_replaces_only_destroyed`) apply to it.
  2. Why `CompareAndDelete` and not a delete by key: `doMaintenance` with an
     unconditional delete of the slot (`LoadAndDelete(fp)`, `Delete(fp)`, a
     `CompareAndDelete` against a freshly loaded value) removes a LIVE group that a
     worker swapped in between `destroyed()` and the delete — decided by the kernel
     on a 17-step schedule; likewise a `Store` in place of `CompareAndSwap`, and an
     `insert` that ignores `destroyed`.
-/
import AM.Props.C06Conc

set_option linter.unusedSimpArgs false

namespace AM.GroupMap
open AM AM.AList

theorem run_append (a b : List Act) : ∀ (s : State), run s (a ++ b) = (run s a).bind fun s' => run s' b := by
  induction a with
  | nil => intro s; simp [run]
  | cons x xs ih =>
    intro s
    simp only [List.cons_append, run]
    cases h : step s x with
    | none => simp
    | some s1 => simp [ih s1]

theorem macroGo_run : ∀ (fuel : Nat) (s : State) (t : Nat) (s' : State) (acts : List Act),
    macroGo s t fuel = some (s', acts) → run s acts = some s' ∧ ∀ a ∈ acts, a = Act.step t := by
  intro fuel
  induction fuel with
  | zero =>
    intro s t s' acts h
    simp only [macroGo, Option.some.injEq, Prod.mk.injEq] at h
    obtain ⟨rfl, rfl⟩ := h
    exact ⟨rfl, by simp⟩
  | succ n ih =>
    intro s t s' acts h
    simp only [macroGo] at h
    cases hl : lookup s.thrs t with
    | none => simp [hl] at h
    | some T =>
      simp only [hl] at h
      by_cases hp : parksAt T.pc = true
      · simp only [hp, if_true, Option.some.injEq, Prod.mk.injEq] at h
        obtain ⟨rfl, rfl⟩ := h
        exact ⟨rfl, by simp⟩
      · simp only [hp] at h
        cases hs : stepThr s t T with
        | none => simp [hs] at h
        | some s1 =>
          simp only [hs] at h
          cases hg : macroGo s1 t n with
          | none => simp [hg] at h
          | some p =>
            obtain ⟨s2, acts2⟩ := p
            simp only [hg, Bool.false_eq_true, if_false, Option.some.injEq, Prod.mk.injEq] at h
            obtain ⟨rfl, rfl⟩ := h
            obtain ⟨hr, hall⟩ := ih s1 t s2 acts2 hg
            refine ⟨?_, ?_⟩
            · simp only [run, step, hl, hs]; exact hr
            · intro a ha
              rcases List.mem_cons.mp ha with rfl | ha
              · rfl
              · exact hall a ha

/-- **macroStep_is_run**: a block between two yield points is a run of micro-steps of the one thread. -/
theorem macroStep_is_run {s s' : State} {t : Nat} {acts : List Act} (h : macroStep s t = some (s', acts)) :
    run s acts = some s' ∧ ∀ a ∈ acts, a = Act.step t := by
  simp only [macroStep] at h
  cases hl : lookup s.thrs t with
  | none => simp [hl] at h
  | some T =>
    simp only [hl] at h
    cases hs : stepThr s t T with
    | none => simp [hs] at h
    | some s1 =>
      simp only [hs] at h
      by_cases hpc : T.pc = .load
      · simp only [hpc, if_true, Option.some.injEq, Prod.mk.injEq] at h
        obtain ⟨rfl, rfl⟩ := h
        exact ⟨by simp only [run, step, hl, hs], by simp⟩
      · simp only [hpc, if_false] at h
        cases hg : macroGo s1 t 8 with
        | none => simp [hg] at h
        | some p =>
          obtain ⟨s2, acts2⟩ := p
          simp only [hg, Option.some.injEq, Prod.mk.injEq] at h
          obtain ⟨rfl, rfl⟩ := h
          obtain ⟨hr, hall⟩ := macroGo_run 8 s1 t s2 acts2 hg
          refine ⟨by simp only [run, step, hl, hs]; exact hr, ?_⟩
          intro a ha
          rcases List.mem_cons.mp ha with rfl | ha
          · rfl
          · exact hall a ha

theorem reachable_run {s s' : State} (hr : Reachable s) (acts : List Act) (h : run s acts = some s') : Reachable s' := by
  obtain ⟨l, m, pre, hp⟩ := hr
  exact ⟨l, m, pre ++ acts, by rw [run_append, hp]; exact h⟩

/-- **replay_stays_reachable**: whatever the harness replays through the yield points (a `begin`, a block of
    one thread, a flush, the maintenance sweep up to its yield point, its `CompareAndDelete`) leads from a
    reachable state of the micro-step model to a reachable state: the C06 invariants hold there. -/
theorem replay_stays_reachable {s s' : State} (hr : Reachable s) :
    (∀ t acts, macroStep s t = some (s', acts) → Reachable s') ∧
    (∀ a, step s a = some s' → Reachable s') ∧
    (∀ g, run s (maintToYield g) = some s' → Reachable s') := by
  refine ⟨?_, ?_, ?_⟩
  · intro t acts h; exact reachable_run hr acts (macroStep_is_run h).1
  · intro a h; exact reachable_run hr [a] (by simp [run, h])
  · intro g h; exact reachable_run hr _ h

/-- every state reached by replaying blocks satisfies the invariant -/
theorem replay_inv {s s' : State} {t : Nat} {acts : List Act} (hr : Reachable s) (h : macroStep s t = some (s', acts)) :
    Inv s' :=
  reachable_inv ((replay_stays_reachable hr).1 t acts h)

/-! ### the mistakes the replay engine is there to catch, in the model -/

/-- published groups that are not destroyed: `(object, alerts)` -/
def live (s : State) : List (Nat × List Nat) :=
  s.grps.filterMap fun p => if p.2.published && !p.2.destroyed then some (p.1, p.2.alerts) else none

/-- variants of the code: which guard is dropped -/
structure Variant where
  /-- `doMaintenance` deletes the slot whatever it holds (`LoadAndDelete` / `Delete`) -/
  deleteByKey : Bool := false
  /-- `groupAlert` publishes with `Store` instead of `CompareAndSwap` -/
  casIsStore : Bool := false
  /-- `groupAlert` publishes with `Store` instead of `LoadOrStore` -/
  losIsStore : Bool := false
  /-- `Alerts.Set` does not refuse a destroyed store -/
  insertIgnoresDestroyed : Bool := false

def vStepThr (v : Variant) (s : State) (t : Nat) (T : Thr) : Option State :=
  match T.pc with
  | .cas =>
    if v.casIsStore then
      match T.el, T.ag with
      | some g, some n =>
        match lookup s.grps g, lookup s.grps n with
        | some G, some N =>
          let s1 := { s with map := put s.map T.fp n }
          let s2 := setGrp (setGrp s1 g { G with cancelled := true }) n { N with published := true }
          some (setThr s2 t { T with pc := .done, out := .created })
        | _, _ => none
      | _, _ => none
    else stepThr s t T
  | .los =>
    if v.losIsStore then
      match T.ag with
      | none => none
      | some n =>
        match lookup s.grps n with
        | none => none
        | some N =>
          let s1 := { s with map := put s.map T.fp n, num := s.num + 1 }
          some (setThr (setGrp s1 n { N with published := true }) t { T with pc := .done, out := .created })
    else stepThr s t T
  | .insLoaded =>
    if v.insertIgnoresDestroyed then
      match T.el with
      | none => none
      | some g =>
        match lookup s.grps g with
        | none => none
        | some G => some (setThr (setGrp s g { G with alerts := T.a :: G.alerts }) t { T with pc := .done, out := .inserted })
    else stepThr s t T
  | _ => stepThr s t T

def vStep (v : Variant) (s : State) : Act → Option State
  | .step t =>
    match lookup s.thrs t with
    | none => none
    | some T => vStepThr v s t T
  | .mStep =>
    match s.mpc, lookup s.grps s.mg with
    | .cad, some G =>
      if v.deleteByKey then
        match lookup s.map G.fp with
        | some _ => some { s with map := erase s.map G.fp, num := s.num - 1, mpc := .idle }
        | none => some { s with mpc := .idle }
      else step s .mStep
    | _, _ => step s .mStep
  | a => step s a

def vRun (v : Variant) (s : State) : List Act → Option State
  | [] => some s
  | a :: rest => match vStep v s a with | some s' => vRun v s' rest | none => none

/-- the unchanged code is the variant with every guard in place -/
theorem vStep_default (s : State) (a : Act) : vStep {} s a = step s a := by
  cases a with
  | step t =>
    simp only [vStep, step]
    cases lookup s.thrs t with
    | none => rfl
    | some T => simp only [vStepThr]; cases T.pc <;> simp
  | mStep =>
    simp only [vStep]
    cases s.mpc <;> cases lookup s.grps s.mg <;> simp
  | _ => rfl

/-- thread 1 creates group 0 for fingerprint 7 with the (resolved) alert 10; its flush destroys it; maintenance
    inspects it and is about to delete; thread 2 finds it destroyed, creates group 1 with alert 11 and swaps it
    in; maintenance deletes.  Then thread 3 brings alert 12 (`joins`: it finds a group; `creates`: it finds none). -/
def maintVsRecreate : List Act :=
  [.begin 1 10 7, .step 1, .step 1, .step 1, .step 1, .flush 0 [10]] ++ maintToYield 0 ++
  [.begin 2 11 7, .step 2, .step 2, .step 2, .step 2, .step 2, .mStep]
def joins : List Act := [.begin 3 12 7, .step 3, .step 3]
def creates : List Act := [.begin 3 12 7, .step 3, .step 3, .step 3, .step 3]

/-- the code as it is: one live group, mapped, holding both alerts -/
theorem maintVsRecreate_ok :
    (run {} (maintVsRecreate ++ joins)).map (fun s => (view s, live s)) = some ([(7, [12, 11])], [(1, [12, 11])]) := by
  decide

/-- **delete_by_key_orphans_live_group**: with a delete that is not conditioned on the inspected group, the same
    schedule leaves TWO live groups for fingerprint 7, one of them outside the map (`Groups()` shows only
    alert 12 while alert 11 keeps being notified). -/
theorem delete_by_key_orphans_live_group :
    (vRun { deleteByKey := true } {} (maintVsRecreate ++ creates)).map (fun s => (view s, live s)) =
      some ([(7, [12])], [(1, [11]), (2, [12])]) := by decide

/-- two threads find the destroyed group 0 and both build a successor; thread 2 publishes first -/
def casRace : List Act :=
  [.begin 1 10 7, .step 1, .step 1, .step 1, .step 1, .flush 0 [10],
   .begin 2 11 7, .begin 3 12 7, .step 2, .step 3, .step 2, .step 3, .step 2, .step 3, .step 2, .step 3, .step 2]

theorem casRace_ok :
    (run {} (casRace ++ [.step 3, .step 3, .step 3, .step 3, .step 3])).map (fun s => (view s, live s)) =
      some ([(7, [12, 11])], [(1, [12, 11])]) := by decide

/-- **store_for_cas_orphans_live_group** -/
theorem store_for_cas_orphans_live_group :
    (vRun { casIsStore := true } {} (casRace ++ [.step 3])).map (fun s => (view s, live s)) =
      some ([(7, [12])], [(1, [11]), (2, [12])]) := by decide

/-- two threads find the slot empty and both build a group; thread 1 publishes first -/
def losRace : List Act :=
  [.begin 1 10 7, .begin 2 11 7, .step 1, .step 2, .step 1, .step 2, .step 1, .step 2, .step 1]

theorem losRace_ok :
    (run {} (losRace ++ [.step 2, .step 2])).map (fun s => (view s, live s)) = some ([(7, [11, 10])], [(0, [11, 10])]) := by
  decide

/-- **store_for_loadOrStore_orphans_live_group** -/
theorem store_for_loadOrStore_orphans_live_group :
    (vRun { losIsStore := true } {} (losRace ++ [.step 2])).map (fun s => (view s, live s)) =
      some ([(7, [11])], [(0, [10]), (1, [11])]) := by decide

/-- a thread has loaded group 0, the flush destroys it -/
def flushVsInsert : List Act :=
  [.begin 1 10 7, .step 1, .step 1, .step 1, .step 1, .begin 2 11 7, .step 2, .flush 0 [10]]

theorem flushVsInsert_ok :
    (run {} (flushVsInsert ++ [.step 2, .step 2, .step 2, .step 2])).map (fun s => (view s, live s)) =
      some ([(7, [11])], [(1, [11])]) := by decide

/-- **insert_into_destroyed_is_lost**: the alert sits in a destroyed group (its `run` loop has returned:
    never notified; removed from `Groups()` by the next maintenance sweep); no live group holds it. -/
theorem insert_into_destroyed_is_lost :
    (vRun { insertIgnoresDestroyed := true } {} (flushVsInsert ++ [.step 2])).map (fun s => (view s, live s)) =
      some ([(7, [11])], []) := by decide

end AM.GroupMap
