/-
  C18, part 1 — the per-alert-name limit (limit.Bucket + store.Alerts).
  All theorems are about the code WITH fixes/F4.diff applied (`IsStale` = every
  item expired); the pinned discipline (last array slot) is refuted by `decide`
  at the end (F4).
-/
import AM.Model.Bucket
import AM.Lemmas.AListCount

namespace AM.Bucket
open AM AM.AList

/-! ### `aupsert` pointwise -/

theorem staleNew_spec (b : Items) (now : Int) (h : staleNew b now = true) (k : Nat) (e : Int)
    (hk : lookup b k = some e) : e < now := by
  induction b with
  | nil => simp at hk
  | cons hd tl ih =>
    obtain ⟨k', v'⟩ := hd
    simp only [staleNew, List.all_cons, Bool.and_eq_true, decide_eq_true_eq] at h
    by_cases hkk : k' = k
    · simp [hkk] at hk; omega
    · simp [hkk] at hk
      exact ih (by simpa [staleNew] using h.2) hk

/-- **stale_bucket_drop_safe** (repaired code): a bucket judged stale holds no unexpired item,
    so dropping it forgets nothing that still counts. -/
theorem stale_bucket_drop_safe (b : Items) (now : Int) (h : staleNew b now = true) :
    ∀ k e, lookup b k = some e → e < now := fun k e hk => staleNew_spec b now h k e hk

/-- **room_only_by_expiry**: whatever `Upsert` does, an unexpired item other than the
    upserted value keeps its slot and priority — room is made only by evicting an expired one. -/
theorem room_only_by_expiry (b : Items) (cap root : Nat) (now : Int) (v : Nat) (p : Int)
    (k : Nat) (q : Int) (hk : lookup b k = some q) (hq : now ≤ q) (hkv : k ≠ v) :
    lookup (aupsert b cap root now v p).1 k = some q := by
  unfold aupsert
  cases hv : lookup b v with
  | some _ => simp [lookup_put, Ne.symm hkv, hk]
  | none =>
    by_cases hl : b.length < cap
    · simp [hl, lookup_put, Ne.symm hkv, hk]
    · cases hr : lookup b root with
      | none => simp [hl, hk]
      | some rp =>
        by_cases hx : rp < now
        · have hne : root ≠ k := by
            intro heq; subst heq; rw [hr] at hk; cases hk; omega
          simp [hl, hx, lookup_put, Ne.symm hkv, lookup_erase, hne, hk]
        · simp [hl, hx, hk]

/-- at most one item leaves the bucket per `Upsert`, and it was expired -/
theorem evicted_was_expired (b : Items) (cap root : Nat) (now : Int) (v : Nat) (p : Int)
    (k : Nat) (q : Int) (hk : lookup b k = some q) (hkv : k ≠ v)
    (hgone : lookup (aupsert b cap root now v p).1 k = none) : q < now ∧ k = root := by
  by_cases hq : now ≤ q
  · rw [room_only_by_expiry b cap root now v p k q hk hq hkv] at hgone; cases hgone
  · refine ⟨by omega, ?_⟩
    unfold aupsert at hgone
    cases hv : lookup b v with
    | some _ => simp [hv, lookup_put, Ne.symm hkv, hk] at hgone
    | none =>
      by_cases hl : b.length < cap
      · simp [hv, hl, lookup_put, Ne.symm hkv, hk] at hgone
      · cases hr : lookup b root with
        | none => simp [hv, hl, hr, hk] at hgone
        | some rp =>
          by_cases hx : rp < now
          · by_cases hne : root = k
            · exact hne.symm
            · simp [hv, hl, hr, hx, lookup_put, Ne.symm hkv, lookup_erase, hne, hk] at hgone
          · simp [hv, hl, hr, hx, hk] at hgone

/-- a known value is always accepted (bucket level) -/
theorem upsert_known_ok (b : Items) (cap root : Nat) (now : Int) (v : Nat) (p : Int) (q : Int)
    (hv : lookup b v = some q) : (aupsert b cap root now v p).2 = true := by
  unfold aupsert; simp [hv]

/-- **reject_only_when_full_unexpired**: given the heap contract (the root is a minimum), a
    refusal means the value is new, the bucket is full, and *every* held item is unexpired. -/
theorem reject_only_when_full_unexpired (b : Items) (cap root : Nat) (now : Int) (v : Nat) (p : Int)
    (hmin : IsMin b root) (hrej : (aupsert b cap root now v p).2 = false) :
    lookup b v = none ∧ cap ≤ b.length ∧ ∀ k q, lookup b k = some q → now ≤ q := by
  obtain ⟨rp, hr, hle⟩ := hmin
  unfold aupsert at hrej
  cases hv : lookup b v with
  | some _ => simp [hv] at hrej
  | none =>
    by_cases hl : b.length < cap
    · simp [hv, hl] at hrej
    · by_cases hx : rp < now
      · simp [hv, hl, hr, hx] at hrej
      · refine ⟨rfl, by omega, ?_⟩
        intro k q hk
        have := hle k q hk
        omega

/-! ### the invariant of one alert name -/

structure Inv (now : Int) (s : Sys) : Prop where
  ndb : NoDupKeys s.bucket
  nda : NoDupKeys s.adm
  ndl : NoDupKeys s.alerts
  len : s.bucket.length ≤ s.cap
  /-- every admitted alert that is not expired is tracked by the bucket with its end time -/
  tracked : ∀ k e, lookup s.adm k = some e → now ≤ e → lookup s.bucket k = some e
  /-- the bucket tracks only admitted alerts, with their last admitted end time -/
  sound : ∀ k p, lookup s.bucket k = some p → lookup s.adm k = some p
  /-- what the store lists was admitted -/
  listed : ∀ k e, lookup s.alerts k = some e → lookup s.adm k = some e

theorem inv_init (cap : Nat) (now : Int) : Inv now { cap := cap } := by
  constructor <;> simp [NoDupKeys]

theorem inv_mono {now now' : Int} {s : Sys} (h : Inv now s) (hle : now ≤ now') : Inv now' s :=
  { h with tracked := fun k e hk he => h.tracked k e hk (by omega) }

theorem aupsert_noDup (b : Items) (cap root : Nat) (now : Int) (v : Nat) (p : Int) (h : NoDupKeys b) :
    NoDupKeys (aupsert b cap root now v p).1 := by
  unfold aupsert
  cases lookup b v with
  | some _ => exact noDupKeys_put _ _ _ h
  | none =>
    by_cases hl : b.length < cap
    · simp only [hl, if_true]; exact noDupKeys_put _ _ _ h
    · simp only [hl, if_false]
      cases lookup b root with
      | none => exact h
      | some rp =>
        by_cases hx : rp < now
        · simp only [hx, if_true]; exact noDupKeys_put _ _ _ (noDupKeys_erase _ _ h)
        · simp only [hx, if_false]; exact h

theorem aupsert_length (b : Items) (cap root : Nat) (now : Int) (v : Nat) (p : Int)
    (hlen : b.length ≤ cap) : (aupsert b cap root now v p).1.length ≤ cap := by
  unfold aupsert
  cases hv : lookup b v with
  | some _ => simp [length_put, hv, hlen]
  | none =>
    by_cases hl : b.length < cap
    · simp [hl, length_put, hv]; omega
    · simp only [hl, if_false]
      cases hr : lookup b root with
      | none => exact hlen
      | some rp =>
        by_cases hx : rp < now
        · simp only [hx, if_true]
          have h1 : lookup b root ≠ none := by simp [hr]
          have h2 := length_erase_lt b root h1
          have h3 : lookup (erase b root) v = none := by rw [lookup_erase]; simp [hv]
          rw [length_put]; simp [h3]; omega
        · simp only [hx, if_false]; exact hlen

/-- what `aupsert` stores when it accepts -/
theorem aupsert_ok_lookup (b : Items) (cap root : Nat) (now : Int) (v : Nat) (p : Int)
    (hok : (aupsert b cap root now v p).2 = true) :
    lookup (aupsert b cap root now v p).1 v = some p := by
  unfold aupsert at hok ⊢
  cases hv : lookup b v with
  | some _ => simp
  | none =>
    by_cases hl : b.length < cap
    · simp [hl]
    · cases hr : lookup b root with
      | none => simp [hv, hl, hr] at hok
      | some rp =>
        by_cases hx : rp < now
        · simp [hl, hx]
        · simp [hv, hl, hr, hx] at hok

/-- entries of the new bucket other than `v` come from the old bucket -/
theorem aupsert_lookup_other (b : Items) (cap root : Nat) (now : Int) (v : Nat) (p : Int)
    (k : Nat) (q : Int) (hkv : k ≠ v) (h : lookup (aupsert b cap root now v p).1 k = some q) :
    lookup b k = some q := by
  unfold aupsert at h
  cases hv : lookup b v with
  | some _ => simpa [hv, lookup_put, Ne.symm hkv] using h
  | none =>
    by_cases hl : b.length < cap
    · simpa [hv, hl, lookup_put, Ne.symm hkv] using h
    · cases hr : lookup b root with
      | none => simpa [hv, hl, hr] using h
      | some rp =>
        by_cases hx : rp < now
        · simp [hv, hl, hr, hx, lookup_put, Ne.symm hkv, lookup_erase] at h
          exact h.2
        · simpa [hv, hl, hr, hx] using h

theorem aupsert_reject_same (b : Items) (cap root : Nat) (now : Int) (v : Nat) (p : Int)
    (h : (aupsert b cap root now v p).2 = false) : (aupsert b cap root now v p).1 = b := by
  unfold aupsert at h ⊢
  cases hv : lookup b v with
  | some _ => simp [hv] at h
  | none =>
    by_cases hl : b.length < cap
    · simp [hv, hl] at h
    · cases hr : lookup b root with
      | none => simp [hl]
      | some rp =>
        by_cases hx : rp < now
        · simp [hv, hl, hr, hx] at h
        · simp [hl, hx]

theorem inv_set {now : Int} {s : Sys} (h : Inv now s) (hcap : 0 < s.cap) (root id : Nat) (ends : Int) :
    Inv now (s.set now root id ends).1 := by
  have hc : s.cap ≠ 0 := by omega
  unfold Sys.set
  simp only [hc, if_false]
  by_cases hok : (aupsert s.bucket s.cap root now id ends).2 = true
  · simp only [hok, if_true]
    refine ⟨aupsert_noDup _ _ _ _ _ _ h.ndb, noDupKeys_put _ _ _ h.nda, noDupKeys_put _ _ _ h.ndl,
            aupsert_length _ _ _ _ _ _ h.len, ?_, ?_, ?_⟩
    · intro k e hk he
      by_cases hki : k = id
      · subst hki
        simp at hk; subst hk
        exact aupsert_ok_lookup _ _ _ _ _ _ hok
      · simp [lookup_put, Ne.symm hki] at hk
        exact room_only_by_expiry _ _ _ _ _ _ k e (h.tracked k e hk he) he hki
    · intro k p hk
      by_cases hki : k = id
      · subst hki
        rw [aupsert_ok_lookup _ _ _ _ _ _ hok] at hk
        simp; cases hk; rfl
      · simp [lookup_put, Ne.symm hki]
        exact h.sound k p (aupsert_lookup_other _ _ _ _ _ _ k p hki hk)
    · intro k e hk
      by_cases hki : k = id
      · subst hki; simp at hk ⊢; exact hk
      · simp [lookup_put, Ne.symm hki] at hk ⊢; exact h.listed k e hk
  · simp only [hok]; exact h

theorem inv_gc {now : Int} {s : Sys} (h : Inv now s) : Inv now (s.gc now) := by
  unfold Sys.gc
  by_cases hst : staleNew s.bucket now = true
  · simp only [hst, if_true]
    refine ⟨by simp [NoDupKeys], h.nda, noDupKeys_filterVals _ _ h.ndl, by simp, ?_, by simp, ?_⟩
    · intro k e hk he
      have := staleNew_spec _ _ hst k e (h.tracked k e hk he)
      omega
    · intro k e hk
      exact h.listed k e (lookup_filterVals_some h.ndl hk).1
  · simp only [hst]
    refine ⟨h.ndb, h.nda, noDupKeys_filterVals _ _ h.ndl, h.len, h.tracked, h.sound, ?_⟩
    intro k e hk
    exact h.listed k e (lookup_filterVals_some h.ndl hk).1

theorem inv_step {now : Int} {s : Sys} (h : Inv now s) (hcap : 0 < s.cap) (op : Op) :
    Inv now (s.step now op) := by
  cases op with
  | set root id ends => exact inv_set h hcap root id ends
  | gc => exact inv_gc h

theorem cap_step (s : Sys) (now : Int) (op : Op) : (s.step now op).cap = s.cap := by
  cases op with
  | set root id ends =>
    simp only [Sys.step, Sys.set]
    by_cases hc : s.cap = 0
    · simp [hc]
    · by_cases hok : (aupsert s.bucket s.cap root now id ends).2 = true <;> simp [hc, hok]
  | gc => rfl

theorem inv_run {t0 : Int} {s : Sys} (h : Inv t0 s) (hcap : 0 < s.cap) (hist : List (Int × Op))
    (hm : Mono t0 hist) : Inv (lastTime t0 hist) (s.run hist) ∧ (s.run hist).cap = s.cap := by
  induction hist generalizing t0 s with
  | nil => exact ⟨h, rfl⟩
  | cons ev rest ih =>
    obtain ⟨t, op⟩ := ev
    obtain ⟨hle, hm'⟩ := hm
    have h1 := inv_step (inv_mono h hle) hcap op
    have hc := cap_step s t op
    have := ih h1 (by omega) hm'
    exact ⟨this.1, by show ((s.step t op).run rest).cap = s.cap; rw [this.2, hc]⟩

theorem unexp_le_of_inv {now : Int} {s : Sys} (h : Inv now s) : unexp s.adm now ≤ s.cap := by
  unfold unexp
  refine Nat.le_trans ?_ h.len
  apply length_le_of_keys_subset _ _ (noDupKeys_filterVals _ _ h.nda)
  intro k v hk
  obtain ⟨h1, h2⟩ := lookup_filterVals_some h.nda hk
  have : now ≤ v := by simpa using h2
  rw [h.tracked k v h1 this]; simp

/-- **unexpired_le_cap**: for every limit ≥ 1 and every history of admissions, re-sends and
    garbage collections at non-decreasing instants — whatever minimum the heap presents as its
    root — the alerts ever admitted under the name whose (last admitted) end time has not passed
    number at most `cap`, at the last instant and at any later one. -/
theorem unexpired_le_cap (cap : Nat) (hcap : 0 < cap) (t0 : Int) (hist : List (Int × Op))
    (hm : Mono t0 hist) (t : Int) (ht : lastTime t0 hist ≤ t) :
    unexp (Sys.run { cap := cap } hist).adm t ≤ cap := by
  have h := inv_run (inv_init cap t0) hcap hist hm
  have := unexp_le_of_inv (inv_mono h.1 ht)
  rw [h.2] at this
  exact this

/-- what the store lists (`GET /api/v2/alerts`) and is unexpired is bounded as well -/
theorem listed_unexpired_le_cap (cap : Nat) (hcap : 0 < cap) (t0 : Int) (hist : List (Int × Op))
    (hm : Mono t0 hist) (t : Int) (ht : lastTime t0 hist ≤ t) :
    unexp (Sys.run { cap := cap } hist).alerts t ≤ cap := by
  have h := inv_run (inv_init cap t0) hcap hist hm
  have hi := inv_mono h.1 ht
  refine Nat.le_trans ?_ (h.2 ▸ unexp_le_of_inv hi)
  unfold unexp
  apply length_le_of_keys_subset _ _ (noDupKeys_filterVals _ _ hi.ndl)
  intro k v hk
  obtain ⟨h1, h2⟩ := lookup_filterVals_some hi.ndl hk
  rw [lookup_filterVals _ _ hi.nda, hi.listed k v h1]
  simp [h2]

/-- **resend_always_ok**: after any history, re-sending an admitted alert whose end time has not
    passed is accepted (with any new end time), and the refusal of a newcomer changes nothing. -/
theorem resend_always_ok (cap : Nat) (hcap : 0 < cap) (t0 : Int) (hist : List (Int × Op))
    (hm : Mono t0 hist) (t : Int) (ht : lastTime t0 hist ≤ t) (id : Nat) (e : Int)
    (hadm : lookup (Sys.run { cap := cap } hist).adm id = some e) (hlive : t ≤ e)
    (root : Nat) (ends : Int) :
    ((Sys.run { cap := cap } hist).set t root id ends).2 = true := by
  have h := inv_run (inv_init cap t0) hcap hist hm
  have hi := inv_mono h.1 ht
  have hb := hi.tracked id e hadm hlive
  have h2 : (Sys.run { cap := cap } hist).cap = cap := h.2
  have hc : (Sys.run { cap := cap } hist).cap ≠ 0 := by rw [h2]; omega
  unfold Sys.set
  simp [hc, upsert_known_ok _ _ _ _ _ _ e hb]

theorem refused_changes_nothing (s : Sys) (now : Int) (root id : Nat) (ends : Int)
    (h : (s.set now root id ends).2 = false) : (s.set now root id ends).1 = s := by
  unfold Sys.set at h ⊢
  by_cases hc : s.cap = 0
  · simp [hc] at h
  · by_cases hok : (aupsert s.bucket s.cap root now id ends).2 = true
    · simp [hc, hok] at h
    · simp [hc, hok]

/-- **every_refusal_reported** (store level): `Set` answers `ErrLimited` exactly when it did not
    admit — an accepted alert is listed and counted with the end time it was sent with; there is
    no silent drop.  (`mem.Alerts.Put` turns the error into `alertmanager_alerts_limited_total`;
    that step is observed by the engine, not modelled.) -/
theorem every_refusal_reported (s : Sys) (now : Int) (root id : Nat) (ends : Int) :
    ((s.set now root id ends).2 = true →
        lookup (s.set now root id ends).1.alerts id = some ends ∧ lookup (s.set now root id ends).1.adm id = some ends) ∧
    ((s.set now root id ends).2 = false → (s.set now root id ends).1 = s) := by
  refine ⟨?_, refused_changes_nothing s now root id ends⟩
  intro h
  unfold Sys.set at h ⊢
  by_cases hc : s.cap = 0
  · simp [hc]
  · by_cases hok : (aupsert s.bucket s.cap root now id ends).2 = true
    · simp [hc, hok]
    · simp [hc, hok] at h

/-! ### F4: the pinned discipline (`IsStale` = last array slot expired) is unsafe -/

/-- the heap array after admitting ends 1, 30, 2 is `[1, 30, 2]`: the last slot is not the latest -/
theorem f4_array : (HSys.run { cap := 3, old := true } [(0, .set 1 1), (0, .set 2 30), (0, .set 3 2)]).heap
    = [(1, 1), (2, 30), (3, 2)] := by decide

/-- `stale_bucket_drop_safe` is FALSE for the pinned `IsStale`: it calls this bucket stale at
    t = 5 although item 2 ends at 30. -/
theorem stale_bucket_drop_unsafe_old :
    hstaleOld [(1, 1), (2, 30), (3, 2)] 5 = true ∧ lookup [(1, (1 : Int)), (2, 30), (3, 2)] 2 = some 30 ∧ ¬ (30 : Int) < 5 := by
  decide

def f4History : List (Int × HOp) :=
  [(0, .set 1 1), (0, .set 2 30), (0, .set 3 2), (5, .gc), (5, .set 4 40), (5, .set 5 40), (5, .set 6 40)]

/-- `unexpired_le_cap` is FALSE for the pinned code: limit 3, four unexpired alerts admitted. -/
theorem unexpired_le_cap_false_old : unexp (HSys.run { cap := 3, old := true } f4History).adm 5 = 4 := by decide

/-- … and `resend_always_ok` too: the still-unexpired alert 2 is refused afterwards. -/
theorem resend_refused_old : ((HSys.run { cap := 3, old := true } f4History).set 5 2 30).2 = false := by decide

/-- the same history on the repaired discipline stays within the limit and accepts the re-send -/
theorem f4_history_repaired :
    unexp (HSys.run { cap := 3 } f4History).adm 5 = 3 ∧ ((HSys.run { cap := 3 } f4History).set 5 2 30).2 = true := by
  decide

/-! ### non-vacuity -/
example : Mono 0 [(0, Op.set 0 1 1), (0, .set 1 2 30), (5, .gc), (5, .set 1 4 40)] := by simp [Mono]
example : IsMin [(1, 1), (2, 30)] 1 := ⟨1, by decide, by
  intro k q h
  simp only [lookup_cons, lookup_nil] at h
  by_cases h1 : (1 : Nat) = k
  · simp [h1] at h; omega
  · by_cases h2 : (2 : Nat) = k
    · simp [h1, h2] at h; omega
    · simp [h1, h2] at h⟩

end AM.Bucket
