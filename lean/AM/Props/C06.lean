/-
  C06 — Grouping partitions alerts by route and group_by values, completely and
  stably.  Pure part here; the interleaved insert-or-create is AM.Props.C06Conc.
-/
import AM.Model.Grouping
import AM.Props.C06Conc

set_option linter.unusedSimpArgs false

namespace AM.Route
open AM AM.AList AM.Lbl

/-- **group_labels_spec**: the group labels are the alert's labels restricted to `group_by`
    (all of them for `...`), in canonical order, with no empty values. -/
theorem group_labels_spec (ls : LabelSet) (o : Opts) :
    (∀ n, lookup (getGroupLabels ls o) n = if inGroup o n then lookup ls n else none) ∧
    (Sorted ls → Sorted (getGroupLabels ls o)) ∧ (NoEmpty ls → NoEmpty (getGroupLabels ls o)) ∧
    (o.groupByAll = true → getGroupLabels ls o = ls) := by
  refine ⟨fun n => lookup_restrict _ ls n, sorted_restrict _ ls, noEmpty_restrict _ ls, ?_⟩
  intro h
  simp [getGroupLabels, restrict, inGroup, h]

/-- **same_group_iff**: under one route two alerts have the same group labels (the same map key)
    iff they agree on every grouping label, a missing label counting as "". -/
theorem same_group_iff (a b : LabelSet) (o : Opts) (ha : Sorted a) (hb : Sorted b)
    (hea : NoEmpty a) (heb : NoEmpty b) :
    getGroupLabels a o = getGroupLabels b o ↔ ∀ n, inGroup o n = true → get a n = get b n := by
  constructor
  · intro h n hn
    rw [get_eq_iff_lookup_eq a b hea heb]
    have := congrArg (fun l => lookup l n) h
    simp only [getGroupLabels, lookup_restrict, hn, if_true] at this
    exact this
  · intro h
    apply sorted_ext _ _ (sorted_restrict _ a ha) (sorted_restrict _ b hb)
    intro k
    simp only [getGroupLabels, lookup_restrict]
    by_cases hk : inGroup o k = true
    · simp only [hk, if_true]
      exact (get_eq_iff_lookup_eq a b hea heb k).mp (h k hk)
    · simp [hk]

/-- **group_key_pure**: the group key is the route key, ':' and the canonical group-label string —
    a function of the route's key and of the alert's values on the grouping labels only. -/
theorem group_key_pure (r : Route) (a b : LabelSet) :
    groupKey r a = r.key ++ ":" ++ lsString (getGroupLabels a r.opts) ∧
    (getGroupLabels a r.opts = getGroupLabels b r.opts → groupKey r a = groupKey r b) := by
  refine ⟨rfl, fun h => ?_⟩
  simp [groupKey, h]

/-- the route key is built from the (sorted) matchers on the path only: root = its matchers,
    child = parent key '/' its matchers -/
theorem route_key_spec (base : Opts) (p : Option PCtx) (counter : Nat) (n : CNode) (kids : List CRoute) :
    (newRoute base p counter (.mk n kids)).1.key =
      (match p with
       | none => matchersString (sortMatchers n.matchers)
       | some c => c.key ++ "/" ++ matchersString (sortMatchers n.matchers)) ∧
    (newRoute base p counter (.mk n kids)).1.matchers = sortMatchers n.matchers := by
  cases p <;> simp [newRoute, Route.key, Route.matchers, routeKey]

theorem child_key_spec (base : Opts) (pk pid : String) :
    ∀ (cs : List CRoute) (pos counter : Nat), ∀ c ∈ (newRoutes base pk pid pos counter cs).1,
      c.key = pk ++ "/" ++ matchersString c.matchers
  | [], _, _, c, hc => by simp [newRoutes] at hc
  | .mk n kids :: cs, pos, counter, c, hc => by
    rw [newRoutes] at hc
    simp only [List.mem_cons] at hc
    rcases hc with rfl | hc
    · simp [newRoute, Route.key, Route.matchers, routeKey]
    · exact child_key_spec base pk pid cs _ _ c hc

/-! ### the partition -/

/-- every alert sits in the group of its own group labels; no two groups share (route, labels) -/
structure GInv (gs : List AG) : Prop where
  member : ∀ g ∈ gs, ∀ a ∈ g.alerts, getGroupLabels a g.route.opts = g.labels
  distinct : gs.Pairwise (fun g h => ¬ (g.route.idx = h.route.idx ∧ g.labels = h.labels))

theorem ginv_nil : GInv [] := ⟨by simp, List.Pairwise.nil⟩

theorem is_iff (g : AG) (idx : Nat) (gl : LabelSet) : g.is idx gl = true ↔ g.route.idx = idx ∧ g.labels = gl := by
  simp [AG.is]

/-- inserting keeps the partition invariant (the route object of an index is fixed: `hroute`). -/
theorem ginv_ingestRoute (gs : List AG) (r : Route) (a : LabelSet) (h : GInv gs)
    (hroute : ∀ g ∈ gs, g.route.idx = r.idx → g.route.opts = r.opts) : GInv (ingestRoute gs r a) := by
  unfold ingestRoute
  by_cases hany : gs.any (·.is r.idx (getGroupLabels a r.opts)) = true
  · simp only []
    rw [if_pos hany]
    constructor
    · intro g hg x hx
      obtain ⟨g0, hg0, rfl⟩ := List.mem_map.mp hg
      by_cases his : g0.is r.idx (getGroupLabels a r.opts) = true
      · simp only [his, if_true] at hx ⊢
        obtain ⟨hi, hl⟩ := (is_iff _ _ _).mp his
        by_cases hc : g0.alerts.contains a = true
        · simp only [hc, if_true] at hx; exact h.member g0 hg0 x hx
        · simp only [hc] at hx
          rcases List.mem_cons.mp hx with rfl | hx
          · rw [hroute g0 hg0 hi]; exact hl.symm
          · exact h.member g0 hg0 x hx
      · simp only [his] at hx ⊢
        exact h.member g0 hg0 x hx
    · refine List.Pairwise.map _ ?_ h.distinct
      intro g1 g2 hne
      by_cases h1 : g1.is r.idx (getGroupLabels a r.opts) = true <;>
        by_cases h2 : g2.is r.idx (getGroupLabels a r.opts) = true <;> simp only [h1, h2] <;> exact hne
  · simp only []
    rw [if_neg hany]
    constructor
    · intro g hg x hx
      rcases List.mem_append.mp hg with hg | hg
      · exact h.member g hg x hx
      · simp at hg; subst hg; simp at hx; subst hx; rfl
    · rw [List.pairwise_append]
      refine ⟨h.distinct, by simp, ?_⟩
      intro g hg g' hg'
      simp at hg'; subst hg'
      intro hc
      apply hany
      exact List.any_eq_true.mpr ⟨g, hg, (is_iff _ _ _).mpr hc⟩

/-- after `groupAlert` the alert is in the group of (route, its group labels) -/
theorem ingestRoute_lands (gs : List AG) (r : Route) (a : LabelSet) :
    ∃ g ∈ ingestRoute gs r a, g.route.idx = r.idx ∧ g.labels = getGroupLabels a r.opts ∧ a ∈ flushList g := by
  unfold ingestRoute
  by_cases hany : gs.any (·.is r.idx (getGroupLabels a r.opts)) = true
  · simp only []
    rw [if_pos hany]
    obtain ⟨g, hg, his⟩ := List.any_eq_true.mp hany
    obtain ⟨hi, hl⟩ := (is_iff _ _ _).mp his
    refine ⟨_, List.mem_map.mpr ⟨g, hg, rfl⟩, ?_⟩
    simp only [his, if_true, flushList]
    refine ⟨hi, hl, ?_⟩
    by_cases hc : a ∈ g.alerts <;> simp [hc]
  · simp only []
    rw [if_neg hany]
    exact ⟨_, List.mem_append.mpr (Or.inr (List.mem_singleton.mpr rfl)), rfl, rfl, by simp [flushList]⟩

/-- **groups_api_is_partition**: in what `Groups()` shows, an alert appears under one route in
    exactly one group, and that group's labels are the alert's values on the grouping labels. -/
theorem groups_api_is_partition (gs : List AG) (h : GInv gs) (g₁ g₂ : AG) (a : LabelSet)
    (h₁ : g₁ ∈ groupsView gs) (h₂ : g₂ ∈ groupsView gs)
    (hro : g₁.route.opts = g₂.route.opts) (a₁ : a ∈ g₁.alerts) (a₂ : a ∈ g₂.alerts) :
    g₁.labels = g₂.labels ∧ getGroupLabels a g₁.route.opts = g₁.labels := by
  have m₁ := h.member g₁ (List.mem_filter.mp h₁).1 a a₁
  have m₂ := h.member g₂ (List.mem_filter.mp h₂).1 a a₂
  rw [← hro, m₁] at m₂
  exact ⟨m₂, m₁⟩

/-- two distinct list positions never carry the same (route, labels): with the previous theorem,
    "exactly one group" -/
theorem groups_api_no_duplicates (gs : List AG) (h : GInv gs) :
    (groupsView gs).Pairwise (fun g h => ¬ (g.route.idx = h.route.idx ∧ g.labels = h.labels)) :=
  List.Pairwise.filter _ h.distinct

/-- **flush_lists_all_unsuppressed** (as far as this model carries: suppression happens later in the
    pipeline, C02/C03): a flush hands over the whole content of the group, never a delta — grouping a
    new alert keeps every alert that was already in any group listed in that same group, and
    (`ingestRoute_lands`) adds the new one to the list of its own group. -/
theorem flush_lists_all_unsuppressed (gs : List AG) (r : Route) (a : LabelSet) :
    (∀ g0 ∈ gs, ∀ x ∈ flushList g0, ∃ g ∈ ingestRoute gs r a,
        g.route.idx = g0.route.idx ∧ g.labels = g0.labels ∧ x ∈ flushList g) ∧
    (∃ g ∈ ingestRoute gs r a, g.route.idx = r.idx ∧ g.labels = getGroupLabels a r.opts ∧ a ∈ flushList g) := by
  refine ⟨?_, ingestRoute_lands gs r a⟩
  intro g0 hg0 x hx
  unfold ingestRoute
  by_cases hany : gs.any (·.is r.idx (getGroupLabels a r.opts)) = true
  · simp only []
    rw [if_pos hany]
    refine ⟨_, List.mem_map.mpr ⟨g0, hg0, rfl⟩, ?_⟩
    by_cases his : g0.is r.idx (getGroupLabels a r.opts) = true
    · have hx' : x ∈ g0.alerts := hx
      simp only [his, if_true, flushList]
      refine ⟨trivial, trivial, ?_⟩
      by_cases hc : a ∈ g0.alerts
      · simp [hc, hx']
      · simp [hc, hx']
    · simp only [his]; exact ⟨rfl, rfl, hx⟩
  · simp only []
    rw [if_neg hany]
    exact ⟨g0, List.mem_append.mpr (Or.inl hg0), rfl, rfl, hx⟩

/-! ### non-vacuity -/

example : getGroupLabels [("a", "x"), ("b", "y"), ("c", "z")] { defaultOpts with groupBy := ["c", "a"] } = [("a", "x"), ("c", "z")] := by
  decide

example : groupKeyOf "{}/{a=\"x\"}" [("a", "x"), ("c", "z \"q\"")] = "{}/{a=\"x\"}:{a=\"x\", c=\"z \\\"q\\\"\"}" := by
  decide

end AM.Route
