/-
  C20 — delivery contract: retry policy, record-after-success, faithful bounded payload.
-/
import AM.Model.Retry
import AM.Model.Fanout
import AM.Model.Trunc
import AM.Model.TemplateData

namespace AM.Retry

/-- an attempt after which the loop goes round again -/
def Continues (D : Int) (a : Att) : Prop :=
  a.start < D ∧ ((ret D a).1 = .recoverable ∨ (ret D a).1 = .ctxErr)

theorem exec_prefix (D : Int) (pre rest : List Att) (i : Nat) (seen : Bool)
    (h : ∀ a ∈ pre, Continues D a) :
    ∃ seen', exec D (pre ++ rest) i seen = exec D rest (i + pre.length) seen' := by
  induction pre generalizing i seen with
  | nil => exact ⟨seen, by simp⟩
  | cons a pre ih =>
    obtain ⟨hs, hr⟩ := h a (by simp)
    have hns : ¬ D ≤ a.start := by omega
    have ih' := fun i s => ih i s (fun b hb => h b (by simp [hb]))
    cases hr with
    | inl hr =>
      obtain ⟨s', hs'⟩ := ih' (i + 1) true
      refine ⟨s', ?_⟩
      simp only [List.cons_append, exec, hns, if_false, hr, hs', List.length_cons]
      congr 1; omega
    | inr hr =>
      obtain ⟨s', hs'⟩ := ih' (i + 1) seen
      refine ⟨s', ?_⟩
      simp only [List.cons_append, exec, hns, if_false, hr, hs', List.length_cons]
      congr 1; omega

/-- **unrecoverable_not_retried**: once a call made before the deadline comes back with an
    unrecoverable error, the stage returns that failure at once: the attempt count is exactly
    the calls made so far, whatever ticks (`post`) would still have come. -/
theorem unrecoverable_not_retried (D : Int) (pre post : List Att) (a : Att)
    (hpre : ∀ b ∈ pre, Continues D b) (hs : a.start < D) (hu : (ret D a).1 = .unrecoverable) :
    exec D (pre ++ a :: post) 0 false = .unrecoverable (pre.length + 1) := by
  obtain ⟨s', h⟩ := exec_prefix D pre (a :: post) 0 false hpre
  have hns : ¬ D ≤ a.start := by omega
  rw [h]; simp [exec, hns, hu]

/-- **recoverable_retried_until_deadline**: as long as calls made before the deadline come back
    recoverable, *every* tick before the deadline produces another call; the stage ends only
    because the context did, with a failure carrying the integration's last error. -/
theorem recoverable_retried_until_deadline (D : Int) (atts : List Att) (i : Nat) (seen : Bool)
    (h : ∀ a ∈ atts, a.start < D ∧ (ret D a).1 = .recoverable) :
    exec D atts i seen = .deadline (i + atts.length) (seen || !atts.isEmpty) := by
  induction atts generalizing i seen with
  | nil => simp [exec]
  | cons a rest ih =>
    obtain ⟨hs, hr⟩ := h a (by simp)
    have hns : ¬ D ≤ a.start := by omega
    simp only [exec, hns, if_false, hr]
    rw [ih (i + 1) true (fun b hb => h b (by simp [hb]))]
    simp; omega

/-- **failure_reported**: the stage reports success only if some call made before the deadline
    returned success; otherwise (recoverable, unrecoverable, hanging, or no call at all) it
    returns an error. -/
theorem failure_reported (D : Int) (atts : List Att) (i : Nat) (seen : Bool) (n : Nat)
    (h : exec D atts i seen = .success n) : ∃ a ∈ atts, a.start < D ∧ (ret D a).1 = .ok := by
  induction atts generalizing i seen with
  | nil => simp [exec] at h
  | cons a rest ih =>
    by_cases hd : D ≤ a.start
    · simp [exec, hd] at h
    · simp only [exec, hd, if_false] at h
      cases hr : (ret D a).1 with
      | ok => exact ⟨a, by simp, by omega, hr⟩
      | unrecoverable => simp [hr] at h
      | recoverable =>
        simp only [hr] at h
        obtain ⟨b, hb, hb2⟩ := ih _ _ h
        exact ⟨b, by simp [hb], hb2⟩
      | ctxErr =>
        simp only [hr] at h
        obtain ⟨b, hb, hb2⟩ := ih _ _ h
        exact ⟨b, by simp [hb], hb2⟩

/-- the whole stage: success means a successful call, or nothing to send (`send_resolved: false`
    and no firing alert — the documented short cut) -/
theorem stage_success (sr : Bool) (nf : Nat) (D : Int) (atts : List Att) (n : Nat)
    (h : stage sr nf D atts = .success n) :
    (sr = false ∧ nf = 0) ∨ ∃ a ∈ atts, a.start < D ∧ (ret D a).1 = .ok := by
  unfold stage at h
  by_cases hc : (!sr) = true ∧ nf = 0
  · left; simpa using hc
  · right; simp only [hc, if_false] at h; exact failure_reported D atts 0 false n h

/-- a call that hangs comes back only at the deadline and is never a success -/
theorem hang_is_failure (D : Int) (a : Att) (h : a.out = .hang) : ret D a = (.ctxErr, D) := by
  unfold ret; simp [h]

/-- **request_timeout_retried**: requests that run into the integration's own per-request timeout
    (or are answered 5xx) while the flush deadline is still ahead are recoverable failures: every
    one of them is followed by another attempt, the stage ends only with the flush context. -/
theorem request_timeout_retried (D timeout : Int) (reqs : List (Int × Http)) (i : Nat) (seen : Bool)
    (ht : 0 ≤ timeout)
    (h : ∀ r ∈ reqs, (r.2 = .timeout ∨ ∃ c, r.2 = .status c ∧ c / 100 = 5) ∧ r.1 + timeout < D) :
    exec D (reqs.map fun r => httpAtt timeout r.1 r.2) i seen = .deadline (i + reqs.length) (seen || !reqs.isEmpty) := by
  have := recoverable_retried_until_deadline D (reqs.map fun r => httpAtt timeout r.1 r.2) i seen (by
    intro a ha
    obtain ⟨r, hr, rfl⟩ := List.mem_map.mp ha
    obtain ⟨hk, hd⟩ := h r hr
    rcases hk with hk | ⟨c, hk, h5⟩
    · have hnd : ¬ D ≤ r.1 + timeout := by omega
      refine ⟨by simp [httpAtt]; omega, ?_⟩
      simp [ret, httpAtt, hk, httpOutcome, hnd]
    · have hnd : ¬ D ≤ r.1 := by omega
      refine ⟨by simp [httpAtt]; omega, ?_⟩
      simp [ret, httpAtt, hk, httpOutcome, h5, hnd])
  simpa using this

/-- a 4xx answer ends the loop at once, a 2xx answer is the success -/
theorem http_status_classes (c : Nat) :
    (c / 100 = 2 → httpOutcome (.status c) = .ok) ∧
    (c / 100 = 5 → httpOutcome (.status c) = .recoverable) ∧
    (c / 100 ≠ 2 → c / 100 ≠ 5 → httpOutcome (.status c) = .unrecoverable) := by
  exact ⟨fun h => by simp [httpOutcome, h], fun h => by simp [httpOutcome, h], fun h2 h5 => by simp [httpOutcome, h2, h5]⟩

example : exec 20000 ((([(0, .timeout), (600, .status 503)] : List (Int × Http))).map fun r => httpAtt 50 r.1 r.2) 0 false = .deadline 2 true := by decide

example : exec 100 [⟨0, .recoverable, 5⟩, ⟨10, .hang, 0⟩, ⟨120, .ok, 1⟩] 0 false = .deadline 2 true := by decide
example : okTimes 100000000000 0 [⟨0, .recoverable, 5⟩, ⟨400000000, .ok, 1⟩] = true := by decide

end AM.Retry

namespace AM.Fanout
open AM.Retry

/-- **log_only_after_success**: in the chain `createReceiverStage` builds, SetNotifies (the
    notification-log write) runs only if Wait and Dedup passed and Retry reported success. -/
theorem log_only_after_success (w d sn : StageOut) (r : Res)
    (h : "setnotifies" ∈ (multi (chain w d r sn)).1) : r.isSuccess = true ∧ w = .pass ∧ d = .pass := by
  cases w <;> cases d <;> cases hr : r.isSuccess <;> simp [chain, multi, hr] at h ⊢

/-- … and conversely a reported success is always followed by the log write. -/
theorem success_is_logged (sn : StageOut) (r : Res) (h : r.isSuccess = true) :
    "setnotifies" ∈ (multi (chain .pass .pass r sn)).1 := by
  cases sn <;> simp [chain, multi, h]

theorem chain_order (w d sn : StageOut) (r : Res) : (chain w d r sn).map (·.name) = receiverOrder := rfl

/-- a failed Retry makes the chain fail -/
theorem failed_retry_fails_chain (sn : StageOut) (r : Res) (h : r.isSuccess = false) :
    (multi (chain .pass .pass r sn)).2 = true := by
  simp [chain, multi, h]

/-- **sibling_isolated**: what one integration's chain does in a fan-out is what it does alone;
    replacing its siblings by anything changes nothing for it; the joined error is set exactly
    when some member failed. -/
theorem sibling_isolated (ms ms' : List (List Stage)) (i : Nat) (h : ms[i]? = ms'[i]?) :
    (fanout ms).1[i]? = (fanout ms').1[i]? ∧ (fanout ms).1[i]? = (ms[i]?).map multi ∧
    ((fanout ms).2 = true ↔ ∃ m ∈ ms, (multi m).2 = true) := by
  refine ⟨?_, ?_, ?_⟩
  · simp [fanout, h]
  · simp [fanout]
  · simp [fanout]

end AM.Fanout

namespace AM.Trunc

theorem bytes_append (a b : List Nat) : bytes (a ++ b) = bytes a + bytes b := by
  induction a with
  | nil => simp [bytes]
  | cons c cs ih => simp [bytes, ih]; omega

theorem bytes_replicate_dot (n : Nat) : bytes (List.replicate n dot) = n := by
  induction n with
  | zero => simp [bytes]
  | succ k ih =>
    simp only [List.replicate_succ, bytes, ih]
    simp [ulen, dot]; omega

theorem bytes_fit_le (t : Nat) (l : List Nat) : bytes (fit t l) ≤ t := by
  induction l generalizing t with
  | nil => simp [fit, bytes]
  | cons c cs ih =>
    unfold fit
    by_cases h : ulen c ≤ t
    · simp only [h, if_true, bytes]
      have := ih (t - ulen c)
      omega
    · simp [h, bytes]

theorem fit_prefix (t : Nat) (l : List Nat) : ∃ k, fit t l = l.take k := by
  induction l generalizing t with
  | nil => exact ⟨0, by simp [fit]⟩
  | cons c cs ih =>
    unfold fit
    by_cases h : ulen c ≤ t
    · obtain ⟨k, hk⟩ := ih (t - ulen c)
      exact ⟨k + 1, by simp [h, hk]⟩
    · exact ⟨0, by simp [h]⟩

/-- **truncate_runes_le**: the result never has more than `n` runes; a string that fits is returned
    unchanged and unflagged; a cut one is a prefix of the input (plus the marker when n > 3). -/
theorem truncate_runes_le (r : List Nat) (n : Nat) :
    (truncRunes r n).1.length ≤ n ∧ ((truncRunes r n).2 = false ↔ r.length ≤ n) ∧
    (r.length ≤ n → (truncRunes r n).1 = r) ∧
    (∃ k, (truncRunes r n).1 = r.take k ∨ (truncRunes r n).1 = r.take k ++ [marker]) := by
  unfold truncRunes
  by_cases h1 : r.length ≤ n
  · simp [h1]; exact ⟨r.length, Or.inl (by simp)⟩
  · by_cases h2 : n ≤ 3
    · simp [h1, h2]
      refine ⟨by omega, n, Or.inl rfl⟩
    · simp [h1, h2]
      refine ⟨by omega, n - 1, Or.inr rfl⟩

/-- **truncate_bytes_le_and_valid** (repaired code): total; the result never exceeds `n` bytes; it
    is the input itself, or dots/marker only (n ≤ 3), or a *rune prefix* of the input followed by
    the marker — no character is ever split. -/
theorem truncate_bytes_le_and_valid (r : List Nat) (n : Nat) :
    bytes (truncBytes r n).1 ≤ n ∧
    ((truncBytes r n).1 = r ∨ (n ≤ 3 ∧ ((truncBytes r n).1 = [marker] ∨ (truncBytes r n).1 = List.replicate n dot)) ∨
      ∃ k, (truncBytes r n).1 = r.take k ++ [marker]) := by
  unfold truncBytes
  by_cases h1 : bytes r ≤ n
  · simp [h1]
  · by_cases h2 : n ≤ 3
    · by_cases h3 : n = 3
      · subst h3; simp [h1, bytes, ulen, marker]
      · simp [h1, h2, h3, bytes_replicate_dot]
    · simp only [h1, h2, if_false]
      refine ⟨?_, Or.inr (Or.inr ?_)⟩
      · rw [bytes_append]
        have := bytes_fit_le (n - 3) (r.take (min (n - 3) r.length))
        simp [bytes, ulen, marker]; omega
      · obtain ⟨k, hk⟩ := fit_prefix (n - 3) (r.take (min (n - 3) r.length))
        exact ⟨min k (min (n - 3) r.length), by rw [hk, List.take_take]⟩

/-- F6: the pinned `TruncateInBytes` panics on ten 4-byte runes with limit 39
    (`r[:36]` on a rune slice of capacity 32) … -/
theorem truncate_bytes_panics_old : truncBytesOld 32 (List.replicate 10 0x1F600) 39 = none := by decide

/-- … where the repaired one returns nine of them and the marker (39 bytes). -/
theorem truncate_bytes_f6_repaired :
    truncBytes (List.replicate 10 0x1F600) 39 = (List.replicate 9 0x1F600 ++ [marker], true) := by decide

/-- wherever the pinned code does not panic it computes what the repaired code computes -/
theorem truncBytesOld_agrees (cap : Nat) (r : List Nat) (n : Nat) (x : List Nat × Bool)
    (h : truncBytesOld cap r n = some x) : truncBytes r n = x := by
  unfold truncBytesOld at h
  unfold truncBytes
  by_cases h1 : bytes r ≤ n
  · simp [h1] at h ⊢; exact h
  · by_cases h2 : n ≤ 3
    · simp [h1, h2] at h ⊢; exact h
    · by_cases h3 : n - 3 > max cap r.length
      · simp [h1, h2, h3] at h
      · simp [h1, h2, h3] at h ⊢; exact h

/-- **max_alerts_truncation**: the webhook lists the first `max_alerts` alerts in order and reports
    exactly how many it left out; with `max_alerts: 0` nothing is cut. -/
theorem max_alerts_truncation {α : Type} (m : Nat) (l : List α) :
    (truncAlerts m l).1.length + (truncAlerts m l).2 = l.length ∧
    (truncAlerts m l).1 = l.take (truncAlerts m l).1.length ∧
    (m ≠ 0 → (truncAlerts m l).1.length ≤ m) ∧ (m = 0 → truncAlerts m l = (l, 0)) ∧
    ((truncAlerts m l).2 = 0 ↔ (m = 0 ∨ l.length ≤ m)) := by
  unfold truncAlerts
  by_cases hm : m = 0
  · simp [hm]
  · by_cases hl : l.length > m
    · simp [hm, hl, List.length_take]; omega
    · simp [hm, hl]; omega

end AM.Trunc

namespace AM.TemplateData
open AM AM.AList

/-- **data_lists_exactly_batch**: `Data.Alerts` is the batch, one entry per alert, in order, with the
    alert's own labels, annotations and status; `Firing`/`Resolved` partition it. -/
theorem data_lists_exactly_batch (now : Int) (recv : String) (alerts : List Alert) :
    (data now recv alerts).alerts = alerts.map (fun a => ⟨statusOf now a, a.labels, a.annotations⟩) ∧
    (data now recv alerts).alerts.length = alerts.length ∧
    (firing (data now recv alerts)).length + (resolvedItems (data now recv alerts)).length = alerts.length := by
  refine ⟨rfl, by simp [data], ?_⟩
  simp only [firing, resolvedItems, data]
  induction alerts with
  | nil => simp
  | cons a rest ih =>
    simp only [List.map_cons, List.filter_cons, List.length_cons]
    by_cases hr : resolved now a = true
    · have h1 : statusOf now a = "resolved" := by simp [statusOf, hr]
      simp [h1]; omega
    · have h1 : statusOf now a = "firing" := by simp [statusOf, hr]
      simp [h1]; omega

/-- with `send_resolved: false` the integration is handed exactly the unresolved alerts, in order -/
theorem sent_spec (sr : Bool) (now : Int) (alerts : List Alert) :
    sent sr now alerts = if sr then alerts else alerts.filter (fun a => !resolved now a) := rfl

/-- **status_firing_iff_any**: the notification is "firing" iff at least one listed alert fires. -/
theorem status_firing_iff_any (now : Int) (recv : String) (alerts : List Alert) :
    ((data now recv alerts).status = "firing" ↔ ∃ it ∈ (data now recv alerts).alerts, it.status = "firing") ∧
    ((data now recv alerts).status = "firing" ∨ (data now recv alerts).status = "resolved") := by
  simp only [data]
  by_cases h : alerts.any (fun a => !resolved now a) = true
  · simp only [h, if_true, true_iff, true_or, and_true]
    obtain ⟨a, ha, hr⟩ := List.any_eq_true.mp h
    refine ⟨⟨statusOf now a, a.labels, a.annotations⟩, List.mem_map.mpr ⟨a, ha, rfl⟩, ?_⟩
    simp at hr
    simp [statusOf, hr]
  · simp only [h]
    refine ⟨⟨fun hx => by simp at hx, ?_⟩, Or.inr (by simp)⟩
    rintro ⟨it, hit, hs⟩
    obtain ⟨a, ha, rfl⟩ := List.mem_map.mp hit
    exfalso; apply h
    apply List.any_eq_true.mpr
    refine ⟨a, ha, ?_⟩
    by_cases hr : resolved now a = true
    · simp [statusOf, hr] at hs
    · simpa using hr

theorem mem_common (first : KV) (others : List KV) (k v : String) :
    (k, v) ∈ common first others ↔ (k, v) ∈ first ∧ ∀ o ∈ others, get o k = v := by
  simp [common, List.mem_filter]

/-- **common_is_intersection**: a pair is a common label (annotation) iff the first alert carries it
    and every other alert of the batch reads the same value under that name (a missing name reads
    as the empty string, as in the Go map lookup). -/
theorem common_is_intersection (now : Int) (recv : String) (a : Alert) (rest : List Alert) (k v : String) :
    ((k, v) ∈ (data now recv (a :: rest)).commonLabels ↔
        (k, v) ∈ a.labels ∧ ∀ b ∈ rest, get b.labels k = v) ∧
    ((k, v) ∈ (data now recv (a :: rest)).commonAnnotations ↔
        (k, v) ∈ a.annotations ∧ ∀ b ∈ rest, get b.annotations k = v) := by
  simp only [data, mem_common]
  constructor <;> simp

theorem common_empty_batch (now : Int) (recv : String) :
    (data now recv []).commonLabels = [] ∧ (data now recv []).commonAnnotations = [] := ⟨rfl, rfl⟩

example : (data 10 "r" [⟨[("a", "1"), ("b", "2")], [], 0⟩, ⟨[("a", "1"), ("b", "3")], [], 5⟩]).commonLabels = [("a", "1")] := by decide
example : (data 10 "r" [⟨[("a", "1")], [], 5⟩]).status = "resolved" := by decide

end AM.TemplateData
