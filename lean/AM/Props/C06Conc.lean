/-
  C06 — concurrent part: the lock-free insert-or-create over the route's
  `sync.Map` never splits equal group-by values over two live groups and never
  loses an alert except through the explicit 100-retry give-up (or the group
  limit).  All statements are for every schedule of any number of ingestion
  threads, maintenance sweeps and flushes (`inv_run`: induction over the schedule).
-/
import AM.Lemmas.GroupMapMain

set_option linter.unusedSimpArgs false

namespace AM.GroupMap
open AM AM.AList

/-- states reachable from the empty dispatcher by some schedule -/
def Reachable (s : State) : Prop :=
  ∃ (limit maxRetries : Nat) (acts : List Act), run { limit, maxRetries } acts = some s

theorem reachable_inv {s : State} (h : Reachable s) : Inv s := by
  obtain ⟨l, m, acts, hr⟩ := h
  exact inv_run acts (inv_init l m) hr

/-- **cas_replaces_only_destroyed**: if a `CompareAndSwap` step removes group `g` from the map,
    `g` was destroyed (so nothing can be inserted into it any more). -/
theorem cas_replaces_only_destroyed {s s' : State} {t : Nat} {T : Thr} (hr : Reachable s)
    (hl : lookup s.thrs t = some T) (hpc : T.pc = .cas) (hs : stepThr s t T = some s')
    (g : Nat) (hg : lookup s.map T.fp = some g) (hchg : lookup s'.map T.fp ≠ some g) :
    ∃ G, lookup s.grps g = some G ∧ G.destroyed = true := by
  have hinv := reachable_inv hr
  have hT := hinv.thr t T hl
  have hld := hT.cas_loaded hpc
  obtain ⟨g', G', he', hG', hd⟩ := hT.el_dead hld (Or.inr (Or.inr (Or.inl hpc)))
  obtain ⟨n, N, ha, hN, _⟩ := hT.ag_ok (Or.inr (Or.inl hpc))
  unfold stepThr at hs
  simp only [hpc, he', ha, hG', hN] at hs
  by_cases hm : lookup s.map T.fp = some g'
  · rw [hg] at hm; cases hm; exact ⟨G', hG', hd⟩
  · simp only [hm, if_false, Option.some.injEq] at hs; subst hs
    exact absurd hg hchg

/-- `CompareAndDelete` in the maintenance sweep only ever fires on a destroyed group. -/
theorem maintenance_deletes_only_destroyed {s : State} (hr : Reachable s) (h : s.mpc = .cad) :
    ∃ G, lookup s.grps s.mg = some G ∧ G.destroyed = true :=
  (reachable_inv hr).mnt_dead (Or.inr h)

/-- **no_orphan_live_group**: a published, non-destroyed group is the one the map holds for its
    fingerprint; hence equal group-by values are never split over two live groups. -/
theorem no_orphan_live_group {s : State} (hr : Reachable s) {g₁ g₂ : Nat} {G₁ G₂ : Grp}
    (h₁ : lookup s.grps g₁ = some G₁) (h₂ : lookup s.grps g₂ = some G₂)
    (p₁ : G₁.published = true) (p₂ : G₂.published = true)
    (d₁ : G₁.destroyed = false) (d₂ : G₂.destroyed = false) (hfp : G₁.fp = G₂.fp) :
    g₁ = g₂ ∧ lookup s.map G₁.fp = some g₁ := by
  have hinv := reachable_inv hr
  have m₁ := hinv.orph g₁ G₁ h₁ p₁ d₁
  have m₂ := hinv.orph g₂ G₂ h₂ p₂ d₂
  rw [hfp] at m₁
  rw [m₁] at m₂
  exact ⟨Option.some.inj m₂, by rw [hfp]; exact m₁⟩

theorem insertInto_some {G G' : Grp} {a : Nat} (h : insertInto G a = some G') :
    G'.destroyed = false ∧ a ∈ G'.alerts ∧ G'.fp = G.fp ∧ G'.published = G.published := by
  unfold insertInto at h
  by_cases hd : G.destroyed = true
  · simp [hd] at h
  · have hd' : G.destroyed = false := by simpa using hd
    simp only [hd', Bool.false_eq_true, if_false, Option.some.injEq] at h
    subst h
    refine ⟨rfl, ?_, rfl, rfl⟩
    by_cases hc : a ∈ G.alerts <;> simp [hc]

/-- **insert_lands**: when `groupAlert` returns and did not give up (100 retries) or hit the group
    limit, the alert sits in the live group the map holds for its group labels. -/
theorem insert_lands {s s' : State} {t : Nat} {T T' : Thr} (hr : Reachable s)
    (hl : lookup s.thrs t = some T) (hs : stepThr s t T = some s')
    (hl' : lookup s'.thrs t = some T') (hdone : T'.pc = .done)
    (hout : T'.out = .inserted ∨ T'.out = .created) :
    ∃ g G, lookup s'.map T.fp = some g ∧ lookup s'.grps g = some G ∧ G.destroyed = false ∧ T.a ∈ G.alerts := by
  have hinv := reachable_inv hr
  have hinv' := inv_stepThr hinv hl hs
  have hT := hinv.thr t T hl
  -- shared argument for the two insertion sites
  have ins : ∀ g G G', lookup s.grps g = some G → G.fp = T.fp → G.published = true → insertInto G T.a = some G' →
      (∃ T2, s' = setThr (setGrp s g G') t T2) →
      ∃ g G, lookup s'.map T.fp = some g ∧ lookup s'.grps g = some G ∧ G.destroyed = false ∧ T.a ∈ G.alerts := by
    intro g G G' hG hfp hp hi ⟨T2, hs'⟩
    obtain ⟨hd', hmem, hfp', hp'⟩ := insertInto_some hi
    have hg' : lookup s'.grps g = some G' := by rw [hs']; simp
    have := hinv'.orph g G' hg' (by rw [hp', hp]) hd'
    rw [hfp', hfp] at this
    exact ⟨g, G', this, hg', hd', hmem⟩
  unfold stepThr at hs
  cases hpc : T.pc with
  | load =>
    simp only [hpc] at hs
    cases hm : lookup s.map T.fp <;> simp only [hm, Option.some.injEq] at hs <;> subst hs <;>
      simp at hl' <;> subst hl' <;> simp at hdone
  | insLoaded =>
    simp only [hpc] at hs
    obtain ⟨g, G, he, hG, hfp, hp⟩ := hT.el_ok (Or.inl hpc)
    simp only [he, hG] at hs
    cases hi : insertInto G T.a with
    | some G' => simp only [hi, Option.some.injEq] at hs; exact ins g G G' hG hfp hp hi ⟨_, hs.symm⟩
    | none => simp only [hi, Option.some.injEq] at hs; subst hs; simp at hl'; subst hl'; simp at hdone
  | create =>
    simp only [hpc] at hs
    by_cases hlim : s.limit > 0 ∧ s.num ≥ (s.limit : Int)
    · simp only [hlim, and_self, if_true, Option.some.injEq] at hs; subst hs
      simp at hl'; subst hl'; simp at hout
    · simp only [hlim, if_false, Option.some.injEq] at hs; subst hs
      simp at hl'; subst hl'; simp at hdone
  | loop =>
    simp only [hpc, Option.some.injEq] at hs; subst hs
    simp at hl'; subst hl'
    by_cases h : T.loaded = true <;> simp [h] at hdone
  | cas =>
    simp only [hpc] at hs
    have hld := hT.cas_loaded hpc
    obtain ⟨g, G, he, hG, hfp, hp⟩ := hT.el_ok (Or.inr (Or.inr (Or.inl hpc)))
    obtain ⟨n, N, ha, hN, hNfp, hNp, hNd, hNa, hNo⟩ := hT.ag_ok (Or.inr (Or.inl hpc))
    simp only [he, ha, hG, hN] at hs
    by_cases hm : lookup s.map T.fp = some g
    · simp only [hm, if_true, Option.some.injEq] at hs; subst hs
      exact ⟨n, { N with published := true }, by simp, by simp, hNd, hNa⟩
    · simp only [hm, if_false, Option.some.injEq] at hs; subst hs
      simp at hl'; subst hl'; simp at hdone
  | los =>
    simp only [hpc] at hs
    obtain ⟨n, N, ha, hN, hNfp, hNp, hNd, hNa, hNo⟩ := hT.ag_ok (Or.inr (Or.inr (Or.inl hpc)))
    simp only [ha, hN] at hs
    cases hm : lookup s.map T.fp with
    | none =>
      simp only [hm, Option.some.injEq] at hs; subst hs
      exact ⟨n, { N with published := true }, by simp, by simp, hNd, hNa⟩
    | some g =>
      simp only [hm, Option.some.injEq] at hs; subst hs
      simp at hl'; subst hl'; simp at hdone
  | insExisting =>
    simp only [hpc] at hs
    obtain ⟨g, G, he, hG, hfp, hp⟩ := hT.el_ok (Or.inr (Or.inl hpc))
    simp only [he, hG] at hs
    cases hi : insertInto G T.a with
    | some G' => simp only [hi, Option.some.injEq] at hs; exact ins g G G' hG hfp hp hi ⟨_, hs.symm⟩
    | none => simp only [hi, Option.some.injEq] at hs; subst hs; simp at hl'; subst hl'; simp at hdone
  | retry =>
    simp only [hpc] at hs
    by_cases hr' : T.retries + 1 > s.maxRetries
    · simp only [hr', if_true, Option.some.injEq] at hs; subst hs
      simp at hl'; subst hl'; simp at hout
    · simp only [hr', if_false, Option.some.injEq] at hs; subst hs
      simp at hl'; subst hl'; simp at hdone
  | done => simp [hpc] at hs

/-- the two loss paths are exactly the give-up after `maxRetries` retries and the group limit -/
theorem loss_only_by_giveup_or_limit {s s' : State} {t : Nat} {T T' : Thr}
    (hs : stepThr s t T = some s') (hl' : lookup s'.thrs t = some T')
    (hpc : T.pc ≠ .done) (hrun : T.out = .running) :
    (T'.out = .gaveUp → T.pc = .retry ∧ T.retries + 1 > s.maxRetries) ∧
    (T'.out = .limited → T.pc = .create ∧ s.limit > 0 ∧ s.num ≥ (s.limit : Int)) ∧
    (T'.pc ≠ .done → T'.out = .running) := by
  unfold stepThr at hs
  cases hp : T.pc <;> simp only [hp] at hs
  all_goals (repeat' split at hs)
  all_goals first
    | (exact absurd hp hpc)
    | (simp at hs; done)
    | (simp only [Option.some.injEq] at hs; subst hs; simp at hl'; subst hl'; simp_all)

/-! ### non-vacuity: a schedule through the `CompareAndSwap` path

  thread 1 creates the group for fingerprint 7 with alert 10; thread 2 loads it; the group's
  flush deletes alert 10 and destroys the group; thread 2's insert is refused, it creates a new
  group and swaps it in.  `Groups()` then shows one group holding alert 11. -/
def exSchedule : List Act :=
  [.begin 1 10 7, .step 1, .step 1, .step 1, .step 1,
   .begin 2 11 7, .step 2, .flush 0 [10], .step 2, .step 2, .step 2, .step 2]

example : (run {} exSchedule).map view = some [(7, [11])] := by decide
example : ∃ s, Reachable s ∧ view s = [(7, [11])] := by
  have h1 : (run {} exSchedule).map view = some [(7, [11])] := by decide
  cases h : run {} exSchedule with
  | none => rw [h] at h1; cases h1
  | some s => exact ⟨s, ⟨0, 100, exSchedule, h⟩, by rw [h] at h1; simpa using h1⟩

end AM.GroupMap
