/-
  C09 — Replicated silences converge; the newest update wins regardless of
  delivery order.  All theorems are unbounded (any state, any history).

  The per-id rule of `state.merge` is last-writer-wins on `UpdatedAt` among the
  versions not yet past retention.  `Silences.Set/Expire` act on the state map
  only through `state.merge` of the version they broadcast
  (`set_state_is_merge`, `expire_state_is_merge`), so local edits are just
  further deliveries.
-/
import AM.Model.Silence
import AM.Lemmas.SilenceStore

namespace AM.Silence
open AM AM.AList

/-! ### pointwise characterisation of `state.merge` -/

/-- What `state.merge` does to the slot of one id. -/
def upd (now : Int) (o : Option Mesh) (e : Mesh) : Option Mesh :=
  if e.exp < now then o
  else match o with
    | none => some e
    | some p => if p.sil.updated < e.sil.updated then some e else some p

theorem lookup_stMerge (now : Int) (st : AList String Mesh) (e : Mesh) (k : String) :
    lookup (stMerge now st e) k = if e.sil.id = k then upd now (lookup st k) e else lookup st k := by
  unfold stMerge mergeKind upd
  by_cases hx : e.exp < now
  · simp [hx]
  · by_cases hk : e.sil.id = k
    · subst hk
      cases hs : lookup st e.sil.id with
      | none => simp [hx]
      | some p => by_cases hp : p.sil.updated < e.sil.updated <;> simp [hx, hp, hs]
    · cases hs : lookup st e.sil.id with
      | none => simp [hx, hk, lookup_put]
      | some p => by_cases hp : p.sil.updated < e.sil.updated <;> simp [hx, hp, hk, lookup_put]

/-- A version past its retention is never accepted: nothing changes, nothing is gossiped. -/
theorem merge_refuses_past_retention (now : Int) (st : AList String Mesh) (e : Mesh) (h : e.exp < now) :
    mergeKind now st e = .refused ∧ stMerge now st e = st := by
  unfold stMerge mergeKind; simp [h]

/-- An older (or equally old) version never replaces a newer one; a stored id stays stored. -/
theorem merge_monotone (now : Int) (st : AList String Mesh) (e : Mesh) (k : String) (p : Mesh)
    (h : lookup st k = some p) :
    ∃ q, lookup (stMerge now st e) k = some q ∧ p.sil.updated ≤ q.sil.updated := by
  rw [lookup_stMerge]
  by_cases hk : e.sil.id = k
  · simp only [hk, if_true, h, upd]
    by_cases hx : e.exp < now
    · exact ⟨p, by simp [hx], Int.le_refl _⟩
    · by_cases hp : p.sil.updated < e.sil.updated
      · exact ⟨e, by simp [hx, hp], by omega⟩
      · exact ⟨p, by simp [hx, hp], Int.le_refl _⟩
  · exact ⟨p, by simp [hk, h], Int.le_refl _⟩

/-- The version stored after a merge is the stored or the offered one, and an accepted
    version is not past retention. -/
theorem merge_result (now : Int) (st : AList String Mesh) (e : Mesh) (k : String) :
    lookup (stMerge now st e) k = lookup st k ∨
      (lookup (stMerge now st e) k = some e ∧ e.sil.id = k ∧ now ≤ e.exp) := by
  rw [lookup_stMerge]
  by_cases hk : e.sil.id = k
  · simp only [hk, if_true, upd]
    by_cases hx : e.exp < now
    · left; simp [hx]
    · cases hs : lookup st k with
      | none => right; simp [hx]; omega
      | some p =>
        by_cases hp : p.sil.updated < e.sil.updated
        · right; simp [hx, hp]; omega
        · left; simp [hx, hp]
  · left; simp [hk]

/-- Re-merging a version that was accepted changes nothing and is not gossiped again,
    at whatever later or earlier instant it arrives. -/
theorem merge_idem_no_gossip (now now' : Int) (st : AList String Mesh) (e : Mesh)
    (h : mergeKind now st e ≠ .refused) :
    mergeKind now' (stMerge now st e) e = .refused ∧ stMerge now' (stMerge now st e) e = stMerge now st e := by
  have hl : lookup (stMerge now st e) e.sil.id = some e := by
    unfold stMerge
    cases hk : mergeKind now st e with
    | refused => exact absurd hk h
    | added => simp
    | updated => simp
  have hr : mergeKind now' (stMerge now st e) e = .refused := by
    unfold mergeKind
    by_cases hx : e.exp < now'
    · simp [hx]
    · simp [hx, hl]
  refine ⟨hr, ?_⟩
  rw [stMerge.eq_1 now' (stMerge now st e) e, hr]

/-- … also when what is stored is already newer (late delivery of an old version). -/
theorem merge_old_no_gossip (now : Int) (st : AList String Mesh) (e p : Mesh)
    (h : lookup st e.sil.id = some p) (hu : e.sil.updated ≤ p.sil.updated) :
    mergeKind now st e = .refused ∧ stMerge now st e = st := by
  have hr : mergeKind now st e = .refused := by
    unfold mergeKind
    by_cases hx : e.exp < now
    · simp [hx]
    · have : ¬ p.sil.updated < e.sil.updated := by omega
      simp [hx, h, this]
  exact ⟨hr, by rw [stMerge, hr]⟩

theorem upd_comm (now : Int) (o : Option Mesh) (a b : Mesh) (hne : a.sil.updated ≠ b.sil.updated) :
    upd now (upd now o a) b = upd now (upd now o b) a := by
  unfold upd
  by_cases ha : a.exp < now <;> by_cases hb : b.exp < now <;> simp [ha, hb]
  cases o with
  | none =>
    simp
    by_cases h1 : a.sil.updated < b.sil.updated
    · have h2 : ¬ b.sil.updated < a.sil.updated := by omega
      simp [h1, h2]
    · have h2 : b.sil.updated < a.sil.updated := by omega
      simp [h1, h2]
  | some p =>
    simp
    by_cases h1 : p.sil.updated < a.sil.updated <;> by_cases h2 : p.sil.updated < b.sil.updated <;> simp [h1, h2]
    · by_cases h3 : a.sil.updated < b.sil.updated
      · have h4 : ¬ b.sil.updated < a.sil.updated := by omega
        simp [h3, h4]
      · have h4 : b.sil.updated < a.sil.updated := by omega
        simp [h3, h4]
    · have : ¬ a.sil.updated < b.sil.updated := by omega
      simp [this]
    · have : ¬ b.sil.updated < a.sil.updated := by omega
      simp [this]

/-- Two merges at the same instant commute unless they tie on (id, update time). -/
theorem merge_comm (now : Int) (st : AList String Mesh) (a b : Mesh) (k : String)
    (hne : a.sil.id = b.sil.id → a.sil.updated ≠ b.sil.updated) :
    lookup (stMerge now (stMerge now st a) b) k = lookup (stMerge now (stMerge now st b) a) k := by
  simp only [lookup_stMerge]
  by_cases hak : a.sil.id = k <;> by_cases hbk : b.sil.id = k <;> simp [hak, hbk]
  exact upd_comm now _ a b (hne (hak.trans hbk.symm))

theorem stMerge_congr (now : Int) (s s' : AList String Mesh) (e : Mesh) (h : Equiv s s') :
    Equiv (stMerge now s e) (stMerge now s' e) := by
  intro k; simp only [lookup_stMerge, h k]

theorem foldl_stMerge_congr (now : Int) (l : List Mesh) (s s' : AList String Mesh) (h : Equiv s s') :
    Equiv (l.foldl (stMerge now) s) (l.foldl (stMerge now) s') := by
  induction l generalizing s s' with
  | nil => exact h
  | cons e l ih => exact ih _ _ (stMerge_congr now s s' e h)

/-- No two offered versions of one id tie on the update time. -/
def NoTie (l : List Mesh) : Prop :=
  l.Pairwise (fun a b => a.sil.id = b.sil.id → a.sil.updated ≠ b.sil.updated)

/-- Delivery order does not matter: any permutation of the same versions, merged at one
    instant, yields the same state. -/
theorem fold_merge_perm (now : Int) (l₁ l₂ : List Mesh) (s : AList String Mesh)
    (hp : l₁.Perm l₂) (hn : NoTie l₁) :
    Equiv (l₁.foldl (stMerge now) s) (l₂.foldl (stMerge now) s) := by
  induction hp generalizing s with
  | nil => exact Equiv.refl _
  | cons x _ ih =>
    simp only [List.foldl_cons]
    exact ih _ (List.Pairwise.of_cons hn)
  | swap x y l =>
    simp only [List.foldl_cons]
    apply foldl_stMerge_congr
    intro k
    have hxy : y.sil.id = x.sil.id → y.sil.updated ≠ x.sil.updated :=
      (List.pairwise_cons.mp hn).1 x (by simp)
    exact merge_comm now s y x k hxy
  | trans h₁ _ ih₁ ih₂ =>
    refine Equiv.trans (ih₁ _ hn) (ih₂ _ ?_)
    exact h₁.pairwise hn (fun h hk hts => h hk.symm hts.symm)

/-! ### newest wins, for deliveries spread over time -/

/-- A delivery schedule: each version arrives at its own instant (any order, any
    multiplicity).  Batches and local Set/Expire reduce to this, see below. -/
def deliver (st : AList String Mesh) (sched : List (Int × Mesh)) : AList String Mesh :=
  sched.foldl (fun st d => stMerge d.1 st d.2) st

/-- `w` is the newest version of its id in the schedule, strictly (distinct update
    times per id), and it is not past retention at any delivery instant. -/
structure Newest (w : Mesh) (sched : List (Int × Mesh)) : Prop where
  mem : ∃ t, (t, w) ∈ sched
  newest : ∀ t e, (t, e) ∈ sched → e.sil.id = w.sil.id → e = w ∨ e.sil.updated < w.sil.updated
  alive : ∀ t e, (t, e) ∈ sched → t ≤ w.exp

theorem deliver_keeps (w : Mesh) (sched : List (Int × Mesh)) (st : AList String Mesh)
    (hn : ∀ t e, (t, e) ∈ sched → e.sil.id = w.sil.id → e = w ∨ e.sil.updated < w.sil.updated)
    (h : lookup st w.sil.id = some w) :
    lookup (deliver st sched) w.sil.id = some w := by
  induction sched generalizing st with
  | nil => exact h
  | cons d rest ih =>
    unfold deliver; simp only [List.foldl_cons]
    apply ih _ (fun t e hm => hn t e (List.mem_cons_of_mem _ hm))
    rw [lookup_stMerge]
    by_cases hk : d.2.sil.id = w.sil.id
    · simp only [hk, if_true, h, upd]
      by_cases hx : d.2.exp < d.1
      · simp [hx]
      · rcases hn d.1 d.2 (by simp) hk with he | hlt
        · simp [hx, he]
        · have : ¬ w.sil.updated < d.2.sil.updated := by omega
          simp [hx, this]
    · simp [hk, h]

/-- **Newest wins regardless of delivery order, duplication and timing**: if `w` is the
    strictly newest version of its id among everything delivered (and whatever the
    instance held for that id before is `w` or older), the instance ends up holding `w`. -/
theorem newest_wins (w : Mesh) (sched : List (Int × Mesh)) (st : AList String Mesh)
    (hw : Newest w sched)
    (h0 : ∀ p, lookup st w.sil.id = some p → p = w ∨ p.sil.updated < w.sil.updated) :
    lookup (deliver st sched) w.sil.id = some w := by
  obtain ⟨⟨t, hm⟩, hn, ha⟩ := hw
  induction sched generalizing st with
  | nil => simp at hm
  | cons d rest ih =>
    have hn' : ∀ t e, (t, e) ∈ rest → e.sil.id = w.sil.id → e = w ∨ e.sil.updated < w.sil.updated :=
      fun t e hm => hn t e (List.mem_cons_of_mem _ hm)
    have ha' : ∀ t e, (t, e) ∈ rest → t ≤ w.exp := fun t e hm => ha t e (List.mem_cons_of_mem _ hm)
    show lookup (deliver (stMerge d.1 st d.2) rest) w.sil.id = some w
    by_cases hd : d.2 = w
    · -- `w` arrives now: accepted (or already held), then kept
      apply deliver_keeps w rest _ hn'
      rw [lookup_stMerge, hd]
      have hx : ¬ w.exp < d.1 := by have := ha d.1 d.2 (by simp); omega
      simp only [if_true, upd, hx, if_false]
      cases hs : lookup st w.sil.id with
      | none => rfl
      | some p =>
        rcases h0 p hs with rfl | hlt
        · simp
        · simp [hlt]
    · -- something else arrives; `w` is still to come
      have hm' : (t, w) ∈ rest := by
        rcases List.mem_cons.mp hm with heq | hr
        · exact absurd (by rw [← heq]) hd
        · exact hr
      refine ih _ ?_ hn' ha' hm'
      intro p hp
      rw [lookup_stMerge] at hp
      by_cases hk : d.2.sil.id = w.sil.id
      · simp only [hk, if_true, upd] at hp
        by_cases hx : d.2.exp < d.1
        · simp [hx] at hp; exact h0 p hp
        · rcases hn d.1 d.2 (by simp) hk with he | hlt
          · exact absurd he hd
          · cases hs : lookup st w.sil.id with
            | none => simp [hx, hs] at hp; right; rw [← hp]; exact hlt
            | some q =>
              by_cases hq : q.sil.updated < d.2.sil.updated
              · simp [hx, hs, hq] at hp; right; rw [← hp]; exact hlt
              · simp [hx, hs, hq] at hp; rw [← hp]; exact h0 q hs
      · simp [hk] at hp; exact h0 p hp

/-- **Convergence**: two instances that were offered the same versions — as sets, so in any
    order, any multiplicity, at any instants — agree on every id whose newest version is
    not past retention: both hold exactly that version. -/
theorem converges (w : Mesh) (s₁ s₂ : List (Int × Mesh)) (st₁ st₂ : AList String Mesh)
    (h₁ : Newest w s₁) (h₂ : Newest w s₂)
    (h01 : ∀ p, lookup st₁ w.sil.id = some p → p = w ∨ p.sil.updated < w.sil.updated)
    (h02 : ∀ p, lookup st₂ w.sil.id = some p → p = w ∨ p.sil.updated < w.sil.updated) :
    lookup (deliver st₁ s₁) w.sil.id = lookup (deliver st₂ s₂) w.sil.id := by
  rw [newest_wins w s₁ st₁ h₁ h01, newest_wins w s₂ st₂ h₂ h02]

/-! ### batches, local edits and the store reduce to `state.merge` -/

theorem lookup_decodeBatch_aux (b : List Mesh) (st : AList String Mesh) (k : String) :
    lookup (b.foldl (fun st e => put st e.sil.id e) st) k =
      match (b.reverse.find? (fun e => e.sil.id = k)) with
      | some e => some e
      | none => lookup st k := by
  induction b generalizing st with
  | nil => simp
  | cons e b ih =>
    simp only [List.foldl_cons, ih, List.reverse_cons, List.find?_append]
    cases h : List.find? (fun e => decide (e.sil.id = k)) b.reverse with
    | some x => simp
    | none =>
      simp [lookup_put]
      by_cases hk : e.sil.id = k <;> simp [hk]

/-- Batching caveat stated outright: within one encoded message a later record for an id
    replaces an earlier one, whatever their update times. -/
theorem decodeBatch_last_wins (b : List Mesh) (k : String) :
    lookup (decodeBatch b) k = b.reverse.find? (fun e => e.sil.id = k) := by
  unfold decodeBatch
  rw [lookup_decodeBatch_aux]
  cases List.find? (fun e => decide (e.sil.id = k)) b.reverse <;> simp

theorem mergeOne_st (fix : Bool) (now : Int) (s : Store) (e : Mesh) :
    (mergeOne fix now s e).1.st = stMerge now s.st e ∧ (mergeOne fix now s e).2 = mergeKind now s.st e := by
  unfold mergeOne stMerge
  cases mergeKind now s.st e with
  | refused => simp
  | added => simp [index]
  | updated =>
    simp only [and_true]
    split <;> (try split) <;> simp [reindex, index]

theorem mergeBatch_aux (fix : Bool) (now : Int) (ov : Bool) (l : List (String × Mesh)) (acc : Store × Nat) :
    (l.foldl (fun (acc : Store × Nat) kv =>
        let r := mergeOne fix now acc.1 kv.2
        (r.1, if r.2 ≠ .refused ∧ !ov then acc.2 + 1 else acc.2)) acc).1.st
      = l.foldl (fun st kv => stMerge now st kv.2) acc.1.st := by
  induction l generalizing acc with
  | nil => rfl
  | cons kv l ih => simp only [List.foldl_cons]; rw [ih]; simp [(mergeOne_st fix now acc.1 kv.2).1]

/-- `Silences.Merge` acts on the state map as `state.merge` of the decoded records, one by one,
    under either indexing discipline. -/
theorem mergeBatch_st (fix : Bool) (now : Int) (ov : Bool) (s : Store) (b : List Mesh) :
    (mergeBatch fix now ov s b).1.st = (decodeBatch b).foldl (fun st kv => stMerge now st kv.2) s.st := by
  unfold mergeBatch; exact mergeBatch_aux fix now ov _ (s, 0)

/-! ### what `Silences.Merge` hands back to the gossip layer -/

/-- `state.merge` accepts a version exactly when the slot of its id changes to that version. -/
theorem accepted_iff_changed (now : Int) (st : AList String Mesh) (e : Mesh) :
    mergeKind now st e ≠ .refused ↔
      (lookup (stMerge now st e) e.sil.id = some e ∧ lookup st e.sil.id ≠ some e) := by
  rw [lookup_stMerge]
  simp only [if_true, upd]
  unfold mergeKind
  by_cases hx : e.exp < now
  · simp [hx]
  · cases hs : lookup st e.sil.id with
    | none => simp [hx]
    | some p =>
      by_cases hp : p.sil.updated < e.sil.updated
      · simp [hx, hp]
        intro h; subst h; omega
      · simp [hx, hp]

/-- records of a decoded message that `state.merge` accepts when they are merged one after the other -/
def acceptedCount (now : Int) (st : AList String Mesh) : List (String × Mesh) → Nat
  | [] => 0
  | kv :: l => (if mergeKind now st kv.2 ≠ .refused then 1 else 0) + acceptedCount now (stMerge now st kv.2) l

theorem mergeBatch_count_aux (fix : Bool) (now : Int) (ov : Bool) (l : List (String × Mesh)) (acc : Store × Nat) :
    (l.foldl (fun (acc : Store × Nat) kv =>
        let r := mergeOne fix now acc.1 kv.2
        (r.1, if r.2 ≠ .refused ∧ !ov then acc.2 + 1 else acc.2)) acc).2
      = acc.2 + (if ov then 0 else acceptedCount now acc.1.st l) := by
  induction l generalizing acc with
  | nil => simp [acceptedCount]
  | cons kv l ih =>
    simp only [List.foldl_cons]
    rw [ih]
    simp only [(mergeOne_st fix now acc.1 kv.2).1, (mergeOne_st fix now acc.1 kv.2).2, acceptedCount]
    cases ov <;> by_cases hk : mergeKind now acc.1.st kv.2 = .refused <;> simp [hk] <;> omega

/-- **Every accepted update is relayed, nothing else is**: the number of re-broadcasts of one received
    message is the number of its records that changed the state (`accepted_iff_changed`) — new ids and
    newer versions of known ids alike — unless the message is oversized (those went to every peer already). -/
theorem merge_relays_accepted (fix : Bool) (now : Int) (ov : Bool) (s : Store) (b : List Mesh) :
    (mergeBatch fix now ov s b).2 = if ov then 0 else acceptedCount now s.st (decodeBatch b) := by
  unfold mergeBatch
  rw [mergeBatch_count_aux]; simp

/-- a small update of a silence the instance already holds is relayed once -/
theorem merge_update_relayed (fix : Bool) (now : Int) (s : Store) (e p : Mesh)
    (h : lookup s.st e.sil.id = some p) (hu : p.sil.updated < e.sil.updated) (hx : ¬ e.exp < now) :
    (mergeBatch fix now false s [e]).2 = 1 := by
  rw [merge_relays_accepted]
  simp [decodeBatch, put, acceptedCount, mergeKind, hx, h, hu]

theorem setSilence_st (now : Int) (s : Store) (m : Mesh) :
    (setSilence now s m).1.st = stMerge now s.st m ∧ (setSilence now s m).2 = mergeKind now s.st m := by
  unfold setSilence stMerge
  cases mergeKind now s.st m <;> simp [index]

theorem foldl_bcastOf (now : Int) (st : AList String Mesh) (m : Mesh) :
    (bcastOf (mergeKind now st m) m).foldl (stMerge now) st = stMerge now st m := by
  unfold bcastOf
  by_cases h : mergeKind now st m = .refused
  · simp [h, stMerge]
  · simp [h]

theorem expireCore_st (ret now : Int) (s : Store) (p : Sil) :
    (expireCore ret now s p).1.st = (expireCore ret now s p).2.foldl (stMerge now) s.st := by
  unfold expireCore
  cases expiredVersion now p with
  | none => rfl
  | some x =>
    simp only
    rw [(setSilence_st now s _).1, (setSilence_st now s _).2, foldl_bcastOf]

/-- `Expire` changes the state map exactly by merging the version it broadcasts. -/
theorem expire_state_is_merge (ret now : Int) (s : Store) (id : String) (r : Store × List Mesh)
    (h : expire ret now s id = .ok r) : r.1.st = r.2.foldl (stMerge now) s.st := by
  unfold expire at h
  cases hl : lookup s.st id with
  | none => simp [hl] at h
  | some p =>
    simp [hl] at h
    rw [← h]; exact expireCore_st ret now s p.sil

theorem setUpdate_state_is_merge (ret now : Int) (s : Store) (b : Sil) (big : Bool) (r : SetOk)
    (h : setUpdate ret now s b big = .ok r) : r.store.st = r.bcasts.foldl (stMerge now) s.st := by
  unfold setUpdate at h
  by_cases hb : big = true
  · simp [hb] at h
  · simp only [hb] at h
    injection h with h; subst h
    simp only
    rw [(setSilence_st now s _).1, (setSilence_st now s _).2, foldl_bcastOf]

theorem setCreate_state_is_merge (ret : Int) (maxSil : Nat) (now : Int) (s : Store) (prev : Option Mesh) (b : Sil)
    (newId : String) (big : Bool) (r : SetOk)
    (h : setCreate ret maxSil now s prev b newId big = .ok r) :
    r.store.st = r.bcasts.foldl (stMerge now) s.st := by
  unfold setCreate at h
  by_cases hl : maxSil > 0 ∧ s.st.length + 1 > maxSil
  · simp [hl] at h
  · by_cases hb : big = true
    · simp [hl, hb] at h
    · simp only [hl, hb, if_false] at h
      injection h with h; subst h
      simp only [List.foldl_append]
      cases prev with
      | none =>
        simp only [expirePrev, List.foldl_nil]
        rw [(setSilence_st now _ _).1, (setSilence_st now _ _).2, foldl_bcastOf]
      | some p =>
        simp only [expirePrev]
        rw [← expireCore_st ret now s p.sil, (setSilence_st now _ _).1, (setSilence_st now _ _).2, foldl_bcastOf]

/-- `Set` changes the state map exactly by merging the versions it broadcasts (the expiry
    of the replaced silence, then the new version): a local edit is one more delivery. -/
theorem set_state_is_merge (env : Env) (ret : Int) (maxSil : Nat) (now : Int) (s : Store) (inp : SilIn)
    (newId : String) (big : Bool) (r : SetOk)
    (h : set env ret maxSil now s inp newId big = .ok r) :
    r.store.st = r.bcasts.foldl (stMerge now) s.st := by
  unfold set at h
  by_cases hv : (!validate env inp.sets (inp.start.getD now) inp.stop) = true
  · simp [hv] at h
  · by_cases hn : inp.id ≠ "" ∧ lookup s.st inp.id = none
    · simp [hv, hn] at h
    · simp only [hv, hn, if_false] at h
      by_cases hu : canUpdatePrev (lookup s.st inp.id) (silOfIn inp now) now = true
      · simp only [hu, if_true] at h
        exact setUpdate_state_is_merge ret now s _ big r h
      · simp only [hu] at h
        exact setCreate_state_is_merge ret maxSil now s _ _ newId big r h

/-! ### the index invariant and `Query` (proved in AM.Lemmas.SilenceStore) -/

/-- Every mutating operation of the store keeps the secondary indexes in step with the
    state map (both disciplines of `Merge`). -/
theorem index_inv_preserved :
    (∀ now s m, IndexInv s → IndexInv (setSilence now s m).1) ∧
    (∀ fix now s e, IndexInv s → IndexInv (mergeOne fix now s e).1) ∧
    (∀ fix now ov s b, IndexInv s → IndexInv (mergeBatch fix now ov s b).1) ∧
    (∀ ret now s id r, IndexInv s → expire ret now s id = .ok r → IndexInv r.1) ∧
    (∀ env ret maxSil now s inp newId big r, IndexInv s →
        set env ret maxSil now s inp newId big = .ok r → IndexInv r.store) ∧
    (∀ now s, IndexInv s → IndexInv (gc now s).1) ∧
    (∀ s, IndexInv (reload s)) ∧
    IndexInv {} :=
  ⟨indexInv_setSilence, indexInv_mergeOne, indexInv_mergeBatch, indexInv_expire, indexInv_set,
   indexInv_gc, indexInv_reload, indexInv_empty⟩

/-- Under the index invariant `Query` with any `QIDs/QSince/QState/QMatches` combination
    returns exactly the stored silences that a brute-force filter selects. -/
theorem query_eq_filter (env : Env) (s : Store) (now : Int) (q : Query) (hi : IndexInv s) (x : Sil) :
    x ∈ query env s now q ↔
      (∃ m, lookup s.st x.id = some m ∧ m.sil = x) ∧ inScan s q.scan x.id ∧ passes env s now q x = true :=
  mem_query env s now q hi x

/-! ### non-vacuity -/

private def v1 : Mesh := { sil := { id := "s", sets := [[⟨.eq, "a", "1"⟩]], start := 0, stop := 10, updated := 1, comment := "" }, exp := 20 }
private def v2 : Mesh := { sil := { id := "s", sets := [[⟨.eq, "a", "1"⟩]], start := 0, stop := 5, updated := 3, comment := "" }, exp := 15 }

example : NoTie [v1, v2] := by simp [NoTie, v1, v2]
example : Newest v2 [(4, v2), (2, v1), (6, v2)] := by
  refine ⟨⟨4, by simp⟩, ?_, ?_⟩
  · intro t e hm _
    simp at hm
    rcases hm with ⟨_, rfl⟩ | ⟨_, rfl⟩ | ⟨_, rfl⟩ <;> simp [v1, v2]
  · intro t e hm
    simp at hm
    rcases hm with ⟨rfl, _⟩ | ⟨rfl, _⟩ | ⟨rfl, _⟩ <;> simp [v2]

end AM.Silence
