/-
  C05 — Resolution is reported promptly and only when true; flapping alerts are
  not lost.  Theorems over `AM.Group` (store, flush partition,
  DeleteIfNotModified) and `AM.Dedup` (pipeline tail).
-/
import AM.Model.Group
import AM.Props.C04

namespace AM.Group
open AM AM.AList

/-! ### never reported resolved early -/

/-- An alert is flagged resolved by a flush only if its end has passed on the
    wall clock of that flush; everything else is handed over as firing (with its
    end time erased, so no later stage can read it as resolved). -/
theorem never_resolved_early (g : Group) (wall : Int) (a : GAlert) (r : Bool)
    (h : (a, r) ∈ partition g wall) : (r = true ↔ a.ends ≤ wall) := by
  unfold partition at h
  simp only [List.mem_map] at h
  obtain ⟨kv, _, hkv⟩ := h
  have h1 : a = kv.2 := by simpa using (congrArg Prod.fst hkv).symm
  have h2 : r = kv.2.resolvedAt wall := by simpa using (congrArg Prod.snd hkv).symm
  subst h1
  rw [h2]; unfold GAlert.resolvedAt; simp

theorem mem_of_lookup {α : Type} (m : AList Nat α) (k : Nat) (v : α) (h : lookup m k = some v) :
    (k, v) ∈ m := by
  induction m with
  | nil => simp at h
  | cons hd tl ih =>
    obtain ⟨k', v'⟩ := hd
    simp only [lookup_cons] at h
    by_cases hk : k' = k
    · subst hk; simp at h; subst h; simp
    · simp [hk] at h; exact List.mem_cons_of_mem _ (ih h)

/-- Every stored alert is handed to the pipeline at every flush (never a delta). -/
theorem partition_lists_all (g : Group) (wall : Int) (id : Nat) (a : GAlert)
    (h : lookup g.alerts id = some a) : (a, a.resolvedAt wall) ∈ partition g wall := by
  unfold partition
  simp only [List.mem_map]
  exact ⟨(id, a), mem_of_lookup _ _ _ h, rfl⟩

/-! ### DeleteIfNotModified -/

def delStep (m : AList Nat GAlert) (a : GAlert) : AList Nat GAlert :=
  match lookup m a.id with
  | some cur => if cur.upd = a.upd then erase m a.id else m
  | none => m

theorem lookup_delStep (m : AList Nat GAlert) (a : GAlert) (id : Nat) :
    lookup (delStep m a) id =
      match lookup m id with
      | none => none
      | some cur => if a.id = id ∧ a.upd = cur.upd then none else some cur := by
  unfold delStep
  cases hq : lookup m a.id with
  | none =>
    simp only
    cases hl : lookup m id with
    | none => rfl
    | some cur =>
      simp only
      by_cases hid : a.id = id
      · subst hid; rw [hq] at hl; simp at hl
      · simp [hid]
  | some c =>
    simp only
    by_cases hu : c.upd = a.upd
    · simp only [hu, if_true, lookup_erase]
      by_cases hid : a.id = id
      · subst hid; simp [hq, hu]
      · simp only [hid, if_false]
        cases lookup m id <;> simp [hid]
    · simp only [hu, if_false]
      cases hl : lookup m id with
      | none => rfl
      | some cur =>
        simp only
        by_cases hid : a.id = id
        · subst hid; rw [hq] at hl
          have : c = cur := by simpa using hl
          subst this
          have : ¬ a.upd = c.upd := fun h => hu h.symm
          simp [this]
        · simp [hid]

theorem lookup_foldl_delStep (snap : List GAlert) (m : AList Nat GAlert) (id : Nat) :
    lookup (snap.foldl delStep m) id =
      match lookup m id with
      | none => none
      | some cur => if snap.any (fun a => a.id = id ∧ a.upd = cur.upd) then none else some cur := by
  induction snap generalizing m with
  | nil => cases h : lookup m id <;> simp [h]
  | cons a rest ih =>
    simp only [List.foldl_cons, ih, lookup_delStep]
    cases hl : lookup m id with
    | none => rfl
    | some cur =>
      simp only [List.any_cons]
      by_cases hc : a.id = id ∧ a.upd = cur.upd
      · simp [hc]
      · simp only [hc, if_false]
        have : decide (a.id = id ∧ a.upd = cur.upd) = false := by simp [hc]
        simp [this]

theorem deleteIfNotModified_alerts (g : Group) (snap : List GAlert) :
    (deleteIfNotModified g snap).alerts = snap.foldl delStep g.alerts := by
  unfold deleteIfNotModified delStep; rfl

/-- **Flapping alerts are not lost.**  An alert that fired again (a different
    UpdatedAt) while the notification listing it as resolved was being delivered
    stays in its group, and the group is not destroyed. -/
theorem refire_survives_flush (g : Group) (snap : List GAlert) (id : Nat) (cur : GAlert)
    (hnd : g.destroyed = false)
    (hcur : lookup g.alerts id = some cur)
    (hmod : ∀ a ∈ snap, a.id = id → a.upd ≠ cur.upd) :
    lookup (deleteIfNotModified g snap).alerts id = some cur ∧
    (deleteIfNotModified g snap).destroyed = false := by
  have hl : lookup (deleteIfNotModified g snap).alerts id = some cur := by
    rw [deleteIfNotModified_alerts, lookup_foldl_delStep, hcur]
    simp only
    have : snap.any (fun a => decide (a.id = id ∧ a.upd = cur.upd)) = false := by
      rw [List.any_eq_false]
      intro a ha
      simp only [decide_eq_true_eq, not_and]
      exact fun hid => hmod a ha hid
    rw [this]; simp
  refine ⟨hl, ?_⟩
  have hne : (deleteIfNotModified g snap).alerts ≠ [] := by
    intro h; rw [h] at hl; simp at hl
  have : (deleteIfNotModified g snap).destroyed = (g.destroyed || (deleteIfNotModified g snap).alerts.isEmpty) := by
    unfold deleteIfNotModified; rfl
  rw [this, hnd]
  simp [hne]

/-- Only alerts of the flushed snapshot, unmodified since, are ever deleted. -/
theorem delete_only_resolved_unmodified (g : Group) (snap : List GAlert) (id : Nat) (cur : GAlert)
    (hcur : lookup g.alerts id = some cur)
    (hgone : lookup (deleteIfNotModified g snap).alerts id = none) :
    ∃ a ∈ snap, a.id = id ∧ a.upd = cur.upd := by
  rw [deleteIfNotModified_alerts, lookup_foldl_delStep, hcur] at hgone
  simp only at hgone
  by_cases h : snap.any (fun a => decide (a.id = id ∧ a.upd = cur.upd)) = true
  · rw [List.any_eq_true] at h
    obtain ⟨a, ha, hp⟩ := h
    exact ⟨a, ha, by simpa using hp⟩
  · rw [if_neg h] at hgone; simp at hgone

/-- The snapshot handed to DeleteIfNotModified holds only alerts whose end had
    passed when the flush started. -/
theorem resolvedSlice_resolved (g : Group) (wall : Int) (a : GAlert) (h : a ∈ resolvedSlice g wall) :
    a.ends ≤ wall := by
  unfold resolvedSlice at h
  simp only [List.mem_map, List.mem_filter] at h
  obtain ⟨kv, ⟨_, hr⟩, rfl⟩ := h
  simpa [GAlert.resolvedAt] using hr

/-- A group is destroyed only when it holds no alert. -/
theorem destroy_only_if_empty (g : Group) (snap : List GAlert) (hnd : g.destroyed = false)
    (h : (deleteIfNotModified g snap).destroyed = true) : (deleteIfNotModified g snap).alerts = [] := by
  have : (deleteIfNotModified g snap).destroyed = (g.destroyed || (deleteIfNotModified g snap).alerts.isEmpty) := by
    unfold deleteIfNotModified; rfl
  rw [this, hnd] at h
  simpa using h

/-- A destroyed group refuses inserts (the dispatcher then creates a fresh group
    with a fresh group_wait); a live one always accepts. -/
theorem insert_refused_iff_destroyed (g : Group) (a : GAlert) :
    insert g a = none ↔ g.destroyed = true := by
  unfold insert; split <;> simp_all

theorem insert_lands (g : Group) (a : GAlert) (g' : Group) (h : insert g a = some g') :
    lookup g'.alerts a.id = some a ∧ g'.destroyed = false := by
  unfold insert at h
  split at h
  · simp at h
  · rename_i hd
    simp at h; subst h
    simp [lookup_put]
    simpa using hd

end AM.Group

namespace AM.Dedup
open AM AM.AList AM.Nflog

/-- With send_resolved disabled no notification ever lists a resolved alert. -/
theorem send_resolved_false_never_lists_resolved (c : Cfg) (s : State) (f : Flush) (n : Notification)
    (h : (flushStep c s f).sent = some n) (hsr : c.sendResolved = false) : n.resolved = [] := by
  unfold flushStep at h
  cases hp : path c s f <;> simp [hp] at h
  subst h; simp [hsr]

/-- A group whose alerts all resolved before anything was recorded for it sends
    nothing and records nothing. -/
theorem all_resolved_before_first_flush_sends_nothing (c : Cfg) (s : State) (f : Flush)
    (hq : query s c.key = none) (hf : f.firing = []) :
    (flushStep c s f).sent = none ∧ (flushStep c s f).logged = false ∧ (flushStep c s f).st = s := by
  have hp : path c s f = .empty ∨ path c s f = .quiet := by
    unfold path reasonOf
    by_cases h0 : f.firing = [] ∧ f.resolved = []
    · left; simp [h0]
    · right
      have hr : ¬ f.resolved = [] := fun h => h0 ⟨hf, h⟩
      simp [hq, hf, hr, needsUpdate, Reason.shouldNotify]
  unfold flushStep
  rcases hp with hp | hp <;> simp [hp]

/-- **Resolution is reported at the next flush.**  With send_resolved, if the
    last recorded delivery told the receiver `x` is firing (and did not yet list
    it as resolved) and `x` is now resolved and not suppressed, this flush sends a
    notification that lists `x` as resolved — provided the integration accepts. -/
theorem resolved_listed_next_flush (c : Cfg) (s : State) (f : Flush) (e : Entry) (x : Nat)
    (hq : query s c.key = some e) (hsr : c.sendResolved = true)
    (hwas : x ∈ e.firing) (hnot : x ∉ e.resolved)
    (hnow : x ∈ f.resolved) (hacc : f.accept = true) :
    ∃ n, (flushStep c s f).sent = some n ∧ x ∈ n.resolved := by
  have hsome : (flushStep c s f).sent.isSome = true := by
    rw [flush_sent_iff, hq]
    refine ⟨Or.inr (by intro h; rw [h] at hnow; simp at hnow), ?_, by simp [hsr], hacc⟩
    unfold Cause
    by_cases h1 : ∃ y ∈ f.firing, y ∉ e.firing
    · exact Or.inl h1
    · by_cases h2 : f.firing = []
      · refine Or.inr (Or.inl ⟨h2, ?_⟩)
        intro h; rw [h] at hwas; simp at hwas
      · exact Or.inr (Or.inr (Or.inl ⟨hsr, h2, x, hnow, hnot⟩))
  cases hs : (flushStep c s f).sent with
  | none => simp [hs] at hsome
  | some n =>
    refine ⟨n, rfl, ?_⟩
    unfold flushStep at hs
    cases hp : path c s f <;> simp [hp] at hs
    subst hs; simp [hsr, hnow]

/-- The corner the property's hypothesis excludes: once the entry that told the
    receiver "firing" has expired and been collected, a group with nothing
    firing stays silent — the resolution is not reported. -/
theorem resolved_lost_when_entry_expired :
    ∃ (c : Cfg) (evs : List Ev), c.sendResolved = true ∧
      (run c evs []).2 = [{ tick := 1, wall := 1, firing := [7], resolved := [] }] :=
  ⟨{ key := "k", repeatI := 2, retention := 3, sendResolved := true },
   [.flush { tick := 1, wall := 1, firing := [7], resolved := [], accept := true },
    .gc 10,
    .flush { tick := 11, wall := 11, firing := [], resolved := [7], accept := true }],
   rfl, by decide⟩

example : ∃ n, (flushStep { key := "k", repeatI := 100, retention := 1000, sendResolved := true }
      [("k", { key := "k", ts := 1, exp := 201, firing := [7], resolved := [], data := "-" })]
      { tick := 5, wall := 5, firing := [], resolved := [7], accept := true }).sent = some n ∧ 7 ∈ n.resolved :=
  resolved_listed_next_flush _ _ _ { key := "k", ts := 1, exp := 201, firing := [7], resolved := [], data := "-" } 7
    (by decide) rfl (by decide) (by decide) (by decide) rfl

end AM.Dedup
